package dns

import (
	"fmt"
	"testing"
)

func TestZZChain(t *testing.T) {
	for _, n := range []int{2, 10, 11, 12, 13, 30, 60} {
		var m Message
		var prev Name
		for i := 0; i < n; i++ {
			nm := append(Name{[]byte(fmt.Sprintf("x%d", i))}, prev...)
			prev = nm
			m.Answer = append(m.Answer, RR{Name: nm, Type: 16, Class: 1, Data: []byte{0}})
		}
		buf, err := m.WireFormat()
		if err != nil {
			t.Fatalf("n=%d encode: %v", n, err)
		}
		m2, err := MessageFromWireFormat(buf)
		if err != nil {
			t.Fatalf("n=%d decode: %v", n, err)
		}
		for i := range m.Answer {
			if m.Answer[i].Name.String() != m2.Answer[i].Name.String() {
				t.Fatalf("n=%d name %d: %s != %s", n, i, m.Answer[i].Name, m2.Answer[i].Name)
			}
		}
	}
}
