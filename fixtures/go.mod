module github.com/refraction-networking/conjure/veriffixtures

go 1.21
