// Package fx holds tiny positive and negative examples for the analysis engines of cjverif.
// Every check run analyses this package first and requires that exactly the examples named bad*
// are flagged by the engine in their name; a run whose engines fail this self-check gives no verdict.
package fx

import (
	"crypto/cipher"
	"errors"
	"fmt"
	"io"
	"net"
	"sync"
	"sync/atomic"
	"syscall"
)

// ---------------------------------------------------------------- guards (E1)

func mark() {}

func okGuard(x int) {
	if x < 10 {
		mark()
	}
}

func okGuardEarlyReturn(x int) {
	if !(x < 10) {
		return
	}
	mark()
}

// the same guard written as a tagless switch: go/ssa materialises `x < 10 && y` as a phi
func okGuardSwitchAnd(x int, y bool) {
	switch {
	case x < 10 && y:
		mark()
	}
}

func badGuardSwitchOr(x int, y bool) {
	switch {
	case x < 10 || y:
		mark()
	}
}

func okGuardSwitchNotOr(x int, y bool) {
	switch {
	case x >= 10 || y:
	default:
		mark()
	}
}

// the guard extracted into a predicate helper (with a differently named parameter)
func isSmall(v int) bool { return v < 10 }

func notBig(v int) bool {
	if v >= 10 {
		return false
	}
	return true
}

func maybeSmall(v int, y bool) bool {
	if y {
		return true
	}
	return v < 10
}

func okGuardPredicate(x int) {
	if isSmall(x) {
		mark()
	}
}

func okGuardPredicateBranchy(x int) {
	if !notBig(x) {
		return
	}
	mark()
}

func badGuardPredicateWeak(x int, y bool) {
	if maybeSmall(x, y) {
		mark()
	}
}

func badGuardPredicateOtherArg(x int, z int) {
	if isSmall(z) {
		mark()
	}
}

func badGuardOr(x int, y bool) {
	if x < 10 || y {
		mark()
	}
}

func badGuardNone(x int) {
	if x < 10 {
		fmt.Println("small")
	}
	mark()
}

// ---------------------------------------------------------------- lock leaks (E3)

type box struct {
	m sync.Mutex
	n int
}

func okLockDefer(b *box) int {
	b.m.Lock()
	defer b.m.Unlock()
	if b.n > 3 {
		return 1
	}
	return b.n
}

func okLockAllPaths(b *box) int {
	b.m.Lock()
	if b.n > 3 {
		b.m.Unlock()
		return 1
	}
	b.m.Unlock()
	return 0
}

func badLockEarlyReturn(b *box) int {
	b.m.Lock()
	if b.n > 3 {
		return 1
	}
	b.m.Unlock()
	return 0
}

// ---------------------------------------------------------------- pool aliasing (C15.5; expected count on the repository is zero)

var pool = sync.Pool{New: func() any { return make([]byte, 64) }}

func okPoolCopy() []byte {
	buf := pool.Get().([]byte)
	out := make([]byte, 8)
	copy(out, buf[:8])
	pool.Put(buf)
	return out
}

func badPoolAlias() []byte {
	buf := pool.Get().([]byte)
	defer pool.Put(buf)
	return buf[:8]
}

// ---------------------------------------------------------------- bounds (C11.5)

func okBoundsGuarded(p []byte) byte {
	if len(p) < 4 {
		return 0
	}
	return p[3]
}

func okBoundsStatic() []byte {
	b := make([]byte, 16)
	return b[:8]
}

func badBoundsUnguarded(s string) string {
	return s[:16]
}

func badBoundsWrongLen(p []byte) []byte {
	if len(p) < 2 {
		return nil
	}
	return p[:4]
}

type hdr struct{ Length int64 }

func badAllocExternal(h *hdr) []byte {
	return make([]byte, h.Length)
}

func okAllocBounded(h *hdr) []byte {
	n := h.Length
	if n < 1024 {
		return make([]byte, n)
	}
	return nil
}

// ---------------------------------------------------------------- taint (E4)

func source(c net.Conn) net.Addr { return c.RemoteAddr() }

func sink(v ...any) {}

var errSentinel = errors.New("sentinel")

func sanitise(err error) error {
	if err == nil {
		return nil
	}
	if errors.Is(err, io.EOF) {
		return errSentinel
	}
	return errSentinel
}

func passthrough(err error) error {
	if errors.Is(err, io.EOF) {
		return errSentinel
	}
	return err
}

type rec struct{ Text string }

func okTaintSanitised(c net.Conn) {
	_, err := c.Read(make([]byte, 1))
	sink("read failed:", sanitise(err))
}

func okTaintNumeric(c net.Conn) {
	n, _ := c.Read(make([]byte, 1))
	sink("read", n)
}

func badTaintDirect(c net.Conn) {
	sink("from", source(c).String())
}

func badTaintPassthrough(c net.Conn) {
	_, err := c.Read(make([]byte, 1))
	sink("read failed:", passthrough(err))
}

func badTaintField(c net.Conn) {
	r := &rec{}
	r.Text = fmt.Sprintf("peer %v", c.RemoteAddr())
	emit(r)
}

func emit(r *rec) { sink(r.Text) }

func badTaintClosure(c net.Conn) {
	report := func(e error) { sink(e) }
	_, err := c.Write(nil)
	report(err)
}

func badTaintOutParam(c net.Conn) {
	_, err := c.Read(make([]byte, 1))
	var op *net.OpError
	if errors.As(err, &op) {
		sink("cause:", op.Err)
	}
}

func okTaintErrno(c net.Conn) {
	_, err := c.Read(make([]byte, 1))
	var errno syscall.Errno
	if errors.As(err, &errno) {
		sink("errno:", errno)
	}
}

// ---------------------------------------------------------------- draw order (C01.4)

func okDraw(r io.Reader) ([]byte, []byte) {
	a := make([]byte, 16)
	b := make([]byte, 4)
	r.Read(a)
	r.Read(b)
	return a, b
}

func badDrawSwapped(r io.Reader) ([]byte, []byte) {
	a := make([]byte, 16)
	b := make([]byte, 4)
	r.Read(b)
	r.Read(a)
	return a, b
}

// ---------------------------------------------------------------- read-then-error (E11)

func okReadDeliverFirst(src io.Reader, dst io.Writer) error {
	buf := make([]byte, 64)
	for {
		n, err := src.Read(buf)
		if n > 0 {
			if _, werr := dst.Write(buf[:n]); werr != nil {
				return werr
			}
		}
		if err != nil {
			return err
		}
	}
}

func badReadErrorFirst(src io.Reader, dst io.Writer) error {
	buf := make([]byte, 64)
	for {
		n, err := src.Read(buf)
		if err != nil {
			return err
		}
		if _, werr := dst.Write(buf[:n]); werr != nil {
			return werr
		}
	}
}

// ---------------------------------------------------------------- narrowing (E10)

func okNarrowGuarded(n int) uint16 {
	if n > 65535 || n < 0 {
		return 0
	}
	return uint16(n)
}

func okNarrowMasked(n uint32) uint8 {
	return uint8(n & 0xff)
}

func badNarrowUnchecked(n int) uint16 {
	return uint16(n)
}

// ---------------------------------------------------------------- error classes (C03.6)

var (
	errMore   = errors.New("need more")
	errNotMe  = errors.New("not mine")
	errNotMe2 = fmt.Errorf("%w: really", errNotMe)
)

func classify(b []byte) error {
	if len(b) < 4 {
		return errMore
	}
	return fmt.Errorf("%w: no match", errNotMe)
}

func okErrClassSentinels(b []byte) error {
	if len(b) == 0 {
		return errNotMe2
	}
	return classify(b)
}

func badErrClassLeaksLibraryError(b []byte) error {
	if err := classify(b); err != nil {
		return err
	}
	_, err := io.ReadFull(nil, b)
	return err
}

// ---------------------------------------------------------------- adversarial reachability ("whenever")

func okWheneverPresent(resp *hdr, v6 bool) {
	if resp != nil {
		mark()
	}
}

func badWheneverExtraDisjunction(resp *hdr, a, b bool) {
	if resp != nil && (a || b) {
		mark()
	}
}

// ---------------------------------------------------------------- variable slice bounds (linear prover)

func okVarBound(p []byte) []byte {
	if len(p) < 1 {
		return nil
	}
	n := int(p[0])
	if 1+n > len(p) {
		return nil
	}
	return p[1 : 1+n]
}

func badBoundsVarOffByPrefix(p []byte) []byte {
	if len(p) < 1 {
		return nil
	}
	n := int(p[0])
	if n > len(p) {
		return nil
	}
	return p[1 : 1+n]
}

// ---------------------------------------------------------------- re-entrancy, guarded-by, calls under the write lock

type table struct {
	mu   sync.RWMutex
	rows map[string]int
}

func (t *table) size() int {
	t.mu.RLock()
	defer t.mu.RUnlock()
	return len(t.rows)
}

func okReentrantSequential(t *table) int {
	t.mu.Lock()
	t.rows["a"] = 1
	t.mu.Unlock()
	return t.size()
}

func badReentrantThroughCallee(t *table) int {
	t.mu.Lock()
	defer t.mu.Unlock()
	t.rows["a"] = 1
	return t.size()
}

func okHeldWrite(t *table) {
	t.mu.Lock()
	defer t.mu.Unlock()
	t.rows["a"] = 1
}

func badHeldWriteUnderReadLock(t *table) {
	t.mu.RLock()
	defer t.mu.RUnlock()
	t.rows["a"] = 1
}

func badHeldReadAfterUnlock(t *table) int {
	t.mu.RLock()
	t.mu.RUnlock()
	return t.rows["a"]
}

func okUnderLockPlain(t *table) {
	t.mu.Lock()
	t.rows["a"] = 1
	t.mu.Unlock()
	mark()
}

func badUnderLockCallsOut(t *table) {
	t.mu.Lock()
	t.rows["a"] = 1
	mark()
	t.mu.Unlock()
}

func badUnderLockSends(t *table, done chan struct{}) {
	t.mu.Lock()
	defer t.mu.Unlock()
	t.rows["a"] = 1
	done <- struct{}{}
}

func okUnderLockSendsAfter(t *table, done chan struct{}) {
	t.mu.Lock()
	t.rows["a"] = 1
	t.mu.Unlock()
	done <- struct{}{}
}

// ---------------------------------------------------------------- input mutation

func okMutInputCopies(in []int) []int {
	out := make([]int, len(in))
	copy(out, in)
	out[0] = 1
	return out
}

func badMutInputInPlace(in []int) []int {
	out := in[:0]
	for _, v := range in {
		if v > 0 {
			out = append(out, v)
		}
	}
	return out
}

func okMutInputOpenFresh(a cipher.AEAD, nonce, ct []byte) ([]byte, error) {
	return a.Open(nil, nonce, ct[4:], nil)
}

func badMutInputOpenInPlace(a cipher.AEAD, nonce, ct []byte) ([]byte, error) {
	sealed := ct[4:]
	return a.Open(sealed[:0], nonce, sealed, nil)
}

func badMutInputXorInPlace(st cipher.Stream, ct []byte) []byte {
	st.XORKeyStream(ct, ct)
	return ct
}

func badMutInputField(h *hdr) int64 {
	h.Length++
	return h.Length
}

// ---------------------------------------------------------------- the caller checks, the helper slices

func head4(p []byte) []byte { return p[:4] }

func okBoundsCallerChecks(p []byte) []byte {
	if len(p) < 4 {
		return nil
	}
	return head4(p)
}

func okVarBoundTransitive(name [][]byte) int {
	n := 0
	for i := range name {
		for j := 0; j < i; j++ {
			n += len(name[j:])
		}
	}
	return n
}

func badVarBoundNotTransitive(name [][]byte, k int) int {
	n := 0
	for i := range name {
		for j := 0; j < k; j++ {
			n += len(name[j:])
		}
		_ = i
	}
	return n
}

func badBoundsToArray(p []byte) [16]byte { return [16]byte(p) }

func okBoundsToArrayChecked(p []byte) [16]byte {
	if len(p) < 16 {
		return [16]byte{}
	}
	return [16]byte(p)
}

func badBoundsHead8NotAllCallersCheck(p []byte) []byte { return p[:8] }

func okBoundsCallerChecks8(p []byte) []byte {
	if len(p) >= 8 {
		return badBoundsHead8NotAllCallersCheck(p)
	}
	return nil
}

func uncheckedCaller(p []byte) []byte {
	return badBoundsHead8NotAllCallersCheck(p)
}

// ---------------------------------------------------------------- parking operations

func okParkNonBlockingSelect(ch chan int) bool {
	select {
	case ch <- 1:
		return true
	default:
		return false
	}
}

func badParkSend(ch chan int) { ch <- 1 }

func badParkReceive(ch chan int) int { return <-ch }

func badParkSelect(a, b chan int) int {
	select {
	case v := <-a:
		return v
	case v := <-b:
		return v
	}
}

func badParkWaitGroup(wg *sync.WaitGroup) { wg.Wait() }

type memoBox struct {
	last atomic.Pointer[hdr]
	n    atomic.Int64
}

func badMutInputAtomicMemo(b *memoBox, h *hdr) *hdr {
	if p := b.last.Load(); p != nil {
		return p
	}
	b.last.Store(h)
	return h
}

type memoSel struct{ bad sync.Map }

func badMutInputSyncMapMemo(m *memoSel, gen uint) error {
	if e, ok := m.bad.Load(gen); ok {
		return e.(error)
	}
	m.bad.Store(gen, errors.New("x"))
	return nil
}

func okMutInputSyncMapLoadOnly(m *memoSel, gen uint) bool {
	_, ok := m.bad.Load(gen)
	return ok
}

func okMutInputAtomicLoadOnly(b *memoBox) int64 { return b.n.Load() }

// structs of library types are tracked per allocation site: one client address in one net.UDPAddr does not make
// every net.UDPAddr of the program suspect
func okTaintOtherAddr(c net.Conn) {
	tainted := &net.UDPAddr{IP: net.ParseIP(c.RemoteAddr().String())}
	_ = tainted
	clean := &net.UDPAddr{IP: net.IPv4zero, Port: 1}
	sink(clean)
}

func badTaintBuiltAddr(c net.Conn) {
	a := &net.UDPAddr{IP: net.ParseIP(c.RemoteAddr().String())}
	sink(a)
}

// ---------------------------------------------------------------- receive buffer handed to a per-message goroutine

func okLoopBufPerMessage(r io.Reader, handle func([]byte)) error {
	for {
		var buf [512]byte
		n, err := r.Read(buf[:])
		if err != nil {
			return err
		}
		go func() { handle(buf[:n]) }()
	}
}

func okLoopBufCopied(r io.Reader, handle func([]byte)) error {
	buf := make([]byte, 512)
	for {
		n, err := r.Read(buf)
		if err != nil {
			return err
		}
		msg := make([]byte, n)
		copy(msg, buf[:n])
		go handle(msg)
	}
}

func badLoopBufShared(r io.Reader, handle func([]byte)) error {
	buf := make([]byte, 512)
	for {
		n, err := r.Read(buf)
		if err != nil {
			return err
		}
		msg := buf[:n]
		go func() { handle(msg) }()
	}
}

// ---- loop bounds (C11.10)

func okLoopCounted(xs []int) int {
	t := 0
	for i := 0; i < len(xs); i++ {
		t += xs[i]
	}
	return t
}

func okLoopRange(xs []int) int {
	t := 0
	for _, x := range xs {
		t += x
	}
	return t
}

func okLoopConsume(p []byte) int {
	n := 0
	for len(p) > 255 {
		p = p[255:]
		n++
	}
	return n
}

func okLoopReader(r interface{ Read([]byte) (int, error) }) int {
	buf := make([]byte, 8)
	t := 0
	for {
		n, err := r.Read(buf)
		t += n
		if err != nil {
			return t
		}
	}
}

func badLoopRedraw(draw func() (uint32, error), current uint32) (uint32, error) {
	for {
		v, err := draw()
		if err != nil {
			return 0, err
		}
		if v != current {
			return v, nil
		}
	}
}

func badLoopDataDependent(next map[int]int, at int) int {
	for at != 0 {
		at = next[at]
	}
	return at
}

// ---- accept to handler (C03.13)

func okAcceptCarrierInspects(c *net.TCPConn) (string, error) {
	f, err := c.File()
	if err != nil {
		return "", err
	}
	defer f.Close()
	return c.RemoteAddr().String(), nil
}

func badAcceptCarrierCloses(c *net.TCPConn) error {
	if c.RemoteAddr() == nil {
		return c.Close()
	}
	return nil
}

// ---- private memory (C05.11) and unconditional effects (C19.2 / C06.9 / C08.3)

type rdr interface{ Read([]byte) (int, error) }

func okPrivBufOwn(r rdr) int {
	buf := make([]byte, 64)
	n, _ := r.Read(buf[:32])
	return n
}

func badPrivBufShared(r rdr, shared []byte) int {
	buf := shared[:cap(shared)]
	n, _ := r.Read(buf)
	return n
}

var pooled = make([]byte, 128)

func badPrivBufGlobal(r rdr) int {
	n, _ := r.Read(pooled[:64])
	return n
}

func okUncondAlways(a, b bool) {
	if a {
		_ = b
	}
	sink("x")
}

func badUncondGated(a bool) {
	if a {
		sink("x")
	}
}
