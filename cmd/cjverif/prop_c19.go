package main

import (
	"fmt"
	"go/token"
	"go/types"
	"sort"
	"strings"

	"golang.org/x/tools/go/ssa"
)

func init() {
	register("C19", &propCheck{Run: checkC19,
		Explain: "C19.1 parse errors propagate: in ParseBlocklists every error of net.ParseCIDR / regexp.Compile / interface enumeration leads, on its non-nil edge, only to a return with a non-nil error (never to 'skip the entry'); ParseConfig returns the configuration only if ParseBlocklists succeeded; nothing reachable from the reload path (ParseConfig, OnReload, selector and GeoIP loaders) calls a panicking or exiting API; " +
			"C19.2 swap on success only: main calls OnReload only when ParseConfig succeeded, OnReload replaces the phantom selector only when the new one loaded; " +
			"C19.3 printers: for every type registered through AddStatsModule (computed from main), code reachable from PrintAndReset contains no integer division by a non-constant, and every call through an optional (elsewhere nil-checked) interface field of its receiver is dominated by a nil test of that same field (contradiction rule). " +
			"Decides error propagation and the structural panic sources of housekeeping; the full configuration space, TOML decoding and the non-atomic field-wise copy in OnReload are not decided.",
		Assume: []string{"static repo callees only; dependency code is not entered", "a field that is nil-checked somewhere in its package is treated as optional everywhere"}})
}

func checkC19(c *Ctx) {
	r := c.R
	const lib = "pkg/station/lib"

	// ---- C19.1 parse errors propagate
	r.Rule("C19.1", "list-entry parse errors fail the load; the reload path cannot panic or exit", 8)
	if f := c.fn("C19.1", lib, "RegConfig", "ParseBlocklists"); f != nil {
		if f.Signature.Results().Len() == 0 {
			r.Bad("C19.1", "ParseBlocklists returns no error", f.Pos(), fnName(f), "the list parser cannot report an unparsable entry: such entries are dropped silently and never enforced")
		}
		parsers := map[string]bool{"net.ParseCIDR": true, "regexp.Compile": true, "regexp.CompilePOSIX": true, "net.Interfaces": true, "(*net.Interface).Addrs": true, "net.ParseIP": true, "net/netip.ParsePrefix": true}
		n := 0
		eachInstr(f, func(in ssa.Instruction) {
			call, ok := in.(*ssa.Call)
			if !ok {
				return
			}
			name := calleeName(&call.Call)
			if name == "regexp.MustCompile" || name == "regexp.MustCompilePOSIX" {
				n++
				r.Bad("C19.1", "ParseBlocklists: "+name+" panics on a bad pattern", in.Pos(), fnName(f), "a malformed domain pattern in an otherwise loadable configuration panics the station — at start-up and on every SIGHUP reload — instead of failing the load")
				return
			}
			if !parsers[name] {
				return
			}
			n++
			errEdges := edgesEstablishing(f, atomMatcher(errAtoms(call, false)...))
			if len(errEdges) == 0 {
				// is there a test `err == nil` guarding the use instead? then the nil edge is the only user: the non-nil edge is the other slot
				r.Bad("C19.1", "ParseBlocklists: error of "+shortName(name)+" is not tested for failure", in.Pos(), fnName(f), "the error result of "+shortName(name)+" is never branched on with a failing edge that leaves: an entry that does not parse is skipped silently")
				return
			}
			okAll := true
			var w []int
			for e := range errEdges {
				succ := f.Blocks[e.from].Succs[e.slot]
				// from the failing edge: no return with a nil error, and no continuation into the next parse call / loop
				hit, ww := reachAt(f, succ, func(in2 ssa.Instruction) bool {
					if ret, ok := in2.(*ssa.Return); ok {
						if len(ret.Results) == 0 {
							return true
						}
						ev := returnedValue(ret, len(ret.Results)-1, nil)
						if cst, isC := ev.(*ssa.Const); isC && cst.Value == nil {
							return true
						}
						return false
					}
					if c2, ok := in2.(*ssa.Call); ok && parsers[calleeName(&c2.Call)] {
						return true // carried on to the next entry
					}
					return false
				}, nil, nil)
				if hit {
					okAll = false
					w = ww
				}
			}
			if okAll {
				r.OK("C19.1", "ParseBlocklists: a failing "+shortName(name)+" fails the load", in.Pos(), "every path from its error edge ends in a non-nil error return")
			} else {
				r.Bad("C19.1", "ParseBlocklists: a failing "+shortName(name)+" is skipped", in.Pos(), fnName(f),
					"when "+shortName(name)+" rejects an entry the loader carries on (or returns success): the accepted configuration contains a list entry that is never enforced", r.blockPath(f, w)...)
			}
		})
		if n < 4 {
			r.Unk("C19.1", "ParseBlocklists: parse calls", f.Pos(), fnName(f), fmt.Sprintf("found %d parse calls, expected >= 4 (three subnet lists and the domain patterns)", n))
		}
	}
	if f := c.fn("C19.1", lib, "", "ParseConfig"); f != nil {
		var pb *ssa.Call
		for _, ci := range callsIn(f, shortIs("ParseBlocklists")) {
			pb, _ = ci.(*ssa.Call)
		}
		if pb == nil {
			r.Bad("C19.1", "ParseConfig does not parse the lists", f.Pos(), fnName(f), "the configuration is returned without parsing its block/allow lists")
		} else {
			eachInstr(f, func(in ssa.Instruction) {
				ret, ok := in.(*ssa.Return)
				if !ok {
					return
				}
				if cst, isC := ret.Results[0].(*ssa.Const); isC && cst.Value == nil {
					return
				}
				g := pb.Type() != nil && pb.Call.Signature().Results().Len() > 0 && guarded(f, ret, errAtoms(pb, true)...)
				r.Check(g, "C19.1", "ParseConfig: a configuration is returned only if ParseBlocklists succeeded", ret.Pos(), fnName(f), "success dominated by err == nil",
					"ParseConfig returns a configuration although list parsing failed: on reload a broken list replaces the previous one")
			})
		}
	}
	// nothing on the reload path panics or exits
	var roots []*ssa.Function
	for _, a := range [][3]string{{lib, "", "ParseConfig"}, {lib, "RegistrationManager", "OnReload"}, {"pkg/phantoms", "", "NewPhantomIPSelector"}, {"pkg/station/geoip", "", "New"}} {
		if f := c.fn("C19.1", a[0], a[1], a[2]); f != nil {
			roots = append(roots, f)
		}
	}
	seen := map[*ssa.Function][]string{}
	var visit func(f *ssa.Function, chain []string)
	visit = func(f *ssa.Function, chain []string) {
		if _, ok := seen[f]; ok || f.Blocks == nil || !isRepoPath(fnPkgPath(f)) {
			return
		}
		chain = append(append([]string{}, chain...), fnName(f))
		seen[f] = chain
		for _, a := range f.AnonFuncs {
			visit(a, chain)
		}
		eachInstr(f, func(in ssa.Instruction) {
			if ci, ok := in.(ssa.CallInstruction); ok {
				if cal := ci.Common().StaticCallee(); cal != nil {
					visit(cal, chain)
				}
			}
		})
	}
	for _, f := range roots {
		visit(f, nil)
	}
	nBad := 0
	var fs []*ssa.Function
	for f := range seen {
		fs = append(fs, f)
	}
	sort.Slice(fs, func(i, j int) bool { return fs[i].String() < fs[j].String() })
	for _, f := range fs {
		eachInstr(f, func(in ssa.Instruction) {
			bad := ""
			switch x := in.(type) {
			case *ssa.Panic:
				bad = "explicit panic"
			case ssa.CallInstruction:
				n := calleeName(x.Common())
				sh := calleeShort(x.Common())
				switch {
				case strings.HasPrefix(n, "regexp.MustCompile"), n == "os.Exit", n == "text/template.Must", n == "html/template.Must":
					bad = "calls " + n
				case strings.HasPrefix(sh, "Fatal") || strings.HasPrefix(sh, "Panic"):
					if strings.Contains(n, "log") {
						bad = "calls " + shortName(n)
					}
				}
			}
			if bad != "" {
				nBad++
				r.Bad("C19.1", fnName(f)+": "+bad+" on the reload path", in.Pos(), fnName(f), "code reachable from a SIGHUP reload "+bad+": a bad new configuration takes the running station down instead of being rejected", seen[f]...)
			}
		})
	}
	if nBad == 0 {
		r.OK("C19.1", "reload path is free of panicking / exiting calls", token.NoPos, fmt.Sprintf("%d function(s) reachable from ParseConfig, OnReload, NewPhantomIPSelector, geoip.New", len(fs)))
	}

	// ---- C19.2 swap on success only
	r.Rule("C19.2", "a part is replaced only if its new version loaded without error", 2)
	if m := c.fn("C19.2", "cmd/application", "", "main"); m != nil {
		for _, ci := range callsIn(m, shortIs("OnReload")) {
			call := ci.(*ssa.Call)
			// the config argument comes from a ParseConfig call whose error is nil here
			okk := false
			arg := pathOf(argsOf(&call.Call)[0])
			for _, pc := range callsIn(m, shortIs("ParseConfig")) {
				pcc := pc.(*ssa.Call)
				if strings.HasPrefix(arg, pathOf(pcc)+"#0") && guarded(m, call, errAtoms(pcc, true)...) {
					okk = true
				}
			}
			r.Check(okk, "C19.2", "main: OnReload only with a configuration whose load succeeded", call.Pos(), fnName(m), "dominated by ParseConfig err == nil",
				"OnReload is called although the new configuration failed to load: the previous address policies are replaced by a partial or nil configuration")
		}
	}
	if f := c.fn("C19.2", lib, "RegistrationManager", "OnReload"); f != nil {
		for _, st := range fieldStores(f, "lib.RegistrationManager", "PhantomSelector") {
			ex, _ := stripConv(st.Val).(*ssa.Extract)
			okk := false
			if ex != nil {
				if call, ok := ex.Tuple.(*ssa.Call); ok {
					okk = guarded(f, st, errAtoms(call, true)...)
				}
			}
			r.Check(okk, "C19.2", "OnReload: the phantom selector is replaced only if the new one loaded", st.Pos(), fnName(f), "dominated by err == nil",
				"a failed reload of the phantom subnets replaces the working selector with nil: every later registration fails (or panics)")
		}
	}

	// ---- C19.3 printers
	r.Rule("C19.3", "statistics printers: no integer division by a variable; optional interface fields nil-guarded", 5)
	var modFns []*ssa.Function
	if m := c.P.Func(repoMod+"/cmd/application", "", "main"); m != nil {
		for _, ci := range callsIn(m, shortIs("AddStatsModule")) {
			a := argsOf(ci.Common())[0]
			t := stripConv(a).Type()
			ms := c.P.Prog.MethodSets.MethodSet(t)
			var fn *ssa.Function
			for i := 0; i < ms.Len(); i++ {
				if ms.At(i).Obj().Name() == "PrintAndReset" {
					fn = c.P.Prog.MethodValue(ms.At(i))
				}
			}
			if fn == nil && types.IsInterface(t) {
				// interface-typed module (LivenessTester): every repo implementation
				for _, f := range c.P.RepoFuncs() {
					if f.Name() == "PrintAndReset" && f.Signature.Recv() != nil && types.Implements(f.Signature.Recv().Type(), t.Underlying().(*types.Interface)) {
						modFns = append(modFns, f)
					}
				}
				continue
			}
			if fn != nil {
				if fn.Synthetic != "" {
					// promoted through an embedded pointer: resolve the declared method
					for _, f := range c.P.RepoFuncs() {
						if f.Name() == "PrintAndReset" && f.Object() == fn.Object() {
							fn = f
						}
					}
				}
				modFns = append(modFns, fn)
			}
		}
	}
	if len(modFns) < 4 {
		r.Unk("C19.3", "modules registered through AddStatsModule", token.NoPos, "", fmt.Sprintf("resolved %d PrintAndReset implementations, expected >= 4", len(modFns)))
	}
	// optional fields per package: interface-typed struct fields that are nil-tested somewhere
	optional := map[string]bool{}
	for _, f := range c.P.RepoFuncs() {
		for _, b := range f.Blocks {
			if len(b.Instrs) == 0 {
				continue
			}
			if iff, ok := b.Instrs[len(b.Instrs)-1].(*ssa.If); ok {
				if bo, ok := iff.Cond.(*ssa.BinOp); ok && (bo.Op == token.EQL || bo.Op == token.NEQ) {
					for _, pair := range [][2]ssa.Value{{bo.X, bo.Y}, {bo.Y, bo.X}} {
						if cst, ok := pair[1].(*ssa.Const); ok && cst.Value == nil {
							if u, ok := pair[0].(*ssa.UnOp); ok {
								if o, fld, ok := fieldOwner(u.X); ok && types.IsInterface(u.Type()) {
									optional[o+"."+fld] = true
								}
							}
						}
					}
				}
			}
		}
	}
	pseen := map[*ssa.Function]bool{}
	var pvisit func(f *ssa.Function)
	var reachable []*ssa.Function
	pvisit = func(f *ssa.Function) {
		if pseen[f] || f.Blocks == nil || !isRepoPath(fnPkgPath(f)) {
			return
		}
		pseen[f] = true
		reachable = append(reachable, f)
		for _, a := range f.AnonFuncs {
			pvisit(a)
		}
		eachInstr(f, func(in ssa.Instruction) {
			if ci, ok := in.(ssa.CallInstruction); ok {
				if cal := ci.Common().StaticCallee(); cal != nil && !strings.Contains(fnPkgPath(cal), "/station/log") {
					pvisit(cal)
				}
			}
		})
	}
	for _, f := range modFns {
		pvisit(f)
	}
	nDiv, nOpt := 0, 0
	for _, f := range reachable {
		eachInstr(f, func(in ssa.Instruction) {
			switch x := in.(type) {
			case *ssa.BinOp:
				if x.Op != token.QUO && x.Op != token.REM {
					return
				}
				if b, ok := x.Type().Underlying().(*types.Basic); !ok || b.Info()&types.IsInteger == 0 {
					return
				}
				if _, isC := x.Y.(*ssa.Const); isC {
					return
				}
				nDiv++
				r.Bad("C19.3", fnName(f)+": integer division by "+firstN(pathOf(x.Y), 40), in.Pos(), fnName(f), "the periodic statistics printer divides an integer by a run-time value that can be zero in an accepted configuration or an idle epoch: the station panics every reporting interval")
			case *ssa.Call:
				if !x.Call.IsInvoke() {
					return
				}
				u, ok := x.Call.Value.(*ssa.UnOp)
				if !ok {
					return
				}
				o, fld, ok := fieldOwner(u.X)
				if !ok || !optional[o+"."+fld] {
					return
				}
				nOpt++
				p := pathOf(u)
				g := guarded(f, in, Atom{"(" + orderEq(p, "nil") + ")", false})
				r.Check(g, "C19.3", fnName(f)+": "+p+"."+x.Call.Method.Name()+" under "+p+" != nil", in.Pos(), fnName(f), "nil test of the same field",
					"the statistics printer calls through the optional field "+p+" (nil-checked elsewhere) without testing that same field: with that part unconfigured the station panics every reporting interval")
			}
		})
	}
	if nDiv == 0 {
		r.OK("C19.3", "printers contain no integer division by a run-time value", token.NoPos, fmt.Sprintf("%d function(s) reachable from %d PrintAndReset implementation(s)", len(reachable), len(modFns)))
	}
	_ = nOpt
}
