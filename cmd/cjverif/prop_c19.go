package main

import (
	"fmt"
	"go/constant"
	"go/token"
	"go/types"
	"net"
	"regexp"
	"sort"
	"strconv"
	"strings"

	"golang.org/x/tools/go/ssa"
)

func init() {
	register("C19", &propCheck{Run: checkC19,
		Explain: "C19.1 parse errors propagate: in ParseBlocklists every error of net.ParseCIDR / regexp.Compile / interface enumeration leads, on its non-nil edge, only to a return with a non-nil error (never to 'skip the entry'); ParseConfig returns the configuration only if ParseBlocklists succeeded; nothing reachable from the reload path (ParseConfig, OnReload, selector and GeoIP loaders) calls a panicking or exiting API; " +
			"C19.2 swap on success only: main calls OnReload only when ParseConfig succeeded, OnReload replaces the phantom selector only when the new one loaded; " +
			"C19.3 printers: for every type registered through AddStatsModule (computed from main), code reachable from PrintAndReset contains no integer division by a non-constant, and every call through an optional (elsewhere nil-checked) interface field of its receiver is dominated by a nil test of that same field (contradiction rule). " +
			"C19.7 both lists enforced: every non-empty result of the covert guard is dominated by the subnet-list test on the resolved address and the domain-pattern test on the resolved host (shared with C06.1); " +
			"Decides error propagation and the structural panic sources of housekeeping; the full configuration space, TOML decoding and the non-atomic field-wise copy in OnReload are not decided.",
		Assume: []string{"static repo callees only; dependency code is not entered", "a field that is nil-checked somewhere in its package is treated as optional everywhere"}})
}

func checkC19(c *Ctx) {
	r := c.R
	const lib = "pkg/station/lib"

	// ---- C19.1 parse errors propagate
	r.Rule("C19.1", "list-entry parse errors fail the load; the reload path cannot panic or exit", 8)
	if f := c.fn("C19.1", lib, "RegConfig", "ParseBlocklists"); f != nil {
		if f.Signature.Results().Len() == 0 {
			r.Bad("C19.1", "ParseBlocklists returns no error", f.Pos(), fnName(f), "the list parser cannot report an unparsable entry: such entries are dropped silently and never enforced")
		}
		parsers := map[string]bool{"net.ParseCIDR": true, "regexp.Compile": true, "regexp.CompilePOSIX": true, "net.Interfaces": true, "(*net.Interface).Addrs": true, "net.ParseIP": true, "net/netip.ParsePrefix": true}
		n := 0
		root := f
		var analyse func(f *ssa.Function) int
		analyse = func(f *ssa.Function) int {
			n := 0
			eachInstr(f, func(in ssa.Instruction) {
				call, ok := in.(*ssa.Call)
				if !ok {
					return
				}
				name := calleeName(&call.Call)
				// a same-package helper that parses a whole list and reports one error is a parser itself (its own
				// parse calls are analysed the same way, once)
				if h := helperCallee(f, &call.Call); h != nil && f == root && !parsers[name] && h.Signature.Results().Len() > 0 && isErrorType(h.Signature.Results().At(h.Signature.Results().Len()-1).Type()) {
					hasParse := false
					eachInstr(h, func(in2 ssa.Instruction) {
						if c2, ok := in2.(*ssa.Call); ok && parsers[calleeName(&c2.Call)] {
							hasParse = true
						}
					})
					if hasParse && analyse(h) > 0 {
						parsers[name] = true
					}
				}
				if name == "regexp.MustCompile" || name == "regexp.MustCompilePOSIX" {
					n++
					r.Bad("C19.1", "ParseBlocklists: "+name+" panics on a bad pattern", in.Pos(), fnName(f), "a malformed domain pattern in an otherwise loadable configuration panics the station — at start-up and on every SIGHUP reload — instead of failing the load")
					return
				}
				if !parsers[name] {
					return
				}
				n++
				errEdges := edgesEstablishing(f, atomMatcher(errAtoms(call, false)...))
				if len(errEdges) == 0 {
					// is there a test `err == nil` guarding the use instead? then the nil edge is the only user: the non-nil edge is the other slot
					r.Bad("C19.1", "ParseBlocklists: error of "+shortName(name)+" is not tested for failure", in.Pos(), fnName(f), "the error result of "+shortName(name)+" is never branched on with a failing edge that leaves: an entry that does not parse is skipped silently")
					return
				}
				okAll := true
				var w []int
				for e := range errEdges {
					succ := f.Blocks[e.from].Succs[e.slot]
					// from the failing edge: no return with a nil error, and no continuation into the next parse call / loop
					hit, ww := reachAt(f, succ, func(in2 ssa.Instruction) bool {
						if ret, ok := in2.(*ssa.Return); ok {
							if len(ret.Results) == 0 {
								return true
							}
							ev := returnedValue(ret, len(ret.Results)-1, nil)
							if cst, isC := ev.(*ssa.Const); isC && cst.Value == nil {
								return true
							}
							return false
						}
						if c2, ok := in2.(*ssa.Call); ok && parsers[calleeName(&c2.Call)] {
							return true // carried on to the next entry
						}
						return false
					}, nil, nil)
					if hit {
						okAll = false
						w = ww
					}
				}
				if okAll {
					r.OK("C19.1", "ParseBlocklists: a failing "+shortName(name)+" fails the load", in.Pos(), "every path from its error edge ends in a non-nil error return")
				} else {
					r.Bad("C19.1", "ParseBlocklists: a failing "+shortName(name)+" is skipped", in.Pos(), fnName(f),
						"when "+shortName(name)+" rejects an entry the loader carries on (or returns success): the accepted configuration contains a list entry that is never enforced", r.blockPath(f, w)...)
				}
			})
			return n
		}
		n = analyse(root)
		if n < 4 {
			r.Unk("C19.1", "ParseBlocklists: parse calls", f.Pos(), fnName(f), fmt.Sprintf("found %d parse calls, expected >= 4 (three subnet lists and the domain patterns)", n))
		}
	}
	if f := c.fn("C19.1", lib, "", "ParseConfig"); f != nil {
		var pb *ssa.Call
		for _, ci := range callsIn(f, shortIs("ParseBlocklists")) {
			pb, _ = ci.(*ssa.Call)
		}
		if pb == nil {
			r.Bad("C19.1", "ParseConfig does not parse the lists", f.Pos(), fnName(f), "the configuration is returned without parsing its block/allow lists")
		} else {
			eachInstr(f, func(in ssa.Instruction) {
				ret, ok := in.(*ssa.Return)
				if !ok {
					return
				}
				if cst, isC := ret.Results[0].(*ssa.Const); isC && cst.Value == nil {
					return
				}
				g := pb.Type() != nil && pb.Call.Signature().Results().Len() > 0 && guarded(f, ret, errAtoms(pb, true)...)
				r.Check(g, "C19.1", "ParseConfig: a configuration is returned only if ParseBlocklists succeeded", ret.Pos(), fnName(f), "success dominated by err == nil",
					"ParseConfig returns a configuration although list parsing failed: on reload a broken list replaces the previous one")
			})
		}
	}
	// the embedded *RegConfig is only allocated by the decoder when the file sets one of its keys:
	// ParseConfig must establish it is non-nil before using or returning it (reload dereferences it)
	if f := c.P.Func(repoMod+"/"+lib, "", "ParseConfig"); f != nil && f.Blocks != nil {
		var cfgPath string
		targets := map[ssa.Instruction]bool{}
		eachInstr(f, func(in ssa.Instruction) {
			switch x := in.(type) {
			case *ssa.Return:
				if cst, isC := x.Results[0].(*ssa.Const); isC && cst.Value == nil {
					return
				}
				cfgPath = pathOf(x.Results[0])
				targets[in] = true
			case *ssa.Call:
				if cal := x.Call.StaticCallee(); cal != nil && cal.Signature.Recv() != nil && typeShort(cal.Signature.Recv().Type()) == "*lib.RegConfig" {
					targets[in] = true
				}
			}
		})
		if cfgPath == "" {
			r.Unk("C19.1", "ParseConfig: returned configuration", f.Pos(), fnName(f), "no success return found")
		} else {
			fp := cfgPath + ".RegConfig"
			sets := map[ssa.Instruction]bool{}
			eachInstr(f, func(in ssa.Instruction) {
				if st, ok := in.(*ssa.Store); ok && pathOf(st.Addr) == fp {
					if _, isAlloc := stripConv(st.Val).(*ssa.Alloc); isAlloc {
						sets[in] = true
					}
				}
			})
			nonNil := edgesEstablishing(f, atomMatcher(Atom{"(" + orderEq(fp, "nil") + ")", false}))
			hit, w := reach(f, nil, func(in ssa.Instruction) bool { return targets[in] }, inSet(sets), nonNil)
			if hit {
				r.Bad("C19.1", "ParseConfig: the embedded *RegConfig may be nil when used or returned", f.Pos(), fnName(f),
					"the TOML decoder leaves the embedded *RegConfig nil when the file sets none of its keys; ParseConfig uses or returns it without establishing it is non-nil: such a file panics the station in ParseBlocklists / OnReload (also on a SIGHUP reload)", r.blockPath(f, w)...)
			} else {
				r.OK("C19.1", "ParseConfig: the embedded *RegConfig is non-nil wherever it is used or returned", f.Pos(), fmt.Sprintf("%d use/return site(s) each preceded by a nil test or an allocation of %s", len(targets), fp))
			}
		}
	}
	// nothing on the reload path panics or exits
	var roots []*ssa.Function
	for _, a := range [][3]string{{lib, "", "ParseConfig"}, {lib, "RegistrationManager", "OnReload"}, {"pkg/phantoms", "", "NewPhantomIPSelector"}, {"pkg/station/geoip", "", "New"}} {
		if f := c.fn("C19.1", a[0], a[1], a[2]); f != nil {
			roots = append(roots, f)
		}
	}
	seen := map[*ssa.Function][]string{}
	var visit func(f *ssa.Function, chain []string)
	visit = func(f *ssa.Function, chain []string) {
		if _, ok := seen[f]; ok || f.Blocks == nil || !isRepoPath(fnPkgPath(f)) {
			return
		}
		chain = append(append([]string{}, chain...), fnName(f))
		seen[f] = chain
		for _, a := range f.AnonFuncs {
			visit(a, chain)
		}
		eachInstr(f, func(in ssa.Instruction) {
			if ci, ok := in.(ssa.CallInstruction); ok {
				if cal := ci.Common().StaticCallee(); cal != nil {
					visit(cal, chain)
				}
			}
		})
	}
	for _, f := range roots {
		visit(f, nil)
	}
	nBad := 0
	var fs []*ssa.Function
	for f := range seen {
		fs = append(fs, f)
	}
	sort.Slice(fs, func(i, j int) bool { return fs[i].String() < fs[j].String() })
	for _, f := range fs {
		eachInstr(f, func(in ssa.Instruction) {
			bad := ""
			switch x := in.(type) {
			case *ssa.Panic:
				bad = "explicit panic"
			case ssa.CallInstruction:
				n := calleeName(x.Common())
				sh := calleeShort(x.Common())
				switch {
				case strings.HasPrefix(n, "regexp.MustCompile"), n == "os.Exit", n == "text/template.Must", n == "html/template.Must":
					bad = "calls " + n
				case strings.HasPrefix(sh, "Fatal") || strings.HasPrefix(sh, "Panic"):
					if strings.Contains(n, "log") {
						bad = "calls " + shortName(n)
					}
				}
			}
			if bad != "" {
				nBad++
				r.Bad("C19.1", fnName(f)+": "+bad+" on the reload path", in.Pos(), fnName(f), "code reachable from a SIGHUP reload "+bad+": a bad new configuration takes the running station down instead of being rejected", seen[f]...)
			}
		})
	}
	// optional sections: the TOML decoder leaves the embedded *geoip.DBConfig nil when the file sets none of its keys (an
	// accepted configuration); on the reload path it may only be dereferenced under a non-nil test of the same path
	nOpt := 0
	for _, f := range fs {
		eachInstr(f, func(in ssa.Instruction) {
			var ptr ssa.Value
			switch x := in.(type) {
			case *ssa.UnOp:
				if x.Op == token.MUL {
					if _, isStruct := x.Type().Underlying().(*types.Struct); isStruct {
						ptr = x.X
					}
				}
			case *ssa.FieldAddr:
				ptr = x.X
			}
			if ptr == nil || typeShort(ptr.Type()) != "*geoip.DBConfig" {
				return
			}
			if fnPkgPath(f) != repoMod+"/"+lib {
				return // inside the geoip package the section was tested by geoip.New before it was stored
			}
			nOpt++
			pp := pathOf(ptr)
			g := guarded(f, in, Atom{"(" + orderEq("nil", pp) + ")", false})
			if !g {
				nBad++
				r.Bad("C19.1", fnName(f)+": optional section "+firstN(pp, 50)+" dereferenced without a nil test", in.Pos(), fnName(f),
					"the GeoIP section of a configuration is a pointer the decoder leaves nil when no geoip_* key is set (an accepted configuration): dereferencing "+firstN(pp, 50)+" on the reload path without testing it panics the running station on SIGHUP", seen[f]...)
			}
		})
	}
	// optional scalar fields of the configuration messages (proto2 `optional uint32 weight` is a *uint32 that the file
	// may leave unset): on the reload path they are read through the nil-safe getters or under a nil test, never by a
	// bare *msg.Field
	for _, f := range fs {
		eachInstr(f, func(in ssa.Instruction) {
			u, ok := in.(*ssa.UnOp)
			if !ok || u.Op != token.MUL {
				return
			}
			ld, ok := u.X.(*ssa.UnOp) // *(*(&msg.Field))
			if !ok || ld.Op != token.MUL {
				return
			}
			fa, ok := ld.X.(*ssa.FieldAddr)
			if !ok {
				return
			}
			pt, ok := fa.X.Type().Underlying().(*types.Pointer)
			if !ok || !isProtoMsgPtr(fa.X.Type()) {
				_ = pt
				return
			}
			if _, isBasic := u.Type().Underlying().(*types.Basic); !isBasic {
				return
			}
			pp := pathOf(ld)
			if guardedM(f, in, func(cnd string, pol bool) bool { return !pol && strings.Contains(cnd, "nil") && strings.Contains(cnd, pp) }) {
				return
			}
			nBad++
			r.Bad("C19.1", fnName(f)+": optional field "+firstN(pp, 50)+" dereferenced without a nil test", in.Pos(), fnName(f),
				"an optional field of a configuration message is read with a bare dereference on the reload path: a subnet file that leaves the key out (accepted before) makes the reload panic and takes the running station down", seen[f]...)
		})
	}
	_ = nOpt
	if nBad == 0 {
		r.OK("C19.1", "reload path is free of panicking / exiting calls", token.NoPos, fmt.Sprintf("%d function(s) reachable from ParseConfig, OnReload, NewPhantomIPSelector, geoip.New", len(fs)))
	}

	// the loaders report their failures: OnReload keeps the previous selector only if the loader SAYS it failed - in the
	// subnet loader chain every failing outcome of a call (err != nil, or errors.Is(err, …)) leads only to returns
	// with a non-nil error (no fallback that looks like a successful load)
	for _, a := range [][2]string{{"pkg/phantoms", "NewPhantomIPSelector"}, {"pkg/phantoms", "GetPhantomSubnetSelector"}, {"pkg/phantoms", "SubnetsFromTomlFile"}} {
		f := c.P.Func(repoMod+"/"+a[0], "", a[1])
		if f == nil || f.Blocks == nil || f.Signature.Results().Len() != 2 {
			continue
		}
		okAll := true
		what := ""
		nCalls := 0
		eachInstr(f, func(in ssa.Instruction) {
			call, ok := in.(*ssa.Call)
			if !ok {
				return
			}
			sig := call.Call.Signature()
			if sig.Results().Len() == 0 || !isErrorType(sig.Results().At(sig.Results().Len()-1).Type()) {
				return
			}
			atoms := errAtoms(call, false)
			failing := edgesEstablishing(f, func(cnd string, pol bool) bool {
				for _, at := range atoms {
					if at.Cond == cnd && at.Pol == pol {
						return true
					}
				}
				// errors.Is(<this error>, X) / os.IsNotExist(<this error>) taken as true
				for _, nme := range errNames(call) {
					if pol && (strings.HasPrefix(cnd, "errors.Is("+nme+",") || cnd == "os.IsNotExist("+nme+")") {
						return true
					}
				}
				return false
			})
			if len(failing) == 0 {
				return
			}
			nCalls++
			for e := range failing {
				succ := f.Blocks[e.from].Succs[e.slot]
				for _, v := range returnedAlong(f, f.Blocks[e.from], succ, 1) {
					if cst, isC := v.(*ssa.Const); isC && cst.Value == nil {
						okAll = false
						what = shortName(calleeName(&call.Call))
					}
				}
			}
		})
		if nCalls > 0 || a[1] == "SubnetsFromTomlFile" {
			r.Check(okAll && (nCalls > 0 || a[1] != "SubnetsFromTomlFile"), "C19.2", a[1]+": a failed step is reported as an error", f.Pos(), fnName(f), fmt.Sprintf("%d fallible call(s), each failing edge leads only to error returns", nCalls),
				"after "+what+" failed the loader can still return a selector with a nil error (a fallback): OnReload takes it for a successful load and replaces the working selector - a reload with a missing / unreadable subnet file changes the known generations instead of changing nothing")
		}
	}

	// ---- C19.2 swap on success only
	r.Rule("C19.2", "a part is replaced only if its new version loaded without error", 2)
	if m := c.fn("C19.2", "cmd/application", "", "main"); m != nil {
		for _, ci := range callsIn(m, shortIs("OnReload")) {
			call := ci.(*ssa.Call)
			// the config argument comes from a ParseConfig call whose error is nil here
			okk := false
			arg := pathOf(argsOf(&call.Call)[0])
			for _, pc := range callsIn(m, shortIs("ParseConfig")) {
				pcc := pc.(*ssa.Call)
				if strings.HasPrefix(arg, pathOf(pcc)+"#0") && guarded(m, call, errAtoms(pcc, true)...) {
					okk = true
				}
			}
			r.Check(okk, "C19.2", "main: OnReload only with a configuration whose load succeeded", call.Pos(), fnName(m), "dominated by ParseConfig err == nil",
				"OnReload is called although the new configuration failed to load: the previous address policies are replaced by a partial or nil configuration")
		}
	}
	if f := c.fn("C19.2", lib, "RegistrationManager", "OnReload"); f != nil {
		for _, st := range fieldStores(f, "lib.RegistrationManager", "PhantomSelector") {
			ex, _ := stripConv(st.Val).(*ssa.Extract)
			okk := false
			if ex != nil {
				if call, ok := ex.Tuple.(*ssa.Call); ok {
					okk = guarded(f, st, errAtoms(call, true)...)
				}
			}
			r.Check(okk, "C19.2", "OnReload: the phantom selector is replaced only if the new one loaded", st.Pos(), fnName(f), "dominated by err == nil",
				"a failed reload of the phantom subnets replaces the working selector with nil: every later registration fails (or panics)")
		}
	}

	checkGeoIPReplaced(c, "C19.2")
	// the phantom-subnet part: the loaded selector replaces the previous one as a whole; no generation is carried over,
	// added or edited by station code (shared with C07.8)
	checkSelectorReplaced(c, "C19.2")

	// the policy part: OnReload installs the parsed lists of the NEW configuration field by field (all of them, each
	// from the field of the same name), and does not re-parse into the live object
	checkReloadTakeover(c, "C19.2")

	// ---- C19.10 registration expiry is housekeeping that runs for every accepted configuration: nothing statically
	// reachable from RemoveOldRegistrations can panic by construction (an unchecked type assertion on a component whose
	// concrete type depends on the configuration - the uncached liveness tester -, an explicit panic, a division)
	r.Rule("C19.10", "nothing reachable from the expiry pass can panic by construction", 1)
	if root := c.fn("C19.10", lib, "RegistrationManager", "RemoveOldRegistrations"); root != nil {
		seen := map[*ssa.Function]bool{}
		var order []*ssa.Function
		var visit func(g *ssa.Function)
		visit = func(g *ssa.Function) {
			if g == nil || seen[g] || g.Blocks == nil || !isRepoPath(fnPkgPath(g)) || strings.Contains(fnPkgPath(g), "/station/log") || strings.HasSuffix(fnPkgPath(g), "/proto") {
				return
			}
			seen[g] = true
			order = append(order, g)
			for _, a := range g.AnonFuncs {
				visit(a)
			}
			eachInstr(g, func(in ssa.Instruction) {
				if ci, ok := in.(ssa.CallInstruction); ok {
					visit(ci.Common().StaticCallee())
				}
			})
		}
		visit(root)
		nBad := 0
		for _, g := range order {
			eachInstr(g, func(in ssa.Instruction) {
				if cs := panicConstruct(in); cs != "" {
					nBad++
					r.Bad("C19.10", fnName(g)+": "+cs, in.Pos(), fnName(g), "the expiry pass reaches a construct that panics for some accepted configuration ("+cs+"): the expiry goroutine dies (or the station with it) and registrations are never removed again")
				}
			})
		}
		if nBad == 0 {
			r.OK("C19.10", "RemoveOldRegistrations: no panicking construct reachable", root.Pos(), fmt.Sprintf("%d function(s) scanned: no unchecked type assertion, explicit panic, exit call or integer division by a variable", len(order)))
		}
	}

	// ---- C19.11 the statistics report iterates the per-epoch maps while the ingest workers insert into them: every range
	// over generations / lvStats / ttStats (a map is not copied by assigning it to a local) runs with that map's mutex
	// held - iteration concurrent with an insert aborts the process ("concurrent map iteration and map write")
	r.Rule("C19.11", "the statistics maps are iterated only under their mutex", 3)
	{
		want := map[string]string{"generations": "genMutex", "lvStats": "lvMutex", "ttStats": "ttMutex"}
		n := 0
		for _, f := range c.funcsOfPkgs(lib) {
			for _, ff := range withAnon(f) {
				if ff.Blocks == nil {
					continue
				}
				var lf *LockFlow
				eachInstr(ff, func(in ssa.Instruction) {
					rg, ok := in.(*ssa.Range)
					if !ok {
						return
					}
					// the ranged value: a load of one of the fields, possibly through a local
					fld := ""
					var walk func(v ssa.Value, d int)
					walk = func(v ssa.Value, d int) {
						if d > 4 || fld != "" {
							return
						}
						switch x := v.(type) {
						case *ssa.UnOp:
							if o, fl, ok := fieldOwner(x.X); ok && o == "lib.RegistrationStats" {
								if _, tracked := want[fl]; tracked {
									fld = fl
									return
								}
							}
							if al, isA := x.X.(*ssa.Alloc); isA && al.Referrers() != nil {
								for _, ref := range *al.Referrers() {
									if st, ok := ref.(*ssa.Store); ok && st.Addr == ssa.Value(al) {
										walk(st.Val, d+1)
									}
								}
							}
						case *ssa.Phi:
							for _, e := range x.Edges {
								walk(e, d+1)
							}
						}
					}
					walk(rg.X, 0)
					if fld == "" {
						return
					}
					n++
					if lf == nil {
						lf = analyseLocks(ff, lockSet{})
					}
					held := false
					for k := range realLocks(lf.Must[in]) {
						if strings.Contains(k, "."+want[fld]+"/") {
							held = true
						}
					}
					// every Next of this iteration as well
					if held && rg.Referrers() != nil {
						for _, ref := range *rg.Referrers() {
							if nx, ok := ref.(*ssa.Next); ok {
								h2 := false
								for k := range realLocks(lf.Must[nx]) {
									if strings.Contains(k, "."+want[fld]+"/") {
										h2 = true
									}
								}
								held = held && h2
							}
						}
					}
					r.Check(held, "C19.11", fnName(ff)+": range over "+fld+" under "+want[fld], in.Pos(), fnName(ff), "the mutex is in the must-held set at the range and at every step",
						"the statistics report walks "+fld+" without holding "+want[fld]+" (the map was only picked up under the lock): an ingest worker that accounts a registration with a new generation / transport / version during the walk makes the runtime abort the station")
				})
			}
		}
		if n == 0 {
			r.Unk("C19.11", "ranges over the statistics maps", token.NoPos, "", "none found")
		}
	}

	// ---- C19.3 printers
	r.Rule("C19.3", "statistics printers: no integer division by a variable; optional interface fields nil-guarded", 5)
	// an optional cache field holds a usable cache or nothing: the LRU constructor (the only cache constructor that can
	// fail, returning a nil *lruCache that would sit in the interface field as a non-nil interface) gets a positive size
	if f := c.fn("C19.3", "pkg/station/liveness", "", "newLRUCache"); f != nil {
		for _, ci := range callsIn(f, func(n string, _ *ssa.CallCommon) bool {
			return strings.HasSuffix(n, "golang-lru.NewWithEvict") || strings.HasSuffix(n, "golang-lru.New")
		}) {
			sz := ci.Common().Args[0]
			sp := pathOf(sz)
			fixes := map[ssa.Instruction]bool{}
			eachInstr(f, func(in ssa.Instruction) {
				if st, ok := in.(*ssa.Store); ok && pathOf(st.Addr) == sp {
					if cv, ok := constOf(st.Val); ok {
						if v, ok := constant.Int64Val(constant.ToInt(cv)); ok && v > 0 {
							fixes[in] = true
						}
					} else if g, ok := stripLoad(st.Val).(*ssa.Global); ok {
						if v, ok := globalInitConst(c.P, g.Pkg.Pkg.Path(), g.Name()); ok && !strings.HasPrefix(v, "-") && v != "0" {
							fixes[in] = true
						}
					}
				}
			})
			pos := edgesEstablishing(f, func(cnd string, pol bool) bool {
				if pol && cnd == "(0 < "+sp+")" {
					return true
				}
				// !(size < K) with K >= 1
				if l, rr, ok := splitLt(cnd); ok && !pol && l == sp {
					if k, err := strconv.ParseInt(rr, 10, 64); err == nil && k >= 1 {
						return true
					}
				}
				return false
			})
			bad, w := reach(f, nil, isInstr(ci.(ssa.Instruction)), anyOf(fixes), pos)
			r.Check(!bad, "C19.3", "newLRUCache: the LRU is created with a positive size on every path", ci.Pos(), fnName(f), "size > 0 tested, or replaced by a positive default",
				"the LRU constructor can be called with a size <= 0 (a negative capacity in an accepted configuration): it fails, newLRUCache returns a nil *lruCache, Init stores it in the interface-typed cache field where every `!= nil` guard passes, and the statistics printer / every lookup panics on the nil receiver")
			_ = w
		}
	}
	var modFns []*ssa.Function
	if m := c.P.Func(repoMod+"/cmd/application", "", "main"); m != nil {
		for _, ci := range callsIn(m, shortIs("AddStatsModule")) {
			a := argsOf(ci.Common())[0]
			t := stripConv(a).Type()
			ms := c.P.Prog.MethodSets.MethodSet(t)
			var fn *ssa.Function
			for i := 0; i < ms.Len(); i++ {
				if ms.At(i).Obj().Name() == "PrintAndReset" {
					fn = c.P.Prog.MethodValue(ms.At(i))
				}
			}
			if fn == nil && types.IsInterface(t) {
				// interface-typed module (LivenessTester): every repo implementation
				for _, f := range c.P.RepoFuncs() {
					if f.Name() == "PrintAndReset" && f.Signature.Recv() != nil && types.Implements(f.Signature.Recv().Type(), t.Underlying().(*types.Interface)) {
						modFns = append(modFns, f)
					}
				}
				continue
			}
			if fn != nil {
				if fn.Synthetic != "" {
					// promoted through an embedded pointer: resolve the declared method
					for _, f := range c.P.RepoFuncs() {
						if f.Name() == "PrintAndReset" && f.Object() == fn.Object() {
							fn = f
						}
					}
				}
				modFns = append(modFns, fn)
			}
		}
	}
	if len(modFns) < 4 {
		r.Unk("C19.3", "modules registered through AddStatsModule", token.NoPos, "", fmt.Sprintf("resolved %d PrintAndReset implementations, expected >= 4", len(modFns)))
	}
	// optional fields per package: interface-typed struct fields that are nil-tested somewhere
	optional := map[string]bool{}
	for _, f := range c.P.RepoFuncs() {
		for _, b := range f.Blocks {
			if len(b.Instrs) == 0 {
				continue
			}
			if iff, ok := b.Instrs[len(b.Instrs)-1].(*ssa.If); ok {
				if bo, ok := iff.Cond.(*ssa.BinOp); ok && (bo.Op == token.EQL || bo.Op == token.NEQ) {
					for _, pair := range [][2]ssa.Value{{bo.X, bo.Y}, {bo.Y, bo.X}} {
						if cst, ok := pair[1].(*ssa.Const); ok && cst.Value == nil {
							if u, ok := pair[0].(*ssa.UnOp); ok {
								if o, fld, ok := fieldOwner(u.X); ok && types.IsInterface(u.Type()) {
									optional[o+"."+fld] = true
								}
							}
						}
					}
				}
			}
		}
	}
	pseen := map[*ssa.Function]bool{}
	var pvisit func(f *ssa.Function)
	var reachable []*ssa.Function
	pvisit = func(f *ssa.Function) {
		if pseen[f] || f.Blocks == nil || !isRepoPath(fnPkgPath(f)) {
			return
		}
		pseen[f] = true
		reachable = append(reachable, f)
		for _, a := range f.AnonFuncs {
			pvisit(a)
		}
		eachInstr(f, func(in ssa.Instruction) {
			if ci, ok := in.(ssa.CallInstruction); ok {
				if cal := ci.Common().StaticCallee(); cal != nil && !strings.Contains(fnPkgPath(cal), "/station/log") {
					pvisit(cal)
				}
			}
		})
	}
	for _, f := range modFns {
		pvisit(f)
	}
	nDiv, nOpt := 0, 0
	for _, f := range reachable {
		eachInstr(f, func(in ssa.Instruction) {
			switch x := in.(type) {
			case *ssa.BinOp:
				if x.Op != token.QUO && x.Op != token.REM {
					return
				}
				if b, ok := x.Type().Underlying().(*types.Basic); !ok || b.Info()&types.IsInteger == 0 {
					return
				}
				if _, isC := x.Y.(*ssa.Const); isC {
					return
				}
				nDiv++
				r.Bad("C19.3", fnName(f)+": integer division by "+firstN(pathOf(x.Y), 40), in.Pos(), fnName(f), "the periodic statistics printer divides an integer by a run-time value that can be zero in an accepted configuration or an idle epoch: the station panics every reporting interval")
			case *ssa.Call:
				if !x.Call.IsInvoke() {
					return
				}
				u, ok := x.Call.Value.(*ssa.UnOp)
				if !ok {
					return
				}
				o, fld, ok := fieldOwner(u.X)
				if !ok || !optional[o+"."+fld] {
					return
				}
				nOpt++
				p := pathOf(u)
				g := guarded(f, in, Atom{"(" + orderEq(p, "nil") + ")", false})
				r.Check(g, "C19.3", fnName(f)+": "+p+"."+x.Call.Method.Name()+" under "+p+" != nil", in.Pos(), fnName(f), "nil test of the same field",
					"the statistics printer calls through the optional field "+p+" (nil-checked elsewhere) without testing that same field: with that part unconfigured the station panics every reporting interval")
			}
		})
	}
	if nDiv == 0 {
		r.OK("C19.3", "printers contain no integer division by a run-time value", token.NoPos, fmt.Sprintf("%d function(s) reachable from %d PrintAndReset implementation(s)", len(reachable), len(modFns)))
	}
	_ = nOpt
	checkC19Enforcement(c)
}

// parsedLists are the RegConfig fields holding the parsed (enforced) form of the configured lists.
var c19Lists = map[string]bool{"covertBlocklistSubnets": true, "covertAllowlistSubnets": true, "covertBlocklistDomains": true, "phantomBlocklist": true}

// alwaysAppends reports whether every return of the helper h yields append(param0, param1).
func alwaysAppends(h *ssa.Function) bool {
	if h == nil || h.Blocks == nil || len(h.Params) != 2 {
		return false
	}
	want := "append(" + pname(h.Params[0]) + ", [" + pname(h.Params[1]) + "])"
	ok, n := true, 0
	eachInstr(h, func(in ssa.Instruction) {
		if ret, isR := in.(*ssa.Return); isR {
			n++
			if len(ret.Results) != 1 || pathOf(returnedValue(ret, 0, nil)) != want {
				ok = false
			}
		}
	})
	return ok && n > 0
}

type listLoop struct {
	field        string
	header, body *ssa.BasicBlock
	done         *ssa.BasicBlock
	// elem: how the loop element's access path starts / what it contains ("."+field+"[" for a loop over the field
	// itself, "<param>[" for a loop over a slice parameter of a helper that is handed the field)
	elem      string
	elemIsPfx bool
	fields    []string // the enforced lists this loop stands for
}

// listHelperLoops: f is a helper of the package that is handed an enforced list (a load of RegConfig.<list>) as a slice
// argument and ranges over that parameter: the loop stands for a loop over each list it is handed.
func listHelperLoops(f *ssa.Function) []listLoop {
	var out []listLoop
	if f.Signature.Recv() != nil && false {
		return nil
	}
	for pi, prm := range f.Params {
		if _, isSlice := prm.Type().Underlying().(*types.Slice); !isSlice {
			continue
		}
		// which lists reach this parameter?
		var fields []string
		sites, asValue := callersOf(f)
		if asValue {
			continue
		}
		all := len(sites) > 0
		for _, sc := range sites {
			args := sc.Common().Args
			if pi >= len(args) {
				all = false
				continue
			}
			u, ok := args[pi].(*ssa.UnOp)
			if !ok {
				all = false
				continue
			}
			o, fld, ok := fieldOwner(u.X)
			if !ok || o != "lib.RegConfig" || !c19Lists[fld] {
				all = false
				continue
			}
			fields = append(fields, fld)
		}
		if !all || len(fields) == 0 {
			continue
		}
		for _, b := range f.Blocks {
			if b.Comment != "rangeindex.loop" || len(b.Succs) != 2 {
				continue
			}
			iff, ok := b.Instrs[len(b.Instrs)-1].(*ssa.If)
			if !ok {
				continue
			}
			bo, ok := iff.Cond.(*ssa.BinOp)
			if !ok {
				continue
			}
			ln, ok := bo.Y.(*ssa.Call)
			if !ok || len(ln.Call.Args) != 1 || ln.Call.Args[0] != ssa.Value(prm) {
				continue
			}
			sort.Strings(fields)
			out = append(out, listLoop{field: strings.Join(fields, "+"), header: b, body: b.Succs[0], done: b.Succs[1], elem: pname(prm) + "[", elemIsPfx: true, fields: fields})
		}
	}
	return out
}

// listLoops finds `for range c.<list>` loops over the parsed lists.
func listLoops(f *ssa.Function) []listLoop {
	var out []listLoop
	for _, b := range f.Blocks {
		if b.Comment != "rangeindex.loop" || len(b.Succs) != 2 {
			continue
		}
		iff, ok := b.Instrs[len(b.Instrs)-1].(*ssa.If)
		if !ok {
			continue
		}
		bo, ok := iff.Cond.(*ssa.BinOp)
		if !ok {
			continue
		}
		ln, ok := bo.Y.(*ssa.Call)
		if !ok || len(ln.Call.Args) != 1 {
			continue
		}
		u, ok := ln.Call.Args[0].(*ssa.UnOp)
		if !ok {
			continue
		}
		o, fld, ok := fieldOwner(u.X)
		if !ok || o != "lib.RegConfig" || !c19Lists[fld] {
			continue
		}
		out = append(out, listLoop{field: fld, header: b, body: b.Succs[0], done: b.Succs[1], elem: "." + fld + "[", fields: []string{fld}})
	}
	if len(out) == 0 {
		out = listHelperLoops(f)
	}
	return out
}

func checkC19Enforcement(c *Ctx) {
	r := c.R
	const lib = "pkg/station/lib"
	checkPolicyListWriters(c, "C19.6")
	// ---- C19.4 every accepted entry is recorded and consulted
	r.Rule("C19.4", "every parsed list entry is stored in the enforced list; decisions examine every entry; shipped configurations parse", 12)
	if f := c.fn("C19.4", lib, "RegConfig", "ParseBlocklists"); f != nil {
		parsers := map[string]bool{"net.ParseCIDR": true, "regexp.Compile": true, "regexp.CompilePOSIX": true, "net/netip.ParsePrefix": true}
		isParse := func(in ssa.Instruction) bool {
			cl, ok := in.(*ssa.Call)
			return ok && parsers[calleeName(&cl.Call)]
		}
		n := 0
		// a same-package helper that parses a whole list into the slice a pointer parameter refers to: inside it every
		// parsed entry is appended to *param unconditionally; at each call the pointer is the address of an enforced list
		eachInstr(f, func(in ssa.Instruction) {
			call, ok := in.(*ssa.Call)
			if !ok {
				return
			}
			h := helperCallee(f, &call.Call)
			if h == nil {
				return
			}
			pi := -1
			okHelper := true
			nParse := 0
			eachInstr(h, func(in2 ssa.Instruction) {
				pc, ok := in2.(*ssa.Call)
				if !ok || !parsers[calleeName(&pc.Call)] {
					return
				}
				nParse++
				cp := pathOf(pc)
				records := map[ssa.Instruction]bool{}
				eachInstr(h, func(in3 ssa.Instruction) {
					st, ok := in3.(*ssa.Store)
					if !ok {
						return
					}
					prm, isP := st.Addr.(*ssa.Parameter)
					if !isP {
						return
					}
					if strings.HasPrefix(pathOf(st.Val), "append("+pname(prm)+", ["+cp+"#") || strings.HasPrefix(pathOf(st.Val), "append(*"+pname(prm)+", ["+cp+"#") {
						records[in3] = true
						for i, p := range h.Params {
							if p == prm {
								pi = i
							}
						}
					}
				})
				errEdges := edgesEstablishing(h, atomMatcher(errAtoms(pc, false)...))
				if hit, _ := reach(h, pc, func(in3 ssa.Instruction) bool {
					if _, isR := in3.(*ssa.Return); isR {
						return true
					}
					return isParse(in3)
				}, inSet(records), errEdges); hit || len(records) == 0 {
					okHelper = false
				}
			})
			if nParse == 0 {
				return
			}
			n++
			field := ""
			if pi >= 0 && pi < len(call.Call.Args) {
				if o, fld, ok := fieldOwner(call.Call.Args[pi]); ok && o == "lib.RegConfig" && c19Lists[fld] {
					field = fld
				}
			}
			r.Check(okHelper && field != "", "C19.4", "ParseBlocklists: "+h.Name()+" records every parsed entry in the enforced list it is given", call.Pos(), fnName(f), "helper appends each parsed entry to *param; argument is &c."+field,
				"a list is parsed by a helper that does not append every accepted entry to the slice it was given, or the slice it is given is not one of the enforced lists: the configuration is accepted but an entry is not enforced")
		})
		eachInstr(f, func(in ssa.Instruction) {
			call, ok := in.(*ssa.Call)
			if !ok || !parsers[calleeName(&call.Call)] {
				return
			}
			n++
			cp := pathOf(call)
			src := pathOf(call.Call.Args[0])
			if i := strings.IndexAny(src, "[("); i > 0 {
				src = src[:i] + "…"
			}
			records := map[ssa.Instruction]bool{}
			eachInstr(f, func(in2 ssa.Instruction) {
				st, ok := in2.(*ssa.Store)
				if !ok {
					return
				}
				o, fld, ok := fieldOwner(st.Addr)
				if !ok || o != "lib.RegConfig" || !c19Lists[fld] {
					return
				}
				ap := pathOf(st.Addr)
				vp := pathOf(st.Val)
				if strings.HasPrefix(vp, "append("+ap+", ["+cp+"#") {
					records[in2] = true
					return
				}
				if hc, ok := stripConv(st.Val).(*ssa.Call); ok {
					if h := hc.Call.StaticCallee(); h != nil && isRepoPath(fnPkgPath(h)) && len(hc.Call.Args) == 2 &&
						pathOf(hc.Call.Args[0]) == ap && strings.HasPrefix(pathOf(hc.Call.Args[1]), cp+"#") && alwaysAppends(h) {
						records[in2] = true
					}
				}
			})
			errEdges := edgesEstablishing(f, atomMatcher(errAtoms(call, false)...))
			hit, w := reach(f, call, func(in2 ssa.Instruction) bool {
				if _, isR := in2.(*ssa.Return); isR {
					return true
				}
				return isParse(in2)
			}, inSet(records), errEdges)
			if hit {
				r.Bad("C19.4", "ParseBlocklists: an entry parsed from "+src+" may not be stored", call.Pos(), fnName(f),
					"after "+shortName(calleeName(&call.Call))+" accepted an entry there is a path to the next entry (or the return) that does not append that entry to its enforced list unconditionally: the configuration is accepted but the entry is not enforced", r.blockPath(f, w)...)
			} else {
				r.OK("C19.4", "ParseBlocklists: every entry parsed from "+src+" is appended to its list", call.Pos(), fmt.Sprintf("%d recording store(s) on every success path", len(records)))
			}
		})
		if n < 4 {
			r.Unk("C19.4", "ParseBlocklists: parse calls", f.Pos(), fnName(f), fmt.Sprintf("found %d parse calls, expected >= 4", n))
		}
	}
	// decisions: every loop over a parsed list examines every entry
	matchers := map[string]bool{"(*net.IPNet).Contains": true, "(*regexp.Regexp).MatchString": true, "(*regexp.Regexp).Match": true, "(net/netip.Prefix).Contains": true}
	nLoops := 0
	seenList := map[string]bool{}
	for _, f := range c.funcsOfPkgs(lib) {
		if f.Name() == "ParseBlocklists" {
			continue
		}
		loops := listLoops(f)
		if len(loops) == 0 {
			continue
		}
		headers := map[ssa.Instruction]bool{}
		for _, l := range loops {
			headers[l.header.Instrs[0]] = true
		}
		for _, l := range loops {
			nLoops += len(l.fields)
			for _, fld := range l.fields {
				seenList[fld] = true
			}
			isMatch := func(in ssa.Instruction) bool {
				cl, ok := in.(*ssa.Call)
				if !ok || !matchers[calleeName(&cl.Call)] {
					return false
				}
				if l.elemIsPfx {
					return strings.HasPrefix(pathOf(recvOf(&cl.Call)), l.elem)
				}
				return strings.Contains(pathOf(recvOf(&cl.Call)), l.elem)
			}
			matchCalls := map[ssa.Instruction]bool{}
			matchTrue := map[edge]bool{}
			eachInstr(f, func(in ssa.Instruction) {
				if isMatch(in) {
					matchCalls[in] = true
				}
			})
			for _, b := range f.Blocks {
				iff, ok := b.Instrs[len(b.Instrs)-1].(*ssa.If)
				if !ok {
					continue
				}
				cond, neg := iff.Cond, false
				for {
					if u, ok := cond.(*ssa.UnOp); ok && u.Op == token.NOT {
						cond, neg = u.X, !neg
						continue
					}
					break
				}
				if ci, ok := cond.(ssa.Instruction); ok && matchCalls[ci] {
					slot := 0
					if neg {
						slot = 1
					}
					matchTrue[edge{b.Index, slot, 0}] = true
				}
			}
			label := fnName(f) + ": loop over " + l.field
			if len(matchCalls) == 0 {
				r.Unk("C19.4", label, l.header.Instrs[0].Pos(), fnName(f), "no Contains/MatchString call on the loop element found")
				continue
			}
			// (a) next iteration only after testing this entry
			hitA, wA := reachAt(f, l.body, func(in ssa.Instruction) bool { return in == l.header.Instrs[0] }, inSet(matchCalls), nil)
			// (b) leaving the loop early only on a match
			blockH := map[ssa.Instruction]bool{l.header.Instrs[0]: true}
			hitB, wB := reachAt(f, l.body, func(in ssa.Instruction) bool {
				if _, isR := in.(*ssa.Return); isR {
					return true
				}
				return in.Block() == l.done
			}, inSet(blockH), matchTrue)
			for _, fld := range l.fields {
				label := fnName(f) + ": loop over " + fld
				switch {
				case hitA:
					r.Bad("C19.4", label+" can skip an entry", l.header.Instrs[0].Pos(), fnName(f), "an iteration can continue to the next entry without testing the current one: that accepted entry is not enforced", r.blockPath(f, wA)...)
				case hitB:
					r.Bad("C19.4", label+" can stop before the last entry without a match", l.header.Instrs[0].Pos(), fnName(f), "the loop can be left (break / return) on a non-matching entry: the entries after it are not enforced", r.blockPath(f, wB)...)
				default:
					r.OK("C19.4", label+" tests every entry until one matches", l.header.Instrs[0].Pos(), fmt.Sprintf("%d match call(s); early exit only on a match", len(matchCalls)))
				}
			}
		}
		// (c) a permissive answer is never given without consulting a list
		hitC, wC := reach(f, nil, func(in ssa.Instruction) bool {
			ret, ok := in.(*ssa.Return)
			if !ok || len(ret.Results) != 1 {
				return false
			}
			cst, isC := returnedValue(ret, 0, nil).(*ssa.Const)
			return isC && cst.Value != nil && cst.Value.String() == "false"
		}, inSet(headers), nil)
		if hitC {
			r.Bad("C19.4", fnName(f)+": answers 'not blocked' without consulting its list", f.Pos(), fnName(f), "a path returns false (allowed) without entering any loop over the enforced lists", r.blockPath(f, wC)...)
		} else {
			r.OK("C19.4", fnName(f)+": 'not blocked' only after the list was examined", f.Pos(), "every return false passes a list loop header")
		}
	}
	for l := range c19Lists {
		if !seenList[l] {
			r.Bad("C19.4", "list "+l+" is never consulted", token.NoPos, l, "no decision function iterates over RegConfig."+l+": its accepted entries are not enforced")
		}
	}
	// shipped configurations: every list entry parses (constant data, evaluated with the parsers' own grammar)
	for _, rel := range []string{"cmd/application/app_config.toml", "simulation/phantombox/config/application/config.toml"} {
		b, err := c.readRepoFile(rel)
		if err != nil {
			if rel == "cmd/application/app_config.toml" {
				r.Unk("C19.4", rel, token.NoPos, rel, "cannot read the shipped configuration: "+err.Error())
			}
			continue
		}
		bad := badListEntries(string(b))
		if len(bad) == 0 {
			r.OK("C19.4", rel+": every block/allow-list entry parses", token.NoPos, "all string entries of the four list keys accepted by net.ParseCIDR / regexp.Compile")
		}
		for _, e := range bad {
			r.Bad("C19.4", rel+": entry "+e+" does not parse", token.NoPos, rel, "the shipped configuration contains a list entry its own parser rejects: the station refuses the shipped file (or, if errors are dropped, never enforces the entry)")
		}
	}

	// ---- C19.7 both configured lists stand between every covert and its admission
	r.Rule("C19.7", "every admitted covert passed the subnet lists and the domain patterns", 2)
	checkCovertGuard(c, "C19.7", true)

	// ---- C19.8 the phantom blocklist is enforced for every registration source
	r.Rule("C19.8", "the phantom blocklist is applied to every source except the local detector", 1)
	checkPhantomBlocklistAllSources(c, "C19.8")

	// ---- C19.9 a reload does not remove tracked registrations: the expiry sweep's removal uses the record it looked up
	// without a found-test, which is safe only while the sweep is the one remover
	r.Rule("C19.9", "the reload path deletes nothing from the registration tables", 1)
	if f := c.fn("C19.9", lib, "RegistrationManager", "OnReload"); f != nil {
		var bad []string
		var pos token.Pos = f.Pos()
		for _, g := range staticClosure([]*ssa.Function{f}, func(h *ssa.Function) bool { return fnPkgPath(h) == repoMod+"/"+lib }) {
			eachInstr(g, func(in ssa.Instruction) {
				call, ok := in.(*ssa.Call)
				if !ok {
					return
				}
				if b, isB := call.Call.Value.(*ssa.Builtin); isB && b.Name() == "delete" {
					mp := pathOf(call.Call.Args[0])
					if strings.HasSuffix(mp, ".decoysTimeouts") || strings.Contains(mp, ".decoys[") || strings.HasSuffix(mp, ".decoys") {
						bad = append(bad, fnName(g)+": delete from "+firstN(mp, 30))
						pos = in.Pos()
					}
				}
			})
		}
		sort.Strings(bad)
		r.Check(len(bad) == 0, "C19.9", "OnReload: no removal of tracked registrations", pos, fnName(f), "no delete on the registration tables reachable from OnReload",
			"the reload path removes tracked registrations ("+firstN(strings.Join(bad, "; "), 160)+"): the expiry sweep collects expired records and removes them in a second phase without re-checking that they still exist, so a reload that coincides with the sweep removes a record twice and the second removal dereferences a nil record - housekeeping panics")
	}

	// ---- C19.5 lock discipline of the reload and decision path
	r.Rule("C19.5", "reload and policy decisions release every lock they take", 1)
	var fns []*ssa.Function
	for _, f := range c.funcsOfPkgs(lib) {
		rc := f.Signature.Recv()
		if rc != nil && (typeShort(rc.Type()) == "lib.RegConfig" || typeShort(rc.Type()) == "*lib.RegConfig") || f.Name() == "OnReload" || f.Name() == "ParseConfig" {
			fns = append(fns, f)
		}
	}
	before := len(r.Obligations)
	checkLockLeaks(r, "C19.5", fns)
	if len(r.Obligations) == before {
		r.OK("C19.5", "reload / policy functions take no locks", token.NoPos, fmt.Sprintf("%d function(s) examined", len(fns)))
	}
}

// badListEntries extracts the string arrays of the four list keys from a TOML text and returns the entries their parser rejects.
func badListEntries(s string) []string {
	var bad []string
	for _, key := range []string{"covert_blocklist_subnets", "phantom_blocklist", "covert_allowlist_subnets", "covert_blocklist_domains"} {
		for _, ent := range tomlStringArray(s, key) {
			var err error
			if strings.HasSuffix(key, "domains") {
				_, err = regexp.Compile(ent)
			} else {
				_, _, err = net.ParseCIDR(ent)
			}
			if err != nil {
				bad = append(bad, fmt.Sprintf("%s %q", key, ent))
			}
		}
	}
	return bad
}

// tomlStringArray returns the basic-string elements of `key = [ ... ]` (uncommented occurrences only).
func tomlStringArray(s, key string) []string {
	var out []string
	lines := strings.Split(s, "\n")
	for i := 0; i < len(lines); i++ {
		t := strings.TrimSpace(lines[i])
		if !strings.HasPrefix(t, key) {
			continue
		}
		rest := strings.TrimSpace(strings.TrimPrefix(t, key))
		if !strings.HasPrefix(rest, "=") {
			continue
		}
		// scan from the '[' to the matching ']' across lines, honouring strings and comments
		text := rest[1:] + "\n" + strings.Join(lines[i+1:], "\n")
		inStr, esc, started := false, false, false
		var cur strings.Builder
	scan:
		for j := 0; j < len(text); j++ {
			ch := text[j]
			switch {
			case inStr:
				if esc {
					switch ch {
					case 'n':
						cur.WriteByte('\n')
					case 't':
						cur.WriteByte('\t')
					default:
						cur.WriteByte(ch)
					}
					esc = false
				} else if ch == '\\' {
					esc = true
				} else if ch == '"' {
					inStr = false
					out = append(out, cur.String())
					cur.Reset()
				} else {
					cur.WriteByte(ch)
				}
			case ch == '#':
				for j < len(text) && text[j] != '\n' {
					j++
				}
			case ch == '[':
				started = true
			case ch == ']':
				break scan
			case ch == '"' && started:
				inStr = true
			}
		}
	}
	return out
}

func inSet(m map[ssa.Instruction]bool) func(ssa.Instruction) bool {
	return func(in ssa.Instruction) bool { return m[in] }
}

// mutatesReceiver: the method stores into a field of its receiver.
func mutatesReceiver(m *ssa.Function) bool {
	if m == nil || m.Blocks == nil || len(m.Params) == 0 {
		return false
	}
	found := false
	eachInstr(m, func(in ssa.Instruction) {
		if st, ok := in.(*ssa.Store); ok {
			if fa, ok := st.Addr.(*ssa.FieldAddr); ok && fa.X == ssa.Value(m.Params[0]) {
				found = true
			}
		}
	})
	return found
}

// errNames: the renderings under which the error result of call appears in conditions (its extract, and the local
// it is stored into).
func errNames(call *ssa.Call) []string {
	var out []string
	for _, a := range errAtoms(call, true) {
		// atoms look like "(nil == X)" or "(X == nil)"
		c := strings.TrimSuffix(strings.TrimPrefix(a.Cond, "("), ")")
		for _, part := range strings.Split(c, " == ") {
			if part != "nil" {
				out = append(out, part)
			}
		}
	}
	return out
}

// checkPolicyListWriters: the enforced policy lists only ever grow during a parse - every store to one of them is a
// reset to the empty list, an append of one entry to the same list (directly, through a recording helper, or through
// a pointer handed to a list-parsing helper), or the take-over of the same-named field of another configuration
// (OnReload). Anything else - filtering, de-duplication, "compaction", truncation - can drop an entry that the load
// accepted. Shared by C19.4 and C06.7.
func checkPolicyListWriters(c *Ctx, rule string) {
	r := c.R
	r.Rule(rule, "the enforced policy lists are only reset, appended to entry by entry, or taken over field by field", 4)
	n := 0
	for _, f := range c.funcsOfPkgs("pkg/station/lib") {
		eachInstr(f, func(in ssa.Instruction) {
			st, ok := in.(*ssa.Store)
			if !ok {
				return
			}
			o, fld, ok := fieldOwner(st.Addr)
			if !ok || o != "lib.RegConfig" || !c19Lists[fld] {
				return
			}
			n++
			ap := pathOf(st.Addr)
			vp := pathOf(st.Val)
			okk := false
			how := ""
			switch x := stripConv(st.Val).(type) {
			case *ssa.Slice:
				// the empty literal []T{}: a slice of a zero-length array
				if al, isAl := x.X.(*ssa.Alloc); isAl {
					if p, isP := al.Type().Underlying().(*types.Pointer); isP {
						if arr, isArr := p.Elem().Underlying().(*types.Array); isArr && arr.Len() == 0 {
							okk, how = true, "reset to the empty list"
						}
					}
				}
			case *ssa.Const:
				okk, how = x.Value == nil, "reset to nil"
			case *ssa.MakeSlice:
				if cv, isC := constOf(x.Len); isC && cv.String() == "0" {
					okk, how = true, "reset to an empty list"
				}
			case *ssa.Call:
				if b, isB := x.Call.Value.(*ssa.Builtin); isB && b.Name() == "append" {
					// append(<same list>, <one entry>)
					if len(x.Call.Args) == 2 && pathOf(x.Call.Args[0]) == ap {
						if els, isVar := varargElems(x.Call.Args[1]); isVar && len(els) == 1 {
							okk, how = true, "append of one entry to the same list"
						}
					}
				} else if h := x.Call.StaticCallee(); h != nil && isRepoPath(fnPkgPath(h)) && len(x.Call.Args) == 2 && pathOf(x.Call.Args[0]) == ap && alwaysAppends(h) {
					okk, how = true, "recording helper that always appends"
				}
			case *ssa.UnOp:
				// take-over of the same-named field of another configuration object
				if o2, fld2, ok2 := fieldOwner(x.X); ok2 && o2 == "lib.RegConfig" && fld2 == fld && pathOf(x.X) != ap {
					okk, how = true, "taken over from "+firstN(pathOf(x.X), 40)
				}
			}
			r.Check(okk, rule, fnName(f)+": "+fld+" <- "+firstN(vp, 50), st.Pos(), fnName(f), how,
				"the enforced list "+fld+" is rewritten from "+firstN(vp, 60)+": a step that filters, merges or compacts the list after the entries were parsed can drop an entry of an accepted configuration (a wider subnet listed after a narrower one, a duplicate with another mask), which is then not enforced")
		})
	}
	if n == 0 {
		r.Unk(rule, "stores to the enforced lists", token.NoPos, "", "none found")
	}
}

// checkGeoIPReplaced (C19.2, C03.14): the GeoIP database of the registration manager is an interface the connection
// handler and the ingest workers call without a nil test. It is (re)placed only by what geoip.New returned when the
// open did not fail: on the edge "err != nil and not ErrMissingDB" the result is nil, and storing it makes the next
// connection (or registration) panic the station.
func checkGeoIPReplaced(c *Ctx, rule string) {
	r := c.R
	n := 0
	for _, f := range c.funcsOfPkgs("pkg/station/lib") {
		for _, st := range fieldStores(f, "lib.RegistrationManager", "GeoIP") {
			n++
			src := stripConv(st.Val)
			ex, _ := src.(*ssa.Extract)
			var call *ssa.Call
			if ex != nil && ex.Index == 0 {
				call, _ = ex.Tuple.(*ssa.Call)
			}
			if call == nil {
				if al, isAlloc := src.(*ssa.Alloc); isAlloc || src == nil {
					_ = al
				}
				if _, isMk := st.Val.(*ssa.MakeInterface); isMk {
					// a concrete database value built in place (never nil)
					r.OK(rule, fnName(f)+": RegistrationManager.GeoIP <- a database value", st.Pos(), pathOf(st.Val))
					continue
				}
				r.Unk(rule, fnName(f)+": source of RegistrationManager.GeoIP", st.Pos(), fnName(f), "not the first result of a call: "+firstN(pathOf(st.Val), 60))
				continue
			}
			name := calleeName(&call.Call)
			if !strings.HasSuffix(name, "geoip.New") && helperCallee(f, &call.Call) == nil {
				r.Unk(rule, fnName(f)+": source of RegistrationManager.GeoIP", st.Pos(), fnName(f), "unknown opener "+shortName(name))
				continue
			}
			// edges on which the open is known not to have failed: err == nil, or errors.Is(err, ErrMissingDB)
			isNil := atomMatcher(errAtoms(call, true)...)
			blocked := edgesEstablishing(f, func(cond string, pol bool) bool {
				if isNil(cond, pol) {
					return true
				}
				return pol && strings.Contains(cond, "errors.Is(") && strings.Contains(cond, "ErrMissingDB")
			})
			hit, w := reachFrom(f, call, nil, isInstr(st), nil, blocked)
			if hit {
				r.Bad(rule, fnName(f)+": RegistrationManager.GeoIP replaced only if the database opened", st.Pos(), fnName(f),
					"the manager's GeoIP database is replaced by the result of "+shortName(name)+" on a path where the open failed (err != nil and not ErrMissingDB): the result is nil there, and the next connection handler or ingest worker that asks it for a country / AS number panics the station - every pending unauthenticated connection is closed at once", r.blockPath(f, w)...)
			} else {
				r.OK(rule, fnName(f)+": RegistrationManager.GeoIP replaced only if the database opened", st.Pos(), "store unreachable from "+shortName(name)+" once the err == nil and errors.Is(err, ErrMissingDB) edges are removed")
			}
		}
	}
	if n == 0 {
		r.Unk(rule, "writers of RegistrationManager.GeoIP", token.NoPos, "", "no store found")
	}
}

// unconditional: `in` is executed on every run of f that does not panic: it is reached from the entry whatever way
// every branch goes.
func unconditional(f *ssa.Function, in ssa.Instruction) bool {
	return reachGame(f, in, func(bl *ssa.BasicBlock) int {
		if hit, _ := reachAt(f, bl, isInstr(in), nil, nil); !hit {
			return gameAny
		}
		return gameAll
	})
}

// checkReloadTakeover (C19.2, C06.9): OnReload installs the parsed lists of the NEW configuration field by field - all of
// them, each from the field of the same name, on every path - and does not re-parse into the live object.
func checkReloadTakeover(c *Ctx, rule string) {
	r := c.R
	if f := c.fn(rule, "pkg/station/lib", "RegistrationManager", "OnReload"); f != nil && len(f.Params) == 2 {
		need := map[string]bool{"covertBlocklistSubnets": false, "covertBlocklistDomains": false, "phantomBlocklist": false, "covertAllowlistSubnets": false, "enableCovertAllowlist": false}
		newCfg := P(f, 1)
		var conditional []string
		eachInstr(f, func(in ssa.Instruction) {
			switch x := in.(type) {
			case *ssa.Store:
				o, fld, ok := fieldOwner(x.Addr)
				if !ok || o != "lib.RegConfig" {
					return
				}
				if _, tracked := need[fld]; !tracked {
					return
				}
				vp := pathOf(x.Val)
				if vp == newCfg+"."+fld {
					need[fld] = true
					if !unconditional(f, x) {
						conditional = append(conditional, fld)
					}
				} else {
					r.Bad(rule, "OnReload: RegConfig."+fld+" <- "+firstN(vp, 50), x.Pos(), fnName(f), "the live policy field "+fld+" is set from "+firstN(vp, 60)+" instead of the same field of the configuration that just loaded")
				}
			case ssa.CallInstruction:
				if cal := x.Common().StaticCallee(); cal != nil && cal.Signature.Recv() != nil && strings.HasSuffix(typeShort(cal.Signature.Recv().Type()), "lib.RegConfig") {
					// a copy helper: a method that only assigns fields of its receiver from the same-named fields of
					// its one RegConfig parameter (straight-line, no calls) and is handed the new configuration - its
					// assignments are OnReload's
					if len(cal.Params) == 2 && len(x.Common().Args) == 2 && pathOf(x.Common().Args[1]) == newCfg && len(cal.Blocks) == 1 {
						pure, src := true, pname(cal.Params[1])
						var copied []string
						eachInstr(cal, func(in2 ssa.Instruction) {
							switch y := in2.(type) {
							case ssa.CallInstruction:
								pure = false
							case *ssa.Store:
								o, fld, ok := fieldOwner(y.Addr)
								fa, isFA := y.Addr.(*ssa.FieldAddr)
								if !ok || o != "lib.RegConfig" || !isFA || fa.X != ssa.Value(cal.Params[0]) || pathOf(y.Val) != src+"."+fld {
									pure = false
									return
								}
								copied = append(copied, fld)
							}
						})
						if pure && len(copied) > 0 {
							for _, fld := range copied {
								if _, tracked := need[fld]; tracked {
									need[fld] = true
									if !unconditional(f, in) {
										conditional = append(conditional, fld)
									}
								}
							}
							return
						}
					}
					rv := recvOf(x.Common())
					if rv != nil && strings.HasSuffix(pathOf(rv), ".RegConfig") && !strings.HasPrefix(pathOf(rv), newCfg) && mutatesReceiver(cal) {
						r.Bad(rule, "OnReload: calls "+cal.Name()+" on the live configuration", in.Pos(), fnName(f),
							"OnReload runs "+cal.Name()+", which rewrites the live policy object in place: while it runs the lists are empty or half rebuilt for the ingest workers, a failure leaves a mixture in force, and state that the parser only ever switches on (the allowlist flag) survives a reload that removed it")
					}
				}
			}
		})
		var missing []string
		for fld, ok := range need {
			if !ok {
				missing = append(missing, fld)
			}
		}
		sort.Strings(missing)
		r.Check(len(missing) == 0, rule, "OnReload: every parsed policy field is taken over from the new configuration", f.Pos(), fnName(f), "5 fields, each from the field of the same name",
			"OnReload does not install "+strings.Join(missing, ", ")+" from the new configuration: after a reload the policy in force is neither the new nor the previous version (e.g. allowlist mode stays on with an empty list and every covert is refused)")
		sort.Strings(conditional)
		r.Check(len(conditional) == 0, rule, "OnReload: the parsed policy fields are taken over on every path", f.Pos(), fnName(f), "each take-over is reached whatever any condition says",
			"OnReload installs "+strings.Join(uniq(conditional), ", ")+" only under a condition: the parsed lists also depend on settings the condition does not look at (the interface subnets added under covert_blocklist_public_addrs, the allowlist switch), so a reload can leave a list in force that belongs to neither the new nor a consistent old configuration")
	}

}
