package main

import (
	"fmt"
	"go/token"
	"strings"

	"golang.org/x/tools/go/ssa"
)

func init() {
	register("C20", &propCheck{Run: checkC20,
		Explain: "C20.1 who-may-write: every file-creating call in pkg/client/assets targets a name with a fresh random temporary component; the final ClientConf name only appears as the destination of os.Rename; " +
			"C20.2 in saveClientConf the write happens only after a successful Marshal, Rename only after a successful write, the renamed file is the one written, source and destination are joined onto the same directory value; " +
			"C20.3 SetClientConf stores the previous pointer (loaded before the assignment) back on the error edge of the save; " +
			"C20.4 every function that stores to the in-memory config holds the write lock at the store and passes saveClientConf on every path to its return. " +
			"With POSIX rename atomicity (assumed) these are the necessary and sufficient code-shape conditions for 'old or new file, never a mixture' at every crash point.",
		Assume: []string{"os.Rename within one directory is atomic (POSIX)", "os.WriteFile either writes the temporary file or returns an error"}})
}

func checkC20(c *Ctx) {
	r := c.R
	const pkg = "pkg/client/assets"
	fns := c.funcsOfPkgs(pkg)

	checkC20Reported(c, fns)
	r.Rule("C20.1", "files are only created under a fresh temporary name; the final name is only a Rename destination", 1)
	creators := map[string]int{"os.WriteFile": 0, "os.Create": 0, "os.OpenFile": 0, "io/ioutil.WriteFile": 0, "os.CreateTemp": 0}
	nCreate, nRename := 0, 0
	// namesOf: the file name a call receives; a name that is a parameter of an (unexported) helper is replaced by
	// what the helper's call sites in this package pass
	var namesOf func(f *ssa.Function, v ssa.Value, depth int) []string
	namesOf = func(f *ssa.Function, v ssa.Value, depth int) []string {
		if hv, hf := structHelperField(f, v); hv != nil && depth <= 2 {
			return namesOf(hf, hv, depth+1)
		}
		prm, ok := v.(*ssa.Parameter)
		if !ok || depth > 2 {
			return []string{pathOf(v)}
		}
		idx := -1
		for i, q := range f.Params {
			if q == prm {
				idx = i
			}
		}
		var out []string
		for _, g := range fns {
			eachInstr(g, func(in ssa.Instruction) {
				if ci, ok := in.(ssa.CallInstruction); ok && ci.Common().StaticCallee() == f && idx >= 0 && idx < len(ci.Common().Args) {
					out = append(out, namesOf(g, ci.Common().Args[idx], depth+1)...)
				}
			})
		}
		if len(out) == 0 {
			return []string{pathOf(v)}
		}
		return out
	}
	allFresh := func(names []string) bool {
		for _, p := range names {
			if !strings.Contains(p, "getRandString(") {
				return false
			}
		}
		return len(names) > 0
	}
	for _, f := range fns {
		eachInstr(f, func(in ssa.Instruction) {
			call, ok := in.(*ssa.Call)
			if !ok {
				return
			}
			n := calleeName(&call.Call)
			if _, isCreator := creators[n]; isCreator {
				if n == "os.OpenFile" {
					// read-only opens are fine
					if cv, ok := constOf(call.Call.Args[1]); ok && cv.String() == "0" {
						return
					}
				}
				nCreate++
				names := namesOf(f, call.Call.Args[0], 0)
				p := strings.Join(names, " | ")
				fresh := allFresh(names) || n == "os.CreateTemp"
				r.Check(fresh, "C20.1", fnName(f)+": "+n+" writes a freshly named temporary file", call.Pos(), fnName(f), firstN(p, 120),
					"a file is created/truncated under a name without a fresh random component ("+firstN(p, 80)+"): a crash or write failure in the middle leaves the ClientConf truncated or mixed, or two writers share a temporary file")
			}
			if n == "os.Rename" {
				nRename++
			}
			if n == "os.Remove" || n == "os.RemoveAll" || n == "os.Truncate" {
				names := namesOf(f, call.Call.Args[0], 0)
				p := strings.Join(names, " | ")
				r.Check(allFresh(names), "C20.1", fnName(f)+": "+n+" only on temporary files", call.Pos(), fnName(f), firstN(p, 100),
					n+" is applied to "+firstN(p, 80)+", a name without the fresh temporary component: if this is the ClientConf's final name there is a window (and every later failure) in which no complete configuration file exists on disk")
			}
		})
	}
	if nCreate == 0 {
		r.Unk("C20.1", "file-creating calls in assets", token.NoPos, "", "none found")
	}

	r.Rule("C20.2", "saveClientConf: marshal ok -> write temp ok -> rename temp to final in the same directory", 4)
	if f := c.fn("C20.2", pkg, "assets", "saveClientConf"); f != nil {
		var wr, rn, ms *ssa.Call
		eachInstr(f, func(in ssa.Instruction) {
			if call, ok := in.(*ssa.Call); ok {
				if cal := call.Call.StaticCallee(); cal != nil && cal.Blocks != nil && isRepoPath(fnPkgPath(cal)) && wr == nil {
					// a helper that creates the file named by its first parameter and reports one error
					creates := false
					eachInstr(cal, func(in2 ssa.Instruction) {
						if c2, ok := in2.(*ssa.Call); ok {
							if _, isC := creators[calleeName(&c2.Call)]; isC && len(cal.Params) > 0 && c2.Call.Args[0] == ssa.Value(cal.Params[0]) {
								creates = true
							}
						}
					})
					if creates && cal.Signature.Results().Len() == 1 {
						wr = call
					}
				}
				switch calleeName(&call.Call) {
				case "os.WriteFile", "io/ioutil.WriteFile":
					wr = call
				case "os.Rename":
					rn = call
				case "google.golang.org/protobuf/proto.Marshal":
					ms = call
				case "(google.golang.org/protobuf/proto.MarshalOptions).Marshal":
					ms = call
					// the options must keep the check the loader makes too: a message that lacks required fields is
					// refused by Unmarshal, so it must be refused here (AllowPartial left false)
					partial := ""
					scan := func(g *ssa.Function) {
						if g == nil {
							return
						}
						eachInstr(g, func(in2 ssa.Instruction) {
							st, ok := in2.(*ssa.Store)
							if !ok {
								return
							}
							if o, fld, ok := fieldOwner(st.Addr); ok && o == "proto.MarshalOptions" && fld == "AllowPartial" {
								if cv, isC := constOf(st.Val); !isC || cv.String() != "false" {
									partial = fnName(g)
								}
							}
						})
					}
					for _, g := range fns {
						scan(g)
					}
					if f.Package() != nil {
						scan(f.Package().Func("init"))
					}
					r.Check(partial == "", "C20.2", "saveClientConf: marshals with the required-field check the loader applies", call.Pos(), fnName(f), "MarshalOptions without AllowPartial",
						"the configuration is marshalled with AllowPartial (set in "+partial+"): a ClientConf that lacks required fields is written and renamed into place although the loader's Unmarshal refuses it - the stored file is unparseable and the failed store is reported as a success")
				}
			}
		})
		if ms != nil && (wr == nil || rn == nil) {
			// the file replacement was moved into a helper of the package: the same ordering, read across the call
			wrL, okW := findOneDeep(f, nameIs("os.WriteFile", "io/ioutil.WriteFile"))
			rnL, okR := findOneDeep(f, nameIs("os.Rename"))
			if !okW || !okR || wrL.in != rnL.in {
				r.Unk("C20.2", "saveClientConf: Marshal, WriteFile, Rename", f.Pos(), fnName(f), "expected calls not found")
			} else {
				h := wrL.in
				wrc, rnc := wrL.call.(*ssa.Call), rnL.call.(*ssa.Call)
				g1 := guardedDeep(wrL, Atom{"(" + orderEq(pathOf(ms)+"#1", "nil") + ")", true})
				data := wrL.toRoot(pathOf(wrc.Call.Args[1]))
				r.Check(g1 && marshalsLiveConfig(f, ms) && strings.HasPrefix(data, pathOf(ms)+"#0"), "C20.2", "saveClientConf: writes the marshalled config only after Marshal succeeded", wrc.Pos(), fnName(f), "guarded by Marshal err == nil; data derives from Marshal(a.config)",
					"the temporary file can be written although marshalling failed (or with other data): a truncated/foreign file is then renamed over the ClientConf")
				g2 := guarded(h, rnc, Atom{"(" + orderEq(pathOf(wrc), "nil") + ")", true})
				r.Check(g2, "C20.2", "saveClientConf: Rename only after the write succeeded", rnc.Pos(), fnName(f), "guarded by WriteFile err == nil",
					"the temporary file is renamed over the ClientConf even when writing it failed: a partial file replaces the previous configuration")
				r.Check(pathOf(rnc.Call.Args[0]) == pathOf(wrc.Call.Args[0]), "C20.2", "saveClientConf: the file renamed is the file written", rnc.Pos(), fnName(f), firstN(pathOf(rnc.Call.Args[0]), 80), "Rename's source is not the temporary file that was just written")
				src, dst := pathOf(rnc.Call.Args[0]), pathOf(rnc.Call.Args[1])
				sameDir := joinDirs(h, rnc.Call.Args[0]) != "" && joinDirs(h, rnc.Call.Args[0]) == joinDirs(h, rnc.Call.Args[1])
				r.Check(sameDir && !strings.Contains(dst, "getRandString("), "C20.2", "saveClientConf: temporary and final name are joined onto the same directory; final name is deterministic", rnc.Pos(), fnName(f),
					"dir="+joinDirs(h, rnc.Call.Args[1]), "the temporary file is not created in the directory of the final file ("+firstN(src, 60)+" vs "+firstN(dst, 60)+"): rename across directories/filesystems is not atomic (or fails)")
				// the helper's outcome is the save's outcome
				passThrough := false
				eachInstr(f, func(in ssa.Instruction) {
					if ret, ok := in.(*ssa.Return); ok && len(wrL.chain) > 0 && len(ret.Results) == 1 && stripConv(returnedValue(ret, 0, nil)) == ssa.Value(wrL.chain[0]) {
						passThrough = true
					}
				})
				if !passThrough && len(wrL.chain) > 0 {
					// or tested: every failing edge of the helper call leads to an error return (C20.5 covers the values)
					passThrough = len(edgesEstablishing(f, atomMatcher(errAtoms(wrL.chain[0], false)...))) > 0
				}
				r.Check(passThrough, "C20.2", "saveClientConf: the result of the file replacement is the result of the save", f.Pos(), fnName(f), "returned or tested", "the outcome of the helper that writes and renames the file is dropped")
			}
		} else if wr == nil || rn == nil || ms == nil {
			r.Unk("C20.2", "saveClientConf: Marshal, WriteFile, Rename", f.Pos(), fnName(f), "expected calls not found")
		} else {
			g1 := guarded(f, wr, Atom{"(" + orderEq(pathOf(ms)+"#1", "nil") + ")", true})
			r.Check(g1 && marshalsLiveConfig(f, ms) && dependsOn(wr.Call.Args[1], ms), "C20.2", "saveClientConf: writes the marshalled config only after Marshal succeeded", wr.Pos(), fnName(f), "guarded by Marshal err == nil; data derives from Marshal(a.config)",
				"the temporary file can be written although marshalling failed (or with other data): a truncated/foreign file is then renamed over the ClientConf")
			g2 := guarded(f, rn, Atom{"(" + orderEq(pathOf(wr), "nil") + ")", true})
			r.Check(g2, "C20.2", "saveClientConf: Rename only after the write succeeded", rn.Pos(), fnName(f), "guarded by WriteFile err == nil",
				"the temporary file is renamed over the ClientConf even when writing it failed: a partial file replaces the previous configuration")
			same := pathOf(rn.Call.Args[0]) == pathOf(wr.Call.Args[0])
			r.Check(same, "C20.2", "saveClientConf: the file renamed is the file written", rn.Pos(), fnName(f), firstN(pathOf(rn.Call.Args[0]), 80), "Rename's source is not the temporary file that was just written")
			// same directory: both are path.Join(<dir>, …) with the same first argument; final name has no random component
			dirOf := func(v ssa.Value) string {
				if call, ok := v.(*ssa.Call); ok && (calleeName(&call.Call) == "path.Join" || calleeName(&call.Call) == "path/filepath.Join") {
					// variadic: args packed in a slice literal; path string is enough
					p := pathOf(call)
					if i := strings.Index(p, "("); i >= 0 {
						return p[:i]
					}
				}
				return ""
			}
			_ = dirOf
			src, dst := pathOf(rn.Call.Args[0]), pathOf(rn.Call.Args[1])
			sameDir := joinDirs(f, rn.Call.Args[0]) != "" && joinDirs(f, rn.Call.Args[0]) == joinDirs(f, rn.Call.Args[1])
			r.Check(sameDir && !strings.Contains(dst, "getRandString("), "C20.2", "saveClientConf: temporary and final name are joined onto the same directory; final name is deterministic", rn.Pos(), fnName(f),
				"dir="+joinDirs(f, rn.Call.Args[1]), "the temporary file is not created in the directory of the final file ("+firstN(src, 60)+" vs "+firstN(dst, 60)+"): rename across directories/filesystems is not atomic (or fails)")
		}
	}

	// ---- C20.6 a save that reports success replaced the file: every nil return of saveClientConf lies behind the Rename
	// (directly or in the helper that writes and renames) - there is no "nothing to do" shortcut whose bookkeeping can
	// drift from what is on disk (a digest / dirty flag recorded before the write succeeded makes the retry of a failed
	// store a silent no-op, and the file is then neither the previous nor the new configuration)
	// ---- C20.7 the temporary file is a file of its own: nothing in the package makes a second name for an existing file
	// (a hard link of the live ClientConf shares its inode - the "temporary" write then truncates the live file)
	r.Rule("C20.7", "the assets package never links or symlinks a file", 1)
	{
		nL := 0
		for _, f := range c.funcsOfPkgs(pkg) {
			eachInstr(f, func(in ssa.Instruction) {
				if call, ok := in.(*ssa.Call); ok {
					switch calleeName(&call.Call) {
					case "os.Link", "os.Symlink", "syscall.Link", "syscall.Symlink":
						nL++
						r.Bad("C20.7", fnName(f)+": "+calleeName(&call.Call), in.Pos(), fnName(f), "a second name is made for an existing file: writing the 'temporary' name then writes the live ClientConf in place, and a crash or write failure leaves it truncated")
					}
				}
			})
		}
		if nL == 0 {
			r.OK("C20.7", "no link / symlink call in the assets package", token.NoPos, "scanned")
		}
	}

	r.Rule("C20.6", "saveClientConf reports success only after the rename", 1)
	if f := c.fn("C20.6", pkg, "assets", "saveClientConf"); f != nil {
		rnL, okR := findOneDeep(f, nameIs("os.Rename"))
		if !okR {
			r.Unk("C20.6", "saveClientConf: Rename", f.Pos(), fnName(f), "no os.Rename reachable")
		} else {
			site := rnL.site()
			isOK := func(in ssa.Instruction) bool {
				ret, ok := in.(*ssa.Return)
				if !ok || len(ret.Results) != 1 || ret.Block().Comment == "recover" {
					return false
				}
				v := returnedValue(ret, 0, nil)
				if cst, isC := v.(*ssa.Const); isC {
					return cst.Value == nil
				}
				// the helper's / Rename's own result is returned: that path went through the site
				return false
			}
			skip, w := reach(f, nil, isOK, isInstr(site), nil)
			if skip {
				r.Bad("C20.6", "saveClientConf: a nil return is reachable without the rename", site.Pos(), fnName(f),
					"saveClientConf can report success without having replaced the file (a shortcut for 'unchanged' configurations): whatever it compares with can be out of step with the file - after a failed store the retry is skipped, the caller is told the new configuration is stored, and the file on disk is neither the previous nor the new one", r.blockPath(f, w)...)
			} else {
				r.OK("C20.6", "saveClientConf: every nil return lies behind the rename", site.Pos(), "no constant-nil return reachable from the entry without passing "+instrText(site))
			}
		}
	}

	r.Rule("C20.3", "SetClientConf rolls the in-memory configuration back when the save fails", 1)
	// ... all of it: every field of the assets object that SetClientConf (or a method it calls on the same object)
	// writes before the save is written again on the failure path - state derived from the configuration (an index, a
	// cached view) that is rebuilt for the new configuration must not survive the rollback
	if f := c.fn("C20.3", pkg, "assets", "SetClientConf"); f != nil {
		var save *ssa.Call
		for _, ci := range callsIn(f, shortIs("saveClientConf")) {
			save = ci.(*ssa.Call)
		}
		if save != nil && len(f.Params) > 0 {
			recv := f.Params[0]
			written := func(in ssa.Instruction) []string {
				var out []string
				switch x := in.(type) {
				case *ssa.Store:
					if fa, ok := x.Addr.(*ssa.FieldAddr); ok && fa.X == ssa.Value(recv) {
						out = append(out, fieldName(fa.X.Type(), fa.Field))
					}
				case *ssa.Call:
					if hc := helperCallee(f, &x.Call); hc != nil && hc != save.Call.StaticCallee() && len(x.Call.Args) > 0 && x.Call.Args[0] == ssa.Value(recv) && len(hc.Params) > 0 {
						eachInstr(hc, func(in2 ssa.Instruction) {
							if st, ok := in2.(*ssa.Store); ok {
								if fa, ok := st.Addr.(*ssa.FieldAddr); ok && fa.X == ssa.Value(hc.Params[0]) {
									out = append(out, fieldName(fa.X.Type(), fa.Field))
								}
							}
						})
					}
				}
				return out
			}
			before, after := map[string]bool{}, map[string]bool{}
			eachInstr(f, func(in ssa.Instruction) {
				ws := written(in)
				if len(ws) == 0 {
					return
				}
				if guarded(f, in, errAtoms(save, false)...) {
					for _, w := range ws {
						after[w] = true
					}
					return
				}
				if ok, _ := reach(f, in, isInstr(save), nil, nil); ok {
					for _, w := range ws {
						before[w] = true
					}
				}
			})
			var missing []string
			for w := range before {
				if !after[w] {
					missing = append(missing, w)
				}
			}
			sortStrings(missing)
			r.Check(len(missing) == 0, "C20.3", "SetClientConf: everything written before the save is put back when it fails", save.Pos(), fnName(f), fmt.Sprintf("written before the save: %v; on the failure path: %v", keysOfB(before), keysOfB(after)),
				"the failure path of SetClientConf does not put back "+strings.Join(missing, ", ")+", which was rewritten for the new configuration before the save: after a failed replacement part of the in-memory state (what the decoy getters answer from) still belongs to the configuration that was never stored")
		}
	}
	if f := c.fn("C20.3", pkg, "assets", "SetClientConf"); f != nil {
		stores := fieldStores(f, "assets.assets", "config")
		var save *ssa.Call
		for _, ci := range callsIn(f, shortIs("saveClientConf")) {
			save = ci.(*ssa.Call)
		}
		okRB := false
		if save != nil {
			for _, st := range stores {
				// rollback store: under save error != nil, value is a load of a.config that precedes every other store
				if !guarded(f, st, errAtoms(save, false)...) {
					continue
				}
				ld, ok := st.Val.(*ssa.UnOp)
				if !ok || ld.Op != token.MUL {
					continue
				}
				if o, fld, ok := fieldOwner(ld.X); !ok || o != "assets.assets" || fld != "config" {
					continue
				}
				early := true
				for _, other := range stores {
					if other == st {
						continue
					}
					if ok, _ := reach(f, other, isInstr(ld), nil, nil); ok {
						early = false // the "previous" value was loaded after the assignment
					}
				}
				if early {
					okRB = true
				}
			}
		}
		if okRB && save != nil {
			// and on EVERY error path: from the save, a return is not reachable without the rollback unless the error is nil
			nilEdges := edgesEstablishing(f, atomMatcher(errAtoms(save, true)...))
			isRollback := func(in ssa.Instruction) bool {
				st, ok := in.(*ssa.Store)
				if !ok {
					return false
				}
				o, fld, ok := fieldOwner(st.Addr)
				return ok && o == "assets.assets" && fld == "config"
			}
			if esc, _ := reach(f, save, isReturn, isRollback, nilEdges); esc {
				okRB = false
			}
		}
		// the previous configuration is still intact when it is put back: the new one is installed by replacing the
		// pointer (a.config = conf), never by writing into the message the previous pointer refers to
		if save != nil && len(f.Params) == 2 {
			replaced := false
			for _, st := range stores {
				if st.Val == ssa.Value(f.Params[1]) {
					if skip, _ := reach(f, nil, isInstr(save), isInstr(st), nil); !skip {
						replaced = true
					}
				}
			}
			inPlace := ""
			eachInstr(f, func(in ssa.Instruction) {
				ci, ok := in.(ssa.CallInstruction)
				if !ok {
					return
				}
				for _, a := range ci.Common().Args {
					v := a
					if mi, isMI := v.(*ssa.MakeInterface); isMI {
						v = mi.X
					}
					if ld, isLd := v.(*ssa.UnOp); isLd && ld.Op == token.MUL {
						if o, fld, okf := fieldOwner(ld.X); okf && o == "assets.assets" && fld == "config" {
							// only callees that can write into the message: the protobuf library's mutators and decoders
							// (a repository function that is handed the message to marshal it reads it)
							if cn := calleeName(ci.Common()); strings.HasPrefix(cn, "google.golang.org/protobuf/") && !strings.HasSuffix(cn, "proto.Marshal") && !strings.HasSuffix(cn, "proto.Size") && !strings.HasSuffix(cn, "proto.Equal") && !strings.HasSuffix(cn, "proto.Clone") {
								inPlace = cn
							}
						}
					}
				}
			})
			r.Check(replaced && inPlace == "", "C20.3", "SetClientConf: the new configuration replaces the pointer; the previous message is not written to", f.Pos(), fnName(f), "a.config = conf must-pass before the save; a.config is handed to no call",
				"the live message is rewritten in place ("+inPlace+") instead of being replaced: the pointer kept for the roll-back refers to that same message, so after a failed store the rejected configuration stays in effect in memory")
		}
		r.Check(okRB, "C20.3", "SetClientConf: a.config = previous pointer on the error edge of saveClientConf", f.Pos(), fnName(f), "store guarded by err != nil; value loaded before the assignment; must-pass on every error path",
			"when storing the new ClientConf fails the new configuration stays in effect in memory although the file still holds the previous one")
	}

	r.Rule("C20.4", "every store into the in-memory config is made under the write lock and followed by saveClientConf", 5)
	for _, f := range fns {
		if f.Name() == "saveClientConf" || f.Parent() != nil {
			continue
		}
		var cfgStores []*ssa.Store
		eachInstr(f, func(in ssa.Instruction) {
			st, ok := in.(*ssa.Store)
			if !ok {
				return
			}
			p := pathOf(st.Addr)
			if len(f.Params) > 0 && strings.HasSuffix(typeShort(f.Params[0].Type()), "assets.assets") && (p == pname(f.Params[0])+".config" || strings.HasPrefix(p, pname(f.Params[0])+".config.")) {
				cfgStores = append(cfgStores, st)
			}
		})
		if len(cfgStores) == 0 {
			continue
		}
		if !strings.HasPrefix(f.Name(), "Set") {
			// constructors / loaders initialise the object before it is shared
			continue
		}
		lf := analyseLocks(f, lockSet{})
		isSave := func(in ssa.Instruction) bool {
			call, ok := in.(*ssa.Call)
			return ok && calleeShort(&call.Call) == "saveClientConf"
		}
		okAll := true
		why := ""
		for _, st := range cfgStores {
			held := false
			for k := range realLocks(lf.Must[st]) {
				if strings.HasSuffix(k, "/W") {
					held = true
				}
			}
			if !held {
				okAll, why = false, "store to "+pathOf(st.Addr)+" without the write lock"
			}
			// after the LAST store on each path a save must happen: from this store, a return is not reachable without a save,
			// unless the store is the rollback (guarded by save error)
			if esc, _ := reach(f, st, isReturn, isSave, nil); esc {
				rollback := false
				for _, ci := range callsIn(f, shortIs("saveClientConf")) {
					if guarded(f, st, errAtoms(ci.(*ssa.Call), false)...) {
						rollback = true
					}
				}
				if !rollback {
					okAll, why = false, "a path from the store to "+pathOf(st.Addr)+" returns without saveClientConf"
				}
			}
		}
		r.Check(okAll, "C20.4", fnName(f)+": config stores under the write lock and persisted", f.Pos(), fnName(f), fmt.Sprintf("%d store(s)", len(cfgStores)),
			why+": the in-memory configuration and the file diverge, or concurrent setters interleave their saves")
	}
}

// joinDirs returns the path of the first element joined by path.Join for value v ("" if v is not a Join call).
func joinDirs(f *ssa.Function, v ssa.Value) string {
	if hv, hf := structHelperField(f, v); hv != nil {
		return joinDirs(hf, hv)
	}
	call, ok := v.(*ssa.Call)
	if !ok {
		return ""
	}
	n := calleeName(&call.Call)
	if n != "path.Join" && n != "path/filepath.Join" {
		return ""
	}
	// variadic args: slice of a fresh array; find the store to index 0
	sl, ok := call.Call.Args[0].(*ssa.Slice)
	if !ok {
		return ""
	}
	first := ""
	eachInstr(f, func(in ssa.Instruction) {
		st, ok := in.(*ssa.Store)
		if !ok {
			return
		}
		ia, ok := st.Addr.(*ssa.IndexAddr)
		if !ok || ia.X != sl.X {
			return
		}
		if cv, ok := constOf(ia.Index); ok && cv.String() == "0" {
			first = pathOf(st.Val)
		}
	})
	return first
}

// errAtoms returns the atoms "the error result of call is nil" (isNil) / "is not nil":
// the call value itself, its last tuple element, or a named local it is stored into.
func errAtoms(call *ssa.Call, isNil bool) []Atom {
	var names []string
	names = append(names, pathOf(call))
	if call.Referrers() != nil {
		for _, ref := range *call.Referrers() {
			switch x := ref.(type) {
			case *ssa.Extract:
				names = append(names, pathOf(x))
				if x.Referrers() != nil {
					for _, r2 := range *x.Referrers() {
						if st, ok := r2.(*ssa.Store); ok {
							if a, ok := st.Addr.(*ssa.Alloc); ok && a.Comment != "" {
								names = append(names, a.Comment)
							}
						}
					}
				}
			case *ssa.Store:
				if a, ok := x.Addr.(*ssa.Alloc); ok && a.Comment != "" {
					names = append(names, a.Comment)
				}
			}
		}
	}
	var out []Atom
	for _, n := range names {
		out = append(out, Atom{"(" + orderEq(n, "nil") + ")", isNil})
	}
	return out
}

// checkC20Reported (C20.5): on the save path, a failed marshal / write / sync is reported: from the failing edge of
// such a call no return is reachable whose error result neither derives from that error nor is a freshly built
// non-nil error. (An error that is tested and then overwritten - `_, err = f.Write(b); ...; err = f.Close()` -
// turns a short write into success, and the truncated temporary file is renamed over the ClientConf.)
func checkC20Reported(c *Ctx, fns []*ssa.Function) {
	r := c.R
	r.Rule("C20.5", "a failed marshal / write / sync on the save path is reported to the caller", 2)
	root := c.P.Func(repoMod+"/pkg/client/assets", "assets", "saveClientConf")
	if root == nil || root.Blocks == nil {
		r.Unk("C20.5", "saveClientConf", token.NoPos, "", "anchor not found")
		return
	}
	seen := map[*ssa.Function]bool{}
	var order []*ssa.Function
	var visit func(f *ssa.Function)
	visit = func(f *ssa.Function) {
		if f == nil || seen[f] || f.Blocks == nil || !isRepoPath(fnPkgPath(f)) {
			return
		}
		seen[f] = true
		order = append(order, f)
		eachInstr(f, func(in ssa.Instruction) {
			if ci, ok := in.(ssa.CallInstruction); ok {
				visit(ci.Common().StaticCallee())
			}
		})
	}
	visit(root)
	for _, f := range order {
		if f.Signature.Results().Len() == 0 || !isErrorType(f.Signature.Results().At(f.Signature.Results().Len()-1).Type()) {
			continue
		}
		eidx := f.Signature.Results().Len() - 1
		eachInstr(f, func(in ssa.Instruction) {
			call, ok := in.(*ssa.Call)
			if !ok {
				return
			}
			n := calleeName(&call.Call)
			switch n {
			case "os.Rename", "os.WriteFile", "io/ioutil.WriteFile", "(*os.File).Write", "(*os.File).WriteString", "(*os.File).Sync", "(*os.File).WriteAt", "google.golang.org/protobuf/proto.Marshal", "(*bufio.Writer).Flush", "(*bufio.Writer).Write":
			default:
				return
			}
			// the error result of the call
			var ev ssa.Value
			if isErrorType(call.Type()) {
				ev = call
			} else {
				for _, ex := range extractOf(call, call.Call.Signature().Results().Len()-1) {
					ev = ex
				}
			}
			if ev == nil {
				r.Bad("C20.5", fnName(f)+": error of "+shortName(n)+" is discarded", in.Pos(), fnName(f), "the error result of "+shortName(n)+" is not even read: a failed write is reported as success and the temporary file replaces the ClientConf")
				return
			}
			failEdges := edgesEstablishing(f, atomMatcher(Atom{"(" + orderEq(pathOf(ev), "nil") + ")", false}))
			if len(failEdges) == 0 {
				// returned directly?
				direct := false
				eachInstr(f, func(in2 ssa.Instruction) {
					if ret, ok := in2.(*ssa.Return); ok && eidx < len(ret.Results) && dependsOn(returnedValue(ret, eidx, nil), ev) {
						direct = true
					}
				})
				r.Check(direct, "C20.5", fnName(f)+": error of "+shortName(n)+" is tested or returned", in.Pos(), fnName(f), "returned directly", "the error of "+shortName(n)+" is neither tested nor returned")
				return
			}
			bad := false
			var w []int
			for e := range failEdges {
				succ := f.Blocks[e.from].Succs[e.slot]
				// path-sensitive first: which values can the error result take on the paths from the failing edge
				// (phis resolved by the path taken)? an overwritten error shows up as a different value
				for _, rv := range returnedAlong(f, f.Blocks[e.from], succ, eidx) {
					okv := rv == ev || dependsOnNoPhi(rv, ev)
					if cl, isCall := stripConv(rv).(*ssa.Call); isCall && !okv {
						if cn := calleeName(&cl.Call); cn == "fmt.Errorf" || cn == "errors.New" {
							okv = true
						}
					}
					if mi, isMI := rv.(*ssa.MakeInterface); isMI && !okv {
						_ = mi
						okv = true // a constructed error value
					}
					if g, isLoad := rv.(*ssa.UnOp); isLoad && !okv {
						if _, isGlobal := g.X.(*ssa.Global); isGlobal {
							okv = true // a sentinel error
						}
					}
					if _, isPhi := rv.(*ssa.Phi); isPhi {
						okv = true // unresolved (defined before the failing edge): left to the path-insensitive test below
					}
					if !okv {
						bad = true
						w = []int{e.from, succ.Index}
					}
				}
				hit, ww := reachAt(f, succ, func(in2 ssa.Instruction) bool {
					ret, ok := in2.(*ssa.Return)
					if !ok || eidx >= len(ret.Results) || in2.Block().Comment == "recover" {
						return false
					}
					rv := returnedValue(ret, eidx, nil)
					if dependsOn(rv, ev) {
						return false
					}
					if cl, ok := stripConv(rv).(*ssa.Call); ok {
						if cn := calleeName(&cl.Call); cn == "fmt.Errorf" || cn == "errors.New" {
							return false
						}
					}
					return true
				}, nil, nil)
				if hit {
					bad, w = true, ww
				}
			}
			if bad {
				r.Bad("C20.5", fnName(f)+": a failed "+shortName(n)+" can be reported as success", in.Pos(), fnName(f),
					"after "+shortName(n)+" failed there is a path to a return whose error does not derive from that failure (it was overwritten, e.g. by the result of Close): the caller renames the incomplete temporary file over the ClientConf and keeps the new configuration in memory", r.blockPath(f, w)...)
			} else {
				r.OK("C20.5", fnName(f)+": a failed "+shortName(n)+" is reported", in.Pos(), "every return reachable from its failing edge carries that error")
			}
		})
	}
}

// returnedAlong enumerates the values result #idx can have at the returns reachable from the edge prev->start,
// resolving every phi met on the way by the predecessor actually taken (acyclic paths, bounded).
func returnedAlong(f *ssa.Function, prev, start *ssa.BasicBlock, idx int) []ssa.Value {
	return returnedAlongX(f, prev, start, idx, nil, nil)
}

// returnedAlongX: as returnedAlong, not continuing past an instruction for which blockedI holds nor along an edge
// in blockedE. prev may be nil (start is the entry block).
func returnedAlongX(f *ssa.Function, prev, start *ssa.BasicBlock, idx int, blockedI func(ssa.Instruction) bool, blockedE map[edge]bool) []ssa.Value {
	var out []ssa.Value
	seenOut := map[ssa.Value]bool{}
	steps := 0
	var walk func(b, from *ssa.BasicBlock, choice map[*ssa.Phi]ssa.Value, onPath map[*ssa.BasicBlock]bool)
	resolve := func(v ssa.Value, choice map[*ssa.Phi]ssa.Value) ssa.Value {
		for i := 0; i < 12; i++ {
			ph, ok := v.(*ssa.Phi)
			if !ok {
				return v
			}
			c, ok := choice[ph]
			if !ok {
				return v
			}
			v = c
		}
		return v
	}
	walk = func(b, from *ssa.BasicBlock, choice map[*ssa.Phi]ssa.Value, onPath map[*ssa.BasicBlock]bool) {
		steps++
		if steps > 4000 || onPath[b] {
			return
		}
		onPath[b] = true
		defer delete(onPath, b)
		// phis of b, by the predecessor taken
		var added []*ssa.Phi
		pi := -1
		for i, p := range b.Preds {
			if p == from {
				pi = i
				break
			}
		}
		for _, in := range b.Instrs {
			ph, ok := in.(*ssa.Phi)
			if !ok {
				break
			}
			if pi >= 0 && pi < len(ph.Edges) {
				if _, had := choice[ph]; !had {
					choice[ph] = resolve(ph.Edges[pi], choice)
					added = append(added, ph)
				}
			}
		}
		defer func() {
			for _, ph := range added {
				delete(choice, ph)
			}
		}()
		if blockedI != nil {
			for _, in := range b.Instrs {
				if blockedI(in) {
					return
				}
			}
		}
		if len(b.Instrs) > 0 {
			if ret, ok := b.Instrs[len(b.Instrs)-1].(*ssa.Return); ok && b.Comment != "recover" && idx < len(ret.Results) {
				v := resolve(returnedValue0(ret, idx, from), choice)
				if !seenOut[v] {
					seenOut[v] = true
					out = append(out, v)
				}
				return
			}
		}
		for slot, s := range b.Succs {
			if blockedE != nil && (blockedE[edge{b.Index, slot, 0}] || pi >= 0 && blockedE[edge{b.Index, slot, pi + 1}]) {
				continue
			}
			if pi >= 0 && infeasibleThreaded(b, slot, pi+1) {
				continue
			}
			walk(s, b, choice, onPath)
		}
	}
	walk(start, prev, map[*ssa.Phi]ssa.Value{}, map[*ssa.BasicBlock]bool{})
	return out
}

// dependsOnNoPhi: v is computed from ev without passing through a phi (a wrapped or converted form of it).
func dependsOnNoPhi(v, ev ssa.Value) bool {
	for i := 0; i < 6; i++ {
		if v == ev {
			return true
		}
		switch x := v.(type) {
		case *ssa.ChangeInterface:
			v = x.X
		case *ssa.MakeInterface:
			v = x.X
		case *ssa.ChangeType:
			v = x.X
		case *ssa.Call:
			for _, a := range x.Call.Args {
				if a == ev {
					return true
				}
				if sl, ok := a.(*ssa.Slice); ok {
					// variadic ...interface{}: look at the stores into the backing array
					if al, ok := sl.X.(*ssa.Alloc); ok && al.Referrers() != nil {
						for _, ref := range *al.Referrers() {
							if ia, ok := ref.(*ssa.IndexAddr); ok && ia.Referrers() != nil {
								for _, r2 := range *ia.Referrers() {
									if st, ok := r2.(*ssa.Store); ok && dependsOnNoPhi(st.Val, ev) {
										return true
									}
								}
							}
						}
					}
				}
			}
			return false
		default:
			return false
		}
	}
	return false
}

// marshalsLiveConfig: the message handed to proto.Marshal is the in-memory configuration - `a.config` itself, or a
// parameter of the save function to which every caller passes its `.config`.
func marshalsLiveConfig(f *ssa.Function, ms *ssa.Call) bool {
	arg := ms.Call.Args[len(ms.Call.Args)-1]
	if mi, ok := arg.(*ssa.MakeInterface); ok {
		arg = mi.X
	}
	if strings.HasSuffix(pathOf(arg), ".config") {
		return true
	}
	prm, ok := arg.(*ssa.Parameter)
	if !ok {
		return false
	}
	idx := -1
	for i, p := range f.Params {
		if p == prm {
			idx = i
		}
	}
	sites, asValue := callersOf(f)
	if idx < 0 || asValue || len(sites) == 0 {
		return false
	}
	for _, s := range sites {
		if idx >= len(s.Call.Args) || !strings.HasSuffix(pathOf(s.Call.Args[idx]), ".config") {
			return false
		}
	}
	return true
}

// structHelperField: v is field k of a struct value that a helper of the package returned (names := a.files();
// names.tmp): the value the helper put into that field of the composite it returns, and the helper. Only for
// helpers with one return whose result is a struct built in place.
func structHelperField(f *ssa.Function, v ssa.Value) (ssa.Value, *ssa.Function) {
	var call *ssa.Call
	field := -1
	switch x := v.(type) {
	case *ssa.Field:
		call, _ = x.X.(*ssa.Call)
		field = x.Field
	case *ssa.UnOp:
		// the struct is kept in a local: files := helper(); files.tmp
		if fa, ok := x.X.(*ssa.FieldAddr); ok && x.Op == token.MUL {
			if al, ok := fa.X.(*ssa.Alloc); ok && al.Referrers() != nil {
				n := 0
				for _, ref := range *al.Referrers() {
					if st, ok := ref.(*ssa.Store); ok && st.Addr == ssa.Value(al) {
						n++
						call, _ = st.Val.(*ssa.Call)
					}
				}
				if n != 1 {
					call = nil
				}
				field = fa.Field
			}
		}
	}
	if call == nil || field < 0 {
		return nil, nil
	}
	h := helperCallee(f, &call.Call)
	if h == nil {
		return nil, nil
	}
	var rets []*ssa.Return
	eachInstr(h, func(in ssa.Instruction) {
		if ret, ok := in.(*ssa.Return); ok && ret.Block().Comment != "recover" {
			rets = append(rets, ret)
		}
	})
	if len(rets) != 1 || len(rets[0].Results) != 1 {
		return nil, nil
	}
	ld, ok := rets[0].Results[0].(*ssa.UnOp)
	if !ok || ld.Op != token.MUL {
		return nil, nil
	}
	al, ok := ld.X.(*ssa.Alloc)
	if !ok || al.Referrers() == nil {
		return nil, nil
	}
	var val ssa.Value
	n := 0
	for _, ref := range *al.Referrers() {
		fa, ok := ref.(*ssa.FieldAddr)
		if !ok || fa.Field != field || fa.Referrers() == nil {
			continue
		}
		for _, r2 := range *fa.Referrers() {
			if st, ok := r2.(*ssa.Store); ok && st.Addr == ssa.Value(fa) {
				val = st.Val
				n++
			}
		}
	}
	if n != 1 {
		return nil, nil
	}
	return val, h
}

