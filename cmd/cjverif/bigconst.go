package main

import (
	"go/constant"
	"math/big"

	"golang.org/x/tools/go/ssa"
)

// bigBound renders the *big.Int passed as a bound (rand.Int's max) at call `at`: the decimal value when it is a
// constant built by straight-line math/big calls with constant operands (NewInt, Exp, Sub, Add, Mul, Lsh, Set…),
// "NewInt(<path>)" for big.NewInt of a non-constant, "?" otherwise. A derivation that draws "below 2^130-1" reads
// 17 bytes from the stream, one that draws below 2^128 reads 16: the bound is part of the published algorithm.
func bigBound(f *ssa.Function, at ssa.Instruction, v ssa.Value) string {
	if call, ok := v.(*ssa.Call); ok && calleeName(&call.Call) == "math/big.NewInt" && len(call.Call.Args) == 1 {
		if _, isConst := constOf(call.Call.Args[0]); !isConst {
			return "NewInt(" + pathOf(call.Call.Args[0]) + ")"
		}
	}
	if n := bigEval(f, at, v); n != nil {
		return n.String()
	}
	return "?"
}

// bigEval interprets the math/big calls that execute before `at` (in dominating straight-line order) and returns
// the value of object v at that point, or nil when it is not a compile-time constant.
func bigEval(f *ssa.Function, at ssa.Instruction, v ssa.Value) *big.Int {
	// objects are identified by the SSA value that created them (new(big.Int) / big.NewInt); method results
	// that return the receiver alias it
	alias := map[ssa.Value]ssa.Value{}
	val := map[ssa.Value]*big.Int{}
	unknown := map[ssa.Value]bool{}
	root := func(x ssa.Value) ssa.Value {
		for i := 0; i < 10; i++ {
			if a, ok := alias[x]; ok {
				x = a
				continue
			}
			break
		}
		return x
	}
	get := func(x ssa.Value) *big.Int {
		if x == nil {
			return nil
		}
		if c, ok := x.(*ssa.Const); ok && c.Value == nil {
			return nil
		}
		r := root(x)
		if unknown[r] {
			return nil
		}
		return val[r]
	}
	// only the blocks that dominate `at`, in order
	for _, b := range f.Blocks {
		if b != at.Block() && !b.Dominates(at.Block()) {
			continue
		}
		for _, in := range b.Instrs {
			if in == at {
				return get(v)
			}
			switch x := in.(type) {
			case *ssa.Alloc:
				if x.Heap && typeShort(x.Type()) == "*big.Int" {
					val[x] = new(big.Int)
				}
			case *ssa.Call:
				n := calleeName(&x.Call)
				args := x.Call.Args
				switch n {
				case "math/big.NewInt":
					if cv, ok := constOf(args[0]); ok {
						if i, exact := constant.Int64Val(constant.ToInt(cv)); exact {
							val[x] = big.NewInt(i)
							continue
						}
					}
					unknown[x] = true
				case "(*math/big.Int).Exp", "(*math/big.Int).Sub", "(*math/big.Int).Add", "(*math/big.Int).Mul", "(*math/big.Int).Set", "(*math/big.Int).Lsh", "(*math/big.Int).Rsh", "(*math/big.Int).SetInt64", "(*math/big.Int).SetUint64", "(*math/big.Int).SetBit":
					recv := root(args[0])
					alias[x] = recv
					var res *big.Int
					switch n {
					case "(*math/big.Int).Exp":
						a, e := get(args[1]), get(args[2])
						mIsNil := false
						if c, ok := args[3].(*ssa.Const); ok && c.Value == nil {
							mIsNil = true
						}
						if a != nil && e != nil && mIsNil && e.IsInt64() && e.Int64() >= 0 && e.Int64() < 4096 {
							res = new(big.Int).Exp(a, e, nil)
						}
					case "(*math/big.Int).Sub", "(*math/big.Int).Add", "(*math/big.Int).Mul":
						a, bb := get(args[1]), get(args[2])
						if a != nil && bb != nil {
							switch n {
							case "(*math/big.Int).Sub":
								res = new(big.Int).Sub(a, bb)
							case "(*math/big.Int).Add":
								res = new(big.Int).Add(a, bb)
							default:
								res = new(big.Int).Mul(a, bb)
							}
						}
					case "(*math/big.Int).Set":
						if a := get(args[1]); a != nil {
							res = new(big.Int).Set(a)
						}
					case "(*math/big.Int).Lsh", "(*math/big.Int).Rsh":
						a := get(args[1])
						if cv, ok := constOf(args[2]); ok && a != nil {
							if s, exact := constant.Uint64Val(constant.ToInt(cv)); exact && s < 4096 {
								if n == "(*math/big.Int).Lsh" {
									res = new(big.Int).Lsh(a, uint(s))
								} else {
									res = new(big.Int).Rsh(a, uint(s))
								}
							}
						}
					case "(*math/big.Int).SetInt64", "(*math/big.Int).SetUint64":
						if cv, ok := constOf(args[1]); ok {
							if i, exact := constant.Int64Val(constant.ToInt(cv)); exact {
								res = big.NewInt(i)
							}
						}
					}
					if res != nil && !unknown[recv] {
						val[recv] = res
					} else {
						unknown[recv] = true
					}
				default:
					// any other call that receives a tracked object may change it
					for _, a := range args {
						if r := root(a); val[r] != nil && n != "crypto/rand.Int" {
							if _, isBig := val[r]; isBig && typeShort(a.Type()) == "*big.Int" {
								switch n {
								case "(*math/big.Int).Cmp", "(*math/big.Int).Sign", "(*math/big.Int).BitLen", "(*math/big.Int).String", "(*math/big.Int).Int64", "(*math/big.Int).Uint64", "(*math/big.Int).IsInt64":
								default:
									unknown[r] = true
								}
							}
						}
					}
				}
			}
		}
	}
	return nil
}
