package main

import (
	"strconv"
	"fmt"
	"go/ast"
	"go/constant"
	"go/token"
	"go/types"
	"sort"
	"strings"

	"golang.org/x/tools/go/ssa"
)

func init() {
	register("C04", &propCheck{Run: checkC04,
		Explain: "C04.1 accumulate: the only mutation of the handler's receive buffer is Write(buf[:n]) with n from the same Read, every successful read reaches it before transports are consulted, and the same buffer is offered on every iteration; " +
			"C04.2 WrapConnection contract: in every implementation and its buffer-receiving callees, no path that consumed from / wrote to the buffer (or let it escape into PrependToConn) continues to a return of ErrTryAgain or ErrNotTransport (callee summaries: 'mutates only when returning nil error'); " +
			"C04.3 table and layout agreement: every default prefix has Offset == len(StaticMatch) and MinLen == MaxLen == Offset + tag length (evaluated from the composite literal), tag slices are dominated by the matching length tests, min consumes exactly its tag and prefix exactly Offset + tag; tag lengths agree with the obfuscator header + HMAC size; " +
			"C04.4 replay: success returns PrependToConn(conn, data); PrependToConn reads the buffered bytes before the live connection; PrefixConn declares only Read (deadlines are promoted from the embedded connection); " +
			"C04.9 give-up: the handler drains an unidentified connection only under 'no registration for the phantom' or 'no transport left'; C04.10 the candidate registrations are computed from the live table on every connection; " +
			"C04.5 match bookkeeping: between a nil-error WrapConnection and Proxy every path clears the deadline on the wrapped connection and marks the returned registration active, and Proxy receives the wrapped connection. " +
			"Decides segmentation-independence structurally (bytes are only ever appended and failures never consume); byte-exact delivery under concrete segmentations and obfs4's framing are not decided.",
		Assume: []string{"bytes.Buffer and io.MultiReader behave as documented"}})
}

var bufMutators = map[string]bool{"Next": true, "Read": true, "ReadByte": true, "ReadBytes": true, "ReadFrom": true, "ReadRune": true, "ReadString": true, "Reset": true, "Truncate": true, "Write": true, "WriteByte": true, "WriteRune": true, "WriteString": true, "WriteTo": true, "UnreadByte": true, "UnreadRune": true, "Grow": false}

// bufSummary: does f mutate its *bytes.Buffer parameter #idx on a path that ends in a non-nil error return? (and does it mutate at all)
type bufSummary struct {
	mutates     bool
	cleanOnErr  bool // mutators never reach a return whose error may be non-nil
	mutatorDesc []string
}

func bufferParamIndex(f *ssa.Function) int {
	for i, p := range f.Params {
		if typeShort(p.Type()) == "*bytes.Buffer" {
			return i
		}
	}
	return -1
}

func summariseBuf(f *ssa.Function, memo map[*ssa.Function]*bufSummary, depth int) *bufSummary {
	if s, ok := memo[f]; ok {
		return s
	}
	s := &bufSummary{cleanOnErr: true}
	memo[f] = s
	idx := bufferParamIndex(f)
	if idx < 0 || f.Blocks == nil || depth > 4 {
		return s
	}
	data := f.Params[idx]
	type mut struct {
		in       ssa.Instruction
		errEdges map[edge]bool // edges on which the mutation did NOT happen (callee returned an error)
		desc     string
	}
	var muts []mut
	eachInstr(f, func(in ssa.Instruction) {
		ci, ok := in.(ssa.CallInstruction)
		if !ok {
			return
		}
		cc := ci.Common()
		if rv := recvOf(cc); rv == ssa.Value(data) && bufMutators[calleeShort(cc)] {
			muts = append(muts, mut{in, nil, "data." + calleeShort(cc)})
			return
		}
		for i, a := range cc.Args {
			if stripConv(a) != ssa.Value(data) {
				continue
			}
			if rv := recvOf(cc); rv == a && i == 0 {
				continue // observer method
			}
			cal := cc.StaticCallee()
			switch {
			case strings.HasSuffix(calleeName(cc), "pkg/transports.PrependToConn"):
				muts = append(muts, mut{in, nil, "escape into PrependToConn"})
			case cal != nil && isRepoPath(fnPkgPath(cal)):
				cs := summariseBuf(cal, memo, depth+1)
				if cs.mutates {
					m := mut{in, nil, "call " + fnName(cal)}
					if cs.cleanOnErr {
						if call, ok := in.(*ssa.Call); ok {
							m.errEdges = edgesEstablishing(f, atomMatcher(errAtoms(call, false)...))
						}
					}
					muts = append(muts, m)
				}
			default:
				muts = append(muts, mut{in, nil, "escape into " + shortName(pathOfCallee(cc))})
			}
		}
	})
	s.mutates = len(muts) > 0
	for _, m := range muts {
		s.mutatorDesc = append(s.mutatorDesc, m.desc)
		// reach a return whose error result may be non-nil
		bad, _ := reach(f, m.in, func(in ssa.Instruction) bool {
			ret, ok := in.(*ssa.Return)
			if !ok || len(ret.Results) == 0 {
				return false
			}
			e := ret.Results[len(ret.Results)-1]
			if cst, ok := e.(*ssa.Const); ok && cst.Value == nil {
				return false
			}
			return true
		}, nil, m.errEdges)
		if bad {
			s.cleanOnErr = false
		}
	}
	return s
}

// mayBeRetryErr: the error value may be ErrTryAgain / ErrNotTransport.
func mayBeRetryErr(v ssa.Value, seen map[ssa.Value]bool, depth int) (bool, string) {
	if v == nil || depth > 10 || seen[v] {
		return false, ""
	}
	seen[v] = true
	switch x := v.(type) {
	case *ssa.Const:
		return false, ""
	case *ssa.UnOp:
		if g, ok := x.X.(*ssa.Global); ok {
			if g.Name() == "ErrTryAgain" || g.Name() == "ErrNotTransport" {
				return true, g.Name()
			}
			return false, ""
		}
		if a, ok := x.X.(*ssa.Alloc); ok && a.Referrers() != nil {
			for _, ref := range *a.Referrers() {
				if st, ok := ref.(*ssa.Store); ok && st.Addr == ssa.Value(a) {
					if b, n := mayBeRetryErr(st.Val, seen, depth+1); b {
						return true, n
					}
				}
			}
		}
		return false, ""
	case *ssa.Phi:
		for _, e := range x.Edges {
			if b, n := mayBeRetryErr(e, seen, depth+1); b {
				return true, n
			}
		}
		return false, ""
	case *ssa.Extract:
		if call, ok := x.Tuple.(*ssa.Call); ok {
			if cal := call.Call.StaticCallee(); cal != nil && cal.Blocks != nil && isRepoPath(fnPkgPath(cal)) {
				// callee's returned errors
				res := false
				name := ""
				eachInstr(cal, func(in ssa.Instruction) {
					if ret, ok := in.(*ssa.Return); ok && x.Index < len(ret.Results) {
						if b, n := mayBeRetryErr(ret.Results[x.Index], seen, depth+1); b {
							res, name = true, n
						}
					}
				})
				return res, name
			}
		}
		return false, ""
	case *ssa.Call:
		// fmt.Errorf("%w", ErrX) wrapping is not used for these two; conservatively: no
		return false, ""
	case *ssa.MakeInterface:
		return mayBeRetryErr(x.X, seen, depth+1)
	case *ssa.ChangeInterface:
		return mayBeRetryErr(x.X, seen, depth+1)
	}
	return false, ""
}

func checkC04(c *Ctx) {
	r := c.R
	// ---- C04.13 "reaches the covert destination exactly once and in order, and the covert's reply reaches the client
	// likewise": the two directions of a tunnel relay through memory of their own (shared with C05.11)
	checkPrivateRelayBuffer(c, "C04.13")
	// ---- C04.16 "marks the registration as used": the store goes into the record that lives in the table (a record
	// reached through the pointer the table holds), not into a copy of it (shared with C08.4)
	r.Rule("C04.16", "activation writes the record held by the timeout table", 1)
	checkMarkOwnRecord(c, "C04.16")
	// ---- C04.15 "marks the registration as used" ... for every connection of a registered client: what a transport decides
	// about one connection does not depend on earlier connections - WrapConnection and the helpers of its package write
	// no map, field or package variable that outlives the call (a replay filter keyed by the per-registration tag
	// refuses every connection after the first)
	r.Rule("C04.15", "the wrapping transports keep no state between connections", 3)
	for _, impl := range wrappingImpls(c) {
		seen := map[*ssa.Function]bool{}
		var order []*ssa.Function
		var visit func(g *ssa.Function, d int)
		visit = func(g *ssa.Function, d int) {
			if g == nil || seen[g] || g.Blocks == nil || d > 3 || g.Package() != impl.Package() {
				return
			}
			seen[g] = true
			order = append(order, g)
			for _, a := range g.AnonFuncs {
				visit(a, d)
			}
			eachInstr(g, func(in ssa.Instruction) {
				if ci, ok := in.(ssa.CallInstruction); ok {
					visit(ci.Common().StaticCallee(), d+1)
				}
			})
		}
		visit(impl, 0)
		var bad []string
		pos := impl.Pos()
		for _, g := range order {
			eachInstr(g, func(in ssa.Instruction) {
				var addr ssa.Value
				switch x := in.(type) {
				case *ssa.MapUpdate:
					addr = x.Map
				case *ssa.Store:
					addr = x.Addr
				default:
					return
				}
				root := addr
				for i := 0; i < 8; i++ {
					switch y := root.(type) {
					case *ssa.FieldAddr:
						root = y.X
						continue
					case *ssa.IndexAddr:
						root = y.X
						continue
					case *ssa.UnOp:
						root = y.X
						continue
					}
					break
				}
				switch y := root.(type) {
				case *ssa.Global:
					bad = append(bad, fnName(g)+" writes "+firstN(pathOf(addr), 40))
					pos = in.Pos()
				case *ssa.Parameter:
					// the receiver (the transport itself, or an object hanging off it) - not the buffer / connection arguments
					if g.Signature.Recv() != nil && len(g.Params) > 0 && y == g.Params[0] {
						if _, isMap := in.(*ssa.MapUpdate); isMap || strings.Contains(typeShort(y.Type()), "Transport") || strings.Contains(strings.ToLower(typeShort(y.Type())), "filter") || strings.Contains(strings.ToLower(typeShort(y.Type())), "cache") {
							bad = append(bad, fnName(g)+" writes "+firstN(pathOf(addr), 40))
							pos = in.Pos()
						}
					}
				}
			})
		}
		sort.Strings(bad)
		r.Check(len(bad) == 0, "C04.15", fnName(impl)+": no state survives the call", pos, fnName(impl), fmt.Sprintf("%d function(s) of the package scanned: no store to a package variable, to the transport or to a map hanging off it", len(order)),
			"the transport remembers something across connections ("+firstN(strings.Join(bad, "; "), 140)+"): whether a registered client's flight is recognised then depends on the connections before it")
	}

	// ---- C04.17 "finds that client's registration no matter how the first flight is split": in every round each remaining
	// transport is offered the buffer. A candidate list walked by index must not lose an element to the removal of its
	// neighbour: deleting list[idx] (append(list[:idx], list[idx+1:]...)) while the only step of the counter is idx+1
	// skips the element that slid into idx - the skipped transport is not consulted for that round, and a flight that
	// arrived in one piece is never looked at again
	r.Rule("C04.17", "no candidate is skipped when another is removed from the list being walked", 1)
	if f := c.fn("C04.17", "cmd/application", "connManager", "handleNewTCPConn"); f != nil {
		nRem, bad := 0, false
		var pos token.Pos = f.Pos()
		eachInstr(f, func(in ssa.Instruction) {
			call, ok := in.(*ssa.Call)
			if !ok {
				return
			}
			b, isB := call.Call.Value.(*ssa.Builtin)
			if !isB || b.Name() != "append" || len(call.Call.Args) != 2 {
				return
			}
			lo, ok1 := call.Call.Args[0].(*ssa.Slice)
			hi, ok2 := call.Call.Args[1].(*ssa.Slice)
			if !ok1 || !ok2 || lo.High == nil || hi.Low == nil || lo.Low != nil {
				return
			}
			add, isAdd := hi.Low.(*ssa.BinOp)
			if !isAdd || add.Op != token.ADD || add.X != lo.High {
				return
			}
			ph, isPhi := lo.High.(*ssa.Phi)
			if !isPhi {
				return
			}
			nRem++
			// every value the counter takes on a back edge: if all of them are "this phi + 1", nothing compensates
			onlyInc := true
			for _, e := range ph.Edges {
				if cst, isC := e.(*ssa.Const); isC && cst.Value != nil {
					continue // the initial value
				}
				inc, isInc := e.(*ssa.BinOp)
				if !isInc || inc.Op != token.ADD || inc.X != ssa.Value(ph) {
					onlyInc = false
				}
			}
			if onlyInc {
				bad = true
				pos = in.Pos()
			}
		})
		if nRem == 0 {
			r.OK("C04.17", "handleNewTCPConn: candidates are not removed from an index-walked list", f.Pos(), "the candidate set is a map pruned with delete (safe during range)")
		} else {
			r.Check(!bad, "C04.17", "handleNewTCPConn: removal from the walked list compensates the counter", pos, fnName(f), "the counter has a back-edge value other than idx+1",
				"a transport is removed from the list at the index being visited and the counter still advances by one: the transport that moved into that index is skipped for the round - with the whole flight already buffered it is never consulted again, and the client is dropped at the deadline")
		}
	}

	// ---- C04.14 obfs4 recognises every padding the client can draw: the search for the mark starts right behind the
	// shortest possible prefix of a client flight - the representative plus the minimum padding - not later
	r.Rule("C04.14", "the obfs4 mark search starts at representative + minimum padding", 1)
	if f := c.fn("C04.14", "pkg/transports/wrapping/obfs4", "Transport", "WrapConnection"); f != nil {
		n := 0
		minPad := constIntOf(c.P, repoMod+"/pkg/transports/wrapping/obfs4", "ClientMinPadLength")
		for _, l := range findDeep(f, func(name string, cc *ssa.CallCommon) bool { return strings.HasPrefix(calleeShort(cc), "findMarkMac") }, 2) {
			cc := l.common()
			if cc == nil || len(cc.Args) < 3 {
				continue
			}
			n++
			cv, isC := constOf(cc.Args[2])
			want := ""
			if mp, err := strconv.Atoi(minPad); err == nil {
				want = strconv.Itoa(mp + 32) // ntor.RepresentativeLength
			}
			r.Check(isC && want != "" && cv.ExactString() == want, "C04.14", "obfs4 WrapConnection: findMarkMac starts at "+want, l.call.Pos(), fnName(l.in), "constant start offset = RepresentativeLength + ClientMinPadLength",
				"the mark search starts later than the shortest client flight allows: valid handshakes with the smallest paddings are never recognised, under any segmentation - the station keeps answering try-again until the deadline and the client's bytes never reach the covert")
		}
		if n == 0 {
			r.Unk("C04.14", "obfs4 WrapConnection: findMarkMac call", f.Pos(), fnName(f), "not found")
		}
	}
	r.Rule("C04.1", "receive buffer is append-only and offered whole to every remaining transport", 2)
	r.Rule("C04.2", "a transport that answers try-again / not-transport leaves the buffer untouched", 3)
	r.Rule("C04.3", "prefix table, length thresholds, tag offsets and consumed length agree", 14)
	r.Rule("C04.4", "success replays the remaining buffered bytes ahead of the live connection", 5)
	r.Rule("C04.9", "the handler gives up on a connection (drains it) only when no registration or no transport is left", 2)
	r.Rule("C04.5", "a match clears the deadline on the wrapped connection, marks the registration active and relays the wrapped connection; returned connections support deadlines", 5)

	h := c.fn("C04.1", "cmd/application", "connManager", "handleNewTCPConn")
	if h != nil {
		// the receive buffer: the *bytes.Buffer passed to WrapConnection
		var wrap *ssa.Call
		eachInstr(h, func(in ssa.Instruction) {
			if call, ok := in.(*ssa.Call); ok && call.Call.IsInvoke() && call.Call.Method.Name() == "WrapConnection" {
				wrap = call
			}
		})
		var rd *ssa.Call
		eachInstr(h, func(in ssa.Instruction) {
			if call, ok := in.(*ssa.Call); ok && call.Call.IsInvoke() && call.Call.Method.Name() == "Read" && len(h.Params) == 4 && pathOf(call.Call.Value) == pname(h.Params[2]) {
				rd = call
			}
		})
		// the classification read takes whatever has arrived: a read with a per-call minimum (io.ReadFull,
		// io.ReadAtLeast, a bufio reader) blocks on a flight whose remaining tail is shorter than that minimum
		connP := ""
		if len(h.Params) == 4 {
			connP = pname(h.Params[2])
		}
		eachInstr(h, func(in ssa.Instruction) {
			call, ok := in.(*ssa.Call)
			if !ok {
				return
			}
			n := calleeName(&call.Call)
			switch n {
			case "io.ReadFull", "io.ReadAtLeast", "io.ReadAll", "bufio.NewReader", "bufio.NewReaderSize", "io.CopyN":
				for _, a := range call.Call.Args {
					if pathOf(a) == connP {
						r.Bad("C04.1", "handleNewTCPConn: classification read through "+shortName(n), in.Pos(), fnName(h),
							"the client connection is read through "+shortName(n)+", which blocks until a minimum number of bytes has arrived in THIS call: a first flight whose last segment is shorter than that minimum is never offered to the transports (the connection sits until the deadline), so recognition depends on how the flight was segmented")
					}
				}
			}
		})
		// the candidate set a connection prunes is its own: GetWrappingTransports builds a fresh map per call
		if gw := c.fn("C04.1", "pkg/station/lib", "RegistrationManager", "GetWrappingTransports"); gw != nil {
			eachInstr(gw, func(in ssa.Instruction) {
				ret, ok := in.(*ssa.Return)
				if !ok || len(ret.Results) != 1 || in.Block().Comment == "recover" {
					return
				}
				rv := returnedValue(ret, 0, nil)
				_, fresh := rv.(*ssa.MakeMap)
				r.Check(fresh, "C04.1", "GetWrappingTransports: every connection gets its own candidate map", ret.Pos(), fnName(gw), "make(map) in the same call",
					"GetWrappingTransports returns "+firstN(pathOf(rv), 50)+", a map shared between connections; the connection handler deletes the transports it has ruled out from that map, so a transport ruled out for one connection (any probe) is never offered a later client's flight")
			})
		}
		if wrap == nil || rd == nil {
			r.Unk("C04.1", "handleNewTCPConn: Read / WrapConnection", h.Pos(), fnName(h), "not found")
		} else {
			buf := wrap.Call.Args[0]
			var writes []*ssa.Call
			okUses := true
			if buf.Referrers() != nil {
				for _, ref := range *buf.Referrers() {
					ci, ok := ref.(ssa.CallInstruction)
					if !ok {
						if _, isDbg := ref.(*ssa.DebugRef); isDbg {
							continue
						}
						if st, isSt := ref.(*ssa.Store); isSt && st.Addr == buf {
							cst, _ := st.Val.(*ssa.Const)
							_ = cst
							continue // zero-value initialisation of the local
						}
						okUses = false
						r.Bad("C04.1", "handleNewTCPConn: receive buffer used by "+firstN(ref.String(), 50), ref.Pos(), fnName(h), "unreviewed use of the accumulation buffer")
						continue
					}
					cc := ci.Common()
					if rv := recvOf(cc); rv == buf {
						m := calleeShort(cc)
						switch {
						case m == "Write":
							writes = append(writes, ref.(*ssa.Call))
						case bufMutators[m]:
							okUses = false
							r.Bad("C04.1", "handleNewTCPConn: received."+m, ref.Pos(), fnName(h),
								"the accumulation buffer is modified by "+m+": bytes already received are dropped or re-ordered, so a flight split across segments is no longer offered whole to the transports")
						}
						continue
					}
					if ref == ssa.Instruction(wrap) {
						continue
					}
					// a helper of the package that only looks at the buffer (Len / Cap / String / Available on its
					// parameter, nothing else: no store, no further call with it) - e.g. the extracted read-error report
					if hc, isCall := ref.(*ssa.Call); isCall {
						if hf := helperCallee(h, &hc.Call); hf != nil && onlyObservesBuffer(hf, hc, buf) {
							continue
						}
					}
					okUses = false
					r.Bad("C04.1", "handleNewTCPConn: receive buffer escapes into "+shortName(pathOfCallee(cc)), ref.Pos(), fnName(h), "unreviewed escape of the accumulation buffer")
				}
			}
			// aliases by access path (the buffer may live in a field: `received := &scratch.received`), and its containers
			bufPath := pathOf(buf)
			containers := map[string]bool{}
			for i := 0; i < len(bufPath); i++ {
				if bufPath[i] == '.' {
					containers[bufPath[:i]] = true
				}
			}
			var proxyCall ssa.Instruction
			eachInstr(h, func(in ssa.Instruction) {
				if call, ok := in.(*ssa.Call); ok && strings.HasSuffix(calleeName(&call.Call), "station/lib.Proxy") {
					proxyCall = in
				}
			})
			// (a) path-aliased mutators reachable after a read
			eachInstr(h, func(in ssa.Instruction) {
				call, ok := in.(*ssa.Call)
				if !ok {
					return
				}
				rv := recvOf(&call.Call)
				if rv == nil || rv == buf || pathOf(rv) != bufPath {
					return
				}
				m := calleeShort(&call.Call)
				if !bufMutators[m] {
					return
				}
				if after, _ := reach(h, rd, isInstr(in), nil, nil); after {
					okUses = false
					r.Bad("C04.1", "handleNewTCPConn: "+bufPath+"."+m+" after data has been read", in.Pos(), fnName(h), "the accumulation buffer is modified through another reference after bytes were received")
				}
			})
			// (b) the buffer (or the object that contains it) is handed back to a sync.Pool while the wrapped connection can still read from it
			isPoolPutOf := func(f *ssa.Function) bool {
				found := false
				eachInstr(f, func(in ssa.Instruction) {
					ci, ok := in.(ssa.CallInstruction)
					if !ok || calleeName(ci.Common()) != "(*sync.Pool).Put" {
						return
					}
					p := pathOf(ci.Common().Args[1])
					if p == bufPath || containers[p] {
						found = true
					}
				})
				return found
			}
			var releasers []ssa.Instruction
			eachInstr(h, func(in ssa.Instruction) {
				call, ok := in.(*ssa.Call)
				if !ok {
					return
				}
				if calleeName(&call.Call) == "(*sync.Pool).Put" {
					if p := pathOf(call.Call.Args[1]); p == bufPath || containers[p] {
						releasers = append(releasers, in)
					}
					return
				}
				for _, t := range closureTargets(h, &call.Call) {
					if t.Parent() == h && isPoolPutOf(t) {
						releasers = append(releasers, in)
					}
				}
			})
			for _, rel := range releasers {
				afterWrap, _ := reach(h, wrap, isInstr(rel), nil, nil)
				beforeProxy := proxyCall != nil
				if proxyCall != nil {
					beforeProxy, _ = reach(h, rel, isInstr(proxyCall), nil, nil)
				}
				if afterWrap && beforeProxy {
					okUses = false
					r.Bad("C04.1", "handleNewTCPConn: the receive buffer is returned to a sync.Pool before the relay ends", rel.Pos(), fnName(h),
						"on success the transport keeps reading the remaining buffered bytes from this very buffer (PrependToConn(conn, data)); releasing it to a pool before Proxy returns lets another connection reset and refill it: the client's first application bytes are lost or replaced by another client's")
				}
			}
			if okUses {
				r.OK("C04.1", "handleNewTCPConn: the receive buffer is only appended to, observed and offered to WrapConnection", h.Pos(), fmt.Sprintf("%d Write site(s); %d pool release site(s), none between match and end of relay", len(writes), len(releasers)))
			}
			okW := len(writes) == 1
			if okW {
				w := writes[0]
				sl, _ := argsOf(&w.Call)[0].(*ssa.Slice)
				n := extractOf(rd, 0)
				rbuf, _ := argsOf(&rd.Call)[0].(*ssa.Slice)
				okW = sl != nil && rbuf != nil && sl.X == rbuf.X && sl.Low == nil && len(n) > 0 && sl.High == n[0]
				if okW {
					readErr := edgesEstablishing(h, func(cnd string, pol bool) bool {
						return !pol && strings.Contains(cnd, "clientConn.Read(") && strings.HasSuffix(cnd, "#1) == nil)")
					})
					skip, _ := reach(h, rd, isInstr(wrap), isInstr(w), readErr)
					okW = !skip
				}
			}
			r.Check(okW, "C04.1", "handleNewTCPConn: every successful Read appends exactly buf[:n] before the transports are consulted", rd.Pos(), fnName(h), "received.Write(buf[:n]) must-pass between Read and WrapConnection",
				"bytes returned by a successful read do not all reach the accumulation buffer before transports are consulted (wrong slice, or a path that skips the append): the tag of a valid client is never assembled under some segmentations")
		}
		// ---- C04.9 the only give-ups before the deadline: nothing registered for the phantom, or every transport said no
		{
			conn := ""
			if len(h.Params) == 4 {
				conn = pname(h.Params[2])
			}
			nDrain := 0
			eachInstr(h, func(in ssa.Instruction) {
				ci, ok := in.(ssa.CallInstruction)
				if !ok {
					return
				}
				cc := ci.Common()
				isDrain := calleeName(cc) == "io.Copy" && len(cc.Args) == 2 && pathOf(cc.Args[0]) == "io.Discard" && pathOf(cc.Args[1]) == conn
				if !isDrain {
					if hf := helperCallee(h, cc); hf != nil {
						for i, a := range cc.Args {
							if pathOf(a) == conn && drainsOnly(hf, i) && mustDrain(hf, i) {
								isDrain = true
							}
						}
					}
				}
				if !isDrain {
					return
				}
				nDrain++
				g := guardedM(h, in, func(cnd string, pol bool) bool {
					if !pol {
						return false
					}
					empty := strings.HasSuffix(cnd, " < 1)") || strings.HasSuffix(cnd, " == 0)")
					return empty && (strings.HasPrefix(cnd, "(len(regManager.GetWrappingTransports())") || strings.Contains(cnd, "CountRegistrations("))
				})
				r.Check(g, "C04.9", "handleNewTCPConn: giving up (drain to the deadline) only when no registration / no transport is left", in.Pos(), fnName(h),
					"guarded by CountRegistrations(dst) < 1 or len(possibleTransports) < 1",
					"the handler stops classifying and drains the connection on a path where registrations exist and transports are still undecided (a read counter, a byte limit, …): a valid first flight that arrives in more pieces than that is never recognised")
			})
			if nDrain == 0 {
				r.Unk("C04.9", "handleNewTCPConn: drain sites", h.Pos(), fnName(h), "no drain of the client connection found")
			}
		}
		// ---- C04.5
		if wrap != nil {
			var proxy *ssa.Call
			eachInstr(h, func(in ssa.Instruction) {
				if call, ok := in.(*ssa.Call); ok && strings.HasSuffix(calleeName(&call.Call), "station/lib.Proxy") {
					proxy = call
				}
			})
			if proxy == nil {
				r.Unk("C04.5", "handleNewTCPConn: Proxy call", h.Pos(), fnName(h), "not found")
			} else {
				wrappedV := extractOf(wrap, 1)
				regV := extractOf(wrap, 0)
				// Proxy gets the wrapped conn and the returned registration
				okP := len(wrappedV) > 0 && len(regV) > 0 && dependsOn(proxy.Call.Args[1], wrappedV[0]) && dependsOn(proxy.Call.Args[0], regV[0])
				r.Check(okP, "C04.5", "handleNewTCPConn: Proxy relays the wrapped connection for the returned registration", proxy.Pos(), fnName(h), "Proxy(reg, wrapped, …) from WrapConnection results",
					"Proxy is given the raw client connection (or another registration) instead of the transport's wrapped connection: the bytes buffered beyond the tag are lost and the covert stream is corrupted")
				isClear := func(in ssa.Instruction) bool {
					call, ok := in.(*ssa.Call)
					if !ok || !call.Call.IsInvoke() || call.Call.Method.Name() != "SetDeadline" {
						return false
					}
					if len(wrappedV) == 0 || !dependsOn(call.Call.Value, wrappedV[0]) {
						return false
					}
					// argument is the zero time
					a := call.Call.Args[0]
					if u, ok := a.(*ssa.UnOp); ok {
						if al, ok := u.X.(*ssa.Alloc); ok {
							zero := true
							for _, ref := range *al.Referrers() {
								if st, ok := ref.(*ssa.Store); ok && st.Addr == ssa.Value(al) {
									if cst, ok := st.Val.(*ssa.Const); !ok || cst.Value != nil {
										zero = false
									}
								}
							}
							return zero
						}
					}
					if cst, ok := a.(*ssa.Const); ok && cst.Value == nil {
						return true
					}
					return strings.Contains(pathOf(a), "new(time.Time)") || pathOf(a) == "time.Time{}"
				}
				isMark := func(in ssa.Instruction) bool {
					call, ok := in.(*ssa.Call)
					return ok && calleeShort(&call.Call) == "MarkActive" && len(regV) > 0 && dependsOn(argsOf(&call.Call)[0], regV[0])
				}
				s1, w1 := reach(h, wrap, isInstr(proxy), isClear, nil)
				s2, w2 := reach(h, wrap, isInstr(proxy), isMark, nil)
				if s1 {
					r.Bad("C04.5", "handleNewTCPConn: Proxy reachable without clearing the classification deadline on the wrapped connection", proxy.Pos(), fnName(h),
						"the 5-10 s classification deadline stays armed on a matched connection: the tunnel is cut a few seconds after it starts", r.blockPath(h, w1)...)
				} else {
					r.OK("C04.5", "handleNewTCPConn: wrapped.SetDeadline(zero) on every path from match to Proxy", proxy.Pos(), "must-pass")
				}
				if s2 {
					r.Bad("C04.5", "handleNewTCPConn: Proxy reachable without MarkActive(reg)", proxy.Pos(), fnName(h),
						"a matched registration is not marked used: it expires after 10 minutes while carrying a connection", r.blockPath(h, w2)...)
				} else {
					r.OK("C04.5", "handleNewTCPConn: MarkActive(returned registration) on every path from match to Proxy", proxy.Pos(), "must-pass")
				}
			}
		}
	}

	// ---- C04.5b the connection a transport hands back supports deadline changes (mechanism (e): the handler clears the
	// classification deadline and the relay arms its deadlines THROUGH the wrapped connection, and gives up if that fails)
	for _, f := range wrappingImpls(c) {
		eachInstr(f, func(in ssa.Instruction) {
			ret, ok := in.(*ssa.Return)
			if !ok || len(ret.Results) != 3 {
				return
			}
			if cst, isC := ret.Results[1].(*ssa.Const); isC && cst.Value == nil {
				return
			}
			// only success-capable returns: error result nil or unknown
			v := ret.Results[1]
			if mi, ok := v.(*ssa.MakeInterface); ok {
				t := mi.X.Type()
				okT, how := repoConnSupportsDeadlines(c, t)
				r.Check(okT, "C04.5", fnName(f)+": returned connection type "+typeShort(t)+" supports SetDeadline", ret.Pos(), fnName(f), how,
					"the connection type "+typeShort(t)+" returned on success cannot change deadlines ("+how+"): the classification deadline stays armed and the relay aborts at its first SetDeadline")
				return
			}
			// an interface value produced by a dependency call, returned as is
			if call, ok := v.(*ssa.Extract); ok {
				v = call.Tuple
			}
			if call, ok := v.(*ssa.Call); ok && call.Call.IsInvoke() {
				if guarded(f, ret, errAtoms(call, false)...) {
					return // the failure return of that very call: the handler discards the connection
				}
				pkg := ""
				if call.Call.Method.Pkg() != nil {
					pkg = call.Call.Method.Pkg().Path()
				}
				bad, which, err := depConnTypesRejectingDeadlines(c, pkg)
				switch {
				case err != nil:
					r.Unk("C04.5", fnName(f)+": connection returned by "+call.Call.Method.Name(), ret.Pos(), fnName(f), "cannot analyse the dependency that produces the returned connection: "+err.Error())
				case bad:
					r.Bad("C04.5", fnName(f)+": returns a dependency connection whose SetDeadline always fails ("+which+")", ret.Pos(), fnName(f),
						"the connection produced by "+call.Call.Method.Name()+" is returned to the station as is, but its type "+which+" rejects SetDeadline on every path: the handler cannot clear the 5-10 s classification deadline and the relay gives up at its first SetDeadline, so sessions of this transport are cut before any byte is relayed")
				default:
					r.OK("C04.5", fnName(f)+": dependency connection types accept SetDeadline", ret.Pos(), "analysed "+pkg)
				}
			}
		})
	}

	// ---- C04.10 the registrations offered to the transports are today's
	checkLiveLookup(c, "C04.10", "a registration that became valid (or was added) after that set was stored is not offered to the transports: the client's flight is not recognised")
	// ---- C04.12 the registration is found under the address the connection arrived on: the handler holds that address
	// in 16-byte form (net.IPv4(...)), the selector produced it in 4-byte form; net.IP.String() prints both alike,
	// other renderings (netip, hex, raw bytes) do not
	r.Rule("C04.12", "the per-phantom table is keyed by net.IP.String() everywhere", 4)
	{
		n := 0
		var isIPString func(g *ssa.Function, v ssa.Value, d int) bool
		isIPString = func(g *ssa.Function, v ssa.Value, d int) bool {
			if hv, hf := structHelperField(g, v); hv != nil && d <= 2 {
				// a field of a key object built by a helper of the package
				if u, isLoad := hv.(*ssa.UnOp); isLoad {
					if al, isA := u.X.(*ssa.Alloc); isA && al.Referrers() != nil {
						for _, ref := range *al.Referrers() {
							if st, isSt := ref.(*ssa.Store); isSt && st.Addr == ssa.Value(al) {
								hv = st.Val
							}
						}
					}
				}
				return isIPString(hf, hv, d+1)
			}
			call, ok := v.(*ssa.Call)
			if !ok || d > 2 {
				return false
			}
			if calleeName(&call.Call) == "(net.IP).String" {
				return true
			}
			// a key helper of the package: every return is net.IP.String()
			if h := helperCallee(g, &call.Call); h != nil {
				okAll, nRet := true, 0
				eachInstr(h, func(in ssa.Instruction) {
					if ret, ok := in.(*ssa.Return); ok && len(ret.Results) == 1 {
						nRet++
						okAll = okAll && isIPString(h, ret.Results[0], d+1)
					}
				})
				return okAll && nRet > 0
			}
			return false
		}
		for _, f := range c.funcsOfPkgs("pkg/station/lib") {
			eachInstr(f, func(in ssa.Instruction) {
				var m, key ssa.Value
				switch x := in.(type) {
				case *ssa.Lookup:
					m, key = x.X, x.Index
				case *ssa.MapUpdate:
					m, key = x.Map, x.Key
				default:
					return
				}
				ld, ok := m.(*ssa.UnOp)
				if !ok {
					return
				}
				if o, fld, ok := fieldOwner(ld.X); !ok || o != "lib.RegisteredDecoys" || fld != "decoys" {
					return
				}
				// keys copied from a timeout record or ranged over are not constructions
				kp := pathOf(key)
				if strings.HasSuffix(kp, ".decoy") || strings.Contains(kp, "range(") || strings.Contains(kp, "rangeindex") {
					return
				}
				n++
				okk := isIPString(f, key, 0)
				if !okk {
					// held in a local that is assigned once from such a call
					if u, isLoad := key.(*ssa.UnOp); isLoad {
						if al, isA := u.X.(*ssa.Alloc); isA && al.Referrers() != nil {
							for _, ref := range *al.Referrers() {
								if st, isSt := ref.(*ssa.Store); isSt && st.Addr == ssa.Value(al) {
									okk = isIPString(f, st.Val, 0)
								}
							}
						}
					}
				}
				r.Check(okk, "C04.12", fnName(f)+": r.decoys["+firstN(kp, 40)+"] keyed by net.IP.String()", in.Pos(), fnName(f), "key is (net.IP).String() of the phantom address",
					"the per-phantom table is indexed with "+firstN(kp, 60)+", which is not net.IP.String(): the connection handler passes the original destination in 16-byte form while registrations were tracked from the 4-byte form, and only net.IP.String() renders both the same - the client's registration is not found")
			})
		}
		if n == 0 {
			r.Unk("C04.12", "accesses of RegisteredDecoys.decoys", token.NoPos, "", "none found")
		}
	}

	// ---- C04.11 the relay reads and writes the matched connection from two goroutines at once: a connection type of
	// the transports must not make Write wait for a Read that is blocked on an idle peer
	r.Rule("C04.11", "no connection type of the transports takes one write lock in both Read and Write", 2)
	{
		type rw struct{ read, write *ssa.Function }
		types_ := map[string]*rw{}
		for _, f := range c.funcsOfPkgs("pkg/transports", "pkg/transports/wrapping/min", "pkg/transports/wrapping/prefix", "pkg/transports/wrapping/obfs4", "pkg/dtls", "pkg/transports/connecting/dtls") {
			rc := f.Signature.Recv()
			if rc == nil || (f.Name() != "Read" && f.Name() != "Write") {
				continue
			}
			k := typeShort(rc.Type())
			k = strings.TrimPrefix(k, "*")
			if types_[k] == nil {
				types_[k] = &rw{}
			}
			if f.Name() == "Read" {
				types_[k].read = f
			} else {
				types_[k].write = f
			}
		}
		locksOf := func(f *ssa.Function) map[string]bool {
			out := map[string]bool{}
			var visit func(g *ssa.Function, d int)
			visit = func(g *ssa.Function, d int) {
				eachInstr(g, func(in ssa.Instruction) {
					ci, ok := in.(ssa.CallInstruction)
					if !ok {
						return
					}
					if p, mode, op := lockOp(ci.Common()); op == "lock" && mode == "W" {
						// the field, whatever the receiver is called
						if i := strings.Index(p, "."); i >= 0 {
							p = p[i:]
						}
						out[p] = true
					}
					if h := helperCallee(g, ci.Common()); h != nil && d < 2 && h.Signature.Recv() != nil {
						visit(h, d+1)
					}
				})
			}
			visit(f, 0)
			return out
		}
		var names []string
		for k := range types_ {
			names = append(names, k)
		}
		sort.Strings(names)
		n := 0
		for _, k := range names {
			t := types_[k]
			if t.read == nil || t.write == nil {
				continue
			}
			n++
			lr, lw := locksOf(t.read), locksOf(t.write)
			var shared []string
			for p := range lr {
				if lw[p] {
					shared = append(shared, p)
				}
			}
			sort.Strings(shared)
			r.Check(len(shared) == 0, "C04.11", k+": Read and Write do not exclude each other", t.read.Pos(), fnName(t.read), fmt.Sprintf("%d / %d write lock(s), none in common", len(lr), len(lw)),
				"Read and Write of "+k+" both take "+strings.Join(shared, ", ")+": the relay's upload goroutine sits in a blocking Read holding it while the client is idle, so the download goroutine's Write of the covert's reply waits until the client sends again (or the relay times out)")
		}
		if n == 0 {
			r.Unk("C04.11", "connection types with Read and Write", token.NoPos, "", "none found in the transport packages")
		}
	}

	// ---- C04.2 non-consuming failure
	memo := map[*ssa.Function]*bufSummary{}
	for _, f := range wrappingImpls(c) {
		idx := bufferParamIndex(f)
		if idx < 0 {
			r.Unk("C04.2", fnName(f)+": buffer parameter", f.Pos(), fnName(f), "no *bytes.Buffer parameter")
			continue
		}
		checkNoConsumeOnRetry(c, f, memo, map[*ssa.Function]bool{})
	}

	// ---- C04.3 table and layout
	checkPrefixTable(c)
	for _, f := range wrappingImpls(c) {
		pk := fnPkgPath(f)
		switch {
		case strings.HasSuffix(pk, "/min"):
			tag := constIntOf(c.P, pk, "minTagLength")
			r.Check(tag == "32", "C04.3", "min: tag length == sha256.Size (32)", f.Pos(), fnName(f), tag, "the min transport's tag length differs from the HMAC-SHA256 size the client sends")
			eachInstr(f, func(in ssa.Instruction) {
				switch x := in.(type) {
				case *ssa.Slice:
					if strings.HasPrefix(pathOf(x.X), "data.String()") || strings.HasPrefix(pathOf(x.X), "data.Bytes()") {
						hi, _ := constOf(x.High)
						okS := x.Low == nil && hi != nil && hi.String() == tag && guarded(f, in, Atom{"(data.Len() < " + tag + ")", false})
						r.Check(okS, "C04.3", "min: tag = data[:taglen] only once taglen bytes are present", in.Pos(), fnName(f), "guarded by data.Len() >= "+tag, "the tag is sliced at another length or without the length test: short first segments are mis-classified (or panic)")
					}
				case *ssa.Call:
					if recvOf(&x.Call) != nil && pathOf(recvOf(&x.Call)) == "data" && calleeShort(&x.Call) == "Next" {
						cv, _ := constOf(argsOf(&x.Call)[0])
						r.Check(cv != nil && cv.String() == tag, "C04.3", "min: consumes exactly the tag", in.Pos(), fnName(f), "data.Next("+tag+")", "the transport consumes a different number of bytes than the tag: application bytes are lost or tag bytes leak into the covert stream")
					}
				}
			})
		case strings.HasSuffix(pk, "/prefix"):
			tag := constIntOf(c.P, pk, "minTagLength")
			r.Check(tag == "64", "C04.3", "prefix: obfuscated tag length == 32 (representative) + 32 (HMAC) = 64", f.Pos(), fnName(f), tag, "the prefix transport's tag length differs from the CTR obfuscator's header plus HMAC-SHA256 size")
			if tf := c.fn("C04.3", "pkg/transports/wrapping/prefix", "Transport", "tryFindReg"); tf != nil {
				eachInstr(tf, func(in ssa.Instruction) {
					switch x := in.(type) {
					case *ssa.Slice:
						if pathOf(x.X) == "data.Bytes()" && x.Low != nil && strings.HasSuffix(pathOf(x.Low), ".Offset") {
							okS := pathOf(x.High) == "("+pathOf(x.Low)+" + "+tag+")" && guardedM(tf, in, func(cnd string, pol bool) bool {
								// data.Len() >= MaxLen, or >= Offset + taglen (equal by C04.3's table rule); a `<=` threshold is off by one
								if pol || !strings.HasPrefix(cnd, "(data.Len() < ") {
									return false
								}
								rhs := strings.TrimSuffix(strings.TrimPrefix(cnd, "(data.Len() < "), ")")
								return strings.HasSuffix(rhs, ".MaxLen") || rhs == "("+pathOf(x.Low)+" + "+tag+")" || isLocalEqualTo(tf, rhs, "("+pathOf(x.Low)+" + "+tag+")")
							})
							r.Check(okS, "C04.3", "prefix: tag = data[Offset:Offset+taglen] only once MaxLen bytes are present", in.Pos(), fnName(tf), "guarded by data.Len() >= MaxLen", "the tag is sliced at other bounds or without the length test")
						}
					case *ssa.Call:
						if recvOf(&x.Call) != nil && pathOf(recvOf(&x.Call)) == "data" && calleeShort(&x.Call) == "Next" {
							p := pathOf(argsOf(&x.Call)[0])
							r.Check(strings.HasSuffix(p, ".Offset + "+tag+")"), "C04.3", "prefix: consumes exactly prefix + tag", in.Pos(), fnName(tf), p, "the transport consumes a different number of bytes than prefix + tag")
						}
					}
				})
			}
		}
	}

	// ---- C04.4 replay
	for _, f := range wrappingImpls(c) {
		nP := 0
		for _, ci := range callsIn(f, func(n string, _ *ssa.CallCommon) bool { return strings.HasSuffix(n, "pkg/transports.PrependToConn") }) {
			nP++
			a := ci.Common().Args
			okA := a[0] == ssa.Value(f.Params[2]) && stripConv(a[1]) == ssa.Value(f.Params[bufferParamIndex(f)])
			r.Check(okA, "C04.4", fnName(f)+": success wraps PrependToConn(conn, data)", ci.Pos(), fnName(f), "connection and the same buffer", "the wrapped connection is not built from this connection and the remaining buffered bytes")
		}
		if nP == 0 {
			r.Bad("C04.4", fnName(f)+": success does not replay the buffered bytes", f.Pos(), fnName(f), "no PrependToConn: bytes that arrived in the same segments as the tag never reach the covert destination")
		}
	}
	if f := c.fn("C04.4", "pkg/transports", "", "PrependToConn"); f != nil {
		okM := false
		for _, ci := range callsIn(f, nameIs("io.MultiReader")) {
			p := pathOf(ci.Common().Args[0])
			okM = p == "[r, c]"
		}
		r.Check(okM, "C04.4", "PrependToConn: io.MultiReader(buffered, live) in that order", f.Pos(), fnName(f), "[r, c]", "the live connection is read before the buffered bytes: the client's first application bytes are delivered out of order")
	}
	if nt := c.P.NamedType(repoMod+"/pkg/transports", "PrefixConn"); nt != nil {
		var names []string
		for i := 0; i < nt.NumMethods(); i++ {
			names = append(names, nt.Method(i).Name())
		}
		okMeth := len(names) == 1 && names[0] == "Read"
		// and the struct embeds net.Conn
		emb := false
		if st, ok := nt.Underlying().(*types.Struct); ok {
			for i := 0; i < st.NumFields(); i++ {
				if st.Field(i).Embedded() && typeShort(st.Field(i).Type()) == "net.Conn" {
					emb = true
				}
			}
		}
		r.Check(okMeth && emb, "C04.4", "PrefixConn: only Read is overridden; deadlines/Write/Close are promoted from the embedded connection", token.NoPos, "", fmt.Sprintf("declared methods %v", names),
			fmt.Sprintf("PrefixConn declares %v (or no longer embeds net.Conn): clearing the classification deadline or setting relay deadlines on the wrapped connection no longer reaches the real connection", names))
		if rf := c.P.Func(repoMod+"/pkg/transports", "PrefixConn", "Read"); rf != nil {
			okD := false
			eachInstr(rf, func(in ssa.Instruction) {
				if call, ok := in.(*ssa.Call); ok && call.Call.IsInvoke() && call.Call.Method.Name() == "Read" && pathOf(call.Call.Value) == "pc.r" {
					okD = true
				}
			})
			r.Check(okD, "C04.4", "PrefixConn.Read delegates to the prepended reader", rf.Pos(), fnName(rf), "pc.r.Read(p)", "reads bypass the buffered bytes")
		}
	} else {
		r.Unk("C04.4", "PrefixConn type", token.NoPos, "", "not found")
	}
	// ---- C04.8 a paced first flight has the whole classification window: the handler sets the deadline of the
	// unidentified connection once and does not replace it while segments arrive (SetReadDeadline replaces, it does
	// not extend)
	r.Rule("C04.8", "the unidentified connection's deadline is set exactly once in the handler", 1)
	if h := c.fn("C04.8", "cmd/application", "connManager", "handleNewTCPConn"); h != nil {
		var sets []string
		var pos token.Pos
		eachInstr(h, func(in ssa.Instruction) {
			call, ok := in.(*ssa.Call)
			if !ok || !call.Call.IsInvoke() {
				return
			}
			switch call.Call.Method.Name() {
			case "SetDeadline", "SetReadDeadline", "SetWriteDeadline":
				if prm, isP := stripConv(call.Call.Value).(*ssa.Parameter); isP && strings.HasSuffix(typeShort(prm.Type()), "net.Conn") {
					sets = append(sets, call.Call.Method.Name())
					pos = call.Pos()
				}
			}
		})
		r.Check(len(sets) == 1 && sets[0] == "SetDeadline", "C04.8", "handleNewTCPConn: one SetDeadline on the client connection, never re-armed", pos, fnName(h), fmt.Sprint(sets),
			fmt.Sprintf("the handler changes the deadline of the unidentified connection %d times %v: a genuine first flight whose segments are paced (or cut inside the tag) runs into the replaced deadline and is dropped before it can be classified", len(sets), sets))
	}

	// ---- C04.7 the client's first flight is on the wire when WrapConn returns: prefix and tag are written to the
	// connection it was given and flushed before the wrapped connection is handed to the caller (a caller that
	// reads first - a server-speaks-first covert - never triggers a deferred write)
	r.Rule("C04.7", "prefix client WrapConn writes prefix and tag to the connection and flushes them before it returns", 1)
	if f := c.fn("C04.7", "pkg/transports/wrapping/prefix", "ClientTransport", "WrapConn"); f != nil && len(f.Params) == 2 {
		var tagW *ssa.Call
		for _, ci := range callsIn(f, shortIs("Write")) {
			call, ok := ci.(*ssa.Call)
			if !ok {
				continue
			}
			for _, a := range argsOf(&call.Call) {
				if strings.Contains(pathOf(a), ".Obfuscate(") {
					tagW = call
				}
			}
		}
		nOK := 0
		okAll := tagW != nil
		how := ""
		if tagW != nil {
			w := recvOf(&tagW.Call)
			buffered := w != nil && strings.HasSuffix(typeShort(w.Type()), "bufio.Writer")
			overConn := false
			switch {
			case w == ssa.Value(f.Params[1]):
				overConn = true
			case buffered:
				if nw, ok := stripConv(w).(*ssa.Call); ok && calleeName(&nw.Call) == "bufio.NewWriter" && stripConv(nw.Call.Args[0]) == ssa.Value(f.Params[1]) {
					overConn = true
				} else if nw, ok := stripConv(w).(*ssa.Call); ok && calleeName(&nw.Call) == "bufio.NewWriter" {
					if mi, isMI := nw.Call.Args[0].(*ssa.MakeInterface); isMI && mi.X == ssa.Value(f.Params[1]) {
						overConn = true
					} else if ci, isCI := nw.Call.Args[0].(*ssa.ChangeInterface); isCI && ci.X == ssa.Value(f.Params[1]) {
						overConn = true
					}
				}
			}
			isFlush := func(in ssa.Instruction) bool {
				call, ok := in.(*ssa.Call)
				return ok && calleeName(&call.Call) == "(*bufio.Writer).Flush" && recvOf(&call.Call) == w
			}
			how = fmt.Sprintf("tag written to %s (buffered=%v, over the given connection=%v)", firstN(pathOf(w), 40), buffered, overConn)
			eachInstr(f, func(in ssa.Instruction) {
				ret, ok := in.(*ssa.Return)
				if !ok || len(ret.Results) != 2 || ret.Block().Comment == "recover" {
					return
				}
				if cst, isC := returnedValue(ret, 1, nil).(*ssa.Const); !isC || cst.Value != nil {
					return
				}
				nOK++
				if skip, _ := reach(f, nil, isInstr(ret), isInstr(tagW), nil); skip || !overConn {
					okAll = false
				}
				if buffered {
					if unflushed, _ := reach(f, tagW, isInstr(ret), isFlush, nil); unflushed {
						okAll = false
					}
				}
			})
		}
		r.Check(okAll && nOK > 0, "C04.7", "prefix client WrapConn: tag written and flushed on every successful return", f.Pos(), fnName(f), how,
			"WrapConn can return success while the prefix and tag are still in a buffer (or were never written to the connection it was given): a client that reads before it writes never sends its first flight, the station never finds its registration")
	}

	// ---- C04.6 marking is unconditional: MarkActive(reg) marks the registration used whenever its timeout record
	// exists - nothing but the two "found" tests (enabled transport, tracked record) may keep it from doing so
	checkMarkUnconditional(c, "C04.6", 2)
	if f := c.fn("C04.6", "pkg/station/lib", "RegistrationManager", "MarkActive"); f != nil {
		calls := callsIn(f, shortIs("markActive"))
		okk := len(calls) == 1
		if okk {
			in := calls[0].(ssa.Instruction)
			skip, _ := reach(f, nil, isReturn, isInstr(in), nil)
			a := argsOf(calls[0].Common())
			okk = !skip && len(a) == 1 && pathOf(a[0]) == P(f, 1)
		}
		r.Check(okk, "C04.6", "MarkActive: delegates to markActive(reg) on every path", f.Pos(), fnName(f), "must-pass call with the registration it was given", "MarkActive can return without marking the registration it was given")
	}

}

// checkNoConsumeOnRetry applies C04.2 to f and (recursively) to repo callees that receive the buffer.
func checkNoConsumeOnRetry(c *Ctx, f *ssa.Function, memo map[*ssa.Function]*bufSummary, done map[*ssa.Function]bool) {
	if done[f] {
		return
	}
	done[f] = true
	r := c.R
	idx := bufferParamIndex(f)
	if idx < 0 {
		return
	}
	data := f.Params[idx]
	nBad := 0
	eachInstr(f, func(in ssa.Instruction) {
		ci, ok := in.(ssa.CallInstruction)
		if !ok {
			return
		}
		cc := ci.Common()
		var desc string
		var errEdges map[edge]bool
		if rv := recvOf(cc); rv == ssa.Value(data) && bufMutators[calleeShort(cc)] {
			desc = "data." + calleeShort(cc)
		} else {
			for i, a := range cc.Args {
				if stripConv(a) != ssa.Value(data) || (recvOf(cc) == a && i == 0) {
					continue
				}
				cal := cc.StaticCallee()
				switch {
				case strings.HasSuffix(calleeName(cc), "pkg/transports.PrependToConn"):
					desc = "PrependToConn(…, data)"
				case cal != nil && isRepoPath(fnPkgPath(cal)):
					checkNoConsumeOnRetry(c, cal, memo, done)
					cs := summariseBuf(cal, memo, 0)
					if cs.mutates {
						desc = "call " + fnName(cal)
						if cs.cleanOnErr {
							if call, ok := in.(*ssa.Call); ok {
								errEdges = edgesEstablishing(f, atomMatcher(errAtoms(call, false)...))
							}
						}
					}
				default:
					desc = "escape into " + shortName(pathOfCallee(cc))
				}
			}
		}
		if desc == "" {
			return
		}
		var which string
		bad, w := reachPS(f, in, func(in2 ssa.Instruction) bool {
			ret, ok := in2.(*ssa.Return)
			if !ok || len(ret.Results) == 0 {
				return false
			}
			b, name := mayBeRetryErr(ret.Results[len(ret.Results)-1], map[ssa.Value]bool{}, 0)
			if b {
				which = name
			}
			return b
		}, nil, errEdges)
		if bad {
			nBad++
			r.Bad("C04.2", fnName(f)+": "+desc+" can be followed by a return of "+which, in.Pos(), fnName(f),
				"after "+desc+" a path returns "+which+": the handler offers the (now shortened or altered) buffer again, so bytes of the client's flight are lost and the tag can never match", r.blockPath(f, w)...)
		}
	})
	if nBad == 0 {
		s := summariseBuf(f, memo, 0)
		r.OK("C04.2", fnName(f)+": no buffer mutation is followed by ErrTryAgain/ErrNotTransport", f.Pos(), fmt.Sprintf("mutators: %v", s.mutatorDesc))
	}
}

// checkPrefixTable evaluates the defaultPrefixes composite literal through the AST + constant values.
func checkPrefixTable(c *Ctx) { checkPrefixTableAs(c, "C04.3") }

func checkPrefixTableAs(c *Ctx, rule string) {
	r := c.R
	pk := c.P.All[repoMod+"/pkg/transports/wrapping/prefix"]
	if pk == nil {
		r.Unk(rule, "prefix package", token.NoPos, "", "not loaded")
		return
	}
	tag := constIntOf(c.P, pk.PkgPath, "minTagLength")
	var lit *ast.CompositeLit
	for _, file := range pk.Syntax {
		ast.Inspect(file, func(n ast.Node) bool {
			vs, ok := n.(*ast.ValueSpec)
			if !ok {
				return true
			}
			for i, name := range vs.Names {
				if name.Name == "defaultPrefixes" && i < len(vs.Values) {
					lit, _ = vs.Values[i].(*ast.CompositeLit)
				}
			}
			return true
		})
	}
	if lit == nil {
		r.Unk(rule, "defaultPrefixes literal", token.NoPos, "", "not found")
		return
	}
	st, _ := pk.Types.Scope().Lookup("prefix").Type().Underlying().(*types.Struct)
	fieldIdx := map[string]int{}
	if st != nil {
		for i := 0; i < st.NumFields(); i++ {
			fieldIdx[st.Field(i).Name()] = i
		}
	}
	intVal := func(e ast.Expr) (int64, bool) {
		tv, ok := pk.TypesInfo.Types[e]
		if !ok || tv.Value == nil {
			return 0, false
		}
		return constant.Int64Val(constant.ToInt(tv.Value))
	}
	lenOfBytes := func(e ast.Expr) (int64, bool) {
		// []byte("…") or []byte{…}
		switch x := e.(type) {
		case *ast.CallExpr:
			if len(x.Args) == 1 {
				if tv, ok := pk.TypesInfo.Types[x.Args[0]]; ok && tv.Value != nil && tv.Value.Kind() == constant.String {
					return int64(len(constant.StringVal(tv.Value))), true
				}
			}
		case *ast.CompositeLit:
			return int64(len(x.Elts)), true
		}
		return 0, false
	}
	tagN, _ := constant.Int64Val(constant.MakeFromLiteral(tag, token.INT, 0))
	for _, el := range lit.Elts {
		kv, ok := el.(*ast.KeyValueExpr)
		if !ok {
			continue
		}
		name := types.ExprString(kv.Key)
		v, ok := kv.Value.(*ast.CompositeLit)
		if !ok {
			r.Unk(rule, "defaultPrefixes["+name+"]", kv.Pos(), "", "entry is not a composite literal")
			continue
		}
		get := func(field string) ast.Expr {
			for i, e := range v.Elts {
				if kv2, ok := e.(*ast.KeyValueExpr); ok {
					if types.ExprString(kv2.Key) == field {
						return kv2.Value
					}
				} else if idx, ok := fieldIdx[field]; ok && idx == i {
					return e
				}
			}
			return nil
		}
		sm, okS := lenOfBytes(get("StaticMatch"))
		off, ok1 := intVal(get("Offset"))
		mn, ok2 := intVal(get("MinLen"))
		mx, ok3 := intVal(get("MaxLen"))
		okAll := okS && ok1 && ok2 && ok3 && off == sm && mn == off+tagN && mx == mn
		r.Check(okAll, rule, "defaultPrefixes["+name+"]: Offset == len(StaticMatch), MinLen == MaxLen == Offset + tag", kv.Pos(), "",
			fmt.Sprintf("len(StaticMatch)=%d Offset=%d MinLen=%d MaxLen=%d tag=%d", sm, off, mn, mx, tagN),
			fmt.Sprintf("prefix %s: len(StaticMatch)=%d Offset=%d MinLen=%d MaxLen=%d tag=%d are inconsistent: the station looks for the tag at a different offset than the client writes it (the client sends StaticMatch followed by the tag), so valid flights with this prefix are never recognised", name, sm, off, mn, mx, tagN))
	}
	// the client table is built from the same StaticMatch values
	if f := c.P.Func(pk.PkgPath, "", "applyDefaultPrefixes"); f != nil {
		okC := false
		eachInstr(f, func(in ssa.Instruction) {
			if st, ok := in.(*ssa.Store); ok {
				if _, fld, ok := fieldOwner(st.Addr); ok && fld == "Bytes" || ok && fld == "bytes" {
					if strings.HasSuffix(pathOf(st.Val), ".StaticMatch") {
						okC = true
					}
				}
			}
		})
		if !okC {
			// field name unknown: accept any store of a .StaticMatch value into a clientPrefix
			eachInstr(f, func(in ssa.Instruction) {
				if st, ok := in.(*ssa.Store); ok && strings.HasSuffix(pathOf(st.Val), ".StaticMatch") {
					if o, _, ok := fieldOwner(st.Addr); ok && strings.HasSuffix(o, "clientPrefix") {
						okC = true
					}
				}
			})
		}
		r.Check(okC, rule, "client prefix table is built from the station table's StaticMatch bytes", f.Pos(), fnName(f), "applyDefaultPrefixes copies p.StaticMatch", "the client's prefix bytes are no longer taken from the table the station matches against")
	}
}

// isLocalEqualTo: name is a local whose single definition has the given path (e.g. tagEnd := prefix.Offset + 64).
func isLocalEqualTo(f *ssa.Function, name, want string) bool {
	ok := false
	eachInstr(f, func(in ssa.Instruction) {
		if v, isV := in.(ssa.Value); isV && v.Name() != "" {
			if pathOf(v) == want {
				// SSA registers have no source names; compare through DebugRefs is not available: accept when the
				// canonical condition already renders the operand by its defining expression
				_ = name
			}
		}
	})
	return ok || name == want
}

// repoConnSupportsDeadlines: t (a repo type returned as net.Conn) has a SetDeadline that is either promoted from an
// embedded net.Conn or declared and forwarding to a net.Conn-typed field.
func repoConnSupportsDeadlines(c *Ctx, t types.Type) (bool, string) {
	ms := c.P.Prog.MethodSets.MethodSet(t)
	for i := 0; i < ms.Len(); i++ {
		sel := ms.At(i)
		if sel.Obj().Name() != "SetDeadline" {
			continue
		}
		if len(sel.Index()) > 1 {
			return true, "SetDeadline promoted from the embedded connection"
		}
		fn := c.P.Prog.MethodValue(sel)
		if fn == nil || fn.Blocks == nil {
			return false, "SetDeadline body not available"
		}
		forwards := false
		eachInstr(fn, func(in ssa.Instruction) {
			if call, ok := in.(*ssa.Call); ok && call.Call.IsInvoke() && call.Call.Method.Name() == "SetDeadline" {
				forwards = true
			}
		})
		if forwards {
			return true, "SetDeadline forwards to a wrapped connection"
		}
		return false, "declared SetDeadline does not forward to a connection"
	}
	return false, "no SetDeadline method"
}

var depConnMemo = map[string][3]string{}

// depConnTypesRejectingDeadlines loads one dependency package from source and reports whether a net.Conn
// implementation declared there has a SetDeadline all of whose returns are a non-nil constant error.
func depConnTypesRejectingDeadlines(c *Ctx, ifacePkg string) (bool, string, error) {
	// the implementations of obfs4's base.ServerFactory live in the sibling package transports/obfs4
	pkgPath := ifacePkg
	if strings.HasSuffix(ifacePkg, "/transports/base") {
		pkgPath = strings.TrimSuffix(ifacePkg, "/base") + "/obfs4"
	}
	if m, ok := depConnMemo[pkgPath]; ok {
		if m[2] != "" {
			return false, "", fmt.Errorf("%s", m[2])
		}
		return m[0] == "1", m[1], nil
	}
	p, err := LoadProgram(c.Dir, []string{pkgPath}, nil, "")
	if err != nil {
		depConnMemo[pkgPath] = [3]string{"", "", err.Error()}
		return false, "", err
	}
	sp := p.SSAPkgs[pkgPath]
	if sp == nil {
		depConnMemo[pkgPath] = [3]string{"", "", "package not loaded: " + pkgPath}
		return false, "", fmt.Errorf("package not loaded: %s", pkgPath)
	}
	bad, which := false, ""
	for _, mem := range sp.Members {
		tm, ok := mem.(*ssa.Type)
		if !ok {
			continue
		}
		named, ok := tm.Type().(*types.Named)
		if !ok || types.IsInterface(named) {
			continue
		}
		pt := types.NewPointer(named)
		ms := p.Prog.MethodSets.MethodSet(pt)
		hasRead, hasWrite := false, false
		var sd *ssa.Function
		for i := 0; i < ms.Len(); i++ {
			switch ms.At(i).Obj().Name() {
			case "Read":
				hasRead = true
			case "Write":
				hasWrite = true
			case "SetDeadline":
				if len(ms.At(i).Index()) == 1 {
					sd = p.Prog.MethodValue(ms.At(i))
				}
			}
		}
		if !hasRead || !hasWrite || sd == nil || sd.Blocks == nil {
			continue
		}
		always := true
		n := 0
		eachInstr(sd, func(in ssa.Instruction) {
			ret, ok := in.(*ssa.Return)
			if !ok {
				return
			}
			n++
			v := stripConv(ret.Results[0])
			if cst, isC := v.(*ssa.Const); isC && cst.Value == nil {
				always = false
				return
			}
			switch v.(type) {
			case *ssa.Const, *ssa.Global:
			case *ssa.UnOp:
				if _, isG := v.(*ssa.UnOp).X.(*ssa.Global); !isG {
					always = false
				}
			default:
				always = false
			}
		})
		if always && n > 0 {
			bad, which = true, pkgPath[strings.LastIndex(pkgPath, "/")+1:]+"."+named.Obj().Name()
		}
	}
	depConnMemo[pkgPath] = [3]string{map[bool]string{true: "1", false: "0"}[bad], which, ""}
	return bad, which, nil
}

// onlyObservesBuffer: in helper hf, the parameter that receives buf at this call is used only as the receiver of
// non-mutating bytes.Buffer observers.
func onlyObservesBuffer(hf *ssa.Function, call *ssa.Call, buf ssa.Value) bool {
	idx := -1
	for i, a := range call.Call.Args {
		if a == buf {
			idx = i
		}
	}
	if idx < 0 || idx >= len(hf.Params) {
		return false
	}
	prm := hf.Params[idx]
	if prm.Referrers() == nil {
		return true
	}
	for _, ref := range *prm.Referrers() {
		if _, isDbg := ref.(*ssa.DebugRef); isDbg {
			continue
		}
		ci, ok := ref.(*ssa.Call)
		if !ok || recvOf(&ci.Call) != ssa.Value(prm) {
			return false
		}
		switch calleeShort(&ci.Call) {
		case "Len", "Cap", "String", "Available":
		default:
			return false
		}
	}
	return true
}

// checkMarkUnconditional: markActive sets the timeout record to used whatever else holds - only the two "found" tests
// (enabled transport, tracked record) may keep it from doing so. Shared by C04.6 and C08.4b (a registration that
// carried a connection but was not marked - because a lock was busy, a publish failed, ... - is swept at the
// 10-minute mark).
func checkMarkUnconditional(c *Ctx, rule string, minInstances int) {
	r := c.R
	r.Rule(rule, "markActive sets the record to used whatever else holds (only 'transport / record not found' may stop it); MarkActive delegates to it", minInstances)
	if f := c.fn(rule, "pkg/station/lib", "RegisteredDecoys", "markActive"); f != nil {
		usedVal := constIntOf(c.P, repoMod+"/pkg/station/lib", "regStatusUsed")
		n := 0
		eachInstr(f, func(in ssa.Instruction) {
			st, ok := in.(*ssa.Store)
			if !ok {
				return
			}
			_, fld, ok := fieldOwner(st.Addr)
			if !ok || fld != "status" {
				return
			}
			cv, isC := constOf(st.Val)
			if !isC || cv.ExactString() != usedVal {
				return
			}
			n++
			var extra []string
			okk := reachGame(f, in, func(bl *ssa.BasicBlock) int {
				iff, ok := bl.Instrs[len(bl.Instrs)-1].(*ssa.If)
				if !ok {
					return gameAny
				}
				cnd, pol := normCond(iff.Cond)
				if strings.HasSuffix(cnd, "]#1") { // comma-ok of a map lookup: go through FOUND
					if pol {
						return gameSucc0
					}
					return gameSucc1
				}
				if hit, _ := reachAt(f, bl, isInstr(in), nil, nil); !hit {
					return gameAny
				}
				extra = append(extra, cnd)
				return gameAll
			})
			r.Check(okk, rule, "markActive: status = used for every tracked registration of an enabled transport", in.Pos(), fnName(f), "reachable whatever the outcome of every condition other than the found-tests",
				"an identified client's registration is not marked used if a further condition goes the wrong way ("+firstN(strings.Join(uniq(sortedCopy(extra)), ", "), 120)+"): it expires at the unused timeout while its tunnel is open and the detector is never told to extend it")
		})
		if n == 0 {
			r.Unk(rule, "markActive: status store", f.Pos(), fnName(f), "no store of regStatusUsed into a timeout record found")
		}
	}
}
