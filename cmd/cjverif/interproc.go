package main

import (
	"go/constant"
	"go/types"
	"strings"

	"golang.org/x/tools/go/ssa"
)

// Seeing through helpers. Moving a block of a long function into an unexported helper, or a condition into a
// predicate function, is the commonest behaviour-preserving edit; a rule that only looks at the anchored function's
// own CFG would stop seeing its subject. Three small facilities keep the intra-procedural engines usable:
//
//   - predicate summaries: for a repo function with a boolean result, the branch atoms its result implies
//     ("returns true only where live holds"); edgesEstablishing credits a branch on a call of the helper with those
//     atoms, translated into the caller's names;
//   - located calls (findDeep): an anchor call is looked for in the function and, failing that, in the same-package
//     helpers it calls (bounded depth), remembering the chain of call sites;
//   - lifted queries (guardedDeep, mustPassDeep): a guard counts at whichever level of the chain it is established.
//
// All three are may/must-correct in the direction the rules need: a summary atom is only produced when EVERY return
// that can yield the value is dominated by it, and a lifted guard is a real dominator of the located call.

// substParams rewrites a rendered path/condition from the callee's names to the caller's: every identifier token
// that is a parameter (or receiver) of callee and is not a selector (not preceded by '.') is replaced by the
// rendering of the corresponding argument at the call.
func substParams(s string, callee *ssa.Function, c *ssa.CallCommon) string {
	if callee == nil || c == nil {
		return s
	}
	args := c.Args // static call: the receiver, if any, is Args[0] and Params[0]
	repl := map[string]string{}
	for i, prm := range callee.Params {
		if i < len(args) {
			n := pname(prm)
			a := pathOf(args[i])
			if n != a {
				repl[n] = a
			}
		}
	}
	if len(repl) == 0 {
		return s
	}
	var out strings.Builder
	inStr := false
	for i := 0; i < len(s); {
		ch := s[i]
		if ch == '"' {
			inStr = !inStr
			out.WriteByte(ch)
			i++
			continue
		}
		if inStr && ch == '\\' && i+1 < len(s) {
			out.WriteByte(ch)
			out.WriteByte(s[i+1])
			i += 2
			continue
		}
		isIdStart := ch == '_' || ch >= 'a' && ch <= 'z' || ch >= 'A' && ch <= 'Z'
		if inStr || !isIdStart {
			out.WriteByte(ch)
			i++
			continue
		}
		j := i
		for j < len(s) && (s[j] == '_' || s[j] >= 'a' && s[j] <= 'z' || s[j] >= 'A' && s[j] <= 'Z' || s[j] >= '0' && s[j] <= '9') {
			j++
		}
		tok := s[i:j]
		prevDot := i > 0 && (s[i-1] == '.' || s[i-1] == '/' || s[i-1] == ':')
		nextSlash := j < len(s) && s[j] == '/'
		if r, ok := repl[tok]; ok && !prevDot && !nextSlash {
			out.WriteString(r)
		} else {
			out.WriteString(tok)
		}
		i = j
	}
	return out.String()
}

// helperCallee: the call is a static call of a repo function with a body, in the same package as `from`.
func helperCallee(from *ssa.Function, c *ssa.CallCommon) *ssa.Function {
	if c == nil || c.IsInvoke() {
		return nil
	}
	cal := c.StaticCallee()
	if cal == nil || cal.Blocks == nil || cal == from || cal.Package() == nil || from.Package() == nil || cal.Package() != from.Package() {
		return nil
	}
	return cal
}

// ---------------------------------------------------------------------------
// predicate summaries

type predKey struct {
	f   *ssa.Function
	idx int
}

var predCache = map[predKey]map[bool][]Atom{}
var predBusy = map[predKey]bool{}

// boolCallOf: v is the boolean result of a static call of a repo helper: the call, and the result index.
func boolCallOf(v ssa.Value) (*ssa.Call, int, bool) {
	switch x := v.(type) {
	case *ssa.Call:
		if b, ok := x.Type().Underlying().(*types.Basic); ok && b.Kind() == types.Bool {
			return x, 0, true
		}
	case *ssa.Extract:
		if call, ok := x.Tuple.(*ssa.Call); ok {
			if b, ok := x.Type().Underlying().(*types.Basic); ok && b.Kind() == types.Bool {
				return call, x.Index, true
			}
		}
	}
	return nil, 0, false
}

// predicateAtoms: for result #idx of h (a bool), the atoms (in h's own names) implied by the result being true and
// by it being false. An atom is implied by value p when every way h can return p is dominated by the atom.
func predicateAtoms(h *ssa.Function, idx int) map[bool][]Atom {
	k := predKey{h, idx}
	if r, ok := predCache[k]; ok {
		return r
	}
	if predBusy[k] || len(h.Blocks) > 80 {
		return nil
	}
	predBusy[k] = true
	defer delete(predBusy, k)
	res := map[bool][]Atom{}
	// return points: (block whose entry stands for the point, edges that must be excluded, value)
	type retPoint struct {
		target  ssa.Instruction
		exclude map[edge]bool
		val     ssa.Value
	}
	var points []retPoint
	for _, b := range h.Blocks {
		if b.Comment == "recover" || len(b.Instrs) == 0 {
			continue
		}
		ret, ok := b.Instrs[len(b.Instrs)-1].(*ssa.Return)
		if !ok || idx >= len(ret.Results) {
			continue
		}
		v := returnedValue0(ret, idx, nil)
		if ph, ok := v.(*ssa.Phi); ok && ph.Block() == b && len(ph.Edges) == len(b.Preds) {
			for i := range ph.Edges {
				ex := map[edge]bool{}
				for j, p := range b.Preds {
					if j == i {
						continue
					}
					for slot, s := range p.Succs {
						if s == b && predSlot(p, slot, b) == j+1 {
							ex[edge{p.Index, slot, 0}] = true
						}
					}
				}
				points = append(points, retPoint{b.Instrs[0], ex, ph.Edges[i]})
			}
			continue
		}
		points = append(points, retPoint{ret, nil, v})
	}
	if len(points) == 0 || len(points) > 24 {
		predCache[k] = res
		return res
	}
	// candidate atoms: every branch condition of h in both polarities (and what those imply in turn)
	type cand struct {
		a     Atom
		edges map[edge]bool
	}
	var cands []cand
	seen := map[Atom]bool{}
	addCand := func(a Atom) {
		if seen[a] {
			return
		}
		seen[a] = true
		cands = append(cands, cand{a, edgesEstablishing(h, atomMatcher(a))})
	}
	for _, bc := range branchConds(h) {
		for _, val := range []bool{true, false} {
			for _, a := range impliedAtoms(h, bc.cond, val, 1) {
				addCand(a)
			}
		}
	}
	for _, pt := range points {
		if _, isConst := pt.val.(*ssa.Const); !isConst {
			for _, val := range []bool{true, false} {
				for _, a := range impliedAtoms(h, pt.val, val, 1) {
					addCand(a)
				}
			}
		}
	}
	for _, p := range []bool{true, false} {
		for _, cd := range cands {
			implied := true
			any := false
			for _, pt := range points {
				if c, ok := pt.val.(*ssa.Const); ok && c.Value != nil && c.Value.Kind() == constant.Bool {
					if constant.BoolVal(c.Value) != p {
						continue // this point never yields p
					}
				} else {
					// the returned value itself may be the atom
					byValue := false
					for _, a := range impliedAtoms(h, pt.val, p, 1) {
						if a == cd.a {
							byValue = true
						}
					}
					if byValue {
						any = true
						continue
					}
				}
				any = true
				blocked := map[edge]bool{}
				for e := range cd.edges {
					blocked[e] = true
				}
				for e := range pt.exclude {
					blocked[e] = true
				}
				if len(cd.edges) == 0 {
					implied = false
					break
				}
				if hit, _ := reach(h, nil, isInstr(pt.target), nil, blocked); hit {
					implied = false
					break
				}
			}
			if implied && any {
				res[p] = append(res[p], cd.a)
			}
		}
	}
	predCache[k] = res
	return res
}

// impliedAtoms: the canonical atoms implied by boolean value v (evaluated in function f) having truth value val:
// its own canonical condition and, when v is the result of a predicate helper, what the helper's summary says,
// translated to f's names.
func impliedAtoms(f *ssa.Function, v ssa.Value, val bool, depth int) []Atom {
	v, neg := stripNot(v)
	if neg {
		val = !val
	}
	c, pol := normCond(v)
	out := []Atom{{c, pol == val}}
	if depth > 2 {
		return out
	}
	if call, idx, ok := boolCallOf(v); ok {
		if h := helperCallee(f, &call.Call); h != nil {
			for _, a := range predicateAtoms(h, idx)[val] {
				out = append(out, Atom{substParams(a.Cond, h, &call.Call), a.Pol})
			}
		}
	}
	return out
}

// ---------------------------------------------------------------------------
// located calls

type located struct {
	call  ssa.Instruction // the anchor (a call, go or defer - or any instruction for findInstrDeep)
	in    *ssa.Function   // the function that contains it
	chain []*ssa.Call     // call sites leading from the root function down to `in` (empty when in == root)
	fns   []*ssa.Function // fns[i] contains chain[i]; fns[0] is the root
}

func (l located) common() *ssa.CallCommon {
	if ci, ok := l.call.(ssa.CallInstruction); ok {
		return ci.Common()
	}
	return nil
}

func (l located) value() ssa.Value {
	if ci, ok := l.call.(ssa.CallInstruction); ok && ci.Value() != nil {
		return ci.Value()
	}
	if v, ok := l.call.(ssa.Value); ok {
		return v
	}
	return nil
}

// findInstrDeep: instructions satisfying pred in root and in the same-package helpers it calls (depth levels down).
func findInstrDeep(root *ssa.Function, pred func(l located) bool, depth int) []located {
	var out []located
	eachInstrDeep(root, depth, func(in ssa.Instruction, d deepCtx) {
		l := located{in, d.f, append([]*ssa.Call{}, d.chain...), append([]*ssa.Function{}, d.fns...)}
		if pred(l) {
			out = append(out, l)
		}
	})
	return out
}

// site: the instruction of the root function that stands for the anchor (the anchor itself, or the call of the
// helper through which it is reached).
func (l located) site() ssa.Instruction {
	if len(l.chain) > 0 {
		return l.chain[0]
	}
	return l.call
}

// toRoot renders a path/condition of the anchor's function in the root function's names.
func (l located) toRoot(s string) string {
	for i := len(l.chain) - 1; i >= 0; i-- {
		callee := l.in
		if i+1 < len(l.fns) {
			callee = l.fns[i+1]
		}
		s = substParams(s, callee, &l.chain[i].Call)
	}
	return s
}

// findDeep: calls matching `match` in root or, when there is none at a level, in the same-package helpers called
// from that level (depth levels down).
func findDeep(root *ssa.Function, match func(name string, c *ssa.CallCommon) bool, depth int) []located {
	var out []located
	var walk func(f *ssa.Function, chain []*ssa.Call, fns []*ssa.Function, d int, seen map[*ssa.Function]bool)
	walk = func(f *ssa.Function, chain []*ssa.Call, fns []*ssa.Function, d int, seen map[*ssa.Function]bool) {
		for _, ci := range callsIn(f, match) {
			out = append(out, located{ci, f, append([]*ssa.Call{}, chain...), append(append([]*ssa.Function{}, fns...), f)})
		}
		if d >= depth {
			return
		}
		eachInstr(f, func(in ssa.Instruction) {
			call, ok := in.(*ssa.Call)
			if !ok {
				return
			}
			h := helperCallee(f, &call.Call)
			if h == nil || seen[h] {
				return
			}
			if match(calleeName(&call.Call), &call.Call) {
				return // the anchor itself, do not descend into it
			}
			seen[h] = true
			walk(h, append(append([]*ssa.Call{}, chain...), call), append(append([]*ssa.Function{}, fns...), f), d+1, seen)
			delete(seen, h)
		})
	}
	walk(root, nil, nil, 0, map[*ssa.Function]bool{root: true})
	return out
}

// findOneDeep: the last matching call in root itself if there is one (the behaviour the rules had), else the
// unique located call below it.
func findOneDeep(root *ssa.Function, match func(name string, c *ssa.CallCommon) bool) (located, bool) {
	var direct ssa.Instruction
	for _, ci := range callsIn(root, match) {
		direct = ci
	}
	if direct != nil {
		return located{direct, root, nil, []*ssa.Function{root}}, true
	}
	var deep []located
	for _, l := range findDeep(root, match, 2) {
		if len(l.chain) > 0 {
			deep = append(deep, l)
		}
	}
	if len(deep) == 1 {
		return deep[0], true
	}
	return located{}, false
}

// guardedDeepM: the located call executes only when a condition accepted by match (given in the ROOT function's
// names) holds - established at any level of the chain.
func guardedDeepM(l located, match func(cond string, pol bool) bool) bool {
	for i := 0; i <= len(l.chain); i++ {
		f := l.in
		var in ssa.Instruction = l.call
		if i < len(l.chain) {
			f, in = l.fns[i], l.chain[i]
		}
		lvl := i
		m := func(c string, pol bool) bool {
			// translate from level lvl's names to the root's
			for j := lvl - 1; j >= 0; j-- {
				callee := l.in
				if j+1 < len(l.fns) {
					callee = l.fns[j+1]
				}
				c = substParams(c, callee, &l.chain[j].Call)
			}
			return match(c, pol)
		}
		if guardedM(f, in, m) {
			return true
		}
	}
	return false
}

func guardedDeep(l located, atoms ...Atom) bool { return guardedDeepM(l, atomMatcher(atoms...)) }

// mustPassDeep: every execution of the root-level site runs the located call (each helper on the chain reaches its
// own exits only through the next link). With an empty chain this is trivially true.
func mustPassDeep(l located) bool {
	for i := 0; i < len(l.chain); i++ {
		callee := l.in
		if i+1 < len(l.fns) {
			callee = l.fns[i+1]
		}
		var next ssa.Instruction = l.call
		if i+1 < len(l.chain) {
			next = l.chain[i+1]
		}
		if hit, _ := reach(callee, nil, isReturn, isInstr(next), nil); hit {
			return false
		}
	}
	return true
}

// ---------------------------------------------------------------------------
// instructions of a function and of the same-package helpers it calls

type deepCtx struct {
	f     *ssa.Function
	chain []*ssa.Call
	fns   []*ssa.Function
}

// toRoot renders a path of d.f in the root function's names.
func (d deepCtx) toRoot(s string) string {
	return located{in: d.f, chain: d.chain, fns: d.fns}.toRoot(s)
}

// eachInstrDeep visits the instructions of root and, through static calls, of the same-package helpers it calls
// (depth levels down; each helper once per call chain).
func eachInstrDeep(root *ssa.Function, depth int, visit func(in ssa.Instruction, d deepCtx)) {
	var walk func(f *ssa.Function, chain []*ssa.Call, fns []*ssa.Function, lvl int, seen map[*ssa.Function]bool)
	walk = func(f *ssa.Function, chain []*ssa.Call, fns []*ssa.Function, lvl int, seen map[*ssa.Function]bool) {
		d := deepCtx{f, chain, append(append([]*ssa.Function{}, fns...), f)}
		eachInstr(f, func(in ssa.Instruction) {
			visit(in, d)
			if lvl >= depth {
				return
			}
			call, ok := in.(*ssa.Call)
			if !ok {
				return
			}
			h := helperCallee(f, &call.Call)
			if h == nil || seen[h] {
				return
			}
			seen[h] = true
			walk(h, append(append([]*ssa.Call{}, chain...), call), d.fns, lvl+1, seen)
			delete(seen, h)
		})
	}
	walk(root, nil, nil, 0, map[*ssa.Function]bool{root: true})
}

// ---------------------------------------------------------------------------
// phase-split queries: the function under a rule may have been split into a predicate phase ("admit": returns
// whether to go on) and an action phase; conditions are then tested in one helper and acted on in another.

// levelFns returns, for level k of l's chain, the function and the instruction that stands for the target there.
func (l located) level(k int) (*ssa.Function, ssa.Instruction) {
	if k < len(l.chain) {
		return l.fns[k], l.chain[k]
	}
	return l.in, l.call
}

// toRootFrom translates a condition rendered in the names of level k to the root's names.
func (l located) toRootFrom(k int, s string) string {
	for j := k - 1; j >= 0; j-- {
		callee := l.in
		if j+1 < len(l.fns) {
			callee = l.fns[j+1]
		}
		s = substParams(s, callee, &l.chain[j].Call)
	}
	return s
}

// gatingPredicates: the same-package predicate helpers called in f whose boolean result (== val) guards instruction in.
type gate struct {
	call *ssa.Call
	h    *ssa.Function
	idx  int
	val  bool
}

func gatingPredicates(f *ssa.Function, in ssa.Instruction) []gate {
	var out []gate
	eachInstr(f, func(x ssa.Instruction) {
		call, ok := x.(*ssa.Call)
		if !ok {
			return
		}
		h := helperCallee(f, &call.Call)
		if h == nil {
			return
		}
		res := h.Signature.Results()
		for i := 0; i < res.Len(); i++ {
			if b, ok := res.At(i).Type().Underlying().(*types.Basic); !ok || b.Kind() != types.Bool {
				continue
			}
			p := pathOf(call)
			if res.Len() > 1 {
				p += "#" + itoa(i)
			}
			for _, val := range []bool{true, false} {
				v := val
				if guardedM(f, in, func(c string, pol bool) bool { return c == p && pol == v }) {
					out = append(out, gate{call, h, i, val})
				}
			}
		}
	})
	return out
}

// mayReturn: from the edge prev->start of h, can h return a value of result idx that may equal val, without passing
// blockedI / blockedE?
func mayReturn(h *ssa.Function, prev, start *ssa.BasicBlock, idx int, val bool, blockedI func(ssa.Instruction) bool, blockedE map[edge]bool) bool {
	for _, v := range returnedAlongX(h, prev, start, idx, blockedI, blockedE) {
		if c, ok := v.(*ssa.Const); ok && c.Value != nil && c.Value.Kind() == constant.Bool {
			if constant.BoolVal(c.Value) == val {
				return true
			}
			continue
		}
		return true
	}
	return false
}

// neverAfter: the located target never runs after a branch edge that establishes a condition accepted by `from`
// (conditions are given in the ROOT function's names), except along edges that establish one accepted by `unless`
// (may be nil). found=false when no such edge exists anywhere the target's chain can see (undecided).
func neverAfter(l located, from, unless func(cond string, pol bool) bool) (ok, found bool) {
	ok = true
	for k := 0; k <= len(l.chain); k++ {
		f, in := l.level(k)
		lvl := k
		tr := func(m func(string, bool) bool) func(string, bool) bool {
			if m == nil {
				return nil
			}
			return func(c string, pol bool) bool { return m(l.toRootFrom(lvl, c), pol) }
		}
		var blocked map[edge]bool
		if unless != nil {
			blocked = edgesEstablishing(f, tr(unless))
		}
		for e := range edgesEstablishing(f, tr(from)) {
			found = true
			succ := f.Blocks[e.from].Succs[e.slot]
			if len(succ.Instrs) == 0 {
				continue
			}
			if hit, _ := reachAt(f, succ, isInstr(in), nil, blocked); hit {
				ok = false
			}
		}
		// conditions tested in a predicate phase whose verdict gates the target at this level
		for _, g := range gatingPredicates(f, in) {
			gt := g
			trH := func(m func(string, bool) bool) func(string, bool) bool {
				if m == nil {
					return nil
				}
				return func(c string, pol bool) bool {
					return m(l.toRootFrom(lvl, substParams(c, gt.h, &gt.call.Call)), pol)
				}
			}
			var blockedH map[edge]bool
			if unless != nil {
				blockedH = edgesEstablishing(g.h, trH(unless))
			}
			for e := range edgesEstablishing(g.h, trH(from)) {
				found = true
				if mayReturn(g.h, g.h.Blocks[e.from], g.h.Blocks[e.from].Succs[e.slot], g.idx, g.val, nil, blockedH) {
					// ... and from the predicate's call on to the target without an `unless` edge at this level
					// (what the predicate established still holds: edges on which its negation would hold are not taken)
					cont := map[edge]bool{}
					for e2 := range blocked {
						cont[e2] = true
					}
					trF := tr(from)
					for e2 := range edgesEstablishing(f, func(c string, pol bool) bool { return trF(c, !pol) }) {
						cont[e2] = true
					}
					if hit, _ := reach(f, g.call, isInstr(in), nil, cont); hit {
						ok = false
					}
				}
			}
		}
	}
	return ok, found
}

// alwaysBefore: every execution that reaches the located target has executed the located `via` before, except along
// edges that establish a condition accepted by `exempt` (root names). Handles: both in the root; `via` inside a
// helper called on the way (every path through the helper passes it); `via` inside a predicate phase whose verdict
// gates the target (every path to the gating verdict passes it).
func alwaysBefore(target, via located, exempt func(cond string, pol bool) bool) bool {
	root := target.fns[0]
	tsite, vsite := target.site(), via.site()
	var exemptRoot map[edge]bool
	if exempt != nil {
		exemptRoot = edgesEstablishing(root, exempt)
	}
	if bypass, _ := reach(root, nil, isInstr(tsite), isInstr(vsite), exemptRoot); bypass {
		return false
	}
	if len(via.chain) == 0 {
		return true
	}
	// inside the helpers on via's chain
	for k := 0; k < len(via.chain); k++ {
		h := via.in
		if k+1 < len(via.fns) {
			h = via.fns[k+1]
		}
		var next ssa.Instruction = via.call
		if k+1 < len(via.chain) {
			next = via.chain[k+1]
		}
		lvl := k + 1
		var exemptH map[edge]bool
		if exempt != nil {
			exemptH = edgesEstablishing(h, func(c string, pol bool) bool { return exempt(via.toRootFrom(lvl, c), pol) })
		}
		// is the helper a predicate phase whose verdict gates the target? then only the gating verdict matters
		gated := false
		if k == 0 {
			for _, g := range gatingPredicates(root, tsite) {
				if g.call == via.chain[0] {
					gated = true
					if mayReturn(h, nil, h.Blocks[0], g.idx, g.val, isInstr(next), exemptH) {
						return false
					}
				}
			}
		}
		if !gated {
			if hit, _ := reach(h, nil, isReturn, isInstr(next), exemptH); hit {
				return false
			}
		}
	}
	return true
}
