package main

import (
	"fmt"
	"go/token"
	"sort"
	"strings"

	"golang.org/x/tools/go/ssa"
)

func init() {
	register("C06", &propCheck{Run: checkC06,
		Explain: "C06.1 the covert guard performs exactly one resolution; every non-empty return is JoinHostPort(addr.String(), port) of that resolution's result, dominated by the not-blocklisted edge of the subnet test on that same address, the not-blocklisted edge of the domain test on the host, and a successful 16-bit port parse; the subnet test consults the allowlist under its enable flag and the blocklist otherwise, with the right polarity; " +
			"C06.2 in ingest, every path to AddRegistration passes the store reg.Covert = <the guard's result> and its non-empty edge; " +
			"C06.3 DecoyRegistration.Covert has exactly two writers (constructor literal, the ingest store); " +
			"C06.4 dial sites in station code are a reviewed table: Proxy dials the registration's stored Covert string, nothing else dials a value derived from a registration's covert or its original client message. " +
			"Decides 'the address that was checked is the address that is dialed' and 'no second path from a covert string to a dialer' structurally; the textual forms of literals and subnet arithmetic are not decided.",
		Assume: []string{"net.ResolveIPAddr returns the address that addr.IP / addr.String() describe", "(*net.IPNet).Contains is correct"}})
}

func checkC06(c *Ctx) {
	r := c.R
	const lib = "pkg/station/lib"
	// ---- C06.1
	r.Rule("C06.1", "the guard returns the single checked resolution result, dominated by the policy tests", 6)
	checkCovertGuard(c, "C06.1", false)
	if f := c.fn("C06.1", lib, "RegConfig", "isBlocklistedCovertAddr"); f != nil {
		// under enableCovertAllowlist: true unless an allowlist net contains it; else: true iff a blocklist net contains it
		type retInfo struct {
			val              string
			allow, block, en int // guard: 1 true, -1 false, 0 none
		}
		okAll := true
		nRet := 0
		eachInstr(f, func(in ssa.Instruction) {
			ret, ok := in.(*ssa.Return)
			if !ok {
				return
			}
			nRet++
			cv, isC := constOf(ret.Results[0])
			underAllow := guarded(f, ret, Atom{"c.enableCovertAllowlist", true})
			if !isC {
				// `return [!]anyContains(c.<list>, addr)`: a helper of the package that answers true exactly under a
				// Contains match of an element of the list it is handed stands for the two constant returns of the loop
				v, neg := stripNot(returnedValue(ret, 0, nil))
				hc, isCall := v.(*ssa.Call)
				if !isCall {
					okAll = false
					return
				}
				hf := helperCallee(f, &hc.Call)
				list := ""
				if hf != nil && len(hc.Call.Args) == 2 && anyContainsHelper(hf) && pathOf(hc.Call.Args[1]) == "addr" {
					list = pathOf(hc.Call.Args[0])
				}
				switch {
				case list == "c.covertAllowlistSubnets" && neg && underAllow:
					nRet++ // allowed iff in the allowlist
				case list == "c.covertBlocklistSubnets" && !neg && !underAllow:
					nRet++ // blocklisted iff in the blocklist
				default:
					okAll = false
				}
				return
			}
			inAllowMatch := guardedM(f, ret, func(cnd string, pol bool) bool {
				return pol && strings.Contains(cnd, "c.covertAllowlistSubnets[") && strings.HasSuffix(cnd, ".Contains(addr)")
			})
			inBlockMatch := guardedM(f, ret, func(cnd string, pol bool) bool {
				return pol && strings.Contains(cnd, "c.covertBlocklistSubnets[") && strings.HasSuffix(cnd, ".Contains(addr)")
			})
			v := cv.String() == "true"
			switch {
			case inAllowMatch:
				if v || !underAllow {
					okAll = false
				}
			case inBlockMatch:
				if !v || underAllow {
					okAll = false
				}
			case underAllow:
				if !v {
					okAll = false // allowlist enabled, no match => blocklisted
				}
			default:
				if v {
					okAll = false // blocklist mode, no match => allowed
				}
			}
		})
		r.Check(okAll && nRet == 4, "C06.1", "isBlocklistedCovertAddr: allowlist (when enabled) takes precedence; otherwise blocklisted iff in a blocklist subnet", f.Pos(), fnName(f), fmt.Sprintf("%d returns with the expected polarity", nRet),
			"the subnet policy test has the wrong polarity or consults the wrong list for some outcome: forbidden covert addresses are admitted (or every permitted one refused)")
	}

	// ---- C06.2
	r.Rule("C06.2", "a registration cannot become valid before its covert was overwritten with the checked literal", 2)
	if f := c.fn("C06.2", lib, "RegistrationManager", "ingestRegistration"); f != nil {
		// the anchors, in ingestRegistration itself or in a helper / phase it delegates to
		addL, ok1 := findOneDeep(f, shortIs("AddRegistration"))
		guardL, ok2 := findOneDeep(f, shortIs("ParseOrResolveBlocklisted"))
		if !ok1 || !ok2 {
			r.Unk("C06.2", "ingestRegistration: AddRegistration / ParseOrResolveBlocklisted", f.Pos(), fnName(f), "not found")
		} else {
			add := addL.site()
			res0 := guardL.toRoot(pathOf(guardL.value())) + "#0"
			stores := findInstrDeep(f, func(l located) bool {
				st, ok := l.call.(*ssa.Store)
				if !ok {
					return false
				}
				o, fld, ok := fieldOwner(st.Addr)
				return ok && o == "lib.DecoyRegistration" && fld == "Covert" && l.toRoot(pathOf(st.Addr.(*ssa.FieldAddr).X)) == "reg" && l.toRoot(pathOf(st.Val)) == res0
			}, 2)
			skip := true
			var w []int
			for _, sl := range stores {
				if alwaysBefore(addL, sl, nil) {
					skip = false
				}
			}
			if skip && len(stores) > 0 {
				_, w = reach(f, nil, isInstr(add), isInstr(stores[0].site()), nil)
			}
			// the other way a registration reaches a dialer: connecting transports (the station connects back and
			// relays to reg.Covert) - only for a delivery whose covert was replaced by the checked literal
			for _, cl := range findDeep(f, shortIs("handleConnectingTpReg"), 2) {
				okc := guardedDeep(cl, Atom{"(" + orderEq(`""`, res0) + ")", false})
				before := false
				for _, sl := range stores {
					if alwaysBefore(cl, sl, nil) {
						before = true
					}
				}
				r.Check(okc && before, "C06.2", "ingestRegistration: a registration is handed to the connecting transports only after its covert was checked and replaced", cl.call.Pos(), fnName(cl.in), "must-pass store of the checked literal + non-empty guard",
					"a delivery whose covert is still the client's own string (never checked, e.g. a re-sent registration) is handed to a connecting transport: the station connects back and Proxy dials that string")
			}
			g := guardedDeep(addL, Atom{"(" + orderEq(`""`, res0) + ")", false})
			argOK := guardL.toRoot(pathOf(argsOf(guardL.common())[0])) == "reg.Covert" && addL.toRoot(pathOf(argsOf(addL.common())[0])) == "reg"
			if skip || !g || !argOK {
				r.Bad("C06.2", "ingestRegistration: AddRegistration reachable without reg.Covert = <checked literal> (non-empty)", add.Pos(), fnName(f),
					"a registration can be validated while its covert is still the client's string (a host name, or an address that was never checked): Proxy dials it later, resolving it again", r.blockPath(f, w)...)
			} else {
				r.OK("C06.2", "ingestRegistration: every path to AddRegistration stores the checked literal into reg.Covert and passes its non-empty test", add.Pos(), "must-pass store + guard")
			}
		}
	}

	// C06.2b: the instance that becomes valid carries the checked covert. register() validates the TRACKED instance
	// (looked up by phantom + identifier), which need not be the delivery that passed admission.
	if f := c.fn("C06.2", lib, "RegisteredDecoys", "register"); f != nil {
		var dparam *ssa.Parameter
		for _, p := range f.Params {
			if strings.HasSuffix(typeShort(p.Type()), "lib.DecoyRegistration") {
				dparam = p
			}
		}
		n := 0
		for _, st := range fieldStores(f, "lib.DecoyRegistration", "Valid") {
			cv, isC := constOf(st.Val)
			if !isC || cv.String() != "true" || dparam == nil {
				continue
			}
			n++
			x := pathOf(st.Addr.(*ssa.FieldAddr).X)
			d := pname(dparam)
			if x == d {
				r.OK("C06.2", "register: the instance marked valid is the delivery that passed admission", st.Pos(), "Valid stored on the parameter itself")
				continue
			}
			isAdopt := func(in ssa.Instruction) bool {
				s2, ok := in.(*ssa.Store)
				if !ok {
					return false
				}
				o, fld, ok := fieldOwner(s2.Addr)
				return ok && o == "lib.DecoyRegistration" && fld == "Covert" && pathOf(s2.Addr.(*ssa.FieldAddr).X) == x && pathOf(s2.Val) == d+".Covert"
			}
			same := edgesEstablishing(f, atomMatcher(Atom{"(" + orderEq(d, x) + ")", true}))
			stale, w := reach(f, nil, isInstr(st), isAdopt, same)
			if stale {
				r.Bad("C06.2", "register: validates the tracked instance without adopting the checked covert of the delivery that passed admission", st.Pos(), fnName(f),
					"register() sets Valid on "+firstN(x, 40)+" (the instance found by phantom and identifier), not on its argument: when another delivery with the same secret but a different covert was tracked first (two concurrent workers, or a re-registration), the instance that becomes usable still carries a covert string that was refused or never checked, and Proxy dials it", r.blockPath(f, w)...)
			} else {
				r.OK("C06.2", "register: the tracked instance adopts the covert of the delivery that passed admission before it becomes valid", st.Pos(), "must-pass "+x+".Covert = "+d+".Covert unless the two are the same object")
			}
		}
		if n == 0 {
			r.Unk("C06.2", "register: Valid = true", f.Pos(), fnName(f), "store not found")
		}
	}

	// ---- C06.6 the domain patterns mean what the operator wrote: they are compiled from the configured strings as they
	// are and matched against the host as it is (a regular expression is not text: lower-casing "\\S+" or "\\Alocalhost"
	// silently changes what it matches)
	r.Rule("C06.6", "domain patterns are compiled from the configured text unchanged and matched against the unchanged host", 2)
	if f := c.fn("C06.6", lib, "RegConfig", "ParseBlocklists"); f != nil {
		n := 0
		eachInstr(f, func(in ssa.Instruction) {
			call, ok := in.(*ssa.Call)
			if !ok {
				return
			}
			switch calleeName(&call.Call) {
			case "regexp.Compile", "regexp.MustCompile", "regexp.CompilePOSIX", "regexp.MustCompilePOSIX":
			default:
				return
			}
			n++
			okk := false
			switch x := stripConv(call.Call.Args[0]).(type) {
			case *ssa.UnOp:
				if ia, isIA := x.X.(*ssa.IndexAddr); isIA && x.Op == token.MUL {
					okk = pathOf(ia.X) == P(f, 0)+".CovertBlocklistDomains"
				}
			case *ssa.Extract:
				if nx, isNext := x.Tuple.(*ssa.Next); isNext && x.Index == 2 {
					if rg, isR := nx.Iter.(*ssa.Range); isR {
						okk = pathOf(rg.X) == P(f, 0)+".CovertBlocklistDomains"
					}
				}
			}
			r.Check(okk && calleeName(&call.Call) == "regexp.Compile", "C06.6", "ParseBlocklists: pattern compiled from the configured string itself", call.Pos(), fnName(f), firstN(pathOf(call.Call.Args[0]), 80),
				"the blocklisted-domain pattern is compiled from "+firstN(pathOf(call.Call.Args[0]), 60)+", not from the configured text (or with another syntax): escapes such as \\S, \\D, \\W, \\A change meaning under a text transformation and the hosts the operator blocked are admitted")
		})
		if n == 0 {
			r.Unk("C06.6", "ParseBlocklists: regexp.Compile", f.Pos(), fnName(f), "no pattern compilation found")
		}
	}
	if f := c.fn("C06.6", lib, "RegConfig", "isBlocklistedCovertDomain"); f != nil && len(f.Params) == 2 {
		n := 0
		eachInstr(f, func(in ssa.Instruction) {
			call, ok := in.(*ssa.Call)
			if !ok || !strings.HasPrefix(calleeName(&call.Call), "(*regexp.Regexp).") {
				return
			}
			n++
			okk := calleeName(&call.Call) == "(*regexp.Regexp).MatchString" && len(call.Call.Args) == 2 && call.Call.Args[1] == ssa.Value(f.Params[1]) &&
				strings.HasPrefix(pathOf(call.Call.Args[0]), P(f, 0)+".covertBlocklistDomains[")
			r.Check(okk, "C06.6", "isBlocklistedCovertDomain: every compiled pattern is matched against the host as given", call.Pos(), fnName(f), firstN(pathOf(call), 80),
				"the host is transformed before matching, or matched with something other than the compiled configured patterns")
		})
		if n == 0 {
			r.Unk("C06.6", "isBlocklistedCovertDomain: MatchString", f.Pos(), fnName(f), "no pattern match found")
		}
	}

	// ---- C06.8 covert_blocklist_public_addrs: an interface address reported as a network (*net.IPNet: address and the
	// prefix of the directly connected subnet) goes onto the covert blocklist as that network
	r.Rule("C06.8", "interface networks are blocklisted whole when covert_blocklist_public_addrs is set", 1)
	if f := c.fn("C06.8", lib, "RegConfig", "ParseBlocklists"); f != nil {
		n := 0
		eachInstr(f, func(in ssa.Instruction) {
			ta, ok := in.(*ssa.TypeAssert)
			if !ok || !ta.CommaOk || typeShort(ta.AssertedType) != "*net.IPNet" || !strings.Contains(pathOf(ta.X), ".Addrs()") {
				return
			}
			n++
			vp := pathOf(ta) + "#0"
			records := map[ssa.Instruction]bool{}
			eachInstr(f, func(in2 ssa.Instruction) {
				st, ok := in2.(*ssa.Store)
				if !ok {
					return
				}
				if o, fld, ok := fieldOwner(st.Addr); ok && o == "lib.RegConfig" && fld == "covertBlocklistSubnets" && pathOf(st.Val) == "append(c.covertBlocklistSubnets, ["+vp+"])" {
					records[in2] = true
				}
			})
			missEdges := edgesEstablishing(f, atomMatcher(Atom{pathOf(ta) + "#1", false}))
			// the loop over the interface's addresses: the innermost range loop that contains the assertion
			var header *ssa.BasicBlock
			for _, b := range f.Blocks {
				if b.Comment != "rangeindex.loop" || len(b.Instrs) == 0 {
					continue
				}
				fwd, _ := reach(f, b.Instrs[0], isInstr(in), nil, nil)
				back, _ := reach(f, in, isInstr(b.Instrs[0]), nil, nil)
				if fwd && back && (header == nil || b.Index > header.Index) {
					header = b
				}
			}
			hit, w := reach(f, in, func(in2 ssa.Instruction) bool {
				if _, isR := in2.(*ssa.Return); isR {
					return true
				}
				return header != nil && in2 == header.Instrs[0]
			}, inSet(records), missEdges)
			if len(records) == 0 || hit {
				r.Bad("C06.8", "ParseBlocklists: an interface network may not be blocklisted as reported", in.Pos(), fnName(f),
					"an interface address that is reported as a network (address/prefix) does not reach c.covertBlocklistSubnets unchanged on every path: the directly connected subnet drops off the covert blocklist (only the station's own host address stays), so neighbours on the station's networks can be dialed", r.blockPath(f, w)...)
			} else {
				r.OK("C06.8", "ParseBlocklists: every interface network is appended to the covert blocklist as reported", in.Pos(), fmt.Sprintf("%d recording store(s), must-pass before the next address", len(records)))
			}
		})
		if n == 0 {
			r.Unk("C06.8", "ParseBlocklists: interface addresses", f.Pos(), fnName(f), "no type test for *net.IPNet on Interface.Addrs() found")
		}
	}

	// ---- C06.7 the policy that is enforced is the policy that was configured (shared with C19.6)
	checkPolicyListWriters(c, "C06.7")

	// ---- C06.3
	checkCovertWriters(c, "C06.3")

	// ---- C06.10 "(and inside the allowlist when one is configured)": with the allowlist enabled the blocklist is not
	// what decides - the blocklist is consulted only on the enableCovertAllowlist == false side
	r.Rule("C06.10", "with the allowlist enabled the verdict never falls through to the blocklist", 1)
	if f := c.fn("C06.10", lib, "RegConfig", "isBlocklistedCovertAddr"); f != nil {
		n := 0
		eachInstrDeep(f, 1, func(in ssa.Instruction, d deepCtx) {
			if d.f != f {
				return
			}
			var v ssa.Value
			switch x := in.(type) {
			case *ssa.UnOp:
				if x.Op == token.MUL {
					v = x.X
				}
			}
			if v == nil {
				return
			}
			if _, fld, ok := fieldOwner(v); !ok || fld != "covertBlocklistSubnets" {
				return
			}
			n++
			g := guardedM(f, in, func(cnd string, pol bool) bool { return strings.HasSuffix(cnd, ".enableCovertAllowlist") && !pol })
			r.Check(g, "C06.10", "isBlocklistedCovertAddr: the blocklist is read only when the allowlist is off", in.Pos(), fnName(f), "dominated by enableCovertAllowlist == false",
				"with the allowlist enabled an address can still be judged by the blocklist (an allowlist that does not 'cover' it falls through): addresses outside the configured allowlist are admitted")
		})
		if n == 0 {
			r.Unk("C06.10", "isBlocklistedCovertAddr: read of the blocklist", f.Pos(), fnName(f), "not found")
		}
	}

	// ---- C06.11 "whose host did not match a blocklisted domain pattern": the pattern test looks at the patterns whatever
	// else is configured (an allowlist does not switch it off)
	r.Rule("C06.11", "isBlocklistedCovertDomain consults the patterns on every path", 1)
	if f := c.fn("C06.11", lib, "RegConfig", "isBlocklistedCovertDomain"); f != nil {
		n := 0
		eachInstr(f, func(in ssa.Instruction) {
			u, ok := in.(*ssa.UnOp)
			if !ok || u.Op != token.MUL {
				return
			}
			if _, fld, ok := fieldOwner(u.X); !ok || fld != "covertBlocklistDomains" {
				return
			}
			n++
			r.Check(unconditional(f, in), "C06.11", "isBlocklistedCovertDomain: the pattern list is read on every path", in.Pos(), fnName(f), "reached whatever any condition says",
				"the domain patterns are skipped under some condition (an enabled allowlist, a kind of host): a host that matches a blocklisted pattern is resolved and, if the answer is otherwise acceptable, admitted")
		})
		if n == 0 {
			r.Unk("C06.11", "isBlocklistedCovertDomain: read of the patterns", f.Pos(), fnName(f), "not found")
		}
	}

	// ---- C06.9 "for every station configuration": after a reload the lists in force are the new configuration's
	r.Rule("C06.9", "a reload takes over every parsed policy list of the new configuration, unconditionally", 2)
	checkReloadTakeover(c, "C06.9")

	// ---- C06.4 dial sites
	// ---- C06.5 the decision is a function of the input and the current policy only
	r.Rule("C06.5", "the covert guard and everything it calls keep no state of their own: no store to a field, map, global or channel", 1)
	if f := c.P.Func(repoMod+"/"+lib, "RegConfig", "ParseOrResolveBlocklisted"); f != nil && f.Blocks != nil {
		seen := map[*ssa.Function]bool{}
		var order []*ssa.Function
		var visit func(g *ssa.Function)
		visit = func(g *ssa.Function) {
			if g == nil || seen[g] || g.Blocks == nil || !isRepoPath(fnPkgPath(g)) || strings.Contains(fnPkgPath(g), "/station/log") {
				return
			}
			seen[g] = true
			order = append(order, g)
			for _, a := range g.AnonFuncs {
				visit(a)
			}
			eachInstr(g, func(in ssa.Instruction) {
				if ci, ok := in.(ssa.CallInstruction); ok {
					visit(ci.Common().StaticCallee())
				}
			})
		}
		visit(f)
		nBad := 0
		for _, g := range order {
			eachInstr(g, func(in ssa.Instruction) {
				what := ""
				switch x := in.(type) {
				case *ssa.Store:
					switch a := x.Addr.(type) {
					case *ssa.FieldAddr:
						if al, isLocal := a.X.(*ssa.Alloc); isLocal && !al.Heap {
							return
						}
						if al, isLocal := a.X.(*ssa.Alloc); isLocal && freshRoot(al, g) {
							return
						}
						what = "stores to " + firstN(pathOf(a), 50)
					case *ssa.Global:
						what = "stores to package variable " + a.Name()
					}
				case *ssa.MapUpdate:
					if _, fld, ok := fieldOwner(stripLoad(x.Map)); ok {
						what = "updates the map in field " + fld
					} else if u, ok := x.Map.(*ssa.UnOp); ok {
						if gl, ok := u.X.(*ssa.Global); ok {
							what = "updates the package-level map " + gl.Name()
						}
					}
				case *ssa.Send:
					what = "sends on a channel"
				case ssa.CallInstruction:
					n := calleeName(x.Common())
					if n == "(*sync.Map).Store" || n == "(*sync.Map).LoadOrStore" || n == "(*sync.Pool).Put" {
						what = "calls " + shortName(n)
					}
				}
				if what != "" {
					nBad++
					r.Bad("C06.5", fnName(g)+": "+what, in.Pos(), fnName(g), "code reachable from the covert guard "+what+": the guard's answer can then depend on earlier calls (a remembered admission outlives a policy reload; a remembered refusal outlives an allowlist change) instead of the current policy alone")
				}
			})
		}
		if nBad == 0 {
			r.OK("C06.5", "ParseOrResolveBlocklisted and its callees keep no state", f.Pos(), fmt.Sprintf("%d function(s) reachable through static calls: no field / map / global / channel write", len(order)))
		}
	}

	r.Rule("C06.4", "dial sites in station code are reviewed; only Proxy dials a registration's stored covert", 3)
	stationPkgs := []string{"pkg/station/lib", "pkg/station/liveness", "cmd/application", "pkg/transports/connecting/dtls", "pkg/dtls", "pkg/dtls/dnat", "pkg/station/geoip", "pkg/station/log"}
	dialers := map[string]bool{"net.Dial": true, "net.DialTimeout": true, "net.DialTCP": true, "net.DialUDP": true, "net.DialIP": true, "(*net.Dialer).Dial": true, "(*net.Dialer).DialContext": true,
		"net/http.Post": true, "net/http.Get": true, "net/http.PostForm": true, "net/http.Head": true, "(*net/http.Client).Post": true, "(*net/http.Client).Get": true, "(*net/http.Client).Do": true}
	var seen []string
	for _, f := range c.funcsOfPkgs(stationPkgs...) {
		eachInstr(f, func(in ssa.Instruction) {
			call, ok := in.(*ssa.Call)
			if !ok || !dialers[calleeName(&call.Call)] {
				return
			}
			n := calleeName(&call.Call)
			// address argument
			var addr ssa.Value
			switch {
			case strings.HasPrefix(n, "net.Dial") && n != "net.DialTCP" && n != "net.DialUDP" && n != "net.DialIP":
				addr = call.Call.Args[1]
			case n == "net.DialTCP" || n == "net.DialUDP" || n == "net.DialIP":
				addr = call.Call.Args[2]
			case strings.HasPrefix(n, "(*net.Dialer)"):
				addr = call.Call.Args[len(call.Call.Args)-1]
			case strings.HasPrefix(n, "net/http."):
				addr = call.Call.Args[0]
			default:
				addr = call.Call.Args[1]
			}
			ap := pathOf(addr)
			encl := f
			for encl.Parent() != nil {
				encl = encl.Parent()
			}
			site := encl.Name() + ": " + shortName(n) + "(" + firstN(ap, 50) + ")"
			seen = append(seen, site)
			derivesFromCovert := strings.Contains(ap, ".Covert") || strings.Contains(ap, "GetCovertAddress()") || strings.Contains(ap, "originalC2S")
			// the proxy side: Proxy itself, or an unexported helper that only Proxy (directly or through such a helper)
			// calls and that dials the Covert field of the registration parameter it was handed
			proxySide := f.Name() == "Proxy" && ap == "reg.Covert"
			if !proxySide && f.Name() != "Proxy" && onlyCalledFrom(f, "Proxy", 2) {
				for _, prm := range f.Params {
					if strings.HasSuffix(typeShort(prm.Type()), "lib.DecoyRegistration") && ap == pname(prm)+".Covert" {
						proxySide = true
					}
				}
			}
			switch {
			case proxySide:
				r.OK("C06.4", "Proxy dials the registration's stored Covert string verbatim", call.Pos(), ap)
			case derivesFromCovert:
				r.Bad("C06.4", fnName(f)+": dials a value derived from a registration's covert ("+firstN(ap, 50)+")", call.Pos(), fnName(f),
					"a second path from a client-supplied covert address to a dialer: this value did not pass (or is not the result of) the admission check")
			case encl.Name() == "phantomIsLive" || f.Name() == "executeHTTPRequest" || strings.Contains(fnPkgPath(f), "/dtls") || f.Name() == "Proxy":
				if f.Name() == "Proxy" {
					r.Bad("C06.4", "Proxy dials "+firstN(ap, 50)+" instead of reg.Covert", call.Pos(), fnName(f), "the proxy dials something other than the stored, checked covert string")
				} else {
					r.OK("C06.4", fnName(f)+": "+shortName(n)+" (reviewed: not a covert address)", call.Pos(), firstN(ap, 80))
				}
			default:
				r.Bad("C06.4", fnName(f)+": unreviewed dial site "+shortName(n)+"("+firstN(ap, 40)+")", call.Pos(), fnName(f),
					"a new outbound connection in station code whose address is not in the reviewed table: it must be shown not to carry a client-supplied covert address")
			}
		})
	}
	sort.Strings(seen)
	_ = token.NoPos
}

// onlyCalledFrom: f is an unexported function that is only ever called (never started, stored or passed) and whose
// every caller is the named function or, up to depth levels, a function that is itself only called from it.
func onlyCalledFrom(f *ssa.Function, name string, depth int) bool {
	if f.Object() == nil || f.Object().Exported() || f.Parent() != nil {
		return false
	}
	sites, asValue := callersOf(f)
	if asValue || len(sites) == 0 {
		return false
	}
	for _, s := range sites {
		p := s.Parent()
		if p == nil {
			return false
		}
		if p.Name() == name && p.Parent() == nil {
			continue
		}
		if depth <= 0 || !onlyCalledFrom(p, name, depth-1) {
			return false
		}
	}
	return true
}

// checkCovertGuard decides the covert guard ParseOrResolveBlocklisted; with listsOnly only "every admitted covert passed
// both configured lists" is emitted (C19.7: a parsed list that is not consulted for some class of hosts is not enforced).
func checkCovertGuard(c *Ctx, rule string, listsOnly bool) {
	r := c.R
	if f := c.fn(rule, "pkg/station/lib", "RegConfig", "ParseOrResolveBlocklisted"); f != nil {
		// a wrapper that hands its own receiver and input to one helper which does the resolving: decide the helper
		isResolver := func(n string) bool {
			return strings.HasPrefix(n, "net.Resolve") || strings.HasPrefix(n, "net.Lookup") || strings.HasPrefix(n, "(*net.Resolver).")
		}
		if len(callsIn(f, func(n string, _ *ssa.CallCommon) bool { return isResolver(n) })) == 0 && len(f.Params) == 2 {
			var inner *ssa.Function
			for _, ci := range callsIn(f, func(string, *ssa.CallCommon) bool { return true }) {
				cal := ci.Common().StaticCallee()
				if cal == nil || cal.Blocks == nil || !isRepoPath(fnPkgPath(cal)) || len(ci.Common().Args) != 2 {
					continue
				}
				if ci.Common().Args[0] == ssa.Value(f.Params[0]) && ci.Common().Args[1] == ssa.Value(f.Params[1]) &&
					len(callsIn(cal, func(n string, _ *ssa.CallCommon) bool { return isResolver(n) })) > 0 {
					inner = cal
				}
			}
			if inner != nil {
				r.Note("C06.1: %s delegates to %s; the helper is decided (and the wrapper's own effects by C06.5)", fnName(f), fnName(inner))
				f = inner
			}
		}
		var resolvers []*ssa.Call
		eachInstr(f, func(in ssa.Instruction) {
			if call, ok := in.(*ssa.Call); ok {
				n := calleeName(&call.Call)
				if strings.HasPrefix(n, "net.Resolve") || strings.HasPrefix(n, "net.Lookup") || strings.HasPrefix(n, "(*net.Resolver).") {
					resolvers = append(resolvers, call)
				}
			}
		})
		if len(resolvers) != 1 {
			if listsOnly {
				r.Unk(rule, "ParseOrResolveBlocklisted: resolved host", f.Pos(), fnName(f), fmt.Sprintf("%d resolver calls: the host the lists are applied to is not determined (see C06.1)", len(resolvers)))
				return
			}
			r.Bad(rule, fmt.Sprintf("ParseOrResolveBlocklisted: %d resolver calls", len(resolvers)), f.Pos(), fnName(f),
				"the guard must resolve a host name exactly once: with a second resolution the address that is checked and the address that is returned (and later dialed) can differ (DNS rebinding)")
		} else {
			res := resolvers[0]
			addr := pathOf(res) + "#0"
			host := pathOf(res.Call.Args[1])
			if !listsOnly {
				r.OK(rule, "ParseOrResolveBlocklisted: single resolution of "+firstN(host, 40), res.Pos(), "1 resolver call")
			}
			nRet := 0
			eachInstr(f, func(in ssa.Instruction) {
				ret, ok := in.(*ssa.Return)
				if !ok || len(ret.Results) != 2 {
					return
				}
				if cv, isC := constOf(ret.Results[0]); isC && cv.ExactString() == `""` {
					return
				}
				nRet++
				rp := pathOf(ret.Results[0])
				port := ""
				okForm := false
				if jc, ok := ret.Results[0].(*ssa.Call); ok && calleeName(&jc.Call) == "net.JoinHostPort" {
					okForm = pathOf(jc.Call.Args[0]) == addr+".String()"
					port = pathOf(jc.Call.Args[1])
				}
				if !listsOnly {
					r.Check(okForm, rule, "ParseOrResolveBlocklisted: returns JoinHostPort(<resolved addr>.String(), port)", ret.Pos(), fnName(f), firstN(rp, 100),
						"the guard returns "+firstN(rp, 80)+" instead of the literal of the one address it resolved and checked: the station later dials (and re-resolves) something that was never checked")
				}
				gAddr := guarded(f, ret, Atom{"c.isBlocklistedCovertAddr(" + addr + ".IP)", false})
				r.Check(gAddr, rule, "ParseOrResolveBlocklisted: success only if the resolved address is not blocklisted", ret.Pos(), fnName(f), "dominated by !isBlocklistedCovertAddr(addr.IP)",
					"a non-empty result is returned without the subnet policy test on the resolved address (or with the test on another value)")
				gDom := guarded(f, ret, Atom{"c.isBlocklistedCovertDomain(" + host + ")", false})
				r.Check(gDom, rule, "ParseOrResolveBlocklisted: success only if the host does not match a blocklisted domain pattern", ret.Pos(), fnName(f), "dominated by !isBlocklistedCovertDomain(host)",
					"a non-empty result is returned without the domain-pattern test on the host that is resolved")
				if !listsOnly {
					gPort := port != "" && guardedM(f, ret, func(cnd string, pol bool) bool {
						return pol && strings.HasPrefix(cnd, "(nil == strconv.ParseUint("+port+", 10, 16)#1)")
					})
					r.Check(gPort, rule, "ParseOrResolveBlocklisted: success only with a valid 16-bit port", ret.Pos(), fnName(f), "dominated by ParseUint(port,10,16) err == nil", "the returned port was not validated as a 16-bit number")
					gNil := guarded(f, ret, Atom{"(" + orderEq(addr, "nil") + ")", false}) && guarded(f, ret, Atom{"(" + orderEq(pathOf(res)+"#1", "nil") + ")", true})
					r.Check(gNil, rule, "ParseOrResolveBlocklisted: success only if the resolution succeeded", ret.Pos(), fnName(f), "err == nil && addr != nil", "a result is built although the resolution failed")
					// ... and produced an address: the resolver answers an empty host ("":port, "[]:port") with an IPAddr
					// whose IP is nil, which no subnet list contains and whose literal is "" - the result ":port" is dialed
					// as the local host
					ipPath := addr + ".IP"
					gIP := guardedM(f, ret, func(cnd string, pol bool) bool {
						switch cnd {
						case "(" + orderEq("nil", ipPath) + ")", "(0 == len(" + ipPath + "))", "(len(" + ipPath + ") < 1)", "(" + orderEq(`""`, host) + ")", "(0 == len(" + host + "))", "(len(" + host + ") < 1)":
							return !pol
						case "(0 < len(" + ipPath + "))", "(0 < len(" + host + "))":
							return pol
						}
						return false
					})
					r.Check(gIP, rule, "ParseOrResolveBlocklisted: success only if the resolution produced an address", ret.Pos(), fnName(f), "dominated by addr.IP != nil (or host != \"\")",
						"an empty host (\":80\", \"[]:80\") resolves without error to an address with a nil IP: no subnet list contains it, its literal is empty, and the guard returns \":80\", which net.Dial connects to the local host - a loopback destination is admitted although loopback is blocklisted")
				}
			})
			if nRet == 0 {
				r.Unk(rule, "ParseOrResolveBlocklisted: non-empty return", f.Pos(), fnName(f), "none found")
			}
		}
	}
}

// anyContainsHelper: h(list, addr) ranges over its slice parameter and answers true only under a Contains match of the
// loop element on its second parameter, false otherwise (constant returns only).
func anyContainsHelper(h *ssa.Function) bool {
	if h == nil || len(h.Params) != 2 || h.Signature.Results().Len() != 1 {
		return false
	}
	list, addr := pname(h.Params[0]), pname(h.Params[1])
	ranges := false
	for _, b := range h.Blocks {
		if b.Comment != "rangeindex.loop" || len(b.Instrs) == 0 {
			continue
		}
		if iff, ok := b.Instrs[len(b.Instrs)-1].(*ssa.If); ok {
			if bo, ok := iff.Cond.(*ssa.BinOp); ok {
				if ln, ok := bo.Y.(*ssa.Call); ok && len(ln.Call.Args) == 1 && ln.Call.Args[0] == ssa.Value(h.Params[0]) {
					ranges = true
				}
			}
		}
	}
	if !ranges {
		return false
	}
	okAll, nTrue, nFalse := true, 0, 0
	eachInstr(h, func(in ssa.Instruction) {
		ret, ok := in.(*ssa.Return)
		if !ok {
			return
		}
		cv, isC := constOf(ret.Results[0])
		if !isC {
			okAll = false
			return
		}
		match := guardedM(h, ret, func(cnd string, pol bool) bool {
			return pol && strings.HasPrefix(cnd, list+"[") && strings.HasSuffix(cnd, ".Contains("+addr+")")
		})
		if cv.String() == "true" {
			nTrue++
			okAll = okAll && match
		} else {
			nFalse++
			okAll = okAll && !match
		}
	})
	return okAll && nTrue > 0 && nFalse > 0
}

// checkCovertWriters: the covert of a registration is written at construction and by the admission step only (shared
// by C06.3 and C07.10: a registration that "passes the covert policy" must keep the covert that passed).
func checkCovertWriters(c *Ctx, rule string) {
	r := c.R
	r.Rule(rule, "writers of DecoyRegistration.Covert", 3)
	for _, f := range c.P.RepoFuncs() {
		for _, st := range fieldStores(f, "lib.DecoyRegistration", "Covert") {
			name := f.Name()
			okW := (name == "NewRegistration" && freshRoot(st.Addr, f)) || name == "ingestRegistration" || onlyCalledFrom(f, "ingestRegistration", 2) ||
				(name == "register" && strings.HasSuffix(pathOf(st.Val), ".Covert")) // adoption of the checked covert (C06.2b)
			r.Check(okW, rule, fnName(f)+": writes DecoyRegistration.Covert", st.Pos(), fnName(f), "reviewed writer",
				"the covert address of a registration is written outside construction and the admission step: a checked address can be replaced after the check")
		}
	}
}
