package main

import (
	"fmt"
	"go/constant"
	"go/token"
	"net"
	"path/filepath"
	"regexp"
	"strings"

	"golang.org/x/tools/go/ssa"
)

func init() {
	register("C10", &propCheck{Run: checkC10,
		Explain: "C10.1 value-flow of the announcement literal: phantom, client, destination port and protocol fields come from the registration's own fields, lifetime and operation from the parameters; " +
			"C10.2 New is paired with the unused lifetime and Update with the active lifetime — the same package variables that initialise the station's own expiry (C08.3); " +
			"C10.3 every deployed transport's GetProto returns a constant in {TCP, UDP} and PhantomProto is written only from it; " +
			"C10.4 an IPv4 phantom with a non-IPv4 registrant is never admitted (C07.4, re-checked); " +
			"C10.5 cross-language contract: the detector's acceptance rules are extracted at token level from src/sessions.rs (accepted protocol arms, phantom/client parse requirements, the v4/v6 mix rejection, conversion before dispatch) and every StationToDetector message built on the Go side is checked to satisfy them — including the clear request; " +
			"C10.6 Cleanup is deferred in main before the signal loop. " +
			"Decides field provenance and acceptability by the detector's stated rules; Redis delivery and that String() of every admitted address is an IP literal are not decided.",
		Assume: []string{"src/sessions.rs is the detector that is deployed; it is read at token level (it cannot be type-checked offline)", "net.IP.String() of a 4- or 16-byte address is an IP literal"}})
}

// detectorRules are the facts extracted from src/sessions.rs.
type detectorRules struct {
	ProtoArms            []string // accepted IPProto variants
	RejectsOtherProto    bool
	PhantomMustParse     bool
	ClientMustParse      bool
	EmptyClientV6OK      bool
	RejectV4PhantomV6Cli bool
	ConvertBeforeOp      bool // the conversion (and its rejection) precedes the dispatch on operation, also for Clear
	ClearDispatched      bool
	Err                  string
}

func stripRustComments(s string) string {
	s = regexp.MustCompile(`(?s)/\*.*?\*/`).ReplaceAllString(s, " ")
	s = regexp.MustCompile(`(?m)//.*$`).ReplaceAllString(s, "")
	return s
}

func rustBlock(src, header string) string {
	i := strings.Index(src, header)
	if i < 0 {
		return ""
	}
	j := strings.Index(src[i:], "{")
	if j < 0 {
		return ""
	}
	depth := 0
	for k := i + j; k < len(src); k++ {
		switch src[k] {
		case '{':
			depth++
		case '}':
			depth--
			if depth == 0 {
				return src[i : k+1]
			}
		}
	}
	return ""
}

func extractDetectorRules(c *Ctx) detectorRules {
	var d detectorRules
	b, err := c.readRepoFile(filepath.Join("src", "sessions.rs"))
	if err != nil {
		d.Err = err.Error()
		return d
	}
	src := stripRustComments(string(b))
	conv := rustBlock(src, "impl From<&StationToDetector> for SessionResult")
	if conv == "" {
		d.Err = "impl From<&StationToDetector> for SessionResult not found"
		return d
	}
	m := rustBlock(conv, "match s2d.proto()")
	if m == "" {
		d.Err = "match s2d.proto() not found in the conversion"
		return d
	}
	for _, a := range regexp.MustCompile(`IPProto::(\w+)\s*=>\s*IpNextHeaderProtocols::\w+`).FindAllStringSubmatch(m, -1) {
		d.ProtoArms = append(d.ProtoArms, a[1])
	}
	d.RejectsOtherProto = regexp.MustCompile(`_\s*=>\s*return\s+Err\(`).MatchString(m)
	nw := rustBlock(src, "pub fn new(")
	if nw == "" {
		d.Err = "SessionDetails::new not found"
		return d
	}
	d.PhantomMustParse = regexp.MustCompile(`(?s)match\s+phantom_ip\.parse\(\).*?Err\(_\)\s*=>\s*return\s+Err\(SessionError::InvalidPhantom\)`).MatchString(nw)
	d.ClientMustParse = regexp.MustCompile(`(?s)match\s+client_ip\.parse\(\).*?return\s+Err\(SessionError::InvalidClient\)`).MatchString(nw)
	d.EmptyClientV6OK = regexp.MustCompile(`client_ip\.is_empty\(\)\s*&&\s*phantom\.is_ipv6\(\)`).MatchString(nw)
	d.RejectV4PhantomV6Cli = regexp.MustCompile(`(?s)phantom\.is_ipv4\(\)\s*&&\s*!src\.is_ipv4\(\)\s*\{\s*return\s+Err\(`).MatchString(nw)
	h := rustBlock(src, "fn pubsub_handle_s2d(")
	if h == "" {
		d.Err = "pubsub_handle_s2d not found"
		return d
	}
	ic := strings.Index(h, "SessionResult::from(s2d)")
	io := strings.Index(h, "match s2d.operation()")
	iClearEarly := regexp.MustCompile(`s2d\.operation\(\)\s*==\s*StationOperations::Clear`).FindStringIndex(h)
	d.ClearDispatched = strings.Contains(h, "StationOperations::Clear => pubsub_clear(") || iClearEarly != nil
	if ic < 0 || io < 0 {
		d.Err = "conversion / dispatch not found in pubsub_handle_s2d"
		return d
	}
	d.ConvertBeforeOp = ic < io && (iClearEarly == nil || iClearEarly[0] > ic)
	if len(d.ProtoArms) == 0 {
		d.Err = "no accepted protocol arms found"
	}
	return d
}

// s2dFields collects, for one function, the stores into a StationToDetector literal: field -> stored value (address of a local or value).
func s2dFields(f *ssa.Function) (map[string]ssa.Value, token.Pos) {
	out := map[string]ssa.Value{}
	pos := token.NoPos
	eachInstr(f, func(in ssa.Instruction) {
		st, ok := in.(*ssa.Store)
		if !ok {
			return
		}
		o, fld, ok := fieldOwner(st.Addr)
		if !ok || o != "proto.StationToDetector" {
			return
		}
		out[fld] = st.Val
		pos = st.Pos()
	})
	return out, pos
}

// pointee: for a value that is the address of a local (&src), the value stored into that local.
func pointee(f *ssa.Function, v ssa.Value) ssa.Value {
	v = stripConv(v)
	if a, ok := v.(*ssa.Alloc); ok && a.Referrers() != nil {
		var val ssa.Value
		n := 0
		for _, ref := range *a.Referrers() {
			if st, ok := ref.(*ssa.Store); ok && st.Addr == ssa.Value(a) {
				val = st.Val
				n++
			}
		}
		if n == 1 {
			return val
		}
	}
	return nil
}

func checkC10(c *Ctx) {
	r := c.R
	const lib = "pkg/station/lib"
	send := c.fn("C10.1", lib, "", "sendToDetector")
	clear := c.fn("C10.5", lib, "", "clearDetector")

	// ---- C10.1
	r.Rule("C10.1", "announcement fields come from the registration's own fields and the parameters", 6)
	var sendFields map[string]ssa.Value
	if send != nil {
		flds, _ := s2dFields(send)
		sendFields = flds
		want := map[string]string{"PhantomIp": "reg.PhantomIp.String()", "ClientIp": "reg.registrationAddr.String()", "DstPort": "uint32(reg.GetDstPort())", "TimeoutNs": "duration", "Operation": "op"}
		for fld, w := range want {
			v, ok := flds[fld]
			if !ok {
				r.Bad("C10.1", "sendToDetector: field "+fld+" is not set", send.Pos(), fnName(send), "the announcement lacks "+fld+": the detector rejects it or forwards the wrong flow")
				continue
			}
			got := ""
			if pv := pointee(send, v); pv != nil {
				got = pathOf(pv)
			} else if _, isParamCell := stripConv(v).(*ssa.Alloc); isParamCell {
				got = pathOf(v)
			} else {
				got = pathOf(v)
			}
			alt := ""
			if fld == "DstPort" {
				alt = "uint32(reg.PhantomPort)"
			}
			r.Check(got == w || (alt != "" && got == alt), "C10.1", "sendToDetector: "+fld+" <- "+w, v.Pos(), fnName(send), got,
				"the announcement's "+fld+" is taken from "+firstN(got, 60)+" instead of "+w+": the detector diverts a different flow than the one the registration describes")
		}
		if v, ok := flds["Proto"]; ok {
			r.Check(pathOf(v) == "reg.PhantomProto", "C10.1", "sendToDetector: Proto <- reg.PhantomProto", v.Pos(), fnName(send), pathOf(v), "the announced protocol is not the registration's transport protocol")
		} else {
			r.Bad("C10.1", "sendToDetector: field Proto is not set", send.Pos(), fnName(send), "without a protocol the detector rejects the announcement")
		}
	}

	// ---- C10.2 pairing
	r.Rule("C10.2", "New <-> unused lifetime, Update <-> active lifetime (the station's own expiry variables)", 2)
	if nrd := c.fn("C10.2", lib, "", "NewRegisteredDecoys"); nrd != nil {
		want := map[string][2]string{"registerForDetector": {"lib.defaultUnusedTimeout", "StationOperations_New"}, "updateInDetector": {"lib.defaultActiveTimeout", "StationOperations_Update"}}
		for fld, w := range want {
			okk := false
			desc := ""
			for _, st := range fieldStores(nrd, "lib.RegisteredDecoys", fld) {
				var cl *ssa.Function
				switch x := stripConv(st.Val).(type) {
				case *ssa.MakeClosure:
					cl = x.Fn.(*ssa.Function)
				case *ssa.Function:
					cl = x
				}
				if cl == nil {
					continue
				}
				for _, ci := range callsIn(cl, shortIs("sendToDetector")) {
					a := ci.Common().Args
					opv, _ := constOf(a[2])
					wantOp := constIntOf(c.P, repoMod+"/proto", w[1])
					desc = pathOf(a[1]) + ", op=" + fmt.Sprint(opv)
					if strings.Contains(pathOf(a[1]), w[0]+".Nanoseconds()") && opv != nil && opv.ExactString() == wantOp && pathOf(a[0]) == pname(cl.Params[0]) {
						okk = true
					}
				}
			}
			r.Check(okk, "C10.2", fld+": sendToDetector(d, "+w[0]+", "+w[1]+")", nrd.Pos(), fnName(nrd), desc,
				"the announcement for "+fld+" does not request the station's own lifetime for that state with the matching operation ("+desc+"): the detector stops forwarding before the station expires the registration, or keeps forwarding after")
		}
	}

	// the lifetime announced (the package variables above) is the lifetime enforced: the expiry fields have no other source
	checkTimeoutWriters(c, "C10.2", "lib.RegisteredDecoys")

	// ---- C10.8 what was announced stays true: the fields an announcement carries (phantom address, destination port,
	// protocol, registrant address) are written only while a registration is being built - never on a registration
	// that is already tracked (the detector's session is keyed on the values of the New message)
	r.Rule("C10.8", "the announced fields of a registration are written only during its construction", 3)
	{
		n := 0
		for _, f := range c.funcsOfPkgs("pkg/station/lib", "cmd/application") {
			for _, fld := range []string{"PhantomIp", "PhantomPort", "PhantomProto", "registrationAddr"} {
				for _, st := range fieldStores(f, "lib.DecoyRegistration", fld) {
					n++
					r.Check(freshRoot(st.Addr, f), "C10.8", fnName(f)+": writes DecoyRegistration."+fld, st.Pos(), fnName(f), "on a registration created in this call",
						"field "+fld+" of a registration that may already be tracked (and announced) is rewritten: the station then expects the client on other values than the detector's session was opened with, and nothing announces the change")
				}
			}
		}
		if n == 0 {
			r.Unk("C10.8", "stores to announced fields", token.NoPos, "", "none found")
		}
	}

	// ---- C10.9 the lifetime that was requested is the lifetime that runs: the station's clock for a registration
	// starts when its timeout record is created and is never restarted - the detector was asked for 10 min / 6 h from
	// the New / Update message and is not asked again
	checkExpiryClock(c, "C10.9")

	// ---- C10.7 the New announcement describes the registration the station keeps: it is made by register(), for the
	// tracked object (what registrationExists returned), not for the delivery that happened to trigger it
	r.Rule("C10.7", "registerForDetector is invoked only by RegisteredDecoys.register, on the tracked registration", 1)
	{
		n := 0
		for _, f := range c.funcsOfPkgs("pkg/station/lib", "cmd/application") {
			eachInstr(f, func(in ssa.Instruction) {
				ci, ok := in.(ssa.CallInstruction)
				if !ok {
					return
				}
				cc := ci.Common()
				if cc.IsInvoke() || cc.StaticCallee() != nil {
					return
				}
				_, fld, ok := fieldOwner(fieldLoadAddr(cc.Value))
				if !ok || fld != "registerForDetector" {
					return
				}
				n++
				inRegister := strings.HasSuffix(fnName(f), "RegisteredDecoys).register")
				tracked := false
				if len(cc.Args) == 1 {
					tracked = derivesOnlyFromCalls(cc.Args[0], "registrationExists", 0)
				}
				r.Check(inRegister && tracked, "C10.7", fnName(f)+": registerForDetector("+firstN(pathOf(cc.Args[0]), 40)+")", in.Pos(), fnName(f), "in register(), argument is the result of registrationExists",
					"the New announcement is made outside register() or for an object other than the tracked registration: with two deliveries of one registration in flight (different registrant address or port override) the detector is told about the one the station does not keep")
			})
		}
		if n == 0 {
			r.Unk("C10.7", "registerForDetector call", token.NoPos, "", "no call through the registerForDetector field found")
		}
	}

	// ---- C10.3 protocol set
	r.Rule("C10.3", "transport protocols are TCP or UDP constants; PhantomProto only from GetProto", 5)
	tcp := constIntOf(c.P, repoMod+"/proto", "IPProto_Tcp")
	udp := constIntOf(c.P, repoMod+"/proto", "IPProto_Udp")
	for _, f := range c.P.RepoFuncs() {
		if f.Name() != "GetProto" || f.Signature.Recv() == nil || strings.Contains(r.posStr(f.Pos()), "_mock") || strings.Contains(fnPkgPath(f), "/proto") {
			continue
		}
		if typeShort(f.Signature.Results().At(0).Type()) != "proto.IPProto" {
			continue
		}
		okAll := true
		eachInstr(f, func(in ssa.Instruction) {
			if ret, ok := in.(*ssa.Return); ok {
				cv, isC := constOf(ret.Results[0])
				if !isC || (cv.ExactString() != tcp && cv.ExactString() != udp) {
					okAll = false
				}
			}
		})
		r.Check(okAll, "C10.3", fnName(f)+": returns TCP or UDP", f.Pos(), fnName(f), "constant in {Tcp, Udp}", "a transport reports a protocol the detector's session rules reject (only TCP and UDP are accepted): its registrations are never diverted")
	}
	for _, f := range c.P.RepoFuncs() {
		for _, st := range fieldStores(f, "lib.DecoyRegistration", "PhantomProto") {
			okW := f.Name() == "NewRegistration" && strings.Contains(pathOf(st.Val), "getTransportProto(")
			r.Check(okW, "C10.3", fnName(f)+": PhantomProto <- "+firstN(pathOf(st.Val), 50), st.Pos(), fnName(f), "from the transport's GetProto", "the registration's protocol is written from something other than its transport's GetProto")
		}
	}
	if g := c.fn("C10.3", lib, "RegistrationManager", "getTransportProto"); g != nil {
		okG := false
		eachInstr(g, func(in ssa.Instruction) {
			if ret, ok := in.(*ssa.Return); ok && len(ret.Results) == 2 {
				if call, ok := ret.Results[0].(*ssa.Call); ok && call.Call.IsInvoke() && call.Call.Method.Name() == "GetProto" {
					okG = true
				}
			}
		})
		r.Check(okG, "C10.3", "getTransportProto returns transport.GetProto()", g.Pos(), fnName(g), "invoke", "the protocol is not taken from the transport")
	}

	// ---- C10.5 cross-language contract
	r.Rule("C10.5", "every message built for the detector satisfies the acceptance rules read from src/sessions.rs", 3)
	d := extractDetectorRules(c)
	if d.Err != "" {
		r.Unk("C10.5", "detector rules from src/sessions.rs", token.NoPos, "", d.Err)
	} else {
		r.OK("C10.5", fmt.Sprintf("detector rules extracted: proto in %v (others rejected=%v), phantom must parse=%v, client must parse=%v (empty ok for v6 phantom=%v), v4 phantom needs v4 client=%v, conversion before operation dispatch=%v",
			d.ProtoArms, d.RejectsOtherProto, d.PhantomMustParse, d.ClientMustParse, d.EmptyClientV6OK, d.RejectV4PhantomV6Cli, d.ConvertBeforeOp), token.NoPos, "src/sessions.rs")
		armOK := func(exact string) bool {
			for _, a := range d.ProtoArms {
				if constIntOf(c.P, repoMod+"/proto", "IPProto_"+a) == exact {
					return true
				}
			}
			return false
		}
		// the Go-side protocol set is accepted
		r.Check(!d.RejectsOtherProto || (armOK(tcp) && armOK(udp)), "C10.5", "detector accepts the protocols the station can announce (TCP, UDP)", token.NoPos, "", fmt.Sprint(d.ProtoArms), "the detector's conversion no longer accepts TCP and UDP")
		check := func(f *ssa.Function, flds map[string]ssa.Value, name string, needsSession bool) {
			if !needsSession {
				r.OK("C10.5", name+": the detector dispatches this operation before the session conversion; no session fields required", f.Pos(), "extracted")
				return
			}
			var problems []string
			// proto
			if d.RejectsOtherProto {
				pv, ok := flds["Proto"]
				switch {
				case !ok:
					problems = append(problems, "no protocol is set, the detector's conversion returns UnrecognizedProto")
				default:
					if p := pointee(f, pv); p != nil {
						if cv, isC := constOf(p); isC {
							if !armOK(cv.ExactString()) {
								problems = append(problems, "protocol constant "+cv.ExactString()+" is not an accepted arm")
							}
						}
					} else if pathOf(pv) != "reg.PhantomProto" {
						problems = append(problems, "protocol comes from "+firstN(pathOf(pv), 40))
					}
				}
			}
			// phantom
			phantomV6Const := false
			if d.PhantomMustParse {
				pv, ok := flds["PhantomIp"]
				switch {
				case !ok:
					problems = append(problems, "no phantom address is set, the detector returns InvalidPhantom")
				default:
					p := pointee(f, pv)
					if p == nil {
						problems = append(problems, "phantom address source not resolved")
					} else if cv, isC := constOf(p); isC && cv.Kind() == constant.String {
						ip := net.ParseIP(constant.StringVal(cv))
						if ip == nil {
							problems = append(problems, "phantom constant does not parse as an IP address")
						} else {
							phantomV6Const = ip.To4() == nil
						}
					} else {
						pp := pathOf(p)
						switch {
						case pp == "net.IPv6unspecified.String()" || pp == "net.IPv6zero.String()" || pp == "net.IPv6loopback.String()":
							phantomV6Const = true
						case strings.HasSuffix(pp, ".PhantomIp.String()"):
						default:
							problems = append(problems, "phantom address comes from "+firstN(pp, 40)+", not from an IP value")
						}
					}
				}
			}
			// client
			if d.ClientMustParse {
				cv, ok := flds["ClientIp"]
				if !ok {
					if !(d.EmptyClientV6OK && phantomV6Const) {
						problems = append(problems, "no client address is set and the phantom is not a constant IPv6 address: the detector returns InvalidClient")
					}
				} else if p := pointee(f, cv); p == nil || !strings.HasSuffix(pathOf(p), ".String()") {
					problems = append(problems, "client address is not the String() of an IP value")
				}
			}
			if len(problems) > 0 {
				r.Bad("C10.5", name+": the message is rejected by the detector's session conversion", f.Pos(), fnName(f),
					"by the rules in src/sessions.rs (conversion happens before the operation is dispatched): "+strings.Join(problems, "; ")+" — the detector drops the message and never acts on it")
			} else {
				r.OK("C10.5", name+": the message passes the detector's session conversion", f.Pos(), "proto accepted, phantom parses, client parses or is empty with an IPv6 phantom")
			}
		}
		if send != nil {
			check(send, sendFields, "sendToDetector (New/Update)", true)
		}
		if clear != nil {
			flds, _ := s2dFields(clear)
			opOK := false
			if pv, ok := flds["Operation"]; ok {
				if p := pointee(clear, pv); p != nil {
					if cv, isC := constOf(p); isC && cv.ExactString() == constIntOf(c.P, repoMod+"/proto", "StationOperations_Clear") {
						opOK = true
					}
				}
			}
			r.Check(opOK && d.ClearDispatched, "C10.5", "clearDetector: operation == Clear and the detector dispatches Clear", clear.Pos(), fnName(clear), "constant", "the shutdown message does not carry the Clear operation (or the detector has no Clear arm)")
			check(clear, flds, "clearDetector (Clear)", d.ConvertBeforeOp)
		}
	}

	// ---- C10.4 re-check of the admission guard (shared with C07.4) is part of C07; here: the client field is the registrant address stored at admission
	// the IPv4-phantom / IPv4-client rule of the detector rests on the admission test (on the FINAL phantom)
	checkFamilyRejection(c, "C10.5")
	r.Rule("C10.4", "the announced client address is the registrant address recorded at admission", 1)
	if w := c.fn("C10.4", lib, "RegistrationManager", "NewRegistrationC2SWrapper"); w != nil {
		okk := false
		for _, st := range fieldStores(w, "lib.DecoyRegistration", "registrationAddr") {
			if strings.Contains(pathOf(st.Val), "c2sw.GetRegistrationAddress()") {
				okk = true
			}
		}
		r.Check(okk, "C10.4", "registrationAddr <- the wrapper's registration address", w.Pos(), fnName(w), "store", "the registrant address announced to the detector is not the one the v4/v6 admission test examined")
		// ... on every path to a registration: the client field of an announcement is rendered from it, and a nil
		// address renders as "<nil>", which the detector refuses
		stores := map[ssa.Instruction]bool{}
		for _, st := range fieldStores(w, "lib.DecoyRegistration", "registrationAddr") {
			stores[st] = true
		}
		eachInstr(w, func(in ssa.Instruction) {
			ret, ok := in.(*ssa.Return)
			if !ok || len(ret.Results) != 2 || ret.Block().Comment == "recover" {
				return
			}
			if k, isC := returnedValue(ret, 1, nil).(*ssa.Const); !isC || k.Value != nil {
				return // error return
			}
			if k, isC := returnedValue(ret, 0, nil).(*ssa.Const); isC && k.Value == nil {
				return
			}
			skip, wit := reach(w, nil, isInstr(ret), inSet(stores), nil)
			if skip {
				r.Bad("C10.4", "NewRegistrationC2SWrapper: a registration can be returned without a registrant address", ret.Pos(), fnName(w),
					"a path returns a registration whose registrationAddr was never set: sendToDetector renders the client field from it, a nil address prints as \"<nil>\", and the detector drops New and Update as an invalid client - the station accepts the registration and the detector never diverts it", r.blockPath(w, wit)...)
			} else {
				r.OK("C10.4", "NewRegistrationC2SWrapper: every returned registration carries the registrant address", ret.Pos(), "must-pass store before the nil-error return")
			}
		})
	}

	// ---- C10.6
	checkClearContext(c)
	r.Rule("C10.6", "Cleanup (detector clear) is deferred in main before the signal loop", 1)
	if m := c.fn("C10.6", "cmd/application", "", "main"); m != nil {
		var def ssa.Instruction
		eachInstr(m, func(in ssa.Instruction) {
			if dfr, ok := in.(*ssa.Defer); ok && calleeShort(&dfr.Call) == "Cleanup" {
				def = in
			}
		})
		if def == nil {
			r.Bad("C10.6", "main: no deferred Cleanup", m.Pos(), fnName(m), "the station never asks the detector to clear its sessions at shutdown: a restarted station inherits diversions it knows nothing about")
		} else {
			isSig := func(in ssa.Instruction) bool {
				call, ok := in.(*ssa.Call)
				return ok && calleeName(&call.Call) == "os/signal.Notify"
			}
			late, _ := reach(m, nil, isSig, isInstr(def), nil)
			r.Check(!late, "C10.6", "main: defer regManager.Cleanup() registered before signal handling starts", def.Pos(), fnName(m), "must-pass", "the signal loop can be entered (and main can return) without the Cleanup defer registered")
		}
	}
	if cl := c.fn("C10.6", lib, "RegistrationManager", "Cleanup"); cl != nil {
		r.Check(len(callsIn(cl, shortIs("clearDetector"))) == 1, "C10.6", "Cleanup calls clearDetector", cl.Pos(), fnName(cl), "1 call", "Cleanup no longer sends the clear request")
	}
	// ---- C10.12 "carries that registration's ... registrant address": the address bytes of the delivered message are kept by
	// reference (net.IP is a slice), so nothing the ingest path calls may write into an address it was handed - not even
	// through To16(), which returns the same backing array for a 16-byte address
	r.Rule("C10.12", "the ingest path writes into no address / byte slice it was handed", 1)
	if root := c.fn("C10.12", lib, "RegistrationManager", "parseRegMessage"); root != nil {
		seen := map[*ssa.Function]bool{}
		var order []*ssa.Function
		var visit func(g *ssa.Function, d int)
		visit = func(g *ssa.Function, d int) {
			if g == nil || seen[g] || g.Blocks == nil || d > 3 || g.Package() != root.Package() {
				return
			}
			seen[g] = true
			order = append(order, g)
			eachInstr(g, func(in ssa.Instruction) {
				if ci, ok := in.(ssa.CallInstruction); ok {
					visit(ci.Common().StaticCallee(), d+1)
				}
			})
		}
		visit(root, 0)
		nBad := 0
		for _, g := range order {
			hasIP := false
			for _, prm := range g.Params {
				if ts := typeShort(prm.Type()); ts == "net.IP" || ts == "[]byte" {
					hasIP = true
				}
			}
			if !hasIP {
				continue
			}
			eachInstr(g, func(in ssa.Instruction) {
				if w := writesInput(g, in); w != "" {
					nBad++
					r.Bad("C10.12", fnName(g)+": "+firstN(w, 60), in.Pos(), fnName(g), "a helper on the ingest path writes into the address bytes it was given ("+firstN(w, 60)+"): the registration keeps a reference to those bytes, so the registrant address announced to the detector is no longer the one that was delivered")
				}
			})
		}
		if nBad == 0 {
			r.OK("C10.12", "parseRegMessage and its helpers leave the address bytes they are handed alone", root.Pos(), fmt.Sprintf("%d function(s) scanned", len(order)))
		}
	}

	// ---- C10.11 an Update describes the registration that was used: updateInDetector is invoked by markActive only, with
	// markActive's own registration (an Update built from another registration announces the wrong phantom, and a record
	// flipped to used without an Update of its own is kept by the station for 6 h while the detector was asked for 10 min)
	r.Rule("C10.11", "updateInDetector is invoked by markActive only, on the registration that was matched", 1)
	{
		n := 0
		for _, g := range c.funcsOfPkgs(lib) {
			eachInstr(g, func(in ssa.Instruction) {
				call, ok := in.(*ssa.Call)
				if !ok || call.Call.IsInvoke() || call.Call.StaticCallee() != nil {
					return
				}
				u, isU := call.Call.Value.(*ssa.UnOp)
				if !isU {
					return
				}
				if _, fld, ok := fieldOwner(u.X); !ok || fld != "updateInDetector" {
					return
				}
				n++
				okk := g.Name() == "markActive" && len(g.Params) >= 2 && len(call.Call.Args) == 1 && call.Call.Args[0] == ssa.Value(g.Params[len(g.Params)-1])
				r.Check(okk, "C10.11", fnName(g)+": updateInDetector("+firstN(pathOf(call.Call.Args[0]), 30)+")", call.Pos(), fnName(g), "markActive's own registration",
					"an Update is published outside markActive, or for a registration other than the one that was matched: the detector extends the wrong session, and the registration that was flipped to used is forwarded for 10 minutes only while the station accepts it for 6 hours")
			})
		}
		if n == 0 {
			r.Unk("C10.11", "call sites of updateInDetector", token.NoPos, "", "none found")
		}
	}
	// the clear is unconditional: whatever the station still tracks, the detector may hold sessions of its own clock
	if cl := c.fn("C10.6", lib, "RegistrationManager", "Cleanup"); cl != nil {
		for _, ci := range callsIn(cl, shortIs("clearDetector")) {
			r.Check(unconditional(cl, ci.(ssa.Instruction)), "C10.6", "Cleanup: clearDetector on every path", ci.Pos(), fnName(cl), "reached whatever any condition says",
				"Cleanup can return without sending the clear request (a condition on the station's own tables): the detector's sessions run on its own clock and outlive the station's records, so a station that shuts down with an empty table leaves diversions behind that its successor knows nothing about")
		}
	}

	// ---- C10.10 the clear request belongs to shutdown and is the last word: (a) nothing but main's deferred Cleanup
	// sends it (a clear while registrations stay tracked leaves the station accepting sessions the detector no longer
	// diverts); (b) the ingest pipeline returns only after its workers returned, so no New can follow the Clear
	r.Rule("C10.10", "the clear request is sent only by main's deferred Cleanup, after the ingest workers have returned", 2)
	{
		nSites := 0
		for _, f := range c.P.RepoFuncs() {
			for _, ff := range []*ssa.Function{f} {
				eachInstr(ff, func(in ssa.Instruction) {
					ci, ok := in.(ssa.CallInstruction)
					if !ok {
						return
					}
					sc := ci.Common().StaticCallee()
					if sc == nil || !strings.HasSuffix(fnPkgPath(sc), "/pkg/station/lib") {
						return
					}
					switch {
					case sc.Name() == "clearDetector":
						nSites++
						top := ff
						for top.Parent() != nil {
							top = top.Parent()
						}
						r.Check(top.Name() == "Cleanup", "C10.10", fnName(ff)+": calls clearDetector", in.Pos(), fnName(ff), "the shutdown hook", "the detector is told to drop every session outside the shutdown hook")
					case sc.Name() == "Cleanup" && sc.Signature.Recv() != nil && strings.HasSuffix(typeShort(sc.Signature.Recv().Type()), "lib.RegistrationManager"):
						nSites++
						_, isDefer := in.(*ssa.Defer)
						r.Check(isDefer && ff.Name() == "main" && ff.Parent() == nil && strings.HasSuffix(fnPkgPath(ff), "cmd/application"), "C10.10", fnName(ff)+": calls Cleanup", in.Pos(), fnName(ff), "deferred in main",
							"Cleanup (the detector clear) runs while the station keeps running: every announced session is dropped by the detector although its registration stays tracked and keeps being accepted for the rest of its lifetime - the detector no longer forwards what the station would accept")
					}
				})
			}
		}
		if nSites < 2 {
			r.Unk("C10.10", "call sites of Cleanup / clearDetector", token.NoPos, "", fmt.Sprintf("found %d", nSites))
		}
		if f := c.fn("C10.10", lib, "RegistrationManager", "HandleRegUpdates"); f != nil {
			isWait := func(in ssa.Instruction) bool {
				call, ok := in.(*ssa.Call)
				return ok && calleeName(&call.Call) == "(*sync.WaitGroup).Wait"
			}
			// from the start of the first worker to any return: through wg.Wait() of this very function
			var firstGo ssa.Instruction
			eachInstr(f, func(in ssa.Instruction) {
				if g, ok := in.(*ssa.Go); ok && firstGo == nil && g.Call.StaticCallee() != nil && g.Call.StaticCallee().Name() == "startIngestThread" {
					firstGo = in
				}
			})
			if firstGo == nil {
				r.Unk("C10.10", "HandleRegUpdates: worker start", f.Pos(), fnName(f), "no go startIngestThread found")
			} else {
				early, w := reach(f, firstGo, isReturn, isWait, nil)
				if early {
					r.Bad("C10.10", "HandleRegUpdates: returns only after its workers returned", firstGo.Pos(), fnName(f),
						"the ingest pipeline can return while a worker is still processing a registration (no wg.Wait() on that path): main then publishes the shutdown Clear, and the worker announces its registration after it - the restarted station inherits a diversion it knows nothing about", r.blockPath(f, w)...)
				} else {
					r.OK("C10.10", "HandleRegUpdates: returns only after its workers returned", firstGo.Pos(), "every return after the workers are started passes wg.Wait() in this function")
				}
			}
		}
	}
}

// checkClearContext (C10.6): the clear request is published at shutdown, after the station's run context was
// cancelled; its context must therefore be rooted in context.Background()/TODO() (possibly with a timeout), never in
// a stored / global / inherited context.
func checkClearContext(c *Ctx) {
	r := c.R
	root := c.P.Func(repoMod+"/pkg/station/lib", "", "clearDetector")
	if root == nil || root.Blocks == nil {
		return // reported by the C10.6 anchor check
	}
	seen := map[*ssa.Function]bool{}
	var order []*ssa.Function
	var visit func(f *ssa.Function)
	visit = func(f *ssa.Function) {
		if f == nil || seen[f] || f.Blocks == nil || !isRepoPath(fnPkgPath(f)) {
			return
		}
		seen[f] = true
		order = append(order, f)
		eachInstr(f, func(in ssa.Instruction) {
			if ci, ok := in.(ssa.CallInstruction); ok {
				visit(ci.Common().StaticCallee())
			}
		})
	}
	visit(root)
	var rooted func(v ssa.Value, d int) (bool, string)
	rooted = func(v ssa.Value, d int) (bool, string) {
		if d > 8 {
			return false, "deep"
		}
		switch x := v.(type) {
		case *ssa.Call:
			switch calleeName(&x.Call) {
			case "context.Background", "context.TODO":
				return true, ""
			}
			return false, "result of " + shortName(calleeName(&x.Call))
		case *ssa.Extract:
			if call, ok := x.Tuple.(*ssa.Call); ok && x.Index == 0 {
				switch calleeName(&call.Call) {
				case "context.WithTimeout", "context.WithDeadline", "context.WithCancel":
					return rooted(call.Call.Args[0], d+1)
				}
			}
		case *ssa.Phi:
			for _, e := range x.Edges {
				if ok, why := rooted(e, d+1); !ok {
					return false, why
				}
			}
			return true, ""
		case *ssa.ChangeInterface:
			return rooted(x.X, d+1)
		case *ssa.MakeInterface:
			return rooted(x.X, d+1)
		case *ssa.UnOp:
			if al, ok := x.X.(*ssa.Alloc); ok && al.Referrers() != nil {
				all := true
				why := ""
				n := 0
				for _, ref := range *al.Referrers() {
					if st, ok := ref.(*ssa.Store); ok && st.Addr == ssa.Value(al) {
						n++
						if ok2, w := rooted(st.Val, d+1); !ok2 {
							all, why = false, w
						}
					}
				}
				if n > 0 {
					return all, why
				}
			}
		}
		return false, firstN(pathOf(v), 60)
	}
	n := 0
	for _, f := range order {
		for _, ci := range callsIn(f, shortIs("Publish")) {
			if len(ci.Common().Args) < 2 {
				continue
			}
			// (cmdable).Publish(recv, ctx, channel, message)
			var ctxArg ssa.Value
			for _, a := range ci.Common().Args {
				if strings.HasSuffix(a.Type().String(), "context.Context") {
					ctxArg = a
					break
				}
			}
			if ctxArg == nil {
				continue
			}
			n++
			ok, why := rooted(ctxArg, 0)
			r.Check(ok, "C10.6", fnName(f)+": the clear request is published under a context rooted in context.Background()", ci.Pos(), fnName(f), "Background()/TODO(), possibly with a timeout",
				"the publish reached from clearDetector uses a context that comes from "+why+": Cleanup runs after the station's run context has been cancelled, so the clear request is refused by the redis client and never reaches the detector - a restarted station inherits diversions it knows nothing about")
		}
	}
	if n == 0 {
		r.Unk("C10.6", "clearDetector: Publish call", root.Pos(), fnName(root), "no Publish reachable from clearDetector")
	}
}

// fieldLoadAddr: for a value loaded from a struct field (the function stored in r.registerForDetector), the field
// address it was loaded from; nil otherwise.
func fieldLoadAddr(v ssa.Value) ssa.Value {
	if u, ok := v.(*ssa.UnOp); ok && u.Op == token.MUL {
		return u.X
	}
	return nil
}

// derivesOnlyFromCalls: v is, through phis, only ever the result of a call of the named function.
func derivesOnlyFromCalls(v ssa.Value, short string, depth int) bool {
	if depth > 6 {
		return false
	}
	switch x := v.(type) {
	case *ssa.Phi:
		for _, e := range x.Edges {
			if !derivesOnlyFromCalls(e, short, depth+1) {
				return false
			}
		}
		return len(x.Edges) > 0
	case *ssa.Call:
		return calleeShort(&x.Call) == short
	case *ssa.Extract:
		// the first result of a helper of the package whose every non-nil first result is such a value
		call, ok := x.Tuple.(*ssa.Call)
		if !ok || x.Index != 0 {
			return false
		}
		hc := call.Call.StaticCallee()
		if hc == nil || hc.Blocks == nil || call.Parent() == nil || hc.Package() != call.Parent().Package() {
			return false
		}
		n, all := 0, true
		eachInstr(hc, func(in ssa.Instruction) {
			ret, ok := in.(*ssa.Return)
			if !ok || len(ret.Results) == 0 {
				return
			}
			rv := returnedValue(ret, 0, nil)
			if cst, isC := rv.(*ssa.Const); isC && cst.Value == nil {
				return
			}
			n++
			all = all && derivesOnlyFromCalls(rv, short, depth+1)
		})
		return n > 0 && all
	case *ssa.UnOp:
		// a local that is only assigned such results
		if al, ok := x.X.(*ssa.Alloc); ok && x.Op == token.MUL && al.Referrers() != nil {
			n := 0
			for _, ref := range *al.Referrers() {
				if st, ok := ref.(*ssa.Store); ok && st.Addr == ssa.Value(al) {
					n++
					if !derivesOnlyFromCalls(st.Val, short, depth+1) {
						return false
					}
				}
			}
			return n > 0
		}
	}
	return false
}

// checkExpiryClock: DecoyTimeout.registrationTime is written only where the record is created (shared by C10.9 and
// C08.8: restarting the clock on a duplicate delivery keeps a registration past its lifetime, and past the session
// the detector was asked for).
func checkExpiryClock(c *Ctx, rule string) {
	r := c.R
	r.Rule(rule, "the registration time of a timeout record is set only when the record is created", 1)
	n := 0
	for _, f := range c.funcsOfPkgs("pkg/station/lib", "cmd/application") {
		for _, st := range fieldStores(f, "lib.DecoyTimeout", "registrationTime") {
			n++
			al, isAlloc := st.Addr.(*ssa.FieldAddr).X.(*ssa.Alloc)
			r.Check(isAlloc && al.Heap || isAlloc, rule, fnName(f)+": writes DecoyTimeout.registrationTime", st.Pos(), fnName(f), "on the record literal being created",
				"the registration time of an existing timeout record is rewritten: the station's 10 min / 6 h then run from that moment, so the registration is kept (and matched) past its lifetime while the detector's session - requested once, from the original New / Update - has already ended")
		}
	}
	if n == 0 {
		r.Unk(rule, "stores to DecoyTimeout.registrationTime", token.NoPos, "", "none found")
	}
}
