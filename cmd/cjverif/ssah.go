package main

import (
	"encoding/json"
	"fmt"
	"go/constant"
	"go/token"
	"go/types"
	"os"
	"path/filepath"
	"sort"
	"strings"

	"golang.org/x/tools/go/ssa"
)

// ---------------------------------------------------------------------------
// Function lookup

// Func resolves pkgPath.(recv).name; recv=="" for package-level functions.
// Returns nil when not found.
func (p *Program) Func(pkgPath, recv, name string) *ssa.Function {
	sp := p.SSAPkgs[pkgPath]
	if sp == nil {
		return nil
	}
	if recv == "" {
		return sp.Func(name)
	}
	obj := sp.Pkg.Scope().Lookup(recv)
	tn, ok := obj.(*types.TypeName)
	if !ok {
		return nil
	}
	named, ok := tn.Type().(*types.Named)
	if !ok {
		return nil
	}
	for i := 0; i < named.NumMethods(); i++ {
		m := named.Method(i)
		if m.Name() == name {
			return p.Prog.FuncValue(m)
		}
	}
	return nil
}

// NamedType returns the named type pkgPath.name or nil.
func (p *Program) NamedType(pkgPath, name string) *types.Named {
	pk := p.All[pkgPath]
	if pk == nil || pk.Types == nil {
		return nil
	}
	tn, ok := pk.Types.Scope().Lookup(name).(*types.TypeName)
	if !ok {
		return nil
	}
	n, _ := tn.Type().(*types.Named)
	return n
}

// RepoFuncs returns all source functions (incl. methods and closures) of repo packages, sorted.
func (p *Program) RepoFuncs() []*ssa.Function {
	if p.repoFuncs != nil {
		return p.repoFuncs
	}
	seen := map[*ssa.Function]bool{}
	var out []*ssa.Function
	var add func(fn *ssa.Function)
	add = func(fn *ssa.Function) {
		if fn == nil || seen[fn] || fn.Synthetic != "" && !strings.HasPrefix(fn.Synthetic, "package initializer") || fn.Blocks == nil {
			return
		}
		seen[fn] = true
		out = append(out, fn)
		for _, a := range fn.AnonFuncs {
			add(a)
		}
	}
	// Every declared function, every method of every named type (exported or
	// not, value and pointer receiver), and all closures, of every repository
	// package. (ssautil.AllFunctions skips methods of unexported types that
	// are not otherwise referenced.)
	for _, sp := range p.Prog.AllPackages() {
		path := sp.Pkg.Path()
		if !(isRepoPath(path) || strings.HasPrefix(path, "fixtures/")) {
			continue
		}
		for _, mem := range sp.Members {
			switch m := mem.(type) {
			case *ssa.Function:
				add(m)
			case *ssa.Type:
				named, ok := m.Type().(*types.Named)
				if !ok || named.TypeParams() != nil || types.IsInterface(named) {
					continue
				}
				for _, T := range []types.Type{named, types.NewPointer(named)} {
					ms := p.Prog.MethodSets.MethodSet(T)
					for i := 0; i < ms.Len(); i++ {
						fn := p.Prog.MethodValue(ms.At(i))
						// promoted methods of embedded types produce synthetic wrappers: skipped by add()
						add(fn)
					}
				}
			}
		}
	}
	sort.Slice(out, func(i, j int) bool {
		if out[i].Pos() != out[j].Pos() {
			return out[i].Pos() < out[j].Pos()
		}
		return out[i].String() < out[j].String()
	})
	p.repoFuncs = out
	return out
}

func fnPkgPath(fn *ssa.Function) string {
	for f := fn; f != nil; f = f.Parent() {
		if f.Package() != nil {
			return f.Package().Pkg.Path()
		}
	}
	if fn.Object() != nil && fn.Object().Pkg() != nil {
		return fn.Object().Pkg().Path()
	}
	return ""
}

// shortPkg strips the repo module prefix from strings for readable keys.
func shortName(s string) string {
	s = strings.ReplaceAll(s, repoMod+"/", "")
	return s
}

func fnName(fn *ssa.Function) string {
	if fn == nil {
		return "<nil>"
	}
	return shortName(fn.String())
}

// withAnon returns fn and all nested anonymous functions.
func withAnon(fn *ssa.Function) []*ssa.Function {
	out := []*ssa.Function{fn}
	for _, a := range fn.AnonFuncs {
		out = append(out, withAnon(a)...)
	}
	return out
}

// ---------------------------------------------------------------------------
// Calls

// calleeName returns a printable fully-qualified callee name for a call:
// static: "net.Dial", "(*sync.RWMutex).Lock"; invoke: "(net.Conn).Read".
// Dynamic (closure/func value) calls return "".
func calleeName(c *ssa.CallCommon) string {
	if c.IsInvoke() {
		m := c.Method
		recv := m.Type().(*types.Signature).Recv()
		if recv != nil {
			return "(" + types.TypeString(recv.Type(), nil) + ")." + m.Name()
		}
		return m.FullName()
	}
	if f := c.StaticCallee(); f != nil {
		// strip generic instantiation suffixes
		return f.String()
	}
	if b, ok := c.Value.(*ssa.Builtin); ok {
		return "builtin." + b.Name()
	}
	return ""
}

// methodName returns just the method/function name of the callee.
func calleeShort(c *ssa.CallCommon) string {
	if c.IsInvoke() {
		return c.Method.Name()
	}
	if f := c.StaticCallee(); f != nil {
		return f.Name()
	}
	if b, ok := c.Value.(*ssa.Builtin); ok {
		return b.Name()
	}
	return ""
}

// recvOf returns the receiver value of a method call (invoke or static method), or nil.
func recvOf(c *ssa.CallCommon) ssa.Value {
	if c.IsInvoke() {
		return c.Value
	}
	if f := c.StaticCallee(); f != nil && f.Signature.Recv() != nil && len(c.Args) > 0 {
		return c.Args[0]
	}
	return nil
}

// argsOf returns the non-receiver arguments.
func argsOf(c *ssa.CallCommon) []ssa.Value {
	if c.IsInvoke() {
		return c.Args
	}
	if f := c.StaticCallee(); f != nil && f.Signature.Recv() != nil && len(c.Args) > 0 {
		return c.Args[1:]
	}
	return c.Args
}

// eachInstr visits every instruction of fn (not nested closures).
func eachInstr(fn *ssa.Function, f func(ssa.Instruction)) {
	for _, b := range fn.Blocks {
		for _, in := range b.Instrs {
			f(in)
		}
	}
}

// callsIn returns call instructions (Call, Go, Defer) in fn whose callee name satisfies match.
func callsIn(fn *ssa.Function, match func(name string, c *ssa.CallCommon) bool) []ssa.CallInstruction {
	var out []ssa.CallInstruction
	eachInstr(fn, func(in ssa.Instruction) {
		if ci, ok := in.(ssa.CallInstruction); ok {
			if match(calleeName(ci.Common()), ci.Common()) {
				out = append(out, ci)
			}
		}
	})
	return out
}

func nameIs(names ...string) func(string, *ssa.CallCommon) bool {
	return func(n string, _ *ssa.CallCommon) bool {
		for _, x := range names {
			if n == x {
				return true
			}
		}
		return false
	}
}

func shortIs(names ...string) func(string, *ssa.CallCommon) bool {
	return func(_ string, c *ssa.CallCommon) bool {
		s := calleeShort(c)
		for _, x := range names {
			if s == x {
				return true
			}
		}
		return false
	}
}

// ---------------------------------------------------------------------------
// Expression paths: a canonical rendering of an SSA value in terms of
// parameters, locals, fields, getters, constants. go/ssa has no CSE, so two
// evaluations of the same source expression are different values with the
// same path.

type pather struct {
	memo  map[ssa.Value]string
	stack map[ssa.Value]bool
}

func newPather() *pather { return &pather{memo: map[ssa.Value]string{}, stack: map[ssa.Value]bool{}} }

var defaultPather = newPather()

func pathOf(v ssa.Value) string { return defaultPather.path(v, 0) }

func constStr(c *ssa.Const) string {
	if c.Value == nil {
		return "nil"
	}
	if c.Value.Kind() == constant.String {
		return fmt.Sprintf("%q", constant.StringVal(c.Value))
	}
	return c.Value.ExactString()
}

func typeShort(t types.Type) string {
	return shortName(types.TypeString(t, func(p *types.Package) string { return p.Name() }))
}

func (p *pather) path(v ssa.Value, depth int) string {
	if v == nil {
		return "<nil>"
	}
	if s, ok := p.memo[v]; ok {
		return s
	}
	if depth > 24 || p.stack[v] {
		return "…"
	}
	p.stack[v] = true
	s := p.path1(v, depth+1)
	delete(p.stack, v)
	p.memo[v] = s
	return s
}

func (p *pather) path1(v ssa.Value, d int) string {
	switch x := v.(type) {
	case *ssa.Parameter:
		return pname(x)
	case *ssa.FreeVar:
		return fvname(x)
	case *ssa.Const:
		return constStr(x)
	case *ssa.Global:
		return x.Pkg.Pkg.Name() + "." + x.Name()
	case *ssa.Function:
		return "func:" + fnName(x)
	case *ssa.Builtin:
		return x.Name()
	case *ssa.Alloc:
		if x.Comment != "" && x.Comment != "complit" && !strings.HasPrefix(x.Comment, "new") && x.Comment != "slicelit" && x.Comment != "makeslice" && x.Comment != "varargs" {
			// the spilled copy of a parameter carries the parameter's (canonical) name
			if f := x.Parent(); f != nil {
				for _, prm := range f.Params {
					if prm.Name() == x.Comment {
						return pname(prm)
					}
				}
			}
			// a local captured by a closure carries the (canonical) name of that closure's free variable
			if refs := x.Referrers(); refs != nil {
				for _, ref := range *refs {
					if mc, ok := ref.(*ssa.MakeClosure); ok {
						fn := mc.Fn.(*ssa.Function)
						for i, b := range mc.Bindings {
							if b == ssa.Value(x) && i < len(fn.FreeVars) {
								return fvname(fn.FreeVars[i])
							}
						}
					}
				}
			}
			return x.Comment
		}
		return fmt.Sprintf("new(%s)", typeShort(x.Type().Underlying().(*types.Pointer).Elem()))
	case *ssa.FieldAddr:
		return p.path(x.X, d) + "." + fieldName(x.X.Type(), x.Field)
	case *ssa.Field:
		return p.path(x.X, d) + "." + fieldName(x.X.Type(), x.Field)
	case *ssa.UnOp:
		switch x.Op {
		case token.MUL:
			return p.path(x.X, d)
		case token.NOT:
			return "!" + p.path(x.X, d)
		case token.ARROW:
			return "<-" + p.path(x.X, d)
		default:
			return x.Op.String() + p.path(x.X, d)
		}
	case *ssa.BinOp:
		return "(" + p.path(x.X, d) + " " + x.Op.String() + " " + p.path(x.Y, d) + ")"
	case *ssa.Call:
		return p.callPath(&x.Call, d)
	case *ssa.IndexAddr:
		return p.path(x.X, d) + "[" + p.path(x.Index, d) + "]"
	case *ssa.Index:
		return p.path(x.X, d) + "[" + p.path(x.Index, d) + "]"
	case *ssa.Lookup:
		return p.path(x.X, d) + "[" + p.path(x.Index, d) + "]"
	case *ssa.Slice:
		if a, ok := x.X.(*ssa.Alloc); ok && (a.Comment == "varargs" || a.Comment == "slicelit") && x.Low == nil && x.High == nil {
			// a literal / variadic argument list: render its elements
			elems := map[int64]string{}
			max := int64(-1)
			if a.Referrers() != nil {
				for _, ref := range *a.Referrers() {
					ia, ok := ref.(*ssa.IndexAddr)
					if !ok || ia.Referrers() == nil {
						continue
					}
					cv, ok := ia.Index.(*ssa.Const)
					if !ok {
						continue
					}
					idx := cv.Int64()
					for _, r2 := range *ia.Referrers() {
						if st, ok := r2.(*ssa.Store); ok && st.Addr == ssa.Value(ia) {
							elems[idx] = p.path(st.Val, d)
							if idx > max {
								max = idx
							}
						}
					}
				}
			}
			if max >= 0 && max < 32 {
				var parts []string
				for i := int64(0); i <= max; i++ {
					parts = append(parts, elems[i])
				}
				return "[" + strings.Join(parts, ", ") + "]"
			}
		}
		lo, hi := "", ""
		if x.Low != nil {
			lo = p.path(x.Low, d)
		}
		if x.High != nil {
			hi = p.path(x.High, d)
		}
		s := p.path(x.X, d) + "[" + lo + ":" + hi
		if x.Max != nil {
			s += ":" + p.path(x.Max, d)
		}
		return s + "]"
	case *ssa.Convert:
		// conversions keep the path but record the target type for narrowing rules
		return typeShort(x.Type()) + "(" + p.path(x.X, d) + ")"
	case *ssa.ChangeType:
		return p.path(x.X, d)
	case *ssa.ChangeInterface:
		return p.path(x.X, d)
	case *ssa.MakeInterface:
		return p.path(x.X, d)
	case *ssa.SliceToArrayPointer:
		return p.path(x.X, d)
	case *ssa.Extract:
		return p.path(x.Tuple, d) + "#" + fmt.Sprint(x.Index)
	case *ssa.TypeAssert:
		return p.path(x.X, d) + ".(" + typeShort(x.AssertedType) + ")"
	case *ssa.Phi:
		set := map[string]bool{}
		for _, e := range x.Edges {
			set[p.path(e, d)] = true
		}
		var ks []string
		for k := range set {
			ks = append(ks, k)
		}
		sort.Strings(ks)
		if len(ks) == 1 {
			return ks[0]
		}
		name := x.Comment
		return "phi:" + name + "[" + strings.Join(ks, "|") + "]"
	case *ssa.MakeClosure:
		return "closure:" + fnName(x.Fn.(*ssa.Function))
	case *ssa.MakeMap:
		return "make(" + typeShort(x.Type()) + ")"
	case *ssa.MakeSlice:
		return "make(" + typeShort(x.Type()) + ")"
	case *ssa.MakeChan:
		return "make(" + typeShort(x.Type()) + ")"
	case *ssa.Next:
		return "next(" + p.path(x.Iter, d) + ")"
	case *ssa.Range:
		return "range(" + p.path(x.X, d) + ")"
	case *ssa.Select:
		return "select:" + x.Name()
	}
	return fmt.Sprintf("?%T", v)
}

func (p *pather) callPath(c *ssa.CallCommon, d int) string {
	var args []string
	for _, a := range argsOf(c) {
		args = append(args, p.path(a, d))
	}
	al := strings.Join(args, ", ")
	if r := recvOf(c); r != nil {
		return p.path(r, d) + "." + calleeShort(c) + "(" + al + ")"
	}
	if f := c.StaticCallee(); f != nil {
		pk := ""
		if f.Package() != nil {
			pk = f.Package().Pkg.Name() + "."
		}
		return pk + f.Name() + "(" + al + ")"
	}
	if b, ok := c.Value.(*ssa.Builtin); ok {
		return b.Name() + "(" + al + ")"
	}
	return "(" + p.path(c.Value, d) + ")(" + al + ")"
}

func fieldName(t types.Type, idx int) string {
	if pt, ok := t.Underlying().(*types.Pointer); ok {
		t = pt.Elem()
	}
	st, ok := t.Underlying().(*types.Struct)
	if !ok || idx >= st.NumFields() {
		return fmt.Sprintf("#%d", idx)
	}
	return st.Field(idx).Name()
}

// fieldOf returns (owning named type string, field name) for a FieldAddr/Field.
func fieldOwner(v ssa.Value) (string, string, bool) {
	var xt types.Type
	var idx int
	switch x := v.(type) {
	case *ssa.FieldAddr:
		xt, idx = x.X.Type(), x.Field
	case *ssa.Field:
		xt, idx = x.X.Type(), x.Field
	default:
		return "", "", false
	}
	if pt, ok := xt.Underlying().(*types.Pointer); ok {
		xt = pt.Elem()
	}
	return typeShort(xt), fieldName(xt, idx), true
}

// ---------------------------------------------------------------------------
// Conditions: canonical form and polarity.

// normCond renders a branch condition canonically and returns the polarity
// under which the rendered atom holds when the original condition is true.
// Canonical operators: "==" (operands sorted), "<" ; everything else is
// expressed by flipping operands / polarity.
func normCond(v ssa.Value) (string, bool) {
	pol := true
	for {
		if u, ok := v.(*ssa.UnOp); ok && u.Op == token.NOT {
			v = u.X
			pol = !pol
			continue
		}
		break
	}
	if b, ok := v.(*ssa.BinOp); ok {
		x, y := pathOf(b.X), pathOf(b.Y)
		switch b.Op {
		case token.EQL, token.NEQ:
			if x > y {
				x, y = y, x
			}
			if b.Op == token.NEQ {
				pol = !pol
			}
			// bool == true / false simplification
			if y == "true" {
				return x, pol
			}
			if x == "true" {
				return y, pol
			}
			if y == "false" {
				return x, !pol
			}
			if x == "false" {
				return y, !pol
			}
			return "(" + x + " == " + y + ")", pol
		case token.LSS:
			return "(" + x + " < " + y + ")", pol
		case token.GTR:
			return "(" + y + " < " + x + ")", pol
		case token.GEQ: // x >= y == !(x < y)
			return "(" + x + " < " + y + ")", !pol
		case token.LEQ: // x <= y == !(y < x)
			return "(" + y + " < " + x + ")", !pol
		}
	}
	return pathOf(v), pol
}

// Atom is a canonical condition with the polarity that must hold.
type Atom struct {
	Cond string
	Pol  bool
}

func (a Atom) String() string {
	if a.Pol {
		return a.Cond
	}
	return "!" + a.Cond
}

// edge identifies a CFG edge by (from block index, successor slot). pred is 0 for "whatever way the block was
// entered"; for a block that branches on the materialised value of a short-circuit expression (see condPhi) an
// edge can also be qualified by the predecessor the block was entered from: pred = index in Preds + 1.
type edge struct{ from, slot, pred int }

// condPhi: block b ends in an If whose condition is (a negation of) a phi defined in b itself - the shape go/ssa
// gives `switch { case a && b: }`, `x := a || b; if x` in one block, and similar: each predecessor contributes
// either a constant (the short-circuited operand decided the result) or the value of the last operand. The
// reachability engines thread such a branch per predecessor, so that the conjuncts/disjuncts act as the guards
// they are in the if-form of the same code.
func condPhi(b *ssa.BasicBlock) (*ssa.Phi, bool, bool) {
	if b == nil || len(b.Instrs) == 0 {
		return nil, false, false
	}
	iff, ok := b.Instrs[len(b.Instrs)-1].(*ssa.If)
	if !ok {
		return nil, false, false
	}
	v, neg := iff.Cond, false
	for {
		if u, ok := v.(*ssa.UnOp); ok && u.Op == token.NOT {
			v, neg = u.X, !neg
			continue
		}
		break
	}
	ph, ok := v.(*ssa.Phi)
	if !ok || ph.Block() != b || len(ph.Edges) != len(b.Preds) {
		return nil, false, false
	}
	return ph, neg, true
}

// branchCond is one condition a branch of f tests: the If's own condition (pred 0), or - for a block threaded per
// predecessor (condPhi) - the operand that decides the branch when the block is entered from that predecessor.
// cond has its negations stripped; neg says whether successor 0 is taken when cond is false.
type branchCond struct {
	b    *ssa.BasicBlock
	cond ssa.Value
	neg  bool
	pred int
}

func (bc branchCond) edge(slot int) edge { return edge{bc.b.Index, slot, bc.pred} }

func stripNot(v ssa.Value) (ssa.Value, bool) {
	neg := false
	for {
		if u, ok := v.(*ssa.UnOp); ok && u.Op == token.NOT {
			v, neg = u.X, !neg
			continue
		}
		return v, neg
	}
}

func branchConds(f *ssa.Function) []branchCond {
	var out []branchCond
	for _, b := range f.Blocks {
		if len(b.Instrs) == 0 {
			continue
		}
		iff, ok := b.Instrs[len(b.Instrs)-1].(*ssa.If)
		if !ok {
			continue
		}
		if ph, neg, ok := condPhi(b); ok {
			for i, e := range ph.Edges {
				if _, isConst := e.(*ssa.Const); isConst {
					continue
				}
				v, n2 := stripNot(e)
				out = append(out, branchCond{b, v, neg != n2, i + 1})
			}
			continue
		}
		v, neg := stripNot(iff.Cond)
		out = append(out, branchCond{b, v, neg, 0})
	}
	return out
}

// infeasibleThreaded: entering b from predecessor pred-1 fixes the phi to a constant that rules out successor slot.
func infeasibleThreaded(b *ssa.BasicBlock, slot, pred int) bool {
	if pred <= 0 {
		return false
	}
	ph, neg, ok := condPhi(b)
	if !ok || pred-1 >= len(ph.Edges) {
		return false
	}
	c, ok := ph.Edges[pred-1].(*ssa.Const)
	if !ok || c.Value == nil || c.Value.Kind() != constant.Bool {
		return false
	}
	val := constant.BoolVal(c.Value) != neg // value of the If condition
	return val != (slot == 0)
}

// predSlot: the index+1 in to.Preds of the edge (from, slot) -> to. A block that reaches `to` through both of its
// successor slots appears twice in Preds, in slot order.
func predSlot(from *ssa.BasicBlock, slot int, to *ssa.BasicBlock) int {
	nth := 0
	for s := 0; s < slot; s++ {
		if from.Succs[s] == to {
			nth++
		}
	}
	for i, p := range to.Preds {
		if p == from {
			if nth == 0 {
				return i + 1
			}
			nth--
		}
	}
	return 0
}

// edgesEstablishing returns the CFG edges of fn on which some atom accepted by
// match holds. match receives the canonical condition and the polarity that
// holds on the edge.
func edgesEstablishing(fn *ssa.Function, match func(cond string, pol bool) bool) map[edge]bool {
	out := map[edge]bool{}
	for _, bc := range branchConds(fn) {
		for slot := 0; slot < 2; slot++ {
			val := (slot == 0) != bc.neg // truth value of bc.cond on this edge
			for _, a := range impliedAtoms(fn, bc.cond, val, 0) {
				if match(a.Cond, a.Pol) {
					out[bc.edge(slot)] = true
					break
				}
			}
		}
	}
	return out
}

func atomMatcher(atoms ...Atom) func(string, bool) bool {
	return func(c string, pol bool) bool {
		for _, a := range atoms {
			if a.Cond == c && a.Pol == pol {
				return true
			}
		}
		return false
	}
}

// reach computes whether instruction `to` can be reached starting just after
// instruction `from` (or from function entry if from==nil) without executing
// an instruction in blockedI and without taking an edge in blockedE.
// If to==nil, the targets are function exits (Return instructions; Panic is
// not counted as an exit). Returns a witness (block indices) when reachable.
func reach(fn *ssa.Function, from ssa.Instruction, isTarget func(ssa.Instruction) bool, blockedI func(ssa.Instruction) bool, blockedE map[edge]bool) (bool, []int) {
	return reachFrom(fn, from, nil, isTarget, blockedI, blockedE)
}

// reachAt starts at the first instruction of block b (inclusive).
func reachAt(fn *ssa.Function, b *ssa.BasicBlock, isTarget func(ssa.Instruction) bool, blockedI func(ssa.Instruction) bool, blockedE map[edge]bool) (bool, []int) {
	return reachFrom(fn, nil, b, isTarget, blockedI, blockedE)
}

func reachFrom(fn *ssa.Function, from ssa.Instruction, fromBlock *ssa.BasicBlock, isTarget func(ssa.Instruction) bool, blockedI func(ssa.Instruction) bool, blockedE map[edge]bool) (bool, []int) {
	type state struct {
		b   *ssa.BasicBlock
		idx int
	}
	if len(fn.Blocks) == 0 {
		return false, nil
	}
	var start state
	if fromBlock != nil {
		start = state{fromBlock, 0}
	} else if from == nil {
		start = state{fn.Blocks[0], 0}
	} else {
		b := from.Block()
		i := indexOf(b, from)
		start = state{b, i + 1}
	}
	type node struct {
		b    *ssa.BasicBlock
		pred int // how a threaded block (condPhi) was entered; 0 otherwise
	}
	key := func(n node) int { return n.b.Index*256 + n.pred }
	visited := map[int]bool{}
	parent := map[int]int{}
	// scan a block from idx; returns (hitTarget, blocked)
	scan := func(b *ssa.BasicBlock, idx int) (bool, bool) {
		for i := idx; i < len(b.Instrs); i++ {
			in := b.Instrs[i]
			if isTarget(in) {
				return true, false
			}
			if blockedI != nil && blockedI(in) {
				return false, true
			}
		}
		return false, false
	}
	witness := func(k int) []int {
		var w []int
		seen := map[int]bool{}
		for x := k; !seen[x]; {
			seen[x] = true
			w = append([]int{x / 256}, w...)
			p, ok := parent[x]
			if !ok {
				break
			}
			x = p
		}
		return w
	}
	hit, blk := scan(start.b, start.idx)
	if hit {
		return true, []int{start.b.Index}
	}
	if blk {
		return false, nil
	}
	queue := []node{}
	push := func(from node) {
		for slot, s := range from.b.Succs {
			if blockedE != nil && (blockedE[edge{from.b.Index, slot, 0}] || from.pred > 0 && blockedE[edge{from.b.Index, slot, from.pred}]) {
				continue
			}
			if infeasibleThreaded(from.b, slot, from.pred) {
				continue
			}
			n := node{s, 0}
			if _, _, ok := condPhi(s); ok {
				n.pred = predSlot(from.b, slot, s)
			}
			if !visited[key(n)] {
				visited[key(n)] = true
				parent[key(n)] = key(from)
				queue = append(queue, n)
			}
		}
	}
	// the start block may be re-entered from the top (loops): do not mark it visited unless idx==0
	startN := node{start.b, 0}
	if start.idx == 0 {
		visited[key(startN)] = true
	}
	push(startN)
	for len(queue) > 0 {
		n := queue[0]
		queue = queue[1:]
		hit, blk := scan(n.b, 0)
		if hit {
			return true, witness(key(n))
		}
		if blk {
			continue
		}
		push(n)
	}
	return false, nil
}

func indexOf(b *ssa.BasicBlock, in ssa.Instruction) int {
	for i, x := range b.Instrs {
		if x == in {
			return i
		}
	}
	return -1
}

func isReturn(in ssa.Instruction) bool { _, ok := in.(*ssa.Return); return ok }

func isInstr(target ssa.Instruction) func(ssa.Instruction) bool {
	return func(in ssa.Instruction) bool { return in == target }
}

func anyOf(set map[ssa.Instruction]bool) func(ssa.Instruction) bool {
	return func(in ssa.Instruction) bool { return set[in] }
}

// guarded reports whether instruction in executes only when one of the atoms
// holds (i.e. it is unreachable from entry once every edge establishing one of
// the atoms is removed).
func guarded(fn *ssa.Function, in ssa.Instruction, atoms ...Atom) bool {
	be := edgesEstablishing(fn, atomMatcher(atoms...))
	if len(be) == 0 {
		return false
	}
	r, _ := reach(fn, nil, isInstr(in), nil, be)
	return !r
}

// guardedM is guarded with a custom matcher.
func guardedM(fn *ssa.Function, in ssa.Instruction, match func(cond string, pol bool) bool) bool {
	be := edgesEstablishing(fn, match)
	if len(be) == 0 {
		return false
	}
	r, _ := reach(fn, nil, isInstr(in), nil, be)
	return !r
}

// phiEdgeGuarded: the i-th incoming edge of ph is taken only when one of the atoms holds.
func phiEdgeGuarded(f *ssa.Function, ph *ssa.Phi, i int, atoms ...Atom) bool {
	b := ph.Block()
	blocked := edgesEstablishing(f, atomMatcher(atoms...))
	if len(blocked) == 0 || len(b.Instrs) == 0 {
		return false
	}
	for j, p := range b.Preds {
		if j == i {
			continue
		}
		for slot, s := range p.Succs {
			if s == b && predSlot(p, slot, b) == j+1 {
				blocked[edge{p.Index, slot, 0}] = true
			}
		}
	}
	hit, _ := reach(f, nil, isInstr(b.Instrs[0]), nil, blocked)
	return !hit
}

// condsOf lists the canonical conditions of all branches in fn (debug/evidence).
func condsOf(fn *ssa.Function) []string {
	var out []string
	for _, b := range fn.Blocks {
		if len(b.Instrs) == 0 {
			continue
		}
		if iff, ok := b.Instrs[len(b.Instrs)-1].(*ssa.If); ok {
			c, pol := normCond(iff.Cond)
			out = append(out, Atom{c, pol}.String())
		}
	}
	return out
}

// blockPathStr renders a witness path with source lines for reports.
func (r *Report) blockPath(fn *ssa.Function, w []int) []string {
	var out []string
	for _, bi := range w {
		b := fn.Blocks[bi]
		pos := token.NoPos
		for _, in := range b.Instrs {
			if in.Pos().IsValid() {
				pos = in.Pos()
				break
			}
		}
		out = append(out, fmt.Sprintf("block %d (%s) %s", bi, b.Comment, r.posStr(pos)))
	}
	return out
}

// storesTo returns the Store instructions in fn whose address is a FieldAddr of the named field
// (owner type rendered by typeShort, e.g. "lib.DecoyRegistration").
func fieldStores(fn *ssa.Function, owner, field string) []*ssa.Store {
	var out []*ssa.Store
	eachInstr(fn, func(in ssa.Instruction) {
		if st, ok := in.(*ssa.Store); ok {
			if o, f, ok := fieldOwner(st.Addr); ok && o == owner && f == field {
				out = append(out, st)
			}
		}
	})
	return out
}

// fieldAddrEscapes returns the uses of &x.<field> (x of type owner) other than a direct load or a direct store to it:
// through such a use the field can be written without a fieldStores-visible store.
func fieldAddrEscapes(fn *ssa.Function, owner, field string) []ssa.Instruction {
	var out []ssa.Instruction
	eachInstr(fn, func(in ssa.Instruction) {
		fa, ok := in.(*ssa.FieldAddr)
		if !ok {
			return
		}
		if o, f, ok := fieldOwner(fa); !ok || o != owner || f != field {
			return
		}
		for _, ref := range *fa.Referrers() {
			switch x := ref.(type) {
			case *ssa.UnOp:
				if x.Op == token.MUL {
					continue
				}
			case *ssa.Store:
				if x.Addr == fa && x.Val != fa {
					continue
				}
			case *ssa.DebugRef:
				continue
			}
			out = append(out, ref)
		}
	})
	return out
}

// constOf returns the constant value of v if it is an *ssa.Const (through conversions).
func constOf(v ssa.Value) (constant.Value, bool) {
	for {
		switch x := v.(type) {
		case *ssa.Const:
			if x.Value == nil {
				return nil, false
			}
			return x.Value, true
		case *ssa.Convert:
			v = x.X
			continue
		case *ssa.ChangeType:
			v = x.X
			continue
		case *ssa.MakeInterface:
			v = x.X
			continue
		}
		return nil, false
	}
}

// stripConv removes value-preserving wrappers.
func stripConv(v ssa.Value) ssa.Value {
	for {
		switch x := v.(type) {
		case *ssa.ChangeType:
			v = x.X
		case *ssa.ChangeInterface:
			v = x.X
		case *ssa.MakeInterface:
			v = x.X
		default:
			return v
		}
	}
}

func sortStrings(s []string) { sort.Strings(s) }

// P is the name of the i-th SSA parameter of f (index 0 is the receiver of a method): rules spell access paths
// with it so that renaming a parameter does not change their verdict.
func P(f *ssa.Function, i int) string {
	if f != nil && i < len(f.Params) {
		return pname(f.Params[i])
	}
	return "?"
}

// ---------------------------------------------------------------------------
// Canonical parameter names. The rule tables spell access paths with the parameter names of the tree they were
// written against; /verif/anchors/param_names.json freezes those names per function and position. A parameter
// (or captured variable) is rendered by its frozen name, so that renaming it - a behaviour-preserving edit -
// does not change any verdict. Functions that are not in the table, or whose arity changed, use their own names.

type fnNames struct {
	Params   []string `json:"params"`
	FreeVars []string `json:"freevars,omitempty"`
}

var canonTable map[string]fnNames

func loadCanonNames(vdir string) {
	canonTable = map[string]fnNames{}
	b, err := os.ReadFile(filepath.Join(vdir, "anchors", "param_names.json"))
	if err != nil {
		return
	}
	_ = json.Unmarshal(b, &canonTable)
}

func pname(p *ssa.Parameter) string {
	f := p.Parent()
	if f == nil {
		return p.Name()
	}
	if t, ok := canonTable[f.String()]; ok && len(t.Params) == len(f.Params) {
		for i, q := range f.Params {
			if q == p {
				return t.Params[i]
			}
		}
	}
	return p.Name()
}

func fvname(v *ssa.FreeVar) string {
	f := v.Parent()
	if f == nil {
		return v.Name()
	}
	if t, ok := canonTable[f.String()]; ok && len(t.FreeVars) == len(f.FreeVars) {
		for i, q := range f.FreeVars {
			if q == v {
				return t.FreeVars[i]
			}
		}
	}
	return v.Name()
}

// reachAgainst: can `target` be reached from the entry of f whatever way the branches on `adversarial` blocks go?
// (a two-player reachability game: at a block for which adversarial() holds every successor must lead to the
// target, at any other block one successor suffices). Used for "this happens whenever <allowed conditions> hold":
// the conditions that are NOT allowed to matter are played by the adversary.
func reachAgainst(f *ssa.Function, target ssa.Instruction, adversarial func(b *ssa.BasicBlock) bool) bool {
	return reachGame(f, target, func(b *ssa.BasicBlock) int {
		if adversarial(b) {
			return gameAll
		}
		return gameAny
	})
}

const (
	gameAny   = -1 // one successor suffices (a condition that is allowed to matter)
	gameAll   = -2 // every successor must lead to the target (played by the adversary)
	gameSucc0 = 0  // the target must be reachable through successor 0 (the true edge)
	gameSucc1 = 1  // ... through successor 1 (the false edge)
)

// reachGame generalises reachAgainst: mode(b) says how block b's branch is resolved.
func reachGame(f *ssa.Function, target ssa.Instruction, mode func(b *ssa.BasicBlock) int) bool {
	return len(f.Blocks) > 0 && reachGameFrom(f, f.Blocks[0], target, mode)
}

// reachGameFrom: the same game, started at block start instead of the function entry.
func reachGameFrom(f *ssa.Function, start *ssa.BasicBlock, target ssa.Instruction, mode func(b *ssa.BasicBlock) int) bool {
	win := map[*ssa.BasicBlock]bool{target.Block(): true}
	// a branch that only decides whether a loop goes round once more (the loop does not contain the target) is not a
	// condition on the target: the loop is left eventually (termination is not this query's business), so one
	// successor suffices there
	canReach := func(from, to *ssa.BasicBlock) bool {
		seen := map[*ssa.BasicBlock]bool{}
		stack := append([]*ssa.BasicBlock{}, from.Succs...)
		for len(stack) > 0 {
			b := stack[len(stack)-1]
			stack = stack[:len(stack)-1]
			if b == to {
				return true
			}
			if seen[b] || b == target.Block() {
				continue
			}
			seen[b] = true
			stack = append(stack, b.Succs...)
		}
		return false
	}
	plainReach := func(from, to *ssa.BasicBlock) bool {
		seen := map[*ssa.BasicBlock]bool{}
		stack := append([]*ssa.BasicBlock{}, from.Succs...)
		for len(stack) > 0 {
			b := stack[len(stack)-1]
			stack = stack[:len(stack)-1]
			if b == to {
				return true
			}
			if seen[b] {
				continue
			}
			seen[b] = true
			stack = append(stack, b.Succs...)
		}
		return false
	}
	loopBranch := map[*ssa.BasicBlock]bool{}
	for _, b := range f.Blocks {
		// (a branch inside a loop that also contains the target - `if c { continue }` before the target - is a
		// condition on the target, not a loop test)
		if len(b.Succs) == 2 && b != target.Block() && !plainReach(target.Block(), b) {
			// exactly one successor leads back to b without passing the target: a loop test
			back0, back1 := b.Succs[0] == b || canReach(b.Succs[0], b), b.Succs[1] == b || canReach(b.Succs[1], b)
			if back0 != back1 {
				loopBranch[b] = true
			}
		}
	}
	userMode := mode
	mode = func(b *ssa.BasicBlock) int {
		if loopBranch[b] {
			return gameAny
		}
		return userMode(b)
	}
	for changed := true; changed; {
		changed = false
		for _, b := range f.Blocks {
			if win[b] || len(b.Succs) == 0 {
				continue
			}
			ok := false
			switch m := mode(b); {
			case len(b.Succs) == 1:
				ok = win[b.Succs[0]]
			case m == gameAll:
				ok = true
				for _, s := range b.Succs {
					ok = ok && win[s]
				}
			case m == gameSucc0 || m == gameSucc1:
				ok = m < len(b.Succs) && win[b.Succs[m]]
			default:
				for _, s := range b.Succs {
					ok = ok || win[s]
				}
			}
			if ok {
				win[b] = true
				changed = true
			}
		}
	}
	return win[start]
}
