package main

import (
	"fmt"
	"go/constant"
	"go/token"
	"go/types"
	"os"
	"sort"
	"strings"

	"golang.org/x/tools/go/ssa"
)

func init() {
	register("C17", &propCheck{Run: checkC17,
		Explain: "Whole-station taint analysis (go/ssa, context-insensitive, type-based field cells). " +
			"Sources: RemoteAddr() of a connection in station code (unless dominated by logClientIP == true), the registrant address (DecoyRegistration.registrationAddr, GetRegistrationAddress(), C2SWrapper/DTLS source-address getters), and every error returned by an operation on a client-side connection (accepted sockets, connections returned by WrapConnection / Connect, their wrappers) - such errors print both endpoints. " +
			"Propagation: assignments, fields (per type), containers, closures, calls into every repository function and every repository implementation of an interface method; an external call taints its results when any operand is tainted, except for the reviewed models listed in the evidence. " +
			"A sanitiser needs no annotation: a function whose returns are all nil / package sentinels / errno values simply returns clean values. " +
			"Sinks (C17.1): every logger call that emits at the default level - the set is computed from pkg/station/log (guard constant vs. the initial level), plus the embedded standard logger's Print*/Fatal*/Panic*, fmt.Print*, and logger prefixes (log.New / SetPrefix); operands consumed by %T/%d/%t/%p are exempt; a value with a repository String()/Error() method is judged by that method's result, any other struct by its fields (so tunnel summaries and digests are covered through json.Marshal). " +
			"C17.2: flowDescription takes RemoteAddr only under the logClientIP gate. C17.3: the registration digest and the expiry record have no field fed from the registrant address. " +
			"The analysis over-approximates (no path- or context-sensitivity): every report on the unchanged tree was triaged by hand; the one infeasibility lemma is the io.Reader contract (n <= len(buf)).",
		Assume: []string{"calls through function values that are neither a direct closure nor a captured variable are not followed", "external calls do not write tainted data through pointer operands", "reflection / unsafe are not modelled"}})
}

const stationLogPkg = repoMod + "/pkg/station/log"

// emittingLoggers computes, from pkg/station/log, which of its functions/methods write at the default level.
func emittingLoggers(c *Ctx) (map[*ssa.Function]bool, string, bool) {
	out := map[*ssa.Function]bool{}
	def, ok := globalInitConst(c.P, stationLogPkg, "level")
	if !ok {
		return nil, "", false
	}
	var defv int64
	fmt.Sscan(def, &defv)
	// a gate on a logger's own level field says something about the default only if every logger starts at the
	// package default: New stores the package-level `level` into the field
	fieldInit := false
	for _, f := range c.P.RepoFuncs() {
		if fnPkgPath(f) != stationLogPkg || f.Name() != "New" {
			continue
		}
		for _, st := range fieldStores(f, "log.Logger", "level") {
			if u, ok := st.Val.(*ssa.UnOp); ok {
				if g, ok := u.X.(*ssa.Global); ok && g.Name() == "level" {
					fieldInit = true
				}
			}
		}
	}
	var names []string
	for _, f := range c.P.RepoFuncs() {
		if fnPkgPath(f) != stationLogPkg || f.Blocks == nil || f.Parent() != nil {
			continue
		}
		// a function writes iff it reaches an output call of the standard logger; it is level-gated iff that call is
		// dominated by `level <= K`
		var outCalls []ssa.Instruction
		eachInstr(f, func(in ssa.Instruction) {
			if ci, ok := in.(ssa.CallInstruction); ok {
				n := calleeName(ci.Common())
				if strings.HasPrefix(n, "(*log.Logger).") || strings.HasPrefix(n, "log.") {
					sh := calleeShort(ci.Common())
					if strings.HasPrefix(sh, "Print") || strings.HasPrefix(sh, "Fatal") || strings.HasPrefix(sh, "Panic") || sh == "Output" {
						outCalls = append(outCalls, in)
					}
				}
			}
		})
		if len(outCalls) == 0 {
			continue
		}
		emits := false
		for _, oc := range outCalls {
			gated := false
			for _, b := range f.Blocks {
				iff, ok := b.Instrs[len(b.Instrs)-1].(*ssa.If)
				if !ok {
					continue
				}
				bo, ok := iff.Cond.(*ssa.BinOp)
				if !ok || (bo.Op != token.LEQ && bo.Op != token.LSS) {
					continue
				}
				kv, ok := constOf(bo.Y)
				if !ok || !strings.HasSuffix(pathOf(bo.X), "level") {
					continue
				}
				k, _ := constant.Int64Val(constant.ToInt(kv))
				// is oc only reachable through the true edge?
				r1, _ := reach(f, nil, isInstr(oc), nil, map[edge]bool{{b.Index, 0, 0}: true})
				if !r1 {
					gated = true
					if (bo.Op == token.LEQ && defv <= k) || (bo.Op == token.LSS && defv < k) {
						emits = true
					}
					if _, onField := bo.X.(*ssa.UnOp); onField && strings.Contains(pathOf(bo.X), ".") && !fieldInit {
						emits = true // the field is not known to start at the default: an unset level passes every gate
					}
				}
			}
			if !gated {
				emits = true
			}
		}
		if emits {
			out[f] = true
			names = append(names, strings.TrimPrefix(fnName(f), "pkg/station/log."))
		}
	}
	sort.Strings(names)
	return out, fmt.Sprintf("default level %s; emitting: %s", def, strings.Join(names, " ")), true
}

func checkC17(c *Ctx) {
	r := c.R
	// ---- C17.4 libraries the station runs log for themselves: the SCTP association of a DTLS session is given the
	// library's default logger factory, untouched (its default level prints no connection errors)
	r.Rule("C17.4", "the SCTP library logs through its own default logger factory", 2)
	checkSCTPConfigs(c, "C17.4", "LoggerFactory")
	r.Rule("C17.1", "no value that may carry a client address reaches a log call that emits at the default level", 40)
	emit, emitDesc, ok := emittingLoggers(c)
	if !ok || len(emit) < 6 {
		r.Unk("C17.1", "emitting logger set", token.NoPos, stationLogPkg, "could not compute which logger functions emit at the default level")
		return
	}
	r.Note("C17.1 logger: %s", emitDesc)

	stationSide := func(f *ssa.Function) bool {
		p := fnPkgPath(f)
		pos := r.posStr(f.Pos())
		if strings.Contains(pos, "_mock") || strings.HasSuffix(pos, "client.go") || strings.Contains(pos, "/client/") {
			return false
		}
		switch {
		case strings.HasPrefix(p, repoMod+"/cmd/application"), strings.HasPrefix(p, repoMod+"/pkg/station/"), strings.HasPrefix(p, repoMod+"/pkg/transports"), strings.HasPrefix(p, repoMod+"/pkg/dtls"), strings.HasPrefix(p, repoMod+"/pkg/core"), strings.HasPrefix(p, repoMod+"/pkg/phantoms"), strings.HasPrefix(p, repoMod+"/util"):
			return p != stationLogPkg
		}
		return false
	}
	gatedByLogIP := func(f *ssa.Function, in ssa.Instruction) bool {
		return guardedM(f, in, func(cnd string, pol bool) bool { return pol && strings.HasSuffix(cnd, "logClientIP") })
	}
	cfg := taintCfg{
		inScope:   stationSide,
		skipInter: func(f *ssa.Function) bool { return fnPkgPath(f) == stationLogPkg },
		fieldSrc: map[string]string{
			"lib.DecoyRegistration.registrationAddr": "the registrant (client) address stored in the registration",
			"proto.C2SWrapper.RegistrationAddress":   "the registrant (client) address of the registration message",
			"proto.DTLSTransportParams.SrcAddr4":     "the client's own IPv4 endpoint announced in its DTLS transport parameters",
			"proto.DTLSTransportParams.SrcAddr6":     "the client's own IPv6 endpoint announced in its DTLS transport parameters",
		},
		models: map[string]extModel{
			"(*github.com/oschwald/geoip2-golang.Reader).Country": {cleanResults: map[int]bool{0: true}, reason: "the record describes the network (country), not the address; the error is NOT clean: maxminddb embeds the looked-up address"},
			"(*github.com/oschwald/geoip2-golang.Reader).ASN":     {cleanResults: map[int]bool{0: true}, reason: "the record describes the network (AS number), not the address; the error is NOT clean"},
			"google.golang.org/protobuf/proto.Unmarshal":          {cleanResults: map[int]bool{0: true}, reason: "protobuf decode errors describe the wire format (invalid wire-format data, unexpected EOF, invalid UTF-8 in a named field), never field contents"},
			"google.golang.org/protobuf/proto.Marshal":            {cleanResults: map[int]bool{1: true}, reason: "protobuf encode errors name the message type / field, never field contents; the encoded bytes (result 0) stay tainted"},
			"net/http.Post":         {cleanResults: map[int]bool{0: true, 1: true}, reason: "the error of a request names the method and the URL (station configuration), never the body; the response comes from the peer"},
			"(net.IP).To4":          {cleanResults: map[int]bool{}, reason: ""},
			"context.WithTimeout":   {cleanResults: map[int]bool{0: true, 1: true}, reason: "a derived context carries no address"},
			"context.WithCancel":    {cleanResults: map[int]bool{0: true, 1: true}, reason: "a derived context carries no address"},
			"(*sync.Pool).Get":      {cleanResults: map[int]bool{0: true}, reason: "pool buffers"},
			"time.Now":              {cleanResults: map[int]bool{0: true}, reason: ""},
			"(*bytes.Buffer).Bytes": {cleanResults: map[int]bool{}, reason: ""},
			"errors.New":            {cleanResults: map[int]bool{}, reason: ""},
			"(*github.com/refraction-networking/conjure/proto.C2SWrapper).GetRegistrationPayload":  {cleanResults: map[int]bool{0: true}, reason: "the client-to-station payload does not contain the registrant address (it is a sibling field of the wrapper)"},
			"(*github.com/refraction-networking/conjure/proto.C2SWrapper).GetSharedSecret":         {cleanResults: map[int]bool{0: true}, reason: "sibling field"},
			"(*github.com/refraction-networking/conjure/proto.C2SWrapper).GetRegistrationSource":   {cleanResults: map[int]bool{0: true}, reason: "sibling field"},
			"(*github.com/refraction-networking/conjure/proto.C2SWrapper).GetRegistrationResponse": {cleanResults: map[int]bool{0: true}, reason: "sibling field"},
			"(*github.com/refraction-networking/conjure/proto.C2SWrapper).GetDecoyAddress":         {cleanResults: map[int]bool{0: true}, reason: "sibling field (the decoy, not the client)"},
		},
		skipCall: func(f *ssa.Function, in ssa.Instruction, cc *ssa.CallCommon) bool {
			return calleeShort(cc) == "RemoteAddr" && gatedByLogIP(f, in)
		},
		isSource: func(f *ssa.Function, in ssa.Instruction, cc *ssa.CallCommon) (taintKind, string) {
			sh := calleeShort(cc)
			n := calleeName(cc)
			switch {
			case sh == "RemoteAddr":
				if gatedByLogIP(f, in) {
					return 0, ""
				}
				return tText, "RemoteAddr() of a connection in station code"
			case n == "syscall.Getpeername" || n == "golang.org/x/sys/unix.Getpeername":
				return tText, "peer address of a client socket (getpeername)"
			case sh == "AcceptTCP" || sh == "Accept":
				return tConn, "accepted client connection"
			case sh == "GetRegistrationAddress" && strings.Contains(n, "/proto."):
				return tText, "registrant address of the registration message"
			case (sh == "GetSrcAddr4" || sh == "GetSrcAddr6") && strings.Contains(n, "/proto."):
				return tText, "client source address from the DTLS transport parameters"
			case sh == "Connect" && cc.IsInvoke() && strings.Contains(cc.Value.Type().String(), "ConnectingTransport"):
				return tConn, "connection dialled to the client by a connecting transport"
			}
			return 0, ""
		},
	}
	var mk []string
	for k, m := range cfg.models {
		if len(m.cleanResults) > 0 {
			var idx []int
			for i := range m.cleanResults {
				idx = append(idx, i)
			}
			sort.Ints(idx)
			mk = append(mk, fmt.Sprintf("%s results %v clean: %s", shortName(k), idx, m.reason))
		}
	}
	sort.Strings(mk)
	r.Note("C17.1 reviewed external models (every other external call taints its results when an operand is tainted): %s", strings.Join(mk, " | "))
	ts := newTaint(c, cfg)
	ts.run()
	r.Note("C17.1 taint: %s", ts.stats())
	if dbg := os.Getenv("CJVERIF_TAINT_DEBUG"); dbg != "" {
		for _, f := range ts.funcs {
			if !strings.Contains(fnName(f), dbg) {
				continue
			}
			fmt.Println("== taint in", fnName(f))
			for _, p := range f.Params {
				fmt.Printf("   param %s: %d cell %d\n", p.Name(), ts.val[p], ts.cell[p])
			}
			eachInstr(f, func(in ssa.Instruction) {
				if v, ok := in.(ssa.Value); ok && (ts.val[v] != 0 || ts.cell[v] != 0) {
					fmt.Printf("   %d/%d  %s = %s\n", ts.val[v], ts.cell[v], v.Name(), firstN(in.String(), 100))
				}
			})
		}
		for k, v := range ts.field {
			if v != 0 {
				fmt.Println("   field", k, v)
			}
		}
	}
	nUn, nUnT := 0, 0
	for in, t := range ts.unresolved {
		nUn++
		if t {
			nUnT++
			r.Unk("C17.1", "call through an unresolved function value with a client-address-bearing operand", in.Pos(), "", "the callee of this call cannot be determined statically and it receives a tainted operand: the flow beyond it is not analysed")
		}
	}
	r.Note("C17.1 calls through function values not followed: %d (with a tainted operand: %d)", nUn, nUnT)
	if ts.passes >= 59 {
		r.Unk("C17.1", "taint fixpoint", token.NoPos, "", "no fixpoint within 60 passes")
	}

	// ---- sinks
	type sinkHit struct {
		f      *ssa.Function
		in     ssa.Instruction
		callee string
		arg    ssa.Value
		why    string
	}
	var hits []sinkHit
	nSinks := 0
	for _, f := range ts.funcs {
		eachInstr(f, func(in ssa.Instruction) {
			ci, ok := in.(ssa.CallInstruction)
			if !ok {
				return
			}
			cc := ci.Common()
			n := calleeName(cc)
			sh := calleeShort(cc)
			kind := ""
			var operands []ssa.Value
			formatIdx := -1
			switch {
			case cc.StaticCallee() != nil && emit[cc.StaticCallee()]:
				kind = "log"
			case strings.HasPrefix(n, "(*log.Logger).") || (strings.HasPrefix(n, "log.") && !strings.Contains(n, "/")):
				if strings.HasPrefix(sh, "Print") || strings.HasPrefix(sh, "Fatal") || strings.HasPrefix(sh, "Panic") || sh == "Output" {
					kind = "log"
				} else if sh == "SetPrefix" || sh == "New" {
					kind = "prefix"
				}
			case n == stationLogPkg[len(repoMod)+1:]+".New" || n == "pkg/station/log.New" || strings.HasSuffix(n, "/pkg/station/log.New"):
				kind = "prefix"
			case strings.HasPrefix(n, "fmt.Print"):
				kind = "log"
			case strings.HasPrefix(n, "fmt.Fprint"):
				if len(cc.Args) > 0 && (strings.Contains(pathOf(cc.Args[0]), "os.Stdout") || strings.Contains(pathOf(cc.Args[0]), "os.Stderr")) {
					kind = "log"
				}
			}
			if kind == "" {
				return
			}
			nSinks++
			args := argsOf(cc)
			if kind == "prefix" {
				for _, a := range args {
					if b, ok := a.Type().Underlying().(*types.Basic); ok && b.Info()&types.IsString != 0 {
						operands = append(operands, a)
					}
				}
			} else {
				for i, a := range args {
					if i == len(args)-1 && cc.Signature().Variadic() {
						if elems, ok := varargElems(a); ok {
							operands = append(operands, elems...)
							continue
						}
					}
					if strings.HasSuffix(sh, "f") && formatIdx < 0 {
						if b, ok := a.Type().Underlying().(*types.Basic); ok && b.Info()&types.IsString != 0 {
							formatIdx = len(operands)
						}
					}
					operands = append(operands, a)
				}
			}
			var verbs []byte
			if formatIdx >= 0 {
				if cv, ok := constOf(operands[formatIdx]); ok && cv.Kind() == constant.String {
					verbs = formatVerbs(constant.StringVal(cv))
				}
			}
			for i, a := range operands {
				if a == nil {
					continue
				}
				if formatIdx >= 0 && i > formatIdx && verbs != nil {
					vi := i - formatIdx - 1
					if vi < len(verbs) {
						switch verbs[vi] {
						case 'T', 'd', 't', 'p', 'c', 'b', 'o', 'f', 'e', 'g':
							continue // does not render the value's text
						}
					}
				}
				k, why := ts.textOf(a)
				if k&tText == 0 {
					continue
				}
				if gatedByLogIP(f, in) {
					continue
				}
				if readerContractInfeasible(f, in) {
					continue
				}
				hits = append(hits, sinkHit{f, in, shortName(n), a, why})
			}
		})
	}
	if nSinks < 40 {
		r.Unk("C17.1", "log sinks", token.NoPos, "", fmt.Sprintf("only %d emitting log calls found in station code, expected >= 40", nSinks))
	}
	bad := map[ssa.Instruction]bool{}
	for _, h := range hits {
		if bad[h.in] {
			continue
		}
		bad[h.in] = true
		path := ts.explain(h.arg, 10)
		what := "a value that may contain the client's address reaches " + h.callee + ", which writes at the default log level"
		if h.why != "" {
			what += " (through " + h.why + ")"
		}
		src := ""
		if len(path) > 0 {
			src = path[len(path)-1]
		}
		what += "; origin: " + firstN(src, 160)
		// a finding is identified by the log statement (package, logging function, constant format text) and what it
		// prints, not by the function the statement currently sits in: moving the statement into a helper is the same
		// finding, a new statement is a new one
		key := strings.TrimPrefix(fnPkgPath(h.f), repoMod+"/") + ": " + h.callee + "(" + firstN(strings.TrimSpace(strings.ReplaceAll(constFormatOf(h.in), "\n", " ")), 50) + ") <- " + firstN(pathOf(h.arg), 60)
		r.Bad("C17.1", key, h.in.Pos(), fnName(h.f), what, path...)
	}
	// discharged sinks
	for _, f := range ts.funcs {
		n := 0
		eachInstr(f, func(in ssa.Instruction) {
			if ci, ok := in.(ssa.CallInstruction); ok {
				cc := ci.Common()
				if (cc.StaticCallee() != nil && emit[cc.StaticCallee()]) || strings.HasPrefix(calleeName(cc), "(*log.Logger).Print") || strings.HasPrefix(calleeName(cc), "fmt.Print") {
					if !bad[in] {
						n++
					}
				}
			}
		})
		if n > 0 {
			r.OK("C17.1", fmt.Sprintf("%s: %d default-level log call(s) receive no client-address-bearing value", fnName(f), n), f.Pos(), "taint fixpoint")
		}
	}

	// ---- C17.2 the gate
	r.Rule("C17.2", "the flow description uses the remote address only under logClientIP", 1)
	if f := c.fn("C17.2", "cmd/application", "connManager", "handleNewTCPConn"); f != nil {
		n := 0
		// (the description may be built in a helper of the package: the gate is then read where the call sits;
		// getRemoteAsIP, which takes the address as an IP for the GeoIP lookup, is not a description)
		for _, l := range findDeep(f, func(n string, cc *ssa.CallCommon) bool { return shortIs("RemoteAddr")(n, cc) }, 2) {
			if l.in != f && l.in.Name() == "getRemoteAsIP" {
				continue
			}
			n++
			r.Check(gatedByLogIP(l.in, l.call), "C17.2", "handleNewTCPConn: RemoteAddr() for the flow description only under logClientIP", l.call.Pos(), fnName(l.in), "dominated by logClientIP == true",
				"the connection description is built from the client's address without the LOG_CLIENT_IP gate: every log line of the connection carries the client address")
		}
		if n == 0 {
			r.Unk("C17.2", "handleNewTCPConn: RemoteAddr use", f.Pos(), fnName(f), "no RemoteAddr() call found (the gate cannot be located)")
		}
		// the placeholder on the other branch is a constant
	}
	if v, ok := globalInitConst(c.P, repoMod+"/cmd/application", "logClientIP"); ok {
		r.Check(v == "false", "C17.2", "logClientIP defaults to false", token.NoPos, "cmd/application", "initialiser false", "client-address logging is enabled by default")
	} else {
		r.Unk("C17.2", "logClientIP default", token.NoPos, "cmd/application", "initialiser of logClientIP not found")
	}

	// ---- C17.3 digests
	r.Rule("C17.3", "registration digest and expiry record carry no registrant address", 2)
	for _, m := range [][2]string{{"DecoyRegistration", "String"}, {"regExpireLogMsg", "String"}} {
		f := c.P.Func(repoMod+"/pkg/station/lib", m[0], m[1])
		if f == nil {
			continue
		}
		rt := ts.ret[f]
		clean := len(rt) == 0 || rt[0]&tText == 0
		r.Check(clean, "C17.3", "("+m[0]+")."+m[1]+"() does not render the registrant address", f.Pos(), fnName(f), "return value untainted", "the textual form of "+m[0]+" includes a value derived from the registrant address: it is logged at the default level on every registration / expiry")
	}
	for _, tn := range []string{"lib.regExpireLogMsg", "lib.tunnelStats"} {
		var which []string
		for key, v := range ts.field {
			if strings.HasPrefix(key, tn+".") && v&tText != 0 {
				which = append(which, strings.TrimPrefix(key, tn+"."))
			}
		}
		sort.Strings(which)
		if len(which) == 0 {
			r.OK("C17.3", tn+": no field is fed from a client-address-bearing value", token.NoPos, "type-based field cells all clean")
		} else {
			org := ts.explain(ts.fldOrg[tn+"."+which[0]], 8)
			r.Bad("C17.3", tn+": a field may hold the client's address", token.NoPos, tn, "field(s) "+strings.Join(which, ", ")+" of the record, which is serialised into the log at the default level, are assigned a value that may contain the client address", org...)
		}
	}
}

func constFormatOf(in ssa.Instruction) string {
	ci, ok := in.(ssa.CallInstruction)
	if !ok {
		return ""
	}
	for _, a := range argsOf(ci.Common()) {
		if cv, ok := constOf(a); ok && cv.Kind() == constant.String {
			return constant.StringVal(cv)
		}
		if elems, ok := varargElems(a); ok {
			for _, e := range elems {
				if e == nil {
					continue
				}
				if cv, ok := constOf(e); ok && cv.Kind() == constant.String {
					return constant.StringVal(cv)
				}
			}
		}
	}
	return ""
}

// readerContractInfeasible: the instruction is only reachable through a branch `len(b) < n` where n is the count
// returned by Read(b) on the same buffer - false under the io.Reader contract (0 <= n <= len(b)).
func readerContractInfeasible(f *ssa.Function, in ssa.Instruction) bool {
	return guardedM(f, in, func(cnd string, pol bool) bool {
		if !pol {
			return false
		}
		l, rr, ok := splitLt(cnd)
		if !ok || !strings.HasPrefix(l, "len(") {
			return false
		}
		buf := strings.TrimSuffix(strings.TrimPrefix(l, "len("), ")")
		return strings.HasSuffix(rr, ".Read("+buf+")#0")
	})
}
