package main

import (
	"go/token"
	"sort"
	"strings"

	"golang.org/x/tools/go/ssa"
)

// reachPS is reach with a small amount of path sensitivity, enough for Go's
// error-variable idioms: along each explored path it remembers
//   - for phis: which incoming value was selected (by the predecessor taken),
//   - for SSA values compared with nil: whether they are nil on this path,
//   - for boolean SSA values branched on: their truth on this path,
//
// and prunes branches that contradict what the path already established.
// Everything else is explored path-insensitively. The state space is
// (block, facts); facts only grow along a path and are few.
func reachPS(fn *ssa.Function, from ssa.Instruction, isTarget func(ssa.Instruction) bool, blockedI func(ssa.Instruction) bool, blockedE map[edge]bool) (bool, []int) {
	if len(fn.Blocks) == 0 {
		return false, nil
	}
	type facts map[ssa.Value]int8 // 1 = nil/false, 2 = non-nil/true
	key := func(b int, f facts) string {
		var ks []string
		for v, x := range f {
			ks = append(ks, v.Name()+"="+string('0'+byte(x)))
		}
		sort.Strings(ks)
		return strings.Join(append([]string{itoa(b)}, ks...), ",")
	}
	resolve := func(v ssa.Value, f facts, phis map[*ssa.Phi]ssa.Value) ssa.Value {
		for i := 0; i < 8; i++ {
			v = stripConv(v)
			if ph, ok := v.(*ssa.Phi); ok {
				if r, ok := phis[ph]; ok {
					v = r
					continue
				}
			}
			break
		}
		return v
	}
	knownNonNil := func(v ssa.Value) bool {
		switch x := v.(type) {
		case *ssa.MakeInterface, *ssa.Alloc, *ssa.MakeClosure, *ssa.MakeMap, *ssa.MakeSlice, *ssa.MakeChan, *ssa.Function:
			return true
		case *ssa.UnOp:
			if x.Op == token.MUL {
				if g, ok := x.X.(*ssa.Global); ok && strings.HasPrefix(g.Name(), "Err") || ok && strings.HasPrefix(g.Name(), "err") {
					return true // package-level sentinel errors are initialised with errors.New and never nil
				}
			}
		case *ssa.Call:
			n := calleeName(&x.Call)
			if n == "errors.New" || n == "fmt.Errorf" {
				return true
			}
		}
		return false
	}
	type state struct {
		b    *ssa.BasicBlock
		idx  int
		f    facts
		phis map[*ssa.Phi]ssa.Value
		path []int
		pred int // index+1 in b.Preds of the edge this state entered b through (0: start state)
	}
	clonef := func(f facts) facts {
		o := facts{}
		for k, v := range f {
			o[k] = v
		}
		return o
	}
	clonep := func(p map[*ssa.Phi]ssa.Value) map[*ssa.Phi]ssa.Value {
		o := map[*ssa.Phi]ssa.Value{}
		for k, v := range p {
			o[k] = v
		}
		return o
	}
	var start state
	if from == nil {
		start = state{fn.Blocks[0], 0, facts{}, map[*ssa.Phi]ssa.Value{}, []int{0}, 0}
	} else {
		b := from.Block()
		start = state{b, indexOf(b, from) + 1, facts{}, map[*ssa.Phi]ssa.Value{}, []int{b.Index}, 0}
	}
	visited := map[string]bool{}
	stack := []state{start}
	steps := 0
	for len(stack) > 0 {
		steps++
		if steps > 200000 {
			// give up path sensitivity: fall back to the insensitive answer (over-approximation)
			return reach(fn, from, isTarget, blockedI, blockedE)
		}
		s := stack[len(stack)-1]
		stack = stack[:len(stack)-1]
		blocked := false
		for i := s.idx; i < len(s.b.Instrs); i++ {
			in := s.b.Instrs[i]
			if isTarget(in) {
				return true, s.path
			}
			if blockedI != nil && blockedI(in) {
				blocked = true
				break
			}
		}
		if blocked {
			continue
		}
		// successors
		var iff *ssa.If
		if n := len(s.b.Instrs); n > 0 {
			iff, _ = s.b.Instrs[n-1].(*ssa.If)
		}
		for slot, succ := range s.b.Succs {
			if blockedE != nil && (blockedE[edge{s.b.Index, slot, 0}] || s.pred > 0 && blockedE[edge{s.b.Index, slot, s.pred}]) {
				continue
			}
			if infeasibleThreaded(s.b, slot, s.pred) {
				continue
			}
			nf := s.f
			if iff != nil {
				// decide or learn
				cond := iff.Cond
				want := slot == 0 // cond true on slot 0
				for {
					if u, ok := cond.(*ssa.UnOp); ok && u.Op == token.NOT {
						cond = u.X
						want = !want
						continue
					}
					break
				}
				var subj ssa.Value
				var isNilWhenWant int8
				if bo, ok := cond.(*ssa.BinOp); ok && (bo.Op == token.EQL || bo.Op == token.NEQ) {
					var other ssa.Value
					if c, ok := bo.Y.(*ssa.Const); ok && c.Value == nil {
						other = bo.X
					} else if c, ok := bo.X.(*ssa.Const); ok && c.Value == nil {
						other = bo.Y
					}
					if other != nil {
						subj = resolve(other, s.f, s.phis)
						eq := bo.Op == token.EQL
						if eq == want {
							isNilWhenWant = 1
						} else {
							isNilWhenWant = 2
						}
					}
				}
				if subj == nil {
					subj = resolve(cond, s.f, s.phis)
					if want {
						isNilWhenWant = 2
					} else {
						isNilWhenWant = 1
					}
					if c, ok := subj.(*ssa.Const); ok && c.Value != nil {
						// constant condition
						if (c.Value.String() == "true") != want {
							continue
						}
					}
				} else if knownNonNil(subj) && isNilWhenWant == 1 {
					continue
				}
				if cur, ok := s.f[subj]; ok {
					if cur != isNilWhenWant {
						continue // contradicts the path
					}
				} else {
					nf = clonef(s.f)
					nf[subj] = isNilWhenWant
				}
			}
			// phi resolution on entry to succ
			np := s.phis
			predIdx := -1
			for i, p := range succ.Preds {
				if p == s.b {
					predIdx = i
					break
				}
			}
			first := true
			for _, in := range succ.Instrs {
				ph, ok := in.(*ssa.Phi)
				if !ok {
					break
				}
				if predIdx >= 0 && predIdx < len(ph.Edges) {
					if first {
						np = clonep(s.phis)
						first = false
					}
					np[ph] = resolve(ph.Edges[predIdx], nf, s.phis)
				}
			}
			k := key(succ.Index, nf)
			if _, _, ok := condPhi(succ); ok {
				k += "<" + itoa(predSlot(s.b, slot, succ))
			}
			{
				var ps []string
				for ph, r := range np {
					ps = append(ps, ph.Name()+":"+r.Name())
				}
				sort.Strings(ps)
				k += "|" + strings.Join(ps, ",")
			}
			if visited[k] {
				continue
			}
			visited[k] = true
			np2 := append(append([]int{}, s.path...), succ.Index)
			stack = append(stack, state{succ, 0, nf, np, np2, predSlot(s.b, slot, succ)})
		}
	}
	return false, nil
}

func itoa(i int) string {
	if i == 0 {
		return "0"
	}
	neg := i < 0
	if neg {
		i = -i
	}
	var b []byte
	for i > 0 {
		b = append([]byte{byte('0' + i%10)}, b...)
		i /= 10
	}
	if neg {
		b = append([]byte{'-'}, b...)
	}
	return string(b)
}

// dependsOn reports whether value v data-depends on target through operands
// (calls propagate from arguments to results).
func dependsOn(v, target ssa.Value) bool { return dependsOnAvoiding(v, target, nil) }

// dependsOnAvoiding: as dependsOn, but dependence chains through `avoid` do not count.
func dependsOnAvoiding(v, target, avoid ssa.Value) bool {
	seen := map[ssa.Value]bool{}
	var walk func(x ssa.Value, d int) bool
	walk = func(x ssa.Value, d int) bool {
		if x == nil || d > 40 || seen[x] {
			return false
		}
		if x == target {
			return true
		}
		if avoid != nil && x == avoid {
			return false
		}
		seen[x] = true
		in, ok := x.(ssa.Instruction)
		if !ok {
			return false
		}
		// a load from a local variable, or from a field of a local struct: what was stored there
		if ld, isLd := x.(*ssa.UnOp); isLd && ld.Op == token.MUL {
			switch a := ld.X.(type) {
			case *ssa.Alloc:
				if a.Referrers() != nil {
					for _, ref := range *a.Referrers() {
						if st, isSt := ref.(*ssa.Store); isSt && st.Addr == ssa.Value(a) && walk(st.Val, d+1) {
							return true
						}
					}
				}
			case *ssa.FieldAddr:
				if base, isAl := a.X.(*ssa.Alloc); isAl && base.Referrers() != nil {
					for _, ref := range *base.Referrers() {
						fa, isFA := ref.(*ssa.FieldAddr)
						if !isFA || fa.Field != a.Field || fa.Referrers() == nil {
							continue
						}
						for _, r2 := range *fa.Referrers() {
							if st, isSt := r2.(*ssa.Store); isSt && st.Addr == ssa.Value(fa) && walk(st.Val, d+1) {
								return true
							}
						}
					}
				}
			}
		}
		for _, op := range in.Operands(nil) {
			if *op != nil && walk(*op, d+1) {
				return true
			}
		}
		return false
	}
	return walk(v, 0)
}

// extractOf returns the Extract #idx values of a tuple-valued call.
func extractOf(call ssa.Value, idx int) []ssa.Value {
	var out []ssa.Value
	if call.Referrers() == nil {
		return nil
	}
	for _, r := range *call.Referrers() {
		if ex, ok := r.(*ssa.Extract); ok && ex.Index == idx {
			out = append(out, ex)
		}
	}
	return out
}
