package main

import (
	"fmt"
	"go/constant"
	"go/token"
	"go/types"
	"regexp"
	"strconv"
	"strings"

	"golang.org/x/tools/go/ssa"
)

// staticLen returns a lower bound on the length of v that holds on every execution (arrays, make with a
// constant, constant strings, slices of those with constant bounds, fixed-size library results).
func staticLen(v ssa.Value, depth int) (int64, bool) {
	if depth > 8 {
		return 0, false
	}
	switch x := v.(type) {
	case *ssa.Const:
		if x.Value != nil && x.Value.Kind() == constant.String {
			return int64(len(constant.StringVal(x.Value))), true
		}
	case *ssa.MakeSlice:
		if cv, ok := constOf(x.Len); ok {
			return constant.Int64Val(constant.ToInt(cv))
		}
	case *ssa.Alloc:
		if at, ok := x.Type().Underlying().(*types.Pointer).Elem().Underlying().(*types.Array); ok {
			return at.Len(), true
		}
	case *ssa.Convert:
		return staticLen(x.X, depth+1)
	case *ssa.ChangeType:
		return staticLen(x.X, depth+1)
	case *ssa.Slice:
		base, okb := int64(0), false
		if pt, ok := x.X.Type().Underlying().(*types.Pointer); ok {
			if at, ok := pt.Elem().Underlying().(*types.Array); ok {
				base, okb = at.Len(), true
			}
		} else {
			base, okb = staticLen(x.X, depth+1)
		}
		lo := int64(0)
		if x.Low != nil {
			cv, ok := constOf(x.Low)
			if !ok {
				return 0, false
			}
			lo, _ = constant.Int64Val(constant.ToInt(cv))
		}
		if x.High != nil {
			if cv, ok := constOf(x.High); ok {
				hi, _ := constant.Int64Val(constant.ToInt(cv))
				if okb && hi <= base {
					return hi - lo, true
				}
			}
			return 0, false
		}
		if okb {
			return base - lo, true
		}
	case *ssa.Phi:
		min := int64(-1)
		for _, e := range x.Edges {
			n, ok := staticLen(e, depth+1)
			if !ok {
				return 0, false
			}
			if min < 0 || n < min {
				min = n
			}
		}
		return min, min >= 0
	case *ssa.UnOp:
		// a load right after a store to the same place in the same block: the stored value's length
		if x.Op == token.MUL {
			want := pathOf(x.X)
			b := x.Block()
			for i := indexOf(b, x) - 1; i >= 0; i-- {
				if st, ok := b.Instrs[i].(*ssa.Store); ok && pathOf(st.Addr) == want {
					return staticLen(st.Val, depth+1)
				}
				if _, isCall := b.Instrs[i].(ssa.CallInstruction); isCall {
					if c, ok := b.Instrs[i].(*ssa.Call); ok {
						if _, isB := c.Call.Value.(*ssa.Builtin); isB {
							continue
						}
					}
					break // an intervening call may change it
				}
			}
		}
	case *ssa.Call:
		if b, ok := x.Call.Value.(*ssa.Builtin); ok && b.Name() == "append" && len(x.Call.Args) == 2 {
			base, _ := staticLen(x.Call.Args[0], depth+1)
			if add, ok := staticLen(x.Call.Args[1], depth+1); ok {
				return base + add, true
			}
			return 0, false
		}
		// fixed-size results
		switch calleeName(&x.Call) {
		case "(hash.Hash).Sum":
			return 20, true // at least the shortest stdlib digest when called with nil; used only for >= small bounds
		}
	}
	if at, ok := v.Type().Underlying().(*types.Array); ok {
		return at.Len(), true
	}
	return 0, false
}

var lenLtRe = regexp.MustCompile(`^\(len\((.*)\) < (\d+)\)$`)
var ltLenRe = regexp.MustCompile(`^\((\d+) < len\((.*)\)\)$`)
var eqLenRe = regexp.MustCompile(`^\((\d+) == len\((.*)\)\)$`)

// lenAtLeast reports whether `in` is dominated by a test establishing len(<path>) >= k.
func lenAtLeast(f *ssa.Function, in ssa.Instruction, path string, k int64) bool {
	// a bytes.Buffer's Bytes()/String() has length Len()
	alt := ""
	for _, suf := range []string{".Bytes()", ".String()"} {
		if strings.HasSuffix(path, suf) {
			alt = strings.TrimSuffix(path, suf) + ".Len()"
		}
	}
	return guardedM(f, in, func(cnd string, pol bool) bool {
		if alt != "" {
			cnd = strings.Replace(cnd, alt, "len("+path+")", 1)
		}
		if m := lenLtRe.FindStringSubmatch(cnd); m != nil && m[1] == path && !pol {
			n, _ := strconv.ParseInt(m[2], 10, 64)
			return n >= k // !(len < n) => len >= n
		}
		if m := ltLenRe.FindStringSubmatch(cnd); m != nil && m[2] == path && pol {
			n, _ := strconv.ParseInt(m[1], 10, 64)
			return n+1 >= k // n < len => len >= n+1
		}
		if m := eqLenRe.FindStringSubmatch(cnd); m != nil && m[2] == path && pol {
			n, _ := strconv.ParseInt(m[1], 10, 64)
			return n >= k
		}
		// len != 0 (a length is never negative) => len >= 1
		if m := eqLenRe.FindStringSubmatch(cnd); m != nil && m[2] == path && !pol && m[1] == "0" {
			return k <= 1
		}
		return false
	})
}

// callers index over allRepoFuncs (rebuilt when the function set changes): static call sites of every repo function,
// and the functions that are also used as values (for which the static sites are not all the callers).
var (
	callersFor    []*ssa.Function
	callersIdx    map[*ssa.Function][]*ssa.Call
	usedAsValueIx map[*ssa.Function]bool
)

func callersOf(f *ssa.Function) ([]*ssa.Call, bool) {
	if len(callersFor) != len(allRepoFuncs) || (len(allRepoFuncs) > 0 && callersFor[0] != allRepoFuncs[0]) {
		callersFor = allRepoFuncs
		callersIdx = map[*ssa.Function][]*ssa.Call{}
		usedAsValueIx = map[*ssa.Function]bool{}
		for _, g := range allRepoFuncs {
			eachInstr(g, func(in ssa.Instruction) {
				var cc *ssa.CallCommon
				if ci, ok := in.(ssa.CallInstruction); ok {
					cc = ci.Common()
					if cal := cc.StaticCallee(); cal != nil {
						if call, isCall := in.(*ssa.Call); isCall {
							callersIdx[cal] = append(callersIdx[cal], call)
						} else {
							usedAsValueIx[cal] = true // go / defer: not a plain call site
						}
					}
				}
				for _, op := range in.Operands(nil) {
					if op == nil || *op == nil {
						continue
					}
					if fn, ok := (*op).(*ssa.Function); ok {
						if cc != nil && cc.Value == ssa.Value(fn) {
							continue
						}
						usedAsValueIx[fn] = true
					}
				}
			})
		}
	}
	return callersIdx[f], usedAsValueIx[f]
}

// lenAtLeastIP: lenAtLeast, or - for a slice that is a parameter of an unexported function which is only ever
// called directly - the same fact established by every caller before the call (the caller checks, the helper
// slices: the usual shape after a block is extracted into a helper).
func lenAtLeastIP(f *ssa.Function, in ssa.Instruction, xv ssa.Value, k int64, depth int) bool {
	if lenAtLeast(f, in, pathOf(xv), k) {
		return true
	}
	if n, ok := staticLen(xv, 0); ok && n >= k {
		return true
	}
	prm, ok := stripConv(xv).(*ssa.Parameter)
	if !ok || depth > 2 || f.Object() == nil || f.Object().Exported() || f.Parent() != nil {
		return false
	}
	idx := -1
	for i, p := range f.Params {
		if p == prm {
			idx = i
		}
	}
	sites, asValue := callersOf(f)
	if idx < 0 || asValue || len(sites) == 0 {
		return false
	}
	for _, s := range sites {
		if idx >= len(s.Call.Args) || s.Parent() == nil || !lenAtLeastIP(s.Parent(), s, s.Call.Args[idx], k, depth+1) {
			return false
		}
	}
	return true
}

// boundCandidates lists constant-bound slicing / indexing of dynamically sized values and allocation sizes that
// are not derived from in-memory lengths, with whether a dominating test discharges them.
type boundCand struct {
	in        ssa.Instruction
	construct string
	ok        bool
	why       string
}

func boundCandidates(f *ssa.Function) []boundCand {
	var out []boundCand
	eachInstr(f, func(in ssa.Instruction) {
		switch x := in.(type) {
		case *ssa.Slice:
			if _, isPtr := x.X.Type().Underlying().(*types.Pointer); isPtr {
				return // array: bounds are static or checked by the compiler against a static length
			}
			// variable bounds: High <= len(X) and Low <= High must follow from a dominating comparison (linear
			// reasoning over lengths and offsets), from the reader contract (n of Read(buf) <= len(buf)), or from
			// the bound being a length itself
			if vb := variableBound(f, x); vb != nil {
				out = append(out, *vb)
				return
			}
			var k int64 = -1
			for _, b := range []ssa.Value{x.High, x.Low, x.Max} {
				if b == nil {
					continue
				}
				if n, ok := boundConst(b); ok {
					if n > k {
						k = n
					}
				}
			}
			if k <= 0 {
				return
			}
			xp := pathOf(x.X)
			if n, ok := staticLen(x.X, 0); ok && n >= k {
				out = append(out, boundCand{in, fmt.Sprintf("%s[…%d…]", firstN(xp, 50), k), true, fmt.Sprintf("static length %d", n)})
				return
			}
			g := lenAtLeastIP(f, in, x.X, k, 0)
			out = append(out, boundCand{in, fmt.Sprintf("%s[…%d…]", firstN(xp, 50), k), g, "dominated by len >= " + fmt.Sprint(k) + " (here or at every call site)"})
		case *ssa.SliceToArrayPointer:
			// [N]T(s) / (*[N]T)(s): panics unless len(s) >= N
			pt, ok := x.Type().Underlying().(*types.Pointer)
			if !ok {
				return
			}
			at, ok := pt.Elem().Underlying().(*types.Array)
			if !ok || at.Len() == 0 {
				return
			}
			k := at.Len()
			xp := pathOf(x.X)
			if n, ok := staticLen(x.X, 0); ok && n >= k {
				out = append(out, boundCand{in, fmt.Sprintf("[%d]T(%s)", k, firstN(xp, 50)), true, fmt.Sprintf("static length %d", n)})
				return
			}
			g := lenAtLeastIP(f, in, x.X, k, 0)
			out = append(out, boundCand{in, fmt.Sprintf("[%d]T(%s)", k, firstN(xp, 50)), g, "dominated by len >= " + fmt.Sprint(k) + " (here or at every call site)"})
		case *ssa.IndexAddr, *ssa.Index:
			var xv, iv ssa.Value
			if ia, ok := x.(*ssa.IndexAddr); ok {
				xv, iv = ia.X, ia.Index
			} else {
				ix := x.(*ssa.Index)
				xv, iv = ix.X, ix.Index
			}
			switch t := xv.Type().Underlying().(type) {
			case *types.Pointer, *types.Array:
				_ = t
				return
			}
			cv, ok := constOf(iv)
			if !ok {
				// x[len(x)-k]: panics unless len(x) >= k
				if bo, isB := iv.(*ssa.BinOp); isB && bo.Op == token.SUB {
					if kc, isC := constOf(bo.Y); isC {
						if lc, isL := bo.X.(*ssa.Call); isL {
							if bi, isBi := lc.Call.Value.(*ssa.Builtin); isBi && bi.Name() == "len" && len(lc.Call.Args) == 1 && pathOf(lc.Call.Args[0]) == pathOf(xv) {
								k, _ := constant.Int64Val(constant.ToInt(kc))
								if k >= 1 {
									xp := pathOf(xv)
									construct := fmt.Sprintf("%s[len-%d]", firstN(xp, 50), k)
									switch {
									case k == 1 && neverEmptySplit(xv):
										out = append(out, boundCand{in, construct, true, "strings.Split with a non-empty separator returns at least one element"})
									default:
										g := lenAtLeastIP(f, in, xv, k, 0)
										out = append(out, boundCand{in, construct, g, "dominated by len >= " + fmt.Sprint(k) + " (here or at every call site)"})
									}
								}
							}
						}
					}
				}
				return
			}
			k, _ := constant.Int64Val(constant.ToInt(cv))
			xp := pathOf(xv)
			if n, ok := staticLen(xv, 0); ok && n > k {
				out = append(out, boundCand{in, fmt.Sprintf("%s[%d]", firstN(xp, 50), k), true, fmt.Sprintf("static length %d", n)})
				return
			}
			g := lenAtLeastIP(f, in, xv, k+1, 0)
			out = append(out, boundCand{in, fmt.Sprintf("%s[%d]", firstN(xp, 50), k), g, "dominated by len > " + fmt.Sprint(k) + " (here or at every call site)"})
		case *ssa.MakeSlice:
			for _, sz := range []ssa.Value{x.Len, x.Cap} {
				if bad := unboundedSize(sz, 0); bad != "" {
					// upper-bound guard on the same value?
					sp := pathOf(stripConv(sz))
					g := guardedM(f, in, func(cnd string, pol bool) bool {
						// (sp < K) true, or (K < sp) false
						if strings.HasPrefix(cnd, "("+sp+" < ") && pol {
							return true
						}
						if strings.HasSuffix(cnd, " < "+sp+")") && !pol {
							return true
						}
						return false
					})
					out = append(out, boundCand{in, "make(…, " + firstN(sp, 50) + ")", g, "size from " + bad})
					return
				}
			}
		}
	})
	return out
}

// unboundedSize returns a description of a leaf of the size expression that is not bounded by data already in
// memory (len/cap, constants, small integer types), or "".
func unboundedSize(v ssa.Value, depth int) string {
	if depth > 8 {
		return "deep expression"
	}
	switch x := v.(type) {
	case *ssa.Const:
		return ""
	case *ssa.Convert:
		if b, ok := x.X.Type().Underlying().(*types.Basic); ok {
			switch b.Kind() {
			case types.Uint8, types.Int8, types.Uint16, types.Int16:
				return "" // at most 64 KiB
			}
		}
		return unboundedSize(x.X, depth+1)
	case *ssa.ChangeType:
		return unboundedSize(x.X, depth+1)
	case *ssa.BinOp:
		switch x.Op {
		case token.ADD, token.SUB, token.MUL, token.QUO, token.REM, token.SHR, token.AND:
			if a := unboundedSize(x.X, depth+1); a != "" {
				return a
			}
			if x.Op == token.QUO || x.Op == token.REM || x.Op == token.SHR || x.Op == token.AND {
				return ""
			}
			return unboundedSize(x.Y, depth+1)
		}
		return "operator " + x.Op.String()
	case *ssa.Call:
		if b, ok := x.Call.Value.(*ssa.Builtin); ok && (b.Name() == "len" || b.Name() == "cap" || b.Name() == "min") {
			return ""
		}
		n := calleeName(&x.Call)
		switch {
		case strings.HasSuffix(n, ".Len") || strings.HasSuffix(n, "EncodedLen") || strings.HasSuffix(n, "DecodedLen") || strings.HasSuffix(n, ".Size") || strings.HasSuffix(n, ".Overhead") || strings.HasSuffix(n, ".NonceSize") || strings.HasSuffix(n, ".BlockSize"):
			return ""
		}
		return "call " + shortName(n)
	case *ssa.Phi:
		for _, e := range x.Edges {
			if e == v {
				continue
			}
			if a := unboundedSize(e, depth+1); a != "" {
				return a
			}
		}
		return ""
	case *ssa.Parameter:
		return "" // decided at the call sites that compute it (every caller is scanned with the same rule)
	case *ssa.UnOp:
		if x.Op == token.MUL {
			if _, fld, ok := fieldOwner(x.X); ok {
				if b, okb := x.Type().Underlying().(*types.Basic); okb {
					switch b.Kind() {
					case types.Uint8, types.Int8, types.Uint16, types.Int16:
						return ""
					}
				}
				return "field " + fld
			}
			if g, ok := x.X.(*ssa.Global); ok {
				return "" + map[bool]string{true: "", false: ""}[g != nil]
			}
		}
		return ""
	case *ssa.Extract:
		return unboundedSize(x.Tuple, depth+1)
	}
	if b, ok := v.Type().Underlying().(*types.Basic); ok {
		switch b.Kind() {
		case types.Uint8, types.Int8, types.Uint16, types.Int16:
			return ""
		}
	}
	return ""
}

// boundConst: a constant, or a package variable that only the package initialiser sets to a constant
// (such a variable is an upper-case-less "constant" in this code base, e.g. regIDLen).
func boundConst(v ssa.Value) (int64, bool) {
	if cv, ok := constOf(v); ok {
		return constant.Int64Val(constant.ToInt(cv))
	}
	u, ok := stripConv(v).(*ssa.UnOp)
	if !ok || u.Op != token.MUL {
		return 0, false
	}
	g, ok := u.X.(*ssa.Global)
	if !ok || g.Pkg == nil {
		return 0, false
	}
	var val constant.Value
	n := 0
	seenSt := map[ssa.Instruction]bool{}
	scan := func(f *ssa.Function) {
		eachInstr(f, func(in ssa.Instruction) {
			if st, ok := in.(*ssa.Store); ok && st.Addr == ssa.Value(g) && !seenSt[in] {
				seenSt[in] = true
				n++
				if cv, ok := constOf(st.Val); ok {
					val = cv
				}
			}
		})
	}
	if initFn := g.Pkg.Func("init"); initFn != nil {
		scan(initFn)
	}
	for _, f := range allRepoFuncs {
		if f.Pkg == g.Pkg || (f.Parent() != nil && fnPkgPath(f) == g.Pkg.Pkg.Path()) {
			scan(f)
		}
	}
	if n != 1 || val == nil {
		return 0, false
	}
	return constant.Int64Val(constant.ToInt(val))
}

// allRepoFuncs is set once per run (main) so that value helpers can see every function of the repository.
var allRepoFuncs []*ssa.Function

// variableBound decides a slice expression with a non-constant bound; nil if both bounds are constant / absent.
func variableBound(f *ssa.Function, x *ssa.Slice) *boundCand {
	nonConst := func(v ssa.Value) bool {
		if v == nil {
			return false
		}
		_, ok := boundConst(v)
		return !ok
	}
	if !nonConst(x.High) && !nonConst(x.Low) {
		return nil
	}
	xp := pathOf(x.X)
	construct := firstN(xp, 40) + "[" + firstN(pathOfOrEmpty(x.Low), 30) + ":" + firstN(pathOfOrEmpty(x.High), 30) + "]"
	guards := guardsLE(f, x)
	lenX := lenOf(x.X, 0)
	contract := func(v ssa.Value) bool {
		// n, _ := r.Read(buf) / io.ReadFull(r, buf) / copy(buf, ...) with buf == X
		ex, ok := stripConv(v).(*ssa.Extract)
		var call *ssa.Call
		if ok && ex.Index == 0 {
			call, _ = ex.Tuple.(*ssa.Call)
		} else if c, ok := stripConv(v).(*ssa.Call); ok {
			call = c
		}
		if call == nil {
			return false
		}
		n := calleeShort(&call.Call)
		switch n {
		case "Read", "ReadFull", "ReadAtLeast", "ReadFrom", "ReadFromUDP", "ReadMsgUDP", "copy", "Write", "Encode", "Decode", "Recv", "RecvBytes":
			for _, a := range call.Call.Args {
				if pathOf(a) == xp || a == x.X {
					return true
				}
				if sl, ok := a.(*ssa.Slice); ok && (pathOf(sl.X) == xp || sl.X == x.X) && sl.High == nil {
					return true
				}
			}
		}
		return false
	}
	// min(a, b), math.Min(float64(a), float64(b)) and e / k: bounded by (one of) their operands
	var boundedBy func(v ssa.Value, d int) []ssa.Value
	boundedBy = func(v ssa.Value, d int) []ssa.Value {
		if d > 4 {
			return nil
		}
		switch y := v.(type) {
		case *ssa.Convert:
			return boundedBy(y.X, d+1)
		case *ssa.Call:
			n := calleeName(&y.Call)
			if b, ok := y.Call.Value.(*ssa.Builtin); ok && b.Name() == "min" {
				return y.Call.Args
			}
			if n == "math.Min" || (strings.HasSuffix(n, ".min") && len(y.Call.Args) == 2) {
				var out []ssa.Value
				for _, a := range y.Call.Args {
					for {
						if cv, ok := a.(*ssa.Convert); ok {
							a = cv.X
							continue
						}
						break
					}
					out = append(out, a)
				}
				return out
			}
		case *ssa.BinOp:
			if y.Op == token.QUO || y.Op == token.SHR {
				if cv, ok := constOf(y.Y); ok {
					if k, ok := constant.Int64Val(constant.ToInt(cv)); ok && k >= 1 {
						return []ssa.Value{y.X}
					}
				}
			}
		}
		return nil
	}
	viaOperand := func(v ssa.Value, upper linTerm) bool {
		for _, o := range boundedBy(v, 0) {
			if provenLE(linOf(o, 0).sub(upper), guards) {
				return true
			}
		}
		return false
	}
	why := ""
	okAll := true
	if x.High != nil {
		t := linOf(x.High, 0).sub(lenX)
		switch {
		case provenLE(t, guards):
		case contract(x.High):
		case viaOperand(x.High, lenX):
		default:
			okAll = false
			why = "no dominating comparison establishes " + firstN(pathOf(x.High), 40) + " <= len(" + firstN(xp, 30) + ")"
		}
	}
	if okAll && x.Low != nil && nonConst(x.Low) {
		upper := lenX
		if x.High != nil {
			upper = linOf(x.High, 0)
		}
		t := linOf(x.Low, 0).sub(upper)
		if !provenLE(t, guards) && !contract(x.Low) && !viaOperand(x.Low, upper) {
			okAll = false
			why = "no dominating comparison establishes " + firstN(pathOf(x.Low), 40) + " <= the upper bound"
		}
		// and the lower bound is not negative: parameters / fields / unsigned values are taken as offsets >= 0,
		// a difference must be proven
		if okAll {
			lt := linOf(x.Low, 0)
			hasNeg := false
			for _, v := range lt.coef {
				if v < 0 {
					hasNeg = true
				}
			}
			if hasNeg && !provenLE(linConst(0).sub(lt), guards) {
				okAll = false
				why = "no dominating comparison establishes " + firstN(pathOf(x.Low), 40) + " >= 0"
			}
		}
	}
	if okAll {
		return &boundCand{x, construct, true, "variable bound proven from a dominating comparison / reader contract"}
	}
	return &boundCand{x, construct, false, "bounded (" + why + ")"}
}

func pathOfOrEmpty(v ssa.Value) string {
	if v == nil {
		return ""
	}
	return pathOf(v)
}

// neverEmptySplit: v is the result of strings.Split / SplitN(s, sep[, n != 0]) with a non-empty constant separator,
// which always has at least one element.
func neverEmptySplit(v ssa.Value) bool {
	call, ok := stripConv(v).(*ssa.Call)
	if !ok {
		return false
	}
	switch calleeName(&call.Call) {
	case "strings.Split", "strings.SplitAfter", "bytes.Split":
		if cv, isC := constOf(call.Call.Args[1]); isC && cv.Kind() == constant.String {
			return constant.StringVal(cv) != ""
		}
	}
	return false
}
