package main

import (
	"fmt"
	"go/constant"
	"go/token"
	"go/types"
	"strings"

	"golang.org/x/tools/go/ssa"
)

func init() {
	register("C14", &propCheck{Run: checkC14,
		Explain: "C14.1 effect analysis over static repo callees (closures included) from the selection entry points: no math/rand package-level function, no global-source weightedrand Pick, no time.Now, no store to a package-level variable; " +
			"C14.2 no big.Int.Bytes() result is converted to net.IP anywhere in pkg/phantoms (FillBytes to the family width is the accepted form); " +
			"C14.3 every crypto/rand.Int bound in pkg/phantoms and PortSelectorRange is a positive constant (at every call site) or dominated by a positivity test; " +
			"C14.4 the subnet list handed to each selection routine is the output of the family filter matching v6Support; " +
			"C14.5 the address is only built under offset < netSize and the subnet match tests id against both min and max; " +
			"C14.6 every PhantomIP's port-randomisation flag comes from the matched subnet, whose flag comes from GetRandomizeDstPort. " +
			"Decides purity and the containment guards structurally; not the arithmetic containment for every CIDR or uniformity.",
		Assume: []string{"dependency code other than the listed APIs is pure (hkdf, big, sort)", "dynamic calls (SubnetFilter values) are limited to V4Only/V6Only, the only functions of that type in the repository"}})
}

func checkC14(c *Ctx) {
	r := c.R
	const ph = "pkg/phantoms"

	// ---- C14.1 purity
	checkSelectionPurity(c, "C14.1", ph)

	// ---- C14.2 fixed width
	r.Rule("C14.2", "addresses are rendered at fixed width (no net.IP(big.Int.Bytes()))", 2)
	nIP := 0
	for _, f := range c.funcsOfPkgs(ph) {
		eachInstr(f, func(in ssa.Instruction) {
			var src ssa.Value
			switch x := in.(type) {
			case *ssa.ChangeType:
				if typeShort(x.Type()) == "net.IP" {
					src = x.X
				}
			case *ssa.Convert:
				if typeShort(x.Type()) == "net.IP" {
					src = x.X
				}
			}
			if src == nil {
				return
			}
			call, ok := src.(*ssa.Call)
			if !ok {
				return
			}
			n := calleeName(&call.Call)
			if !strings.HasPrefix(n, "(*math/big.Int).") {
				return
			}
			nIP++
			if n == "(*math/big.Int).Bytes" {
				r.Bad("C14.2", fnName(f)+": net.IP built from big.Int.Bytes()", in.Pos(), fnName(f),
					"big.Int.Bytes() drops leading zero bytes: for a subnet whose network address starts with a zero byte the selected phantom is a net.IP of the wrong length (not a well-formed address of the family)")
			} else {
				r.OK("C14.2", fnName(f)+": net.IP built with "+strings.TrimPrefix(n, "(*math/big.Int)."), in.Pos(), "fixed width")
			}
		})
	}

	// ---- C14.3 positive bound
	r.Rule("C14.3", "crypto/rand.Int bounds are positive constants or guarded by a positivity test", 3)
	// the same for the legacy generator: (*math/rand.Rand).Intn / Int63n / Int31n panic on a bound <= 0 - a generation whose
	// weights are all zero must make the selection fail, not the process
	for _, f := range c.funcsOfPkgs(ph) {
		eachInstr(f, func(in ssa.Instruction) {
			call, ok := in.(*ssa.Call)
			if !ok {
				return
			}
			n := calleeName(&call.Call)
			if !strings.HasPrefix(n, "(*math/rand.Rand).Int") && !strings.HasPrefix(n, "math/rand.Int") {
				return
			}
			if !strings.HasSuffix(n, "n") || len(call.Call.Args) == 0 {
				return
			}
			bound := call.Call.Args[len(call.Call.Args)-1]
			construct := fnName(f) + ": " + shortName(n) + " bound " + firstN(pathOf(bound), 50)
			if cv, isC := constOf(bound); isC && constant.Sign(cv) > 0 {
				r.OK("C14.3", construct, call.Pos(), "positive constant")
				return
			}
			bp := pathOf(stripConv(bound))
			g := guardedM(f, call, func(cnd string, pol bool) bool {
				return (pol && (cnd == "(0 < "+bp+")")) || (!pol && (cnd == "("+bp+" < 1)" || cnd == "(0 == "+bp+")"))
			})
			r.Check(g, "C14.3", construct, call.Pos(), fnName(f), "dominated by a positivity test of the bound",
				"the draw's bound is not known to be positive: for a generation whose weights add up to zero the legacy selection panics (invalid argument to Intn) instead of failing with an error")
		})
	}
	var randFns []*ssa.Function
	randFns = append(randFns, c.funcsOfPkgs(ph)...)
	if f := c.fn("C14.3", "pkg/transports", "", "PortSelectorRange"); f != nil {
		randFns = append(randFns, f)
	}
	for _, f := range randFns {
		for _, ci := range callsIn(f, nameIs("crypto/rand.Int")) {
			call := ci.(*ssa.Call)
			bound := call.Call.Args[1]
			construct := fnName(f) + ": rand.Int bound " + firstN(pathOf(bound), 60)
			ok, how := false, ""
			// form 2 first: a *big.Int accumulator guarded by v.Cmp(big.NewInt(0)) > 0
			bp := pathOf(bound)
			if guardedM(f, call, func(cnd string, pol bool) bool {
				return pol && strings.HasPrefix(cnd, "(0 < "+bp+".Cmp(big.NewInt(0))")
			}) {
				ok, how = true, "dominated by "+bp+".Cmp(0) > 0"
			} else if bn, isCall := bound.(*ssa.Call); isCall && calleeName(&bn.Call) == "math/big.NewInt" {
				// form 1: big.NewInt(X)
				x := bn.Call.Args[0]
				if cv, isC := constOf(x); isC {
					if constant.Sign(cv) > 0 {
						ok, how = true, "constant "+cv.String()
					}
				} else if guarded(f, call, Atom{"(0 < " + pathOf(x) + ")", true}) {
					ok, how = true, "dominated by 0 < "+firstN(pathOf(x), 40)
				} else if bo, isB := x.(*ssa.BinOp); isB && bo.Op == token.SUB {
					// max - min with both parameters: every static call site must pass constants with max > min
					pa, okA := bo.X.(*ssa.Parameter)
					pb2, okB := bo.Y.(*ssa.Parameter)
					if okA && okB {
						n, allPos := 0, true
						for _, g := range c.P.RepoFuncs() {
							for _, cs := range callsIn(g, func(_ string, cc *ssa.CallCommon) bool { return cc.StaticCallee() == f }) {
								n++
								av, aok := constOf(cs.Common().Args[paramIndex(f, pa)])
								bv, bok := constOf(cs.Common().Args[paramIndex(f, pb2)])
								if !aok || !bok || constant.Compare(av, token.LEQ, bv) {
									allPos = false
									r.Bad("C14.3", fnName(g)+": calls "+f.Name()+" with a non-constant or empty range", cs.Pos(), fnName(g), "the bound max-min of the seeded port draw is not a positive constant at this call site: rand.Int panics on a non-positive bound")
								}
							}
						}
						if n > 0 && allPos {
							ok, how = true, fmt.Sprintf("max-min is a positive constant at all %d call sites", n)
						}
					}
				}
			}
			if ok {
				r.OK("C14.3", construct, call.Pos(), how)
			} else {
				r.Bad("C14.3", construct+" not shown positive", call.Pos(), fnName(f),
					"crypto/rand.Int panics when its bound is <= 0; this bound is neither a positive constant nor dominated by a positivity test whose failing edge returns: a configuration with no selectable weight/addresses crashes instead of failing the selection")
			}
		}
	}

	// ---- C14.4 filter first
	r.Rule("C14.4", "the family filter matching v6Support feeds every selection routine", 3)
	if f := c.fn("C14.4", ph, "PhantomIPSelector", "Select"); f != nil {
		n := 0
		eachInstr(f, func(in ssa.Instruction) {
			call, ok := in.(*ssa.Call)
			if !ok || !strings.HasPrefix(calleeShort(&call.Call), "selectPhantomImpl") {
				return
			}
			n++
			fl, okSrc := familyFilterLeaves(f, call.Call.Args[1])
			var leaves []string
			for _, l := range fl {
				leaves = append(leaves, l.name)
				if !l.guardOK {
					okSrc = false
				}
			}
			r.Check(okSrc && len(leaves) > 0, "C14.4", "Select: "+calleeShort(&call.Call)+" receives the family-filtered subnets", call.Pos(), fnName(f), fmt.Sprintf("argument is %v", leaves),
				"a selection routine is handed subnets that did not pass the family filter (or the filter of the wrong family): the phantom may be of the other address family")
		})
		if n < 3 {
			r.Unk("C14.4", "Select: three selection routines", f.Pos(), fnName(f), fmt.Sprintf("found %d selectPhantomImpl* calls", n))
		}
	}

	// ---- C14.8 the same on the shared / client side: where a filter is handed in as a function value (SubnetFilter), the
	// candidates given to the selection routine are that filter's result; the unfiltered list is used only when no filter
	// was given. (A filter that leaves nothing is an error of the selection - ErrMissingAddrs -, never a reason to fall
	// back to the other family's subnets.)
	r.Rule("C14.8", "where a SubnetFilter is applied, the selection routine receives its result - the unfiltered list only when no filter was given", 1)
	{
		n := 0
		for _, f := range c.funcsOfPkgs(ph) {
			if f.Blocks == nil || strings.Contains(r.posStr(f.Pos()), "_test") {
				continue
			}
			var filt *ssa.Parameter
			for _, prm := range f.Params {
				if strings.HasSuffix(typeShort(prm.Type()), "phantoms.SubnetFilter") {
					filt = prm
				}
			}
			if filt == nil {
				continue
			}
			var tcall *ssa.Call
			eachInstr(f, func(in ssa.Instruction) {
				if call, ok := in.(*ssa.Call); ok && !call.Call.IsInvoke() && stripConv(call.Call.Value) == ssa.Value(filt) {
					tcall = call
				}
			})
			if tcall == nil {
				continue // passes the filter on
			}
			eachInstr(f, func(in ssa.Instruction) {
				call, ok := in.(*ssa.Call)
				if !ok || call == tcall || call.Call.StaticCallee() == nil || !strings.HasPrefix(call.Call.StaticCallee().Name(), "select") {
					return
				}
				// the candidates argument: the []*phantomNet one
				for _, a := range call.Call.Args {
					if !strings.HasSuffix(typeShort(a.Type()), "phantoms.phantomNet") {
						continue
					}
					n++
					okk, why := true, ""
					var walk func(v ssa.Value, d int)
					walk = func(v ssa.Value, d int) {
						if d > 6 || !okk {
							okk = okk && d <= 6
							return
						}
						switch x := v.(type) {
						case *ssa.Phi:
							for i, e := range x.Edges {
								if ex, isEx := e.(*ssa.Extract); isEx && ex.Tuple == ssa.Value(tcall) && ex.Index == 0 {
									continue
								}
								if _, isPhi := e.(*ssa.Phi); isPhi {
									walk(e, d+1)
									continue
								}
								// any other value: only on the edge where no filter was given
								if !phiEdgeGuarded(f, x, i, Atom{"(" + orderEq("nil", pname(filt)) + ")", true}) {
									okk, why = false, firstN(pathOf(e), 50)
								}
							}
						case *ssa.Extract:
							if !(x.Tuple == ssa.Value(tcall) && x.Index == 0) {
								okk, why = false, firstN(pathOf(x), 50)
							}
						default:
							// the unfiltered list outright: the call itself must sit under filter == nil
							if !guarded(f, call, Atom{"(" + orderEq("nil", pname(filt)) + ")", true}) {
								okk, why = false, firstN(pathOf(v), 50)
							}
						}
					}
					walk(a, 0)
					r.Check(okk, "C14.8", fnName(f)+": "+call.Call.StaticCallee().Name()+" receives the filter's result", call.Pos(), fnName(f), "every incoming value is "+pname(filt)+"(…)#0, or arrives only when "+pname(filt)+" == nil",
						"the selection routine can be handed "+why+" although a family filter was given (the filter's result is dropped on some path): the selected phantom can be of the other address family instead of the selection failing")
				}
			})
		}
		if n == 0 {
			r.Unk("C14.8", "functions that apply a SubnetFilter and select", token.NoPos, "", "none found")
		}
	}

	// ---- C14.9 "or selection fails with an error": a generation can be present with a nil configuration (a retired
	// generation is stored as nil), so what Select takes from the generation table is tested against nil - not merely
	// for presence - before it is handed on or dereferenced
	r.Rule("C14.9", "Select tests the generation's configuration against nil before using it", 1)
	if f := c.fn("C14.9", ph, "PhantomIPSelector", "Select"); f != nil {
		n := 0
		eachInstr(f, func(in ssa.Instruction) {
			var v ssa.Value
			switch x := in.(type) {
			case *ssa.Call:
				if calleeShort(&x.Call) == "GetSubnetsByGeneration" {
					v = x
				}
			case *ssa.Extract:
				if lk, ok := x.Tuple.(*ssa.Lookup); ok && x.Index == 0 && strings.HasSuffix(pathOf(lk.X), ".Networks") {
					v = x
				}
			case *ssa.Lookup:
				if !x.CommaOk && strings.HasSuffix(pathOf(x.X), ".Networks") {
					v = x
				}
			}
			if v == nil || v.Referrers() == nil {
				return
			}
			vp := pathOf(v)
			for _, ref := range *v.Referrers() {
				switch ref.(type) {
				case *ssa.BinOp, *ssa.DebugRef:
					continue
				}
				if _, isIf := ref.(*ssa.If); isIf {
					continue
				}
				n++
				g := guardedM(f, ref, func(cnd string, pol bool) bool {
					return !pol && strings.Contains(cnd, "nil") && strings.Contains(cnd, vp)
				})
				r.Check(g, "C14.9", "Select: "+firstN(vp, 50)+" used only when it is not nil", ref.Pos(), fnName(f), "dominated by a non-nil test of the same value",
					"the configuration taken from the generation table is used without a nil test (a presence test does not help: a retired generation is present with a nil configuration): selecting for it dereferences nil and panics instead of failing with an error")
			}
		})
		if n == 0 {
			r.Unk("C14.9", "Select: use of the generation's configuration", f.Pos(), fnName(f), "no lookup of the generation table found")
		}
	}

	// ---- C14.10 "inside one of the subnets configured for that generation": the configured subnet strings are what the
	// operator wrote - the package parses them, it never rewrites an entry (a "/32" appended to an IPv6 host turns one
	// address into a /32 network)
	r.Rule("C14.10", "the configured subnet strings are never rewritten", 1)
	{
		nW := 0
		for _, f := range c.funcsOfPkgs(ph) {
			if f.Blocks == nil || strings.Contains(r.posStr(f.Pos()), "_test") {
				continue
			}
			eachInstr(f, func(in ssa.Instruction) {
				st, ok := in.(*ssa.Store)
				if !ok {
					return
				}
				ia, ok := st.Addr.(*ssa.IndexAddr)
				if !ok {
					return
				}
				xp := pathOf(ia.X)
				if !strings.HasSuffix(xp, ".Subnets") && !strings.HasSuffix(xp, ".GetSubnets()") {
					return
				}
				nW++
				r.Bad("C14.10", fnName(f)+": rewrites an entry of "+firstN(xp, 40), in.Pos(), fnName(f), "a configured subnet string is replaced by a 'normalised' one: what is parsed and selected from is no longer what the operator configured for that generation")
			})
		}
		if nW == 0 {
			r.OK("C14.10", "no function of the package stores into an element of a Subnets list", token.NoPos, "scanned")
		}
	}

	// ---- C14.7 a subnet carries the port flag of the group it was configured in: the flag stored with a parsed subnet is
	// the RandomizeDstPort of the message its CIDR strings come from, and that message is a group of the configuration
	// itself (not a message assembled from several groups, whose single flag is whichever group was merged last)
	r.Rule("C14.7", "a parsed subnet's port flag is its own configured group's flag", 2)
	if f := c.fn("C14.7", ph, "", "parseSubnets"); f != nil && len(f.Params) == 1 {
		n := 0
		for _, st := range fieldStores(f, "phantoms.phantomNet", "supportRandomPort") {
			n++
			okk := pathOf(st.Val) == P(f, 0)+".GetRandomizeDstPort()"
			r.Check(okk, "C14.7", "parseSubnets: flag = the group's own GetRandomizeDstPort()", st.Pos(), fnName(f), firstN(pathOf(st.Val), 60), "the port flag stored with a subnet is not the flag of the group the subnet was read from")
		}
		if n == 0 {
			// a thin wrapper: parseSubnets(g) = helper(g.GetSubnets(), g.GetRandomizeDstPort()) and the helper stores its
			// flag parameter with every subnet it parses from its list parameter
			for _, ci := range callsIn(f, func(string, *ssa.CallCommon) bool { return true }) {
				call, isCall := ci.(*ssa.Call)
				if !isCall {
					continue
				}
				h := helperCallee(f, &call.Call)
				if h == nil || len(call.Call.Args) != 2 {
					continue
				}
				for _, st := range fieldStores(h, "phantoms.phantomNet", "supportRandomPort") {
					n++
					prm, isP := st.Val.(*ssa.Parameter)
					okk := isP && len(h.Params) == 2 && prm == h.Params[1] &&
						pathOf(call.Call.Args[0]) == P(f, 0)+".GetSubnets()" && pathOf(call.Call.Args[1]) == P(f, 0)+".GetRandomizeDstPort()"
					if okk {
						if sites, asValue := callersOf(h); asValue || len(sites) != 1 {
							okk = false // another caller could pair a list with a foreign flag
						}
					}
					r.Check(okk, "C14.7", "parseSubnets: flag = the group's own GetRandomizeDstPort()", st.Pos(), fnName(h), "helper(g.GetSubnets(), g.GetRandomizeDstPort()) stores its flag parameter", "the port flag stored with a subnet is not the flag of the group the subnet was read from")
				}
			}
		}
		if n == 0 {
			r.Unk("C14.7", "parseSubnets: supportRandomPort store", f.Pos(), fnName(f), "not found")
		}
		nCalls := 0
		for _, g := range c.funcsOfPkgs(ph) {
			if strings.Contains(r.posStr(g.Pos()), "_test") {
				continue
			}
			for _, ci := range callsIn(g, shortIs("parseSubnets")) {
				if ci.Common().StaticCallee() != f {
					continue
				}
				nCalls++
				arg := ci.Common().Args[0]
				r.Check(!messageBuiltHere(arg, 0, map[ssa.Value]bool{}), "C14.7", fnName(g)+": parseSubnets is handed a group of the configuration itself", ci.Pos(), fnName(g), firstN(pathOf(arg), 60),
					"parseSubnets is handed "+firstN(pathOf(arg), 50)+", a message built in this function, not a configured group: subnets of several groups get one common port flag (the last one merged), so a phantom of a group that forbids a random port is returned with randomisation granted")
			}
		}
		if nCalls == 0 {
			r.Unk("C14.7", "parseSubnets call sites", f.Pos(), fnName(f), "none found")
		}
	}

	// ---- C14.5 containment guards
	r.Rule("C14.5", "address built only under offset < netSize; subnet match tests both bounds", 2)
	checkMaskedBase(c, "C14.5", ph)
	if f := c.fn("C14.5", ph, "", "selectAddrFromSubnetOffset"); f != nil {
		var add *ssa.Call
		for _, ci := range callsIn(f, nameIs("(*math/big.Int).Add")) {
			add = ci.(*ssa.Call)
		}
		if add == nil {
			r.Unk("C14.5", "selectAddrFromSubnetOffset: base+offset", f.Pos(), fnName(f), "big.Int Add not found")
		} else {
			// the subnet size is the big.Int that receives Exp(2, addrLen-bits); the offset is the second parameter
			size, off := "?", P(f, 1)
			for _, ci := range callsIn(f, nameIs("(*math/big.Int).Exp")) {
				size = pathOf(ci.Common().Args[0])
			}
			g := guardedM(f, add, func(cnd string, pol bool) bool {
				// size.Cmp(offset) <= 0 -> return ; i.e. (0 < size.Cmp(offset)) true, or (offset.Cmp(size) < 0) true
				return pol && (cnd == "(0 < "+size+".Cmp("+off+"))" || cnd == "("+off+".Cmp("+size+") < 0)")
			})
			r.Check(g, "C14.5", "selectAddrFromSubnetOffset: address computed only when offset < netSize", add.Pos(), fnName(f), "dominated by netSize.Cmp(offset) > 0",
				"the address base+offset is computed without checking offset < size of the subnet: the result can lie outside the configured subnet")
		}
	}
	if f := c.fn("C14.5", ph, "", "selectPhantomImplHkdf"); f != nil {
		var sel *ssa.Call
		for _, ci := range callsIn(f, shortIs("selectAddrFromSubnetOffset")) {
			sel = ci.(*ssa.Call)
		}
		if sel == nil {
			r.Unk("C14.5", "selectPhantomImplHkdf: address construction", f.Pos(), fnName(f), "call to selectAddrFromSubnetOffset not found")
		} else {
			gmax := guardedM(f, sel, func(cnd string, pol bool) bool {
				return !pol && strings.Contains(cnd, ".max.Cmp(") && strings.HasSuffix(cnd, " < 0)")
			})
			gmin := guardedM(f, sel, func(cnd string, pol bool) bool {
				return !pol && strings.HasPrefix(cnd, "(0 < ") && strings.Contains(cnd, ".min.Cmp(")
			})
			r.Check(gmax && gmin, "C14.5", "selectPhantomImplHkdf: subnet chosen only if min <= id <= max", sel.Pos(), fnName(f), "dominated by both comparisons",
				"the subnet match does not test the id against both bounds: an id outside the subnet's interval selects it and the offset lands in another subnet")
			// offset = id - min
			okOff := false
			for _, ci := range callsIn(f, nameIs("(*math/big.Int).Sub")) {
				sc := ci.(*ssa.Call)
				if pathOf(sc.Call.Args[0]) == pathOf(sel.Call.Args[1]) && strings.HasSuffix(pathOf(sc.Call.Args[2]), ".min") && !strings.Contains(pathOf(sc.Call.Args[1]), ".m") {
					okOff = true
				}
			}
			r.Check(okOff, "C14.5", "selectPhantomImplHkdf: offset = id - min of the matched subnet", sel.Pos(), fnName(f), "Sub(id, &min)", "the offset handed to the address construction is not id - min of the matched subnet")
		}
	}

	// ---- C14.6 flag source
	r.Rule("C14.6", "the port-randomisation flag of a result comes from the matched subnet", 4)
	for _, f := range c.funcsOfPkgs(ph) {
		for _, st := range fieldStores(f, "phantoms.PhantomIP", "supportRandomPort") {
			src := pathOf(st.Val)
			okSrc := strings.HasSuffix(src, ".supportRandomPort") || (f.Name() == "IP" && src == "supportRandomPort")
			r.Check(okSrc, "C14.6", fnName(f)+": PhantomIP.supportRandomPort <- "+firstN(src, 50), st.Pos(), fnName(f), "taken from the phantomNet that was matched",
				"the result's port-randomisation flag does not come from the subnet the address was taken from: port randomisation is granted (or refused) regardless of the subnet's setting")
		}
		for _, st := range fieldStores(f, "phantoms.phantomNet", "supportRandomPort") {
			src := pathOf(st.Val)
			okFlag := strings.HasSuffix(src, ".GetRandomizeDstPort()")
			if prm, isP := st.Val.(*ssa.Parameter); isP && !okFlag {
				// the flag handed in by the callers: every one of them passes a block's GetRandomizeDstPort()
				idx := paramIndex(f, prm)
				sites, asValue := callersOf(f)
				okFlag = !asValue && len(sites) > 0
				for _, sc := range sites {
					if idx >= len(sc.Call.Args) || !strings.HasSuffix(pathOf(sc.Call.Args[idx]), ".GetRandomizeDstPort()") {
						okFlag = false
					}
				}
				src = "parameter " + src + " (every caller passes a block's GetRandomizeDstPort())"
			}
			r.Check(okFlag, "C14.6", fnName(f)+": phantomNet.supportRandomPort <- "+firstN(src, 50), st.Pos(), fnName(f), "from the subnet block's randomize_dst_port",
				"the subnet's port-randomisation flag is not taken from its configuration")
		}
	}
}

func paramIndex(f *ssa.Function, p *ssa.Parameter) int {
	for i, x := range f.Params {
		if x == p {
			return i
		}
	}
	return 0
}

var errorIface = types.Universe.Lookup("error").Type().Underlying().(*types.Interface)

func isErrName(n string) bool { return strings.HasPrefix(n, "Err") || strings.HasPrefix(n, "err") }

// writtenOutsideInit: some repo function other than a package initialiser stores to g (directly or to a field of it).
func writtenOutsideInit(p *Program, g *ssa.Global) bool {
	w := false
	for _, f := range p.RepoFuncs() {
		if f.Name() == "init" || strings.HasPrefix(f.Name(), "init#") {
			continue
		}
		eachInstr(f, func(in ssa.Instruction) {
			if st, ok := in.(*ssa.Store); ok {
				if st.Addr == ssa.Value(g) {
					w = true
				}
				if fa, ok := st.Addr.(*ssa.FieldAddr); ok && fa.X == ssa.Value(g) {
					w = true
				}
			}
		})
	}
	return w
}

// inputDerived: v is (or may share memory with) something reachable from a parameter of f: the parameter itself,
// fields, elements and re-slices of it, the results of getters on it, and appends to such a slice. Fresh values
// (make, literals, allocations, results of other calls) are not.
func inputDerived(v ssa.Value, depth int, seen map[ssa.Value]bool) bool {
	if v == nil || depth > 14 || seen[v] {
		return false
	}
	seen[v] = true
	switch x := v.(type) {
	case *ssa.Parameter:
		_, isBasic := x.Type().Underlying().(*types.Basic)
		return !isBasic
	case *ssa.FreeVar:
		return true
	case *ssa.FieldAddr:
		return inputDerived(x.X, depth+1, seen)
	case *ssa.Field:
		return inputDerived(x.X, depth+1, seen)
	case *ssa.IndexAddr:
		return inputDerived(x.X, depth+1, seen)
	case *ssa.Index:
		return inputDerived(x.X, depth+1, seen)
	case *ssa.Lookup:
		return inputDerived(x.X, depth+1, seen)
	case *ssa.Slice:
		return inputDerived(x.X, depth+1, seen)
	case *ssa.UnOp:
		if x.Op == token.MUL {
			if al, ok := x.X.(*ssa.Alloc); ok {
				// a local: derived if some store into it is derived
				if al.Referrers() != nil {
					for _, ref := range *al.Referrers() {
						if st, ok := ref.(*ssa.Store); ok && st.Addr == ssa.Value(al) && inputDerived(st.Val, depth+1, seen) {
							return true
						}
					}
				}
				return false
			}
			return inputDerived(x.X, depth+1, seen)
		}
	case *ssa.ChangeType:
		return inputDerived(x.X, depth+1, seen)
	case *ssa.Convert:
		return inputDerived(x.X, depth+1, seen)
	case *ssa.ChangeInterface:
		return inputDerived(x.X, depth+1, seen)
	case *ssa.MakeInterface:
		return inputDerived(x.X, depth+1, seen)
	case *ssa.TypeAssert:
		return inputDerived(x.X, depth+1, seen)
	case *ssa.Extract:
		return inputDerived(x.Tuple, depth+1, seen)
	case *ssa.Next:
		return inputDerived(x.Iter, depth+1, seen)
	case *ssa.Range:
		return inputDerived(x.X, depth+1, seen)
	case *ssa.Phi:
		for _, e := range x.Edges {
			if inputDerived(e, depth+1, seen) {
				return true
			}
		}
	case *ssa.Call:
		if b, ok := x.Call.Value.(*ssa.Builtin); ok && b.Name() == "append" {
			return inputDerived(x.Call.Args[0], depth+1, seen)
		}
		// net.IP.To16 / To4 / Mask-less views return (a re-slice of) the receiver's own backing array for addresses
		// that already have the requested length
		switch calleeName(&x.Call) {
		case "(net.IP).To16", "(net.IP).To4":
			if len(x.Call.Args) > 0 {
				return inputDerived(x.Call.Args[0], depth+1, seen)
			}
		}
		// nil-safe protobuf getters and other accessor methods hand out the receiver's own storage
		if rv := recvOf(&x.Call); rv != nil && strings.HasPrefix(calleeShort(&x.Call), "Get") {
			switch x.Type().Underlying().(type) {
			case *types.Slice, *types.Map, *types.Pointer:
				return inputDerived(rv, depth+1, seen)
			}
		}
	}
	return false
}

// familyFilterLeaves: the calls of the address-family filters whose result #0 flows (through phis) into v. The
// filter is called by name (V4Only(x) / V6Only(x)) or through a function value chosen among the two; guardOK says
// that V6Only is the one applied exactly under v6Support and V4Only exactly under !v6Support. ok is false when
// something other than a filter result flows into v.
type familyLeaf struct {
	call    *ssa.Call
	name    string
	guardOK bool
}

func familyFilterLeaves(f *ssa.Function, v ssa.Value) ([]familyLeaf, bool) {
	ok := true
	var out []familyLeaf
	isFilter := func(n string) bool { return n == "V6Only" || n == "V4Only" }
	var walk func(v ssa.Value, d int)
	walk = func(v ssa.Value, d int) {
		if d > 6 {
			ok = false
			return
		}
		switch x := v.(type) {
		case *ssa.Phi:
			for _, e := range x.Edges {
				walk(e, d+1)
			}
		case *ssa.Extract:
			cc, isCall := x.Tuple.(*ssa.Call)
			if !isCall || x.Index != 0 {
				ok = false
				return
			}
			if n := calleeShort(&cc.Call); cc.Call.StaticCallee() != nil && isFilter(n) {
				out = append(out, familyLeaf{cc, n, guarded(f, cc, Atom{"v6Support", n == "V6Only"})})
				return
			}
			// a function value chosen among the two filters
			if ph, isPhi := stripConv(cc.Call.Value).(*ssa.Phi); isPhi && !cc.Call.IsInvoke() {
				for i, e := range ph.Edges {
					fn, isFn := stripConv(e).(*ssa.Function)
					if !isFn || !isFilter(fn.Name()) {
						ok = false
						return
					}
					out = append(out, familyLeaf{cc, fn.Name(), phiEdgeGuarded(f, ph, i, Atom{"v6Support", fn.Name() == "V6Only"}) && ph.Block().Dominates(cc.Block())})
				}
				return
			}
			ok = false
		default:
			ok = false
		}
	}
	walk(v, 0)
	return out, ok && len(out) > 0
}

// resliceOfInput: v is a re-slice (s[i:j]) of input storage, possibly carried round a loop (phi) or through
// earlier appends. Appending to such a value overwrites elements the caller can still see; appending to the input
// slice itself only touches spare capacity and is not counted.
func resliceOfInput(v ssa.Value, depth int, seen map[ssa.Value]bool) bool {
	if v == nil || depth > 8 || seen[v] {
		return false
	}
	seen[v] = true
	switch x := v.(type) {
	case *ssa.Slice:
		return inputDerived(x.X, 0, map[ssa.Value]bool{})
	case *ssa.Phi:
		for _, e := range x.Edges {
			if resliceOfInput(e, depth+1, seen) {
				return true
			}
		}
	case *ssa.Call:
		if b, ok := x.Call.Value.(*ssa.Builtin); ok && b.Name() == "append" {
			return resliceOfInput(x.Call.Args[0], depth+1, seen)
		}
	case *ssa.UnOp:
		if al, ok := x.X.(*ssa.Alloc); ok && x.Op == token.MUL && al.Referrers() != nil {
			for _, ref := range *al.Referrers() {
				if st, ok := ref.(*ssa.Store); ok && st.Addr == ssa.Value(al) && resliceOfInput(st.Val, depth+1, seen) {
					return true
				}
			}
		}
	}
	return false
}

// writesInput: the instruction may write into memory that belongs to the function's inputs.
func writesInput(f *ssa.Function, in ssa.Instruction) string {
	der := func(v ssa.Value) bool { return inputDerived(v, 0, map[ssa.Value]bool{}) }
	switch x := in.(type) {
	case *ssa.Store:
		switch a := x.Addr.(type) {
		case *ssa.IndexAddr:
			if der(a.X) {
				return "stores into an element of " + firstN(pathOf(a.X), 50) + ", which belongs to its input"
			}
		case *ssa.FieldAddr:
			if der(a.X) {
				if al, ok := a.X.(*ssa.Alloc); ok && !al.Heap {
					return ""
				}
				return "stores into field " + firstN(pathOf(a), 50) + " of its input"
			}
		}
	case *ssa.MapUpdate:
		if der(x.Map) {
			return "updates the map " + firstN(pathOf(x.Map), 50) + ", which belongs to its input"
		}
	case ssa.CallInstruction:
		cc := x.Common()
		n := calleeName(cc)
		if b, ok := cc.Value.(*ssa.Builtin); ok {
			switch b.Name() {
			case "append":
				// appending to a re-slice of input storage writes into the input's backing array
				if resliceOfInput(cc.Args[0], 0, map[ssa.Value]bool{}) {
					return "appends to a re-slice of " + firstN(pathOf(cc.Args[0]), 50) + " (writes into its input's backing array)"
				}
			case "copy":
				if der(cc.Args[0]) {
					return "copies into " + firstN(pathOf(cc.Args[0]), 50) + ", which belongs to its input"
				}
			case "delete":
				if der(cc.Args[0]) {
					return "deletes from the map " + firstN(pathOf(cc.Args[0]), 50) + ", which belongs to its input"
				}
			}
			return ""
		}
		// sync/atomic updates of a field of an input (a memo on the selector, a counter on a subnet): state that
		// survives the call
		if (strings.HasPrefix(n, "sync/atomic.") || strings.HasPrefix(n, "(*sync/atomic.")) && len(cc.Args) > 0 {
			mname := n[strings.LastIndex(n[:strings.IndexAny(n+"[", "[")+0], ".")+1:]
			if strings.HasPrefix(n, "(*") {
				// "(*sync/atomic.Pointer[T]).Store[T]": the method name follows ")."
				if i := strings.Index(n, ")."); i >= 0 {
					mname = n[i+2:]
				}
			}
			for _, w := range []string{"Store", "Swap", "Add", "And", "Or", "CompareAndSwap"} {
				if strings.HasPrefix(mname, w) && der(cc.Args[0]) {
					return "atomically updates " + firstN(pathOf(cc.Args[0]), 50) + ", which belongs to its input (state that survives the call)"
				}
			}
		}
		// sync.Map kept on an input: state that survives the call (a memo, a negative cache)
		if strings.HasPrefix(n, "(*sync.Map).") && len(cc.Args) > 0 && der(cc.Args[0]) {
			switch calleeShort(cc) {
			case "Store", "LoadOrStore", "Swap", "CompareAndSwap", "Delete", "LoadAndDelete", "CompareAndDelete", "Clear":
				return calleeShort(cc) + " on the sync.Map " + firstN(pathOf(cc.Args[0]), 50) + ", which belongs to its input (state that survives the call)"
			}
		}
		// destination-writing calls of the crypto interfaces: Open/Seal append to dst (dst[:0] reuses its storage),
		// XORKeyStream / Encrypt / Decrypt write dst in place
		if cc.IsInvoke() && len(cc.Args) > 0 {
			switch typeShort(cc.Value.Type()) + "." + cc.Method.Name() {
			case "cipher.AEAD.Open", "cipher.AEAD.Seal":
				if resliceOfInput(cc.Args[0], 0, map[ssa.Value]bool{}) || der(cc.Args[0]) {
					return cc.Method.Name() + " appends to " + firstN(pathOf(cc.Args[0]), 50) + ", storage of its input (a failed Open zeroes it)"
				}
			case "cipher.Stream.XORKeyStream", "cipher.Block.Encrypt", "cipher.Block.Decrypt", "cipher.BlockMode.CryptBlocks":
				if der(cc.Args[0]) {
					return cc.Method.Name() + " writes " + firstN(pathOf(cc.Args[0]), 50) + ", which belongs to its input"
				}
			}
		}
		switch n {
		case "sort.Slice", "sort.SliceStable", "sort.Sort", "sort.Stable", "sort.Strings", "sort.Ints", "slices.Sort", "slices.SortFunc", "slices.Reverse":
			if len(cc.Args) > 0 && der(cc.Args[0]) {
				return "sorts " + firstN(pathOf(cc.Args[0]), 50) + " in place, which belongs to its input"
			}
		}
	}
	return ""
}

// checkSelectionPurity: selection is a function of its inputs - nothing reachable from the selection entry points
// touches process-global state or writes into its inputs. Shared by C14.1 and C01.6 (client and station can only
// agree for every history if neither side's result depends on earlier selections).
func checkSelectionPurity(c *Ctx, rule, ph string) {
	r := c.R
	r.Rule(rule, "nothing reachable from the selection entry points touches process-global state or modifies its inputs", 4)
	type entry struct{ recv, name string }
	var roots []*ssa.Function
	for _, e := range []entry{{"PhantomIPSelector", "Select"}, {"", "SelectPhantom"}, {"", "SelectPhantomWeighted"}, {"", "SelectPhantomUnweighted"}} {
		if f := c.fn(rule, ph, e.recv, e.name); f != nil {
			roots = append(roots, f)
		}
	}
	// dynamic SubnetFilter calls resolve to V4Only/V6Only
	filters := []*ssa.Function{}
	for _, n := range []string{"V4Only", "V6Only"} {
		if f := c.P.Func(repoMod+"/"+ph, "", n); f != nil {
			filters = append(filters, f)
		}
	}
	for _, root := range roots {
		seen := map[*ssa.Function][]string{}
		var order []*ssa.Function
		var visit func(f *ssa.Function, chain []string)
		visit = func(f *ssa.Function, chain []string) {
			if _, ok := seen[f]; ok {
				return
			}
			if !isRepoPath(fnPkgPath(f)) || f.Blocks == nil {
				return
			}
			chain = append(append([]string{}, chain...), fnName(f))
			seen[f] = chain
			order = append(order, f)
			for _, g := range withAnon(f)[1:] {
				visit(g, chain)
			}
			eachInstr(f, func(in ssa.Instruction) {
				ci, ok := in.(ssa.CallInstruction)
				if !ok {
					return
				}
				if cal := ci.Common().StaticCallee(); cal != nil {
					visit(cal, chain)
				} else if !ci.Common().IsInvoke() {
					if strings.HasSuffix(typeShort(ci.Common().Value.Type()), "SubnetFilter") {
						for _, ff := range filters {
							visit(ff, chain)
						}
					}
				}
			})
		}
		visit(root, nil)
		nBad := 0
		for _, f := range order {
			eachInstr(f, func(in ssa.Instruction) {
				bad := ""
				switch x := in.(type) {
				case ssa.CallInstruction:
					n := calleeName(x.Common())
					switch {
					case strings.HasPrefix(n, "math/rand.") && n != "math/rand.New" && n != "math/rand.NewSource":
						bad = "calls " + n + " (process-global random source)"
					case strings.HasSuffix(n, "weightedrand.Chooser).Pick"):
						bad = "calls weightedrand Chooser.Pick (draws from the process-global math/rand source)"
					case n == "time.Now" || n == "time.Since":
						bad = "calls " + n
					case n == "os.Getenv":
						bad = "reads the environment"
					}
				case *ssa.Range:
					// the iteration order of a map is random per run of the loop: a result assembled in that order
					// differs from call to call
					if _, isMap := x.X.Type().Underlying().(*types.Map); isMap {
						bad = "ranges over the map " + firstN(pathOf(x.X), 40) + " (random iteration order)"
					}
				case *ssa.Store:
					if g, ok := x.Addr.(*ssa.Global); ok {
						bad = "writes package-level variable " + g.Name()
					}
					if fa, ok := x.Addr.(*ssa.FieldAddr); ok {
						if g, ok := fa.X.(*ssa.Global); ok {
							bad = "writes package-level variable " + g.Name()
						}
					}
				}
				if bad == "" {
					// any other use of a package-level variable: only immutable ones are allowed
					// (error sentinels; basic-typed variables never written outside init)
					for _, op := range in.Operands(nil) {
						g, ok := (*op).(*ssa.Global)
						if !ok || g.Pkg == nil || !isRepoPath(g.Pkg.Pkg.Path()) {
							continue
						}
						if st, isSt := in.(*ssa.Store); isSt && st.Addr == ssa.Value(g) {
							continue // reported above
						}
						elem := g.Type().Underlying().(*types.Pointer).Elem()
						if types.Implements(elem, errorIface) || types.Implements(types.NewPointer(elem), errorIface) && isErrName(g.Name()) {
							continue
						}
						if _, basic := elem.Underlying().(*types.Basic); basic && !writtenOutsideInit(c.P, g) {
							continue
						}
						bad = "uses package-level variable " + g.Name() + " (" + typeShort(elem) + ", shared mutable state)"
					}
				}
				if bad == "" {
					bad = writesInput(f, in)
				}
				if bad != "" {
					nBad++
					r.Bad(rule, fnName(f)+": "+bad, in.Pos(), fnName(f),
						"selection reachable from "+fnName(root)+" "+bad+": repeating or running selections concurrently can change a result, so station and client stop agreeing on the phantom", seen[f]...)
				}
			})
		}
		if nBad == 0 {
			r.OK(rule, fnName(root)+": reachable selection code is free of process-global effects", root.Pos(), fmt.Sprintf("%d function(s) examined through static callees and closures", len(order)))
		}
	}

}

// checkMaskedBase: the base every offset is added to is the subnet's network address - a *net.IPNet in the phantoms
// package comes from net.ParseCIDR (which masks the address) or is built from a masked address. Shared by C14.5 and
// C01.7 (a base that keeps host bits is not the base any released client adds the offset to).
func checkMaskedBase(c *Ctx, rule, ph string) {
	r := c.R
	// the base every offset is added to is the subnet's network address: a *net.IPNet in this package comes from
	// net.ParseCIDR (which masks the address) or is built from a masked address
	nNets := 0
	for _, f := range c.funcsOfPkgs(ph) {
		if strings.Contains(r.posStr(f.Pos()), "_test") {
			continue
		}
		eachInstr(f, func(in ssa.Instruction) {
			al, ok := in.(*ssa.Alloc)
			if !ok || typeShort(al.Type().Underlying().(*types.Pointer).Elem()) != "net.IPNet" || al.Referrers() == nil {
				return
			}
			for _, ref := range *al.Referrers() {
				fa, ok := ref.(*ssa.FieldAddr)
				if !ok || fieldName(fa.X.Type(), fa.Field) != "IP" || fa.Referrers() == nil {
					continue
				}
				for _, r2 := range *fa.Referrers() {
					st, ok := r2.(*ssa.Store)
					if !ok || st.Addr != ssa.Value(fa) {
						continue
					}
					nNets++
					vp := pathOf(st.Val)
					masked := strings.Contains(vp, ".Mask(") || strings.Contains(vp, ".Masked()") || (strings.Contains(vp, "net.ParseCIDR(") && strings.Contains(vp, ")#1"))
					r.Check(masked, rule, fnName(f)+": a subnet built by hand uses the masked network address", st.Pos(), fnName(f), firstN(vp, 60),
						"a net.IPNet is built with IP = "+firstN(vp, 60)+", which is not masked to the prefix: for a CIDR written with host bits set (192.0.2.200/24) base+offset leaves the subnet although offset < size")
				}
			}
		})
	}
	if f := c.fn(rule, ph, "", "parseSubnet"); f != nil {
		eachInstr(f, func(in ssa.Instruction) {
			ret, ok := in.(*ssa.Return)
			if !ok || len(ret.Results) != 2 {
				return
			}
			if e, isC := returnedValue(ret, 1, nil).(*ssa.Const); !isC || e.Value != nil {
				return
			}
			rv := returnedValue(ret, 0, nil)
			vp := pathOf(rv)
			_, built := rv.(*ssa.Alloc)
			okk := strings.HasPrefix(vp, "net.ParseCIDR(") && strings.HasSuffix(vp, "#1") || built
			r.Check(okk, rule, "parseSubnet: the subnet is net.ParseCIDR's network (or built from a masked address, checked above)", ret.Pos(), fnName(f), firstN(vp, 60),
				"parseSubnet returns "+firstN(vp, 60)+", not the masked network of net.ParseCIDR")
		})
	}
	_ = nNets
}

// messageBuiltHere: v may be a protobuf message allocated (new / composite literal / proto.Clone) in the function
// that uses it, possibly taken back out of a local slice it was appended to.
func messageBuiltHere(v ssa.Value, depth int, seen map[ssa.Value]bool) bool {
	if v == nil || depth > 12 || seen[v] {
		return false
	}
	seen[v] = true
	switch x := v.(type) {
	case *ssa.Alloc:
		if p, ok := x.Type().Underlying().(*types.Pointer); ok {
			if _, isStruct := p.Elem().Underlying().(*types.Struct); isStruct {
				return true
			}
		}
		// a local variable: what is stored into it
		if x.Referrers() != nil {
			for _, ref := range *x.Referrers() {
				if st, ok := ref.(*ssa.Store); ok && st.Addr == ssa.Value(x) && messageBuiltHere(st.Val, depth+1, seen) {
					return true
				}
				if ia, ok := ref.(*ssa.IndexAddr); ok && ia.Referrers() != nil {
					for _, r2 := range *ia.Referrers() {
						if st, ok := r2.(*ssa.Store); ok && messageBuiltHere(st.Val, depth+1, seen) {
							return true
						}
					}
				}
			}
		}
	case *ssa.Call:
		n := calleeName(&x.Call)
		if n == "google.golang.org/protobuf/proto.Clone" {
			return true
		}
		if b, ok := x.Call.Value.(*ssa.Builtin); ok && b.Name() == "append" {
			for _, a := range x.Call.Args {
				if messageBuiltHere(a, depth+1, seen) {
					return true
				}
			}
		}
	case *ssa.Phi:
		for _, e := range x.Edges {
			if messageBuiltHere(e, depth+1, seen) {
				return true
			}
		}
	case *ssa.UnOp:
		return messageBuiltHere(x.X, depth+1, seen)
	case *ssa.IndexAddr:
		return messageBuiltHere(x.X, depth+1, seen)
	case *ssa.Slice:
		return messageBuiltHere(x.X, depth+1, seen)
	case *ssa.TypeAssert:
		return messageBuiltHere(x.X, depth+1, seen)
	case *ssa.MakeInterface:
		return messageBuiltHere(x.X, depth+1, seen)
	case *ssa.ChangeType:
		return messageBuiltHere(x.X, depth+1, seen)
	case *ssa.Extract:
		return messageBuiltHere(x.Tuple, depth+1, seen)
	}
	return false
}
