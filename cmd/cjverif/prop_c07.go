package main

import (
	"fmt"
	"go/token"
	"sort"
	"strings"

	"golang.org/x/tools/go/ssa"
)

func init() {
	register("C07", &propCheck{Run: checkC07,
		Explain: "C07.1 the validate/announce step (AddRegistration) is dominated by every admission condition: ValidateRegistration ok, a non-empty checked covert, a non-live probe result where one was made, and — for detector-sourced registrations — a non-blocklisted phantom; " +
			"C07.2 the liveness probe is sent only for IPv4 phantoms that were not pre-scanned and only after the covert check, and is never bypassed for such registrations; " +
			"C07.3 ValidateRegistration rejects nil Keys/PhantomIp/RegistrationSource, unknown transports and (non-detector) blocklisted phantoms; " +
			"C07.4 per-family construction is gated by client support, station enable flag and (v4) an IPv4 registrant; an IPv6 registrant with an IPv4 phantom is rejected before any registration is returned; " +
			"C07.5 error discipline: the success return of NewRegistration is dominated by nil errors of selection, parameter parsing, port and protocol derivation and by the transport lookup; " +
			"C07.6 sharing over the API happens only for detector-sourced registrations with sharing enabled, never on the live-phantom edge, and the shared wrapper is marked pre-scanned with source DetectorPrescan and suppressed for the IPv6 twin; " +
			"C07.7 registrations are announced only through register (see C09.2/C02.5). " +
			"Decides the 'only if' direction structurally; completeness (every complete registration is admitted) and the meaning of each predicate are not decided.",
		Assume: []string{"PreScanned(), To4(), IsBlocklistedPhantom are pure between their test and use"}})
}

func checkC07(c *Ctx) {
	r := c.R
	const lib = "pkg/station/lib"
	f := c.fn("C07.1", lib, "RegistrationManager", "ingestRegistration")
	checkProbeVerdict(c)
	// ---- C07.10 the covert that passed the policy is the covert the registration keeps
	checkCovertWriters(c, "C07.10")
	r.Rule("C07.1", "AddRegistration is dominated by every admission condition", 5)
	r.Rule("C07.2", "liveness probe only when required, never bypassed when required", 3)
	// the manager's PhantomIsLive is a pass-through of the tester's verdict for the same address and port
	if g := c.fn("C07.2", "pkg/station/lib", "RegistrationManager", "PhantomIsLive"); g != nil {
		var probe ssa.Value
		for _, ci := range callsIn(g, func(_ string, cc *ssa.CallCommon) bool { return cc.IsInvoke() && cc.Method.Name() == "PhantomIsLive" }) {
			a := ci.Common().Args
			if len(a) == 2 && len(g.Params) == 3 && a[0] == ssa.Value(g.Params[1]) && a[1] == ssa.Value(g.Params[2]) {
				probe = ci.Value()
			}
		}
		n := 0
		eachInstr(g, func(in ssa.Instruction) {
			ret, ok := in.(*ssa.Return)
			if !ok || len(ret.Results) != 2 || in.Block().Comment == "recover" {
				return
			}
			n++
			okk := probe != nil
			for i := 0; i < 2 && okk; i++ {
				rv := returnedValue(ret, i, nil)
				// the i-th result of the probe, directly or through a field of a local that is assigned exactly once
				src := rv
				if u, isLoad := rv.(*ssa.UnOp); isLoad && u.Op == token.MUL {
					if fa, isF := u.X.(*ssa.FieldAddr); isF {
						if al, isA := fa.X.(*ssa.Alloc); isA && al.Referrers() != nil {
							var val ssa.Value
							cnt := 0
							eachInstr(g, func(in2 ssa.Instruction) {
								if st, ok := in2.(*ssa.Store); ok {
									if fa2, ok := st.Addr.(*ssa.FieldAddr); ok && fa2.X == ssa.Value(al) && fa2.Field == fa.Field {
										cnt++
										val = st.Val
									}
								}
							})
							if cnt == 1 {
								src = val
							}
						}
					}
				}
				ex, isEx := src.(*ssa.Extract)
				if !(isEx && ex.Tuple == probe && ex.Index == i) {
					okk = false
				}
			}
			r.Check(okk, "C07.2", "RegistrationManager.PhantomIsLive returns the tester's own verdict for (addr, port)", ret.Pos(), fnName(g), "pass-through of LivenessTester.PhantomIsLive(addr, port)",
				"the liveness verdict handed to ingest is not, on this path, the result of probing this address and port with the configured tester: a registration can be admitted on a verdict that no probe produced (e.g. a zero value read from a copy)")
		})
		if n == 0 {
			r.Unk("C07.2", "RegistrationManager.PhantomIsLive: returns", g.Pos(), fnName(g), "no return found")
		}
	}
	if f != nil {
		// the anchors, in ingestRegistration itself or in a helper it delegates a step to
		addL, ok1 := findOneDeep(f, shortIs("AddRegistration"))
		probeL, ok2 := findOneDeep(f, shortIs("PhantomIsLive"))
		guardL, ok3 := findOneDeep(f, shortIs("ParseOrResolveBlocklisted"))
		validateL, ok4 := findOneDeep(f, shortIs("ValidateRegistration"))
		if !ok1 || !ok2 || !ok3 || !ok4 {
			r.Unk("C07.1", "ingestRegistration: anchors", f.Pos(), fnName(f), "AddRegistration / PhantomIsLive / ParseOrResolveBlocklisted / ValidateRegistration not all found")
		} else {
			add, probe := addL.site(), probeL.site()
			guardPath := guardL.toRoot(pathOf(guardL.value()))
			probePath := probeL.toRoot(pathOf(probeL.value()))
			guarded := func(_ *ssa.Function, in ssa.Instruction, atoms ...Atom) bool {
				switch in {
				case add:
					return guardedDeep(addL, atoms...)
				case probe:
					return guardedDeep(probeL, atoms...)
				}
				return guardedM(f, in, atomMatcher(atoms...))
			}
			v := validateL.toRoot(pathOf(validateL.value()))
			r.Check(guarded(f, add, Atom{v + "#0", true}) && guarded(f, add, Atom{"(" + orderEq("nil", v+"#1") + ")", true}), "C07.1", "ingest: validated only after ValidateRegistration returned (true, nil)", add.Pos(), fnName(f), "dominated by ok && err == nil",
				"a registration that failed field/transport/blocklist validation can still be validated and announced")
			r.Check(guarded(f, add, Atom{"(" + orderEq(`""`, guardPath+"#0") + ")", false}), "C07.1", "ingest: validated only with a covert that passed the covert policy", add.Pos(), fnName(f), "dominated by covert != \"\"",
				"a registration whose covert was rejected by the covert policy is validated")
			// live phantom never validated: AddRegistration unreachable from the live==true edge
			liveM := atomMatcher(Atom{probePath + "#0", true})
			okLive, foundLive := neverAfter(addL, liveM, nil)
			okLive = okLive && foundLive
			r.Check(okLive, "C07.1", "ingest: a registration whose phantom answered the probe is never validated", add.Pos(), fnName(f), "AddRegistration unreachable from the live edge",
				"a registration with a live phantom reaches the validate/announce step: the station hijacks traffic of a real host")
			// detector source => phantom blocklist
			okDet, foundDet := neverAfter(addL, atomMatcher(Atom{"(1 == reg.RegistrationSource)", true}), atomMatcher(Atom{"rm.RegConfig.IsBlocklistedPhantom(reg.PhantomIp)", false}))
			okDet = okDet && foundDet && guardedDeepM(addL, func(c string, pol bool) bool {
				// the blocklist test exists on the way (a registration of another source passes the source test instead)
				return (c == "rm.RegConfig.IsBlocklistedPhantom(reg.PhantomIp)" && !pol) || (c == "(1 == reg.RegistrationSource)" && !pol)
			})
			r.Check(okDet, "C07.1", "ingest: detector-sourced registrations are validated only if the phantom is not blocklisted", add.Pos(), fnName(f), "every path from the source==Detector edge passes !IsBlocklistedPhantom",
				"a detector-sourced registration for a blocklisted phantom is validated (ValidateRegistration skips the blocklist for this source by design)")
			// duplicate deliveries do not re-run admission: RegistrationExists true edge never reaches AddRegistration
			okDup, foundDup := neverAfter(addL, atomMatcher(Atom{"rm.RegistrationExists(reg)", true}), nil)
			okDup = okDup && foundDup
			r.Check(okDup, "C07.1", "ingest: a duplicate delivery does not validate", add.Pos(), fnName(f), "AddRegistration unreachable from the exists edge", "a duplicate delivery skips the admission checks and validates the tracked registration")

			// ---- C07.2
			g1 := guarded(f, probe, Atom{"reg.PreScanned()", false})
			g2 := guarded(f, probe, Atom{"(" + orderEq("nil", "reg.PhantomIp.To4()") + ")", false})
			g3 := guarded(f, probe, Atom{"(" + orderEq(`""`, guardPath+"#0") + ")", false})
			r.Check(g1 && g2, "C07.2", "ingest: probe only for IPv4 phantoms that were not pre-scanned", probe.Pos(), fnName(f), "dominated by !PreScanned() && To4() != nil",
				"a liveness probe is sent although none is required (pre-scanned by another station, or IPv6): needless active probing of phantom hosts")
			r.Check(g3, "C07.2", "ingest: probe only after the covert check passed", probe.Pos(), fnName(f), "dominated by covert != \"\"", "phantoms are probed for registrations that are rejected anyway")
			notReqM := atomMatcher(Atom{"reg.PreScanned()", true}, Atom{"(" + orderEq("nil", "reg.PhantomIp.To4()") + ")", true})
			notReq := edgesEstablishing(f, notReqM)
			_, w := reach(f, nil, isInstr(add), isInstr(probe), notReq)
			bypass := !alwaysBefore(addL, probeL, notReqM)
			if bypass {
				r.Bad("C07.2", "ingest: AddRegistration reachable without the probe for a non-prescanned IPv4 phantom", add.Pos(), fnName(f),
					"the liveness probe can be bypassed for a registration that requires it: a live host's address is used as a phantom", r.blockPath(f, w)...)
			} else {
				r.OK("C07.2", "ingest: the probe is must-pass for non-prescanned IPv4 phantoms", add.Pos(), "no path to AddRegistration avoids it except PreScanned()/IPv6 edges")
			}
			// the probed address/port are the registration's phantom
			pa := argsOf(probeL.common())
			r.Check(len(pa) >= 2 && probeL.toRoot(pathOf(pa[0])) == "reg.PhantomIp.String()" && probeL.toRoot(pathOf(pa[1])) == "reg.PhantomPort", "C07.2", "ingest: the probe targets the registration's phantom address and port", probe.Pos(), fnName(f), probePath, "the liveness probe targets something other than this registration's phantom")

			// ---- C07.6 sharing
			r.Rule("C07.6", "sharing only for detector-sourced registrations with sharing enabled, after the probe, marked pre-scanned", 4)
			shareL, okShare := findOneDeep(f, shortIs("tryShareRegistrationOverAPI"))
			if okShare {
				if _, isGo := shareL.call.(*ssa.Go); !isGo {
					okShare = false
				}
			}
			if !okShare {
				r.Unk("C07.6", "ingest: go tryShareRegistrationOverAPI", f.Pos(), fnName(f), "not found")
			} else {
				share := shareL.call.(*ssa.Go)
				gs := guardedDeep(shareL, Atom{"(1 == reg.RegistrationSource)", true}) && guardedDeep(shareL, Atom{"rm.RegConfig.EnableShareOverAPI", true})
				r.Check(gs, "C07.6", "ingest: share only if source == Detector and sharing is enabled", share.Pos(), fnName(f), "guarded", "registrations from other sources (already shared, or API) are shared again: peers receive them more than once")
				okLive2, foundLive2 := neverAfter(shareL, liveM, nil)
				early := !alwaysBefore(shareL, probeL, notReqM)
				r.Check(okLive2 && foundLive2 && !early, "C07.6", "ingest: share only after the registration passed the liveness probe", share.Pos(), fnName(f), "not reachable from the live edge; probe must-pass for probe-requiring registrations",
					"a registration is passed on to peer stations (marked pre-scanned) although its phantom was live or was never probed")
				// exactly one share per call
				again, _ := reach(shareL.in, share, isInstr(share), nil, nil)
				if len(shareL.chain) > 0 {
					if a2, _ := reach(f, shareL.chain[0], isInstr(shareL.chain[0]), nil, nil); a2 {
						again = true
					}
				}
				r.Check(!again, "C07.6", "ingest: at most one share per ingested registration", share.Pos(), fnName(f), "not in a loop", "the share statement can execute more than once for one registration")
			}
		}
	}
	// the share itself is one request: no retry - a peer that was slow, or answered with an error, has already received
	// the message (and may have taken the registration over); sending it again delivers it more than once
	{
		var posts []string
		okOnce := true
		var pos token.Pos
		if root := c.P.Func(repoMod+"/"+lib, "", "tryShareRegistrationOverAPI"); root != nil && root.Blocks != nil {
			pos = root.Pos()
			eachInstrDeep(root, 2, func(in ssa.Instruction, d deepCtx) {
				call, ok := in.(*ssa.Call)
				if !ok {
					return
				}
				n := calleeName(&call.Call)
				isPost := strings.HasPrefix(n, "net/http.Post") || n == "(*net/http.Client).Post" || n == "(*net/http.Client).Do" || n == "(*net/http.Client).PostForm"
				if !isPost {
					return
				}
				posts = append(posts, fnName(d.f)+": "+shortName(n))
				// not re-executed: neither the request nor any call on the way to it sits in a loop
				if again, _ := reach(d.f, call, isInstr(call), nil, nil); again {
					okOnce = false
				}
				for i, cs := range d.chain {
					if again, _ := reach(d.fns[i], cs, isInstr(cs), nil, nil); again {
						okOnce = false
					}
				}
			})
			r.Check(okOnce && len(posts) == 1, "C07.6", "tryShareRegistrationOverAPI: exactly one HTTP request per shared registration, never repeated", pos, fnName(root), fmt.Sprint(posts),
				"the share request can be sent more than once for one registration (a retry loop, or several requests): a slow or erroring peer has already received the first one, so the registration reaches peer stations more than once")
		} else {
			r.Unk("C07.6", "tryShareRegistrationOverAPI", token.NoPos, "", "function not found")
		}
	}
	if g := c.fn("C07.6", lib, "DecoyRegistration", "GenerateC2SWrapper"); g != nil {
		nRet := 0
		okAll := true
		eachInstr(g, func(in ssa.Instruction) {
			ret, ok := in.(*ssa.Return)
			if !ok {
				return
			}
			if cst, isC := ret.Results[0].(*ssa.Const); isC && cst.Value == nil {
				return
			}
			nRet++
			// Prescanned=true stored on every path; source = DetectorPrescan
			isPre := func(in2 ssa.Instruction) bool {
				st, ok := in2.(*ssa.Store)
				if !ok {
					return false
				}
				_, fld, ok := fieldOwner(st.Addr)
				return ok && fld == "Prescanned" && strings.Contains(pathOf(st.Val), "proto.Bool(true)")
			}
			if skip, _ := reach(g, nil, isInstr(ret), isPre, nil); skip {
				okAll = false
			}
			src := false
			eachInstr(g, func(in2 ssa.Instruction) {
				if st, ok := in2.(*ssa.Store); ok {
					if _, fld, ok := fieldOwner(st.Addr); ok && fld == "RegistrationSource" {
						// pointer to a local holding DetectorPrescan
						if a, ok := st.Val.(*ssa.Alloc); ok {
							for _, ref := range *a.Referrers() {
								if s2, ok := ref.(*ssa.Store); ok && s2.Addr == ssa.Value(a) {
									if cv, ok := constOf(s2.Val); ok && cv.ExactString() == constIntOf(c.P, repoMod+"/proto", "RegistrationSource_DetectorPrescan") {
										src = true
									}
								}
							}
						}
					}
				}
			})
			if !src {
				okAll = false
			}
			twin := guarded(g, ret, Atom{"(" + orderEq("nil", "reg.PhantomIp.To4()") + ")", false}, Atom{"reg.originalC2S.GetV4Support()", false})
			if !twin {
				okAll = false
			}
		})
		r.Check(okAll && nRet == 1, "C07.6", "GenerateC2SWrapper: shared wrapper is marked pre-scanned, sourced DetectorPrescan, and suppressed for the IPv6 twin", g.Pos(), fnName(g), "must-pass Prescanned=true; source constant; twin guard",
			"the wrapper shared with peer stations is not marked pre-scanned / DetectorPrescan on every path, or the IPv6 twin of a dual-stack registration is shared too (peers re-probe, re-share, or receive it twice)")
	}

	// ---- C07.8 the known generations are exactly those of the current subnet file: a reload replaces the selector as
	// a whole, and nothing in the station edits the generations of the live selector
	checkSelectorReplaced(c, "C07.8")
	// ---- C07.3
	r.Rule("C07.3", "ValidateRegistration rejects incomplete, unknown-transport and blocklisted registrations", 6)
	if v := c.fn("C07.3", lib, "RegistrationManager", "ValidateRegistration"); v != nil {
		var okRet *ssa.Return
		eachInstr(v, func(in ssa.Instruction) {
			if ret, ok := in.(*ssa.Return); ok {
				if cv, isC := constOf(ret.Results[0]); isC && cv.String() == "true" {
					okRet = ret
				}
			}
		})
		if okRet == nil {
			r.Unk("C07.3", "ValidateRegistration: success return", v.Pos(), fnName(v), "not found")
		} else {
			for _, a := range []struct {
				atom Atom
				what string
			}{
				{Atom{"(nil == reg)", false}, "a nil registration"},
				{Atom{"(nil == reg.Keys)", false}, "missing keys"},
				{Atom{"(nil == reg.PhantomIp)", false}, "a missing phantom address"},
				{Atom{"(nil == reg.RegistrationSource)", false}, "a missing registration source"},
				{Atom{"regManager.registeredDecoys.transports[reg.Transport]#1", true}, "a transport that is not enabled"},
			} {
				r.Check(guarded(v, okRet, a.atom), "C07.3", "ValidateRegistration: rejects "+a.what, okRet.Pos(), fnName(v), "success dominated by "+a.atom.String(),
					"ValidateRegistration accepts "+a.what+": an incomplete registration becomes usable (and later dereferences panic)")
			}
			// blocklisted phantom: success unreachable from (source != Detector && blocklisted)
			bl := edgesEstablishing(v, atomMatcher(Atom{"regManager.RegConfig.IsBlocklistedPhantom(reg.PhantomIp)", true}))
			okB := len(bl) > 0
			for e := range bl {
				succ := v.Blocks[e.from].Succs[e.slot]
				if len(succ.Instrs) > 0 {
					if hit, _ := reachAt(v, succ, isInstr(okRet), nil, nil); hit || succ.Instrs[0] == ssa.Instruction(okRet) {
						okB = false
					}
				}
			}
			// and the blocklist test is reached whenever source != Detector
			nd := edgesEstablishing(v, atomMatcher(Atom{"(1 == reg.RegistrationSource)", false}))
			for e := range nd {
				succ := v.Blocks[e.from].Succs[e.slot]
				if len(succ.Instrs) > 0 {
					isBL := func(in ssa.Instruction) bool {
						call, ok := in.(*ssa.Call)
						return ok && calleeShort(&call.Call) == "IsBlocklistedPhantom"
					}
					if hit, _ := reachAt(v, succ, isInstr(okRet), isBL, nil); hit {
						okB = false
					}
				}
			}
			// ... for EVERY source other than the local detector: with the edges that establish "source == Detector"
			// removed, success is not reachable around the blocklist test
			{
				isDet := edgesEstablishing(v, atomMatcher(Atom{"(1 == reg.RegistrationSource)", true}))
				isBL := func(in ssa.Instruction) bool {
					call, ok := in.(*ssa.Call)
					return ok && calleeShort(&call.Call) == "IsBlocklistedPhantom"
				}
				if hit, _ := reach(v, nil, isInstr(okRet), isBL, isDet); hit {
					okB = false
				}
			}
			r.Check(okB && len(nd) > 0, "C07.3", "ValidateRegistration: rejects blocklisted phantoms for non-detector sources", okRet.Pos(), fnName(v), "blocklist test must-pass on the source != Detector edge; its true edge never reaches success",
				"a registration from a registrar for a blocklisted phantom is accepted")
		}
	}

	// ---- C07.12 "at most once per client registration" / "a probe is sent only when one is required": a delivery is
	// tracked before it is probed or shared, so that a second delivery of the same registration that arrives while the
	// probe is in flight is recognised as a duplicate (it neither probes nor shares again)
	r.Rule("C07.12", "a delivery is tracked before its liveness probe and before it is shared", 1)
	if f := c.fn("C07.12", lib, "RegistrationManager", "ingestRegistration"); f != nil {
		trackSites := map[ssa.Instruction]bool{}
		for _, l := range findDeep(f, shortIs("TrackRegistration", "TrackRegIfNotExists"), 2) {
			trackSites[l.site()] = true
		}
		if len(trackSites) == 0 {
			r.Unk("C07.12", "ingestRegistration: TrackRegistration", f.Pos(), fnName(f), "call not found")
		} else {
			n := 0
			for _, what := range []string{"PhantomIsLive", "tryShareRegistrationOverAPI"} {
				for _, l := range findDeep(f, shortIs(what), 2) {
					n++
					tgt := l.site()
					ff := f
					sites := trackSites
					if l.in != f {
						// probe and tracking call moved into the same helper together: decide the order there
						local := map[ssa.Instruction]bool{}
						for _, ci := range callsIn(l.in, shortIs("TrackRegistration", "TrackRegIfNotExists")) {
							local[ci.(ssa.Instruction)] = true
						}
						if len(local) > 0 {
							ff, sites, tgt = l.in, local, l.call
						}
					}
					early, w := reach(ff, nil, isInstr(tgt), inSet(sites), nil)
					if early {
						r.Bad("C07.12", "ingestRegistration: "+what+" reachable before the delivery is tracked", tgt.Pos(), fnName(f),
							"the registration is not in the table while its probe is outstanding: a second delivery of the same registration is not recognised as a duplicate, runs its own probe and is shared with the peers a second time", r.blockPath(ff, w)...)
					} else {
						r.OK("C07.12", "ingestRegistration: tracked before "+what, tgt.Pos(), "must-pass")
					}
				}
			}
			if n == 0 {
				r.Unk("C07.12", "ingestRegistration: probe / share", f.Pos(), fnName(f), "neither PhantomIsLive nor the share call found")
			}
		}
	}
	// ---- C07.14 "the phantom did not answer the liveness probe": a verdict of 'live' stops the registration, whatever comes
	// with it (the cached-verdict sentinel is returned with live and with non-live answers alike): from the probe the
	// admission is unreachable once the edges on which the verdict is false are taken away
	r.Rule("C07.14", "a registration whose probe answered 'live' is never admitted, whatever error value came with the verdict", 1)
	if f := c.fn("C07.14", lib, "RegistrationManager", "ingestRegistration"); f != nil {
		n := 0
		for _, l := range findDeep(f, shortIs("PhantomIsLive"), 2) {
			if len(l.chain) > 0 {
				continue // judged in the helper by the same rule when the helper is the root
			}
			probe, ok := l.call.(*ssa.Call)
			if !ok {
				continue
			}
			n++
			vp := pathOf(probe) + "#0"
			notLive := edgesEstablishing(f, func(cnd string, pol bool) bool { return cnd == vp && !pol })
			isAdmit := func(in ssa.Instruction) bool {
				ci, ok := in.(ssa.CallInstruction)
				return ok && (calleeShort(ci.Common()) == "AddRegistration" || calleeShort(ci.Common()) == "tryShareRegistrationOverAPI")
			}
			slip, w := reach(f, probe, isAdmit, nil, notLive)
			if slip {
				r.Bad("C07.14", "ingestRegistration: admission reachable from the probe without the verdict being 'not live'", probe.Pos(), fnName(f),
					"after the liveness probe the registration can be admitted (or shared) on a path that never established live == false - for instance because the error value that came with the verdict is looked at first: a phantom that is cached as live is validated and announced", r.blockPath(f, w)...)
			} else {
				r.OK("C07.14", "ingestRegistration: admission only behind live == false", probe.Pos(), "unreachable from the probe once the not-live edges are removed")
			}
		}
		if n == 0 {
			if _, ok := findOneDeep(f, shortIs("PhantomIsLive")); ok {
				r.OK("C07.14", "ingestRegistration: the probe sits in a helper of the package", f.Pos(), "the handling of its verdict is decided there by C07.1 / C07.2 (phase-split queries); this rule only reads the inlined form")
			} else {
				r.Unk("C07.14", "ingestRegistration: probe call", f.Pos(), fnName(f), "PhantomIsLive is not called by ingestRegistration or a helper of its package")
			}
		}
	}

	// ---- C07.13 "marked as pre-scanned": in the message built for the peers nothing is merged over the flags after the
	// mark was set (proto.Merge lets a field set in the source win: a client-written prescanned=false would undo it)
	r.Rule("C07.13", "nothing is merged into the shared message's flags after the pre-scanned mark is set", 1)
	if f := c.fn("C07.13", lib, "DecoyRegistration", "GenerateC2SWrapper"); f != nil {
		var marks []ssa.Instruction
		eachInstr(f, func(in ssa.Instruction) {
			if st, ok := in.(*ssa.Store); ok {
				if o, fld, ok := fieldOwner(st.Addr); ok && o == "proto.RegistrationFlags" && fld == "Prescanned" {
					marks = append(marks, in)
				}
			}
		})
		if len(marks) == 0 {
			r.Unk("C07.13", "GenerateC2SWrapper: Prescanned store", f.Pos(), fnName(f), "not found")
		}
		isMerge := func(in ssa.Instruction) bool {
			call, ok := in.(*ssa.Call)
			if !ok {
				return false
			}
			n := calleeName(&call.Call)
			if !strings.HasSuffix(n, "proto.Merge") && !strings.HasSuffix(n, "proto.Unmarshal") && !strings.HasSuffix(n, ".UnmarshalMerge") {
				return false
			}
			return len(call.Call.Args) > 0 && (strings.Contains(typeShort(stripConv(call.Call.Args[0]).Type()), "RegistrationFlags") || strings.Contains(typeShort(stripConv(call.Call.Args[0]).Type()), "ClientToStation"))
		}
		for _, m := range marks {
			over, w := reach(f, m, isMerge, nil, nil)
			if over {
				r.Bad("C07.13", "GenerateC2SWrapper: a merge into the flags follows the pre-scanned mark", m.Pos(), fnName(f),
					"after Prescanned was set, another message is merged into the flags: a field set in the merged message wins, so a client that wrote prescanned=false has its registration shared unmarked and the peer probes it again", r.blockPath(f, w)...)
			} else {
				r.OK("C07.13", "GenerateC2SWrapper: the pre-scanned mark is the last word on the flags", m.Pos(), "no proto.Merge / Unmarshal into the flags reachable after the store")
			}
		}
	}

	// ---- C07.4 family gates
	r.Rule("C07.4", "family gates and the IPv6-registrant / IPv4-phantom rejection", 3)
	// the switches the gates read are the operator's: nothing in the program sets enable_v4 / enable_v6 (a "neither is
	// set, serve both" default, a reload that flips one) - a station with a family disabled would serve it
	{
		nW := 0
		for _, g := range c.P.RepoFuncs() {
			for _, fld := range []string{"EnableIPv4", "EnableIPv6"} {
				for _, st := range fieldStores(g, "lib.RegConfig", fld) {
					if fa, ok := st.Addr.(*ssa.FieldAddr); ok {
						if al, isA := fa.X.(*ssa.Alloc); isA && freshRoot(al, g) && strings.HasSuffix(pathOf(st.Val), "."+fld) {
							continue // a copy of a configuration, field by field
						}
					}
					nW++
					r.Bad("C07.4", fnName(g)+": writes RegConfig."+fld, st.Pos(), fnName(g), "the address-family switch "+fld+" is set by the program ("+firstN(pathOf(st.Val), 40)+"), not by the configuration: registrations of a family the operator disabled become connectable and are announced")
				}
			}
		}
		if nW == 0 {
			r.OK("C07.4", "RegConfig.EnableIPv4 / EnableIPv6 have no writer in the program", token.NoPos, "only the configuration decoder sets them")
		}
	}
	if p := c.fn("C07.4", lib, "RegistrationManager", "parseRegMessage"); p != nil {
		n := 0
		for _, ci := range callsIn(p, shortIs("NewRegistrationC2SWrapper")) {
			call := ci.(*ssa.Call)
			a := argsOf(&call.Call)
			cv, isC := constOf(a[1])
			if !isC {
				r.Unk("C07.4", "parseRegMessage: includeV6 argument", call.Pos(), fnName(p), "not a constant")
				continue
			}
			n++
			w := pathOf(a[0])
			if cv.String() == "false" {
				g := guarded(p, call, Atom{w + ".GetRegistrationPayload().GetV4Support()", true}) && guarded(p, call, Atom{"rm.RegConfig.EnableIPv4", true}) &&
					guardedM(p, call, func(cnd string, pol bool) bool {
						return !pol && strings.HasSuffix(cnd, ".GetRegistrationAddress().To4() == nil)") || !pol && strings.HasSuffix(cnd, ".To4() == nil)") && strings.Contains(cnd, "RegistrationAddress")
					})
				r.Check(g, "C07.4", "parseRegMessage: IPv4 registration only with client v4 support, station IPv4 enabled and an IPv4 registrant", call.Pos(), fnName(p), "three guards",
					"an IPv4 registration is created although the client did not ask for it, the station has IPv4 disabled, or the registrant is IPv6 (the detector then has no client address to match)")
			} else {
				g := guarded(p, call, Atom{w + ".GetRegistrationPayload().GetV6Support()", true}) && guarded(p, call, Atom{"rm.RegConfig.EnableIPv6", true})
				r.Check(g, "C07.4", "parseRegMessage: IPv6 registration only with client v6 support and station IPv6 enabled", call.Pos(), fnName(p), "two guards",
					"an IPv6 registration is created although the client did not ask for it or the station has IPv6 disabled")
			}
		}
		if n < 2 {
			r.Unk("C07.4", "parseRegMessage: two per-family constructions", p.Pos(), fnName(p), fmt.Sprintf("found %d", n))
		}
	}
	checkFamilyRejection(c, "C07.4")

	// ---- C07.5 error discipline
	r.Rule("C07.5", "NewRegistration succeeds only if every derivation succeeded", 5)
	if n := c.fn("C07.5", lib, "RegistrationManager", "NewRegistration"); n != nil {
		var okRet *ssa.Return
		eachInstr(n, func(in ssa.Instruction) {
			if ret, ok := in.(*ssa.Return); ok && len(ret.Results) == 2 {
				if cst, isC := ret.Results[1].(*ssa.Const); isC && cst.Value == nil {
					okRet = ret
				}
			}
		})
		if okRet == nil {
			r.Unk("C07.5", "NewRegistration: success return", n.Pos(), fnName(n), "not found")
		} else {
			for _, name := range []string{"Select", "getTransportParams", "getPhantomDstPort", "getTransportProto"} {
				var call *ssa.Call
				for _, ci := range callsIn(n, shortIs(name)) {
					call = ci.(*ssa.Call)
				}
				if call == nil {
					r.Bad("C07.5", "NewRegistration: does not call "+name, n.Pos(), fnName(n), "the registration is built without "+name)
					continue
				}
				r.Check(guarded(n, okRet, errAtoms(call, true)...), "C07.5", "NewRegistration: success only if "+name+" returned no error", okRet.Pos(), fnName(n), "dominated by err == nil",
					"the error of "+name+" is ignored: a registration with a zero/garbage phantom, port or parameters becomes usable")
			}
			r.Check(guarded(n, okRet, Atom{"rm.registeredDecoys.transports[c2s.GetTransport()]#1", true}), "C07.5", "NewRegistration: success only for a known transport", okRet.Pos(), fnName(n), "dominated by the map lookup's ok", "a registration for an unknown transport is built")
		}
	}

	// ---- C07.7
	r.Rule("C07.7", "registrations are announced only through register", 1)
	{
		n := 0
		for _, fn := range c.P.RepoFuncs() {
			for range callsIn(fn, shortIs("sendToDetector")) {
				n++
				encl := fn
				for encl.Parent() != nil {
					encl = encl.Parent()
				}
				okk := encl.Name() == "NewRegisteredDecoys"
				if !okk && fn.Parent() == nil {
					// a named function instead of a closure: it must be one of the two functions NewRegisteredDecoys
					// installs in registerForDetector / updateInDetector, and be used nowhere else
					if nrd := c.P.Func(repoMod+"/"+lib, "", "NewRegisteredDecoys"); nrd != nil {
						installed := false
						for _, fld := range []string{"registerForDetector", "updateInDetector"} {
							for _, st := range fieldStores(nrd, "lib.RegisteredDecoys", fld) {
								if g, isFn := stripConv(st.Val).(*ssa.Function); isFn && g == fn {
									installed = true
								}
							}
						}
						sites, _ := callersOf(fn)
						okk = installed && len(sites) == 0
					}
				}
				r.Check(okk, "C07.7", fnName(fn)+": sendToDetector only from the functions installed by NewRegisteredDecoys", fn.Pos(), fnName(fn), "reviewed", "a detector announcement is sent outside the register/markActive path")
			}
		}
		if n == 0 {
			r.Unk("C07.7", "sendToDetector call sites", token.NoPos, "", "none found")
		}
	}
}

// checkFamilyRejection: NewRegistrationC2SWrapper never returns a registration whose (final) phantom is IPv4 while
// the registrant is IPv6. Shared by C07.4 (admission) and C10.5 (the detector accepts an IPv4 phantom only with an
// IPv4 client, so every announcement's acceptability rests on this admission test seeing the final phantom).
func checkFamilyRejection(c *Ctx, rule string) {
	r := c.R
	const lib = "pkg/station/lib"
	if w := c.fn(rule, lib, "RegistrationManager", "NewRegistrationC2SWrapper"); w != nil {
		eachInstr(w, func(in ssa.Instruction) {
			ret, ok := in.(*ssa.Return)
			if !ok {
				return
			}
			if cst, isC := ret.Results[0].(*ssa.Const); isC && cst.Value == nil {
				return
			}
			// the rejection: phantom is v4 && client is not v4 -> error. Success must not be reachable from that edge pair.
			rp := pathOf(ret.Results[0])
			rej := edgesEstablishing(w, func(cnd string, pol bool) bool {
				return pol && strings.HasSuffix(cnd, "c2sw.GetRegistrationAddress().To4() == nil)")
			})
			v4ph := edgesEstablishing(w, func(cnd string, pol bool) bool {
				return !pol && strings.Contains(cnd, rp+".PhantomIp.To4()") && strings.Contains(cnd, "nil")
			})
			okR := len(rej) > 0 && len(v4ph) > 0
			for e := range rej {
				// from the "client not v4" edge (which is only evaluated under "phantom is v4"), success must be unreachable
				succ := w.Blocks[e.from].Succs[e.slot]
				if !w.Blocks[e.from].Dominates(succ) {
					continue
				}
				isV4PhBlock := false
				for e2 := range v4ph {
					if w.Blocks[e2.from].Succs[e2.slot] == w.Blocks[e.from] {
						isV4PhBlock = true
					}
				}
				if !isV4PhBlock {
					okR = false
				}
				if len(succ.Instrs) > 0 {
					if hit, _ := reachAt(w, succ, isInstr(ret), nil, nil); hit {
						okR = false
					}
				}
			}
			// and the test is must-pass before success
			isTest := func(in2 ssa.Instruction) bool {
				call, ok := in2.(*ssa.Call)
				return ok && calleeName(&call.Call) == "(net.IP).To4" && strings.HasSuffix(pathOf(call.Call.Args[0]), ".PhantomIp")
			}
			if skip, _ := reach(w, nil, isInstr(ret), isTest, nil); skip {
				okR = false
			}
			// the test must see the FINAL phantom: no store to the phantom address is reachable after it
			eachInstr(w, func(in2 ssa.Instruction) {
				if !isTest(in2) {
					return
				}
				for _, st := range fieldStores(w, "lib.DecoyRegistration", "PhantomIp") {
					if late, _ := reach(w, in2, isInstr(st), nil, nil); late {
						okR = false
						r.Bad(rule, "NewRegistrationC2SWrapper: the phantom address is replaced after the family test", st.Pos(), fnName(w),
							"the IPv6-registrant / IPv4-phantom rejection is evaluated before the registrar's address override is applied: an override that carries an IPv4 address for an IPv6 registrant yields a registration the detector rejects (and one of a family the station may have disabled)")
					}
				}
			})
			r.Check(okR, rule, "NewRegistrationC2SWrapper: no registration is returned for an IPv6 registrant with an IPv4 phantom", ret.Pos(), fnName(w), "test must-pass; its reject edge never reaches success",
				"a registration whose phantom is IPv4 while the registrant is IPv6 is returned: the detector rejects its announcement (IPv4 phantom needs an IPv4 client) and the session never forwards")
		})
	}

}

// checkProbeVerdict (C07.9): "the phantom did not answer the liveness probe" - the probe reports "not live" only when
// no attempt reported before the deadline or the reported outcome is a timeout; any other outcome (a completed
// handshake, a refusal, an unreachable answer) is an answer.
func checkProbeVerdict(c *Ctx) {
	r := c.R
	r.Rule("C07.9", "the probe answers 'not live' only on silence: no report before the deadline, or a timeout", 1)
	f := c.fn("C07.9", "pkg/station/liveness", "", "phantomIsLive")
	if f == nil {
		return
	}
	n := 0
	eachInstr(f, func(in ssa.Instruction) {
		ret, ok := in.(*ssa.Return)
		if !ok || len(ret.Results) != 2 || ret.Block().Comment == "recover" {
			return
		}
		cv, isC := constOf(returnedValue(ret, 0, nil))
		if !isC {
			n++
			r.Bad("C07.9", "phantomIsLive: computed verdict", ret.Pos(), fnName(f), "the verdict "+firstN(pathOf(ret.Results[0]), 50)+" is not a constant under a decided condition")
			return
		}
		if cv.String() != "false" {
			return
		}
		n++
		g := guardedM(f, ret, func(cnd string, pol bool) bool {
			switch {
			case strings.HasPrefix(cnd, "(0 == select:") && strings.HasSuffix(cnd, "#0)"):
				return !pol // the default case of the non-blocking receive: nothing reported before the deadline
			case strings.HasSuffix(cnd, ".(net.Error)#0.Timeout()"):
				return pol
			}
			return false
		})
		r.Check(g, "C07.9", "phantomIsLive: 'not live' only when nothing was reported or the report is a timeout", ret.Pos(), fnName(f), "guarded by the select default or net.Error.Timeout()",
			"the probe reports 'not live' for an outcome that is an answer (a refused or unreachable connection comes back before the deadline because a host is there): the registration is admitted and announced although its phantom address is in use")
	})
	if n == 0 {
		r.Unk("C07.9", "phantomIsLive: not-live returns", f.Pos(), fnName(f), "no return of a false verdict found")
	}
}

// checkPhantomBlocklistAllSources (C19.8, the same condition C07.3 includes): the phantom blocklist stands between every
// registration and validation unless the registration comes from the local detector (whose own check is late in ingest).
func checkPhantomBlocklistAllSources(c *Ctx, rule string) {
	r := c.R
	v := c.fn(rule, "pkg/station/lib", "RegistrationManager", "ValidateRegistration")
	if v == nil {
		return
	}
	var okRet *ssa.Return
	eachInstr(v, func(in ssa.Instruction) {
		if ret, ok := in.(*ssa.Return); ok {
			if cv, isC := constOf(ret.Results[0]); isC && cv.String() == "true" {
				okRet = ret
			}
		}
	})
	if okRet == nil {
		r.Unk(rule, "ValidateRegistration: success return", v.Pos(), fnName(v), "not found")
		return
	}
	isDet := edgesEstablishing(v, atomMatcher(Atom{"(1 == reg.RegistrationSource)", true}))
	isBL := func(in ssa.Instruction) bool {
		call, ok := in.(*ssa.Call)
		return ok && calleeShort(&call.Call) == "IsBlocklistedPhantom"
	}
	hit, w := reach(v, nil, isInstr(okRet), isBL, isDet)
	if hit {
		r.Bad(rule, "ValidateRegistration: the phantom blocklist can be skipped for a source other than the local detector", okRet.Pos(), fnName(v),
			"a registration whose source is not the local detector can be validated without the phantom blocklist test (the late check in ingest only covers the local detector): an accepted phantom_blocklist entry is not enforced for that source", r.blockPath(v, w)...)
	} else {
		r.OK(rule, "ValidateRegistration: every source but the local detector passes the phantom blocklist", okRet.Pos(), "success unreachable around IsBlocklistedPhantom once the source == Detector edges are removed")
	}
}

// checkSelectorReplaced (C07.8, C01.11): a successful reload replaces the phantom selector as a whole.
func checkSelectorReplaced(c *Ctx, rule string) {
	r := c.R
	r.Rule(rule, "a successful reload replaces the phantom selector as a whole; the station never edits the generations of the live selector", 2)
	if f := c.fn(rule, "pkg/station/lib", "RegistrationManager", "OnReload"); f != nil {
		var newSel *ssa.Call
		for _, ci := range callsIn(f, shortIs("NewPhantomIPSelector")) {
			newSel, _ = ci.(*ssa.Call)
		}
		if newSel == nil {
			r.Unk(rule, "OnReload: NewPhantomIPSelector", f.Pos(), fnName(f), "call not found")
		} else {
			var store *ssa.Store
			for _, st := range fieldStores(f, "lib.RegistrationManager", "PhantomSelector") {
				if ex, ok := stripConv(st.Val).(*ssa.Extract); ok && ex.Tuple == ssa.Value(newSel) && ex.Index == 0 {
					store = st
				}
			}
			okk := store != nil
			if okk {
				// from the "loaded" edge the store cannot be skipped
				okEdges := edgesEstablishing(f, atomMatcher(errAtoms(newSel, true)...))
				okk = len(okEdges) > 0
				for e := range okEdges {
					succ := f.Blocks[e.from].Succs[e.slot]
					if skip, _ := reachAt(f, succ, isReturn, isInstr(store), nil); skip {
						okk = false
					}
				}
			}
			pos := f.Pos()
			if store != nil {
				pos = store.Pos()
			}
			r.Check(okk, rule, "OnReload: PhantomSelector = the newly loaded selector, whenever it loaded", pos, fnName(f), "store of NewPhantomIPSelector()#0, must-pass from err == nil",
				"after a successful reload the station keeps (part of) the previous selector: generations that were removed from the subnet file stay known and registrations naming them are still admitted")
		}
	}
	{
		var bad []string
		var pos token.Pos
		n := 0
		for _, f := range c.P.RepoFuncs() {
			pp := fnPkgPath(f)
			if !strings.HasPrefix(pp, repoMod+"/pkg/station/") && !strings.HasPrefix(pp, repoMod+"/cmd/") {
				continue
			}
			n++
			for _, ci := range callsIn(f, shortIs("AddGeneration", "UpdateGeneration", "RemoveGeneration")) {
				if rv := recvOf(ci.Common()); rv != nil && strings.HasSuffix(typeShort(rv.Type()), "phantoms.PhantomIPSelector") {
					bad = append(bad, fnName(f)+": "+calleeShort(ci.Common()))
					pos = ci.Pos()
				}
			}
		}
		sort.Strings(bad)
		r.Check(len(bad) == 0 && n > 0, rule, "station code never adds, updates or removes a generation of a live selector", pos, "", fmt.Sprintf("%d station functions scanned", n),
			"the set of known generations is edited in place ("+firstN(strings.Join(bad, ", "), 120)+"): it is no longer the set named by the current subnet file")
	}

}
