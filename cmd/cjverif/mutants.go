package main

import (
	"context"
	"encoding/json"
	"flag"
	"fmt"
	"os"
	"os/exec"
	"path/filepath"
	"sort"
	"strings"
	"sync"
	"time"
	"unicode/utf8"
)

// Mutant is a single-edit variant of today's source used to test the checker
// itself (never the repository): applied through an analysis-time overlay.
type Mutant struct {
	ID       string `json:"id"`
	Property string `json:"property"`
	File     string `json:"file"` // relative to the repo
	Old      string `json:"old"`
	New      string `json:"new"`
	Expect   string `json:"expect"` // substring that must occur in a reported finding key/rule
	Note     string `json:"note,omitempty"`
	// Rename: a consistent identifier rename over the whole file (gofmt -r 'from -> to'): a behaviour-preserving
	// edit used as a negative control for name-dependence of the rules.
	Rename *struct {
		From string `json:"from"`
		To   string `json:"to"`
	} `json:"rename,omitempty"`
	// Edits allows multi-site variants (two cooperating sites).
	Edits []struct {
		File string `json:"file"`
		Old  string `json:"old"`
		New  string `json:"new"`
	} `json:"edits,omitempty"`
}

func loadMutants(vdir string) ([]Mutant, error) {
	var all []Mutant
	files, _ := filepath.Glob(filepath.Join(vdir, "mutants", "*.json"))
	sort.Strings(files)
	for _, f := range files {
		b, err := os.ReadFile(f)
		if err != nil {
			return nil, err
		}
		var ms []Mutant
		if err := json.Unmarshal(b, &ms); err != nil {
			return nil, fmt.Errorf("%s: %w", f, err)
		}
		all = append(all, ms...)
	}
	return all, nil
}

type mutantResult struct {
	ID     string `json:"id"`
	Status string `json:"status"` // detected | missed | skipped | invalid
	Detail string `json:"detail,omitempty"`
}

func runOneMutant(exe, vdir, repo string, m Mutant) mutantResult {
	type ed struct{ file, old, new string }
	var edits []ed
	if m.File != "" && m.Rename == nil {
		edits = append(edits, ed{m.File, m.Old, m.New})
	}
	for _, e := range m.Edits {
		edits = append(edits, ed{e.File, e.Old, e.New})
	}
	content := map[string]string{}
	for _, e := range edits {
		cur, ok := content[e.file]
		if !ok {
			b, err := os.ReadFile(filepath.Join(repo, e.file))
			if err != nil {
				return mutantResult{m.ID, "skipped", "file missing: " + e.file}
			}
			cur = string(b)
		}
		if strings.Count(cur, e.old) != 1 {
			return mutantResult{m.ID, "skipped", fmt.Sprintf("old text occurs %d times in %s (tree changed)", strings.Count(cur, e.old), e.file)}
		}
		content[e.file] = strings.Replace(cur, e.old, e.new, 1)
	}
	if m.Rename != nil {
		out, err := exec.Command("gofmt", "-r", m.Rename.From+" -> "+m.Rename.To, filepath.Join(repo, m.File)).Output()
		if err != nil {
			return mutantResult{m.ID, "skipped", "gofmt -r failed: " + err.Error()}
		}
		if string(out) == "" || !strings.Contains(string(out), m.Rename.To) {
			return mutantResult{m.ID, "skipped", "identifier " + m.Rename.From + " not found (tree changed)"}
		}
		content[m.File] = string(out)
	}
	var args []string
	args = append(args, "check", "-property", m.Property, "-repo", repo, "-no-evidence")
	var tmps []string
	defer func() {
		for _, t := range tmps {
			os.Remove(t)
		}
	}()
	for file, txt := range content {
		tf, err := os.CreateTemp("", "cjverif-mut-*.go")
		if err != nil {
			return mutantResult{m.ID, "skipped", err.Error()}
		}
		tf.WriteString(txt)
		tf.Close()
		tmps = append(tmps, tf.Name())
		args = append(args, "-overlay", file+"="+tf.Name())
	}
	ctx, cancel := context.WithTimeout(context.Background(), 3*time.Minute)
	defer cancel()
	cmd := exec.CommandContext(ctx, exe, args...)
	cmd.Env = append(os.Environ(), "VERIF_DIR="+vdir, "CJVERIF_MUTANT=1")
	out, err := cmd.CombinedOutput()
	if ctx.Err() != nil {
		return mutantResult{m.ID, "invalid", "analysis of the variant timed out (checker bug)"}
	}
	code := 0
	if err != nil {
		if ee, ok := err.(*exec.ExitError); ok {
			code = ee.ExitCode()
		} else {
			return mutantResult{m.ID, "skipped", err.Error()}
		}
	}
	s := string(out)
	if m.Expect == "NONE" {
		// negative control: a behaviour-preserving (or requirement-relaxing) variant on which the check must stay silent
		switch code {
		case 0:
			return mutantResult{m.ID, "silent", "negative control: no alarm, as required"}
		case 1:
			return mutantResult{m.ID, "falsealarm", "negative control raised an alarm: " + firstLines(s, 3)}
		default:
			return mutantResult{m.ID, "invalid", "variant does not load/type-check: " + firstLines(s, 3)}
		}
	}
	switch code {
	case 2:
		return mutantResult{m.ID, "invalid", "variant does not load/type-check: " + firstLines(s, 3)}
	case 1:
		for _, line := range strings.Split(s, "\n") {
			if (strings.Contains(line, "violated") || strings.Contains(line, "undecided")) && strings.Contains(line, m.Expect) {
				return mutantResult{m.ID, "detected", strings.TrimSpace(firstN(line, 240))}
			}
		}
		return mutantResult{m.ID, "missed", "violation reported but not by " + m.Expect + ": " + firstLines(s, 3)}
	default:
		return mutantResult{m.ID, "missed", "no violation reported"}
	}
}

func firstN(s string, n int) string {
	if len(s) > n {
		for n > 0 && !utf8.RuneStart(s[n]) {
			n--
		}
		return s[:n] + "…"
	}
	return s
}

func firstLines(s string, n int) string {
	ls := strings.Split(strings.TrimSpace(s), "\n")
	if len(ls) > n {
		ls = ls[:n]
	}
	return firstN(strings.Join(ls, " / "), 400)
}

// runMutants runs the property's variants (≤4 in parallel, one program in memory per subprocess).
// Informational: results go into the evidence and never change the exit code.
func runMutants(vdir, repo, prop string) map[string]any {
	if os.Getenv("CJVERIF_MUTANT") != "" {
		return nil
	}
	ms, err := loadMutants(vdir)
	if err != nil {
		return map[string]any{"error": err.Error()}
	}
	exe, err := os.Executable()
	if err != nil {
		return map[string]any{"error": err.Error()}
	}
	var mine []Mutant
	only := os.Getenv("CJVERIF_ONLY")
	for _, m := range ms {
		if only != "" && !strings.Contains(m.ID, only) {
			continue
		}
		if m.Property == prop {
			mine = append(mine, m)
		}
	}
	results := make([]mutantResult, len(mine))
	sem := make(chan struct{}, 4)
	var wg sync.WaitGroup
	for i, m := range mine {
		wg.Add(1)
		go func(i int, m Mutant) {
			defer wg.Done()
			sem <- struct{}{}
			defer func() { <-sem }()
			results[i] = runOneMutant(exe, vdir, repo, m)
			fmt.Fprintf(os.Stderr, "  .. %s %s\n", m.ID, results[i].Status)
		}(i, m)
	}
	wg.Wait()
	counts := map[string]int{}
	for _, r := range results {
		counts[r.Status]++
		fmt.Printf("  mutant %-28s %-8s %s\n", r.ID, r.Status, firstN(r.Detail, 160))
	}
	return map[string]any{"variants": len(mine), "detected": counts["detected"], "missed": counts["missed"], "skipped": counts["skipped"], "invalid": counts["invalid"],
		"negative_controls_silent": counts["silent"], "negative_controls_false_alarm": counts["falsealarm"], "results": results,
		"note": "informational self-test of the checker on single-edit variants of today's source (analysis-time overlay; nothing is written to the repository); does not affect the exit code"}
}

func cmdSelftest(args []string) int {
	fs := flag.NewFlagSet("selftest", flag.ExitOnError)
	prop := fs.String("property", "", "property id (empty = all)")
	repo := fs.String("repo", "/repo", "repo")
	_ = fs.Parse(args)
	vdir := verifDir()
	var props []string
	if *prop != "" {
		props = strings.Split(*prop, ",")
	} else {
		for id := range properties {
			props = append(props, id)
		}
		sort.Strings(props)
	}
	bad := 0
	for _, p := range props {
		fmt.Println("==", p)
		res := runMutants(vdir, *repo, p)
		if res == nil {
			continue
		}
		if sr := runSeeds(vdir, *repo, p); sr != nil {
			if n, _ := sr["missed"].(int); n > 0 {
				bad += n
			}
			if n, _ := sr["invalid"].(int); n > 0 {
				bad += n
			}
		}
		if rr := runRefactors(vdir, *repo, p); rr != nil {
			if n, _ := rr["false_alarm"].(int); n > 0 {
				bad += n
			}
		}
		if n, _ := res["missed"].(int); n > 0 {
			bad += n
		}
		if n, _ := res["invalid"].(int); n > 0 {
			bad += n
		}
		if n, _ := res["negative_controls_false_alarm"].(int); n > 0 {
			bad += n
		}
	}
	if bad > 0 {
		fmt.Printf("selftest: %d variant(s) missed or invalid\n", bad)
		return 1
	}
	return 0
}

// ---------------------------------------------------------------------------
// Replay of the kept seeded changes (/verif/seeded/<id>): each patch is applied to scratch copies of the files
// it touches (outside the repository) and analysed through the overlay. Informational, like the mutants.

type seedResult struct {
	ID       string `json:"id"`
	Status   string `json:"status"` // detected | missed | documented-miss | skipped | invalid
	Expected string `json:"expected_by,omitempty"`
	Detail   string `json:"detail,omitempty"`
}

func runOneSeed(exe, vdir, repo, prop, dir string) seedResult {
	id := filepath.Base(dir)
	var meta struct {
		Property   string `json:"property"`
		DetectedBy string `json:"detected_by"`
	}
	if b, err := os.ReadFile(filepath.Join(dir, "meta.json")); err == nil {
		_ = json.Unmarshal(b, &meta)
	}
	patch, err := os.ReadFile(filepath.Join(dir, "patch.diff"))
	if err != nil {
		return seedResult{id, "skipped", meta.DetectedBy, "no patch.diff"}
	}
	tmp, err := os.MkdirTemp("", "cjverif-seed-*")
	if err != nil {
		return seedResult{id, "skipped", meta.DetectedBy, err.Error()}
	}
	defer os.RemoveAll(tmp)
	var files []string
	for _, line := range strings.Split(string(patch), "\n") {
		if strings.HasPrefix(line, "+++ b/") {
			files = append(files, strings.TrimSpace(strings.TrimPrefix(line, "+++ b/")))
		}
	}
	for _, f := range files {
		dst := filepath.Join(tmp, f)
		_ = os.MkdirAll(filepath.Dir(dst), 0o755)
		if b, err := os.ReadFile(filepath.Join(repo, f)); err == nil {
			_ = os.WriteFile(dst, b, 0o644)
		}
	}
	ap := exec.Command("git", "apply", "--whitespace=nowarn", filepath.Join(dir, "patch.diff"))
	ap.Dir = tmp
	ap.Env = append(os.Environ(), "GIT_CEILING_DIRECTORIES="+filepath.Dir(tmp))
	if out, err := ap.CombinedOutput(); err != nil {
		return seedResult{id, "skipped", meta.DetectedBy, "patch does not apply to today's tree: " + firstLines(string(out), 2)}
	}
	args := []string{"check", "-property", prop, "-repo", repo, "-no-evidence"}
	for _, f := range files {
		args = append(args, "-overlay", f+"="+filepath.Join(tmp, f))
	}
	ctx, cancel := context.WithTimeout(context.Background(), 3*time.Minute)
	defer cancel()
	cmd := exec.CommandContext(ctx, exe, args...)
	cmd.Env = append(os.Environ(), "VERIF_DIR="+vdir, "CJVERIF_MUTANT=1")
	out, err := cmd.CombinedOutput()
	code := 0
	if err != nil {
		if ee, ok := err.(*exec.ExitError); ok {
			code = ee.ExitCode()
		} else {
			return seedResult{id, "skipped", meta.DetectedBy, err.Error()}
		}
	}
	documentedMiss := strings.HasPrefix(strings.ToUpper(meta.DetectedBy), "MISSED")
	switch code {
	case 1:
		first := ""
		for _, line := range strings.Split(string(out), "\n") {
			if strings.Contains(line, "violated") || strings.Contains(line, "undecided") {
				first = strings.TrimSpace(firstN(line, 200))
				break
			}
		}
		return seedResult{id, "detected", meta.DetectedBy, first}
	case 0:
		if strings.HasPrefix(strings.ToUpper(meta.DetectedBy), "NEUTRALISED") {
			return seedResult{id, "neutralised", meta.DetectedBy, "the change no longer breaks the property on today's tree (see meta.json)"}
		}
		if documentedMiss {
			return seedResult{id, "documented-miss", meta.DetectedBy, "not detected, as documented in DESIGN.md"}
		}
		return seedResult{id, "missed", meta.DetectedBy, "no violation reported"}
	default:
		return seedResult{id, "invalid", meta.DetectedBy, firstLines(string(out), 3)}
	}
}

func runSeeds(vdir, repo, prop string) map[string]any {
	if os.Getenv("CJVERIF_MUTANT") != "" {
		return nil
	}
	exe, err := os.Executable()
	if err != nil {
		return map[string]any{"error": err.Error()}
	}
	dirs, _ := filepath.Glob(filepath.Join(vdir, "seeded", prop+"-*"))
	sort.Strings(dirs)
	results := make([]seedResult, len(dirs))
	var wg sync.WaitGroup
	sem := make(chan struct{}, 4)
	for i, d := range dirs {
		wg.Add(1)
		go func(i int, d string) {
			defer wg.Done()
			sem <- struct{}{}
			defer func() { <-sem }()
			results[i] = runOneSeed(exe, vdir, repo, prop, d)
		}(i, d)
	}
	wg.Wait()
	counts := map[string]int{}
	for _, r := range results {
		counts[r.Status]++
		fmt.Printf("  seeded %-10s %-16s %s\n", r.ID, r.Status, firstN(r.Detail, 170))
	}
	return map[string]any{"changes": len(dirs), "detected": counts["detected"], "missed": counts["missed"], "documented_miss": counts["documented-miss"], "neutralised": counts["neutralised"], "skipped": counts["skipped"], "invalid": counts["invalid"], "results": results,
		"note": "replay of the independently seeded breaking changes kept under /verif/seeded (patch applied to scratch copies, analysed through the overlay); informational"}
}

// ---------------------------------------------------------------------------
// trypatch: apply one patch to scratch copies of the files it touches and run every property's quick check on
// the result in one process (one load). Used for the behaviour-preserving refactorings under /verif/refactors,
// which every check must stay silent on, and to try a candidate change by hand.

func cmdTryPatch(args []string) int {
	fs := flag.NewFlagSet("trypatch", flag.ExitOnError)
	patchFile := fs.String("patch", "", "patch.diff (relative to the repository root)")
	repo := fs.String("repo", "/repo", "repository working tree")
	only := fs.String("property", "", "only this property (default: all)")
	_ = fs.Parse(args)
	vdir := verifDir()
	patch, err := os.ReadFile(*patchFile)
	if err != nil {
		fmt.Fprintln(os.Stderr, err)
		return 2
	}
	abs, _ := filepath.Abs(*patchFile)
	tmp, err := os.MkdirTemp("", "cjverif-try-*")
	if err != nil {
		fmt.Fprintln(os.Stderr, err)
		return 2
	}
	defer os.RemoveAll(tmp)
	var files []string
	for _, line := range strings.Split(string(patch), "\n") {
		if strings.HasPrefix(line, "+++ b/") {
			files = append(files, strings.TrimSpace(strings.TrimPrefix(line, "+++ b/")))
		}
	}
	for _, f := range files {
		dst := filepath.Join(tmp, f)
		_ = os.MkdirAll(filepath.Dir(dst), 0o755)
		if b, err := os.ReadFile(filepath.Join(*repo, f)); err == nil {
			_ = os.WriteFile(dst, b, 0o644)
		}
	}
	ap := exec.Command("git", "apply", "--whitespace=nowarn", abs)
	ap.Dir = tmp
	ap.Env = append(os.Environ(), "GIT_CEILING_DIRECTORIES="+filepath.Dir(tmp))
	if out, err := ap.CombinedOutput(); err != nil {
		fmt.Fprintln(os.Stderr, "patch does not apply:", firstLines(string(out), 3))
		return 3
	}
	overlay := map[string][]byte{}
	for _, f := range files {
		b, err := os.ReadFile(filepath.Join(tmp, f))
		if err != nil {
			fmt.Fprintln(os.Stderr, err)
			return 2
		}
		overlay[filepath.Join(*repo, f)] = b
	}
	if _, err := runFixtures(vdir); err != nil {
		fmt.Fprintln(os.Stderr, "fixture self-check failed:", err)
		return 2
	}
	p, err := LoadProgram(*repo, repoPatterns, overlay, "")
	if err != nil {
		fmt.Fprintln(os.Stderr, "load failed:", firstLines(err.Error(), 5))
		return 4
	}
	known, err := loadKnown(filepath.Join(vdir, "known_findings.json"))
	if err != nil {
		fmt.Fprintln(os.Stderr, err)
		return 2
	}
	var ids []string
	for id := range properties {
		if *only == "" || *only == id {
			ids = append(ids, id)
		}
	}
	sort.Strings(ids)
	bad := 0
	for _, id := range ids {
		code := func() (code int) {
			defer func() {
				if r := recover(); r != nil {
					fmt.Printf("%s: analyser panic: %v\n", id, r)
					code = 2
				}
			}()
			r := NewReport(id, "quick", p.Roots[0].Fset, *repo)
			allRepoFuncs = p.RepoFuncs()
			properties[id].Run(&Ctx{P: p, R: r, Tier: "quick", Dir: *repo, Overlay: overlay})
			return r.Finalize(finalizeOpts{VerifDir: vdir, Known: known, NoEvidence: true, Packages: len(p.RepoPkgs), Functions: len(p.RepoFuncs())})
		}()
		if code != 0 {
			bad++
			fmt.Printf("TRYPATCH %s: exit %d\n", id, code)
		}
	}
	fmt.Printf("TRYPATCH summary: %d of %d properties not silent\n", bad, len(ids))
	if bad > 0 {
		return 1
	}
	return 0
}

// ---------------------------------------------------------------------------
// Replay of the behaviour-preserving refactorings kept under /verif/refactors (produced independently: each is
// argued to preserve behaviour for every input, fault and interleaving, builds, and passes the existing tests).
// Every check should stay silent on them. meta.json records the properties whose check is known to raise an alarm
// on a given refactoring ("verif_alarms": a documented limit of the intra-procedural rules, see DESIGN.md 10.7);
// any other alarm is reported as a false alarm. Informational, like the mutants.

type refactorResult struct {
	ID     string `json:"id"`
	Status string `json:"status"` // silent | documented-alarm | falsealarm | skipped
	Detail string `json:"detail,omitempty"`
}

func runRefactors(vdir, repo, prop string) map[string]any {
	if os.Getenv("CJVERIF_MUTANT") != "" {
		return nil
	}
	exe, err := os.Executable()
	if err != nil {
		return map[string]any{"error": err.Error()}
	}
	dirs, _ := filepath.Glob(filepath.Join(vdir, "refactors", "*"))
	sort.Strings(dirs)
	results := make([]refactorResult, len(dirs))
	var wg sync.WaitGroup
	sem := make(chan struct{}, 4)
	for i, d := range dirs {
		wg.Add(1)
		go func(i int, d string) {
			defer wg.Done()
			sem <- struct{}{}
			defer func() { <-sem }()
			id := filepath.Base(d)
			var meta struct {
				Alarms []string `json:"verif_alarms"`
			}
			if b, err := os.ReadFile(filepath.Join(d, "meta.json")); err == nil {
				_ = json.Unmarshal(b, &meta)
			}
			ctx, cancel := context.WithTimeout(context.Background(), 3*time.Minute)
			defer cancel()
			cmd := exec.CommandContext(ctx, exe, "trypatch", "-patch", filepath.Join(d, "patch.diff"), "-property", prop, "-repo", repo)
			cmd.Env = append(os.Environ(), "VERIF_DIR="+vdir, "CJVERIF_MUTANT=1")
			out, err := cmd.CombinedOutput()
			code := 0
			if err != nil {
				if ee, ok := err.(*exec.ExitError); ok {
					code = ee.ExitCode()
				} else {
					results[i] = refactorResult{id, "skipped", err.Error()}
					return
				}
			}
			switch code {
			case 0:
				results[i] = refactorResult{id, "silent", ""}
			case 1:
				first := ""
				for _, line := range strings.Split(string(out), "\n") {
					if strings.Contains(line, "violated") || strings.Contains(line, "undecided") {
						first = strings.TrimSpace(firstN(line, 200))
						break
					}
				}
				st := "falsealarm"
				for _, a := range meta.Alarms {
					if a == prop {
						st = "documented-alarm"
					}
				}
				results[i] = refactorResult{id, st, first}
			default:
				results[i] = refactorResult{id, "skipped", firstLines(string(out), 2)}
			}
		}(i, d)
	}
	wg.Wait()
	counts := map[string]int{}
	for _, r := range results {
		counts[r.Status]++
		if r.Status != "silent" {
			fmt.Printf("  refactoring %-8s %-16s %s\n", r.ID, r.Status, firstN(r.Detail, 170))
		}
	}
	fmt.Printf("  refactorings: %d silent, %d documented alarm(s), %d false alarm(s), %d skipped\n", counts["silent"], counts["documented-alarm"], counts["falsealarm"], counts["skipped"])
	return map[string]any{"refactorings": len(dirs), "silent": counts["silent"], "documented_alarm": counts["documented-alarm"], "false_alarm": counts["falsealarm"], "skipped": counts["skipped"], "results": results,
		"note": "replay of independently produced behaviour-preserving refactorings kept under /verif/refactors; the check should stay silent on each; informational"}
}
