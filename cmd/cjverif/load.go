package main

import (
	"fmt"
	"os"
	"sort"
	"strings"

	"golang.org/x/tools/go/packages"
	"golang.org/x/tools/go/ssa"
	"golang.org/x/tools/go/ssa/ssautil"
)

const repoMod = "github.com/refraction-networking/conjure"

// Program is the loaded, type-checked and SSA-built view of /repo.
type Program struct {
	Dir      string
	Roots    []*packages.Package
	All      map[string]*packages.Package // by PkgPath (repo + deps)
	Prog     *ssa.Program
	SSAPkgs  map[string]*ssa.Package
	RepoPkgs []*packages.Package // packages whose path is within the repo modules

	repoFuncs []*ssa.Function
	cgNodes   int
}

func loaderEnv() []string {
	var env []string
	for _, kv := range os.Environ() {
		k := kv
		if i := strings.IndexByte(kv, '='); i >= 0 {
			k = kv[:i]
		}
		switch k {
		case "GOFLAGS", "GOWORK", "GOPROXY", "GOSUMDB", "GOTOOLCHAIN":
			continue
		}
		env = append(env, kv)
	}
	// /repo is a go.work workspace: -mod=mod is rejected there, so GOFLAGS is empty.
	env = append(env, "GOFLAGS=", "GOPROXY=off", "GOSUMDB=off", "GOTOOLCHAIN=local")
	return env
}

var repoPatterns = []string{"./...", "./cmd/application/...", "./cmd/registration-server/...", "./util/station-debug/..."}

func isRepoPath(p string) bool {
	return p == repoMod || strings.HasPrefix(p, repoMod+"/")
}

// LoadProgram loads dir with full syntax and builds SSA. overlay may be nil.
func LoadProgram(dir string, patterns []string, overlay map[string][]byte, tags string) (*Program, error) {
	cfg := &packages.Config{
		Mode:    loadMode(),
		Dir:     dir,
		Env:     loaderEnv(),
		Tests:   false,
		Overlay: overlay,
	}
	if tags != "" {
		cfg.BuildFlags = []string{"-tags=" + tags}
	}
	roots, err := packages.Load(cfg, patterns...)
	if err != nil {
		return nil, fmt.Errorf("packages.Load: %w", err)
	}
	if len(roots) == 0 {
		return nil, fmt.Errorf("no packages loaded from %s", dir)
	}
	p := &Program{Dir: dir, Roots: roots, All: map[string]*packages.Package{}, SSAPkgs: map[string]*ssa.Package{}}
	var errs []string
	packages.Visit(roots, nil, func(pk *packages.Package) {
		p.All[pk.PkgPath] = pk
		if isRepoPath(pk.PkgPath) || strings.HasPrefix(pk.PkgPath, "fixtures/") {
			p.RepoPkgs = append(p.RepoPkgs, pk)
			for _, e := range pk.Errors {
				errs = append(errs, e.Error())
			}
			if pk.IllTyped {
				errs = append(errs, pk.PkgPath+": ill-typed")
			}
		}
	})
	if len(errs) > 0 {
		sort.Strings(errs)
		if len(errs) > 10 {
			errs = errs[:10]
		}
		return nil, fmt.Errorf("type errors in analysed packages:\n  %s", strings.Join(errs, "\n  "))
	}
	sort.Slice(p.RepoPkgs, func(i, j int) bool { return p.RepoPkgs[i].PkgPath < p.RepoPkgs[j].PkgPath })
	var prog *ssa.Program
	if loadMode()&packages.NeedDeps != 0 {
		prog, _ = ssautil.AllPackages(roots, ssa.InstantiateGenerics)
	} else {
		// SSA bodies for the repository's own packages only; dependencies are
		// type-checked from export data and appear as body-less functions.
		prog, _ = ssautil.Packages(roots, ssa.InstantiateGenerics)
	}
	prog.Build()
	p.Prog = prog
	for _, sp := range prog.AllPackages() {
		p.SSAPkgs[sp.Pkg.Path()] = sp
	}
	return p, nil
}

// loadMode: by default only the repository's packages are parsed (dependencies
// come from compiler export data); CJVERIF_WHOLE=1 loads the whole program
// from source (needed only for whole-program call graphs).
func loadMode() packages.LoadMode {
	if os.Getenv("CJVERIF_WHOLE") != "" {
		return packages.LoadAllSyntax
	}
	return packages.LoadSyntax
}
