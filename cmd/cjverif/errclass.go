package main

import (
	"go/token"
	"go/types"
	"sort"
	"strings"

	"golang.org/x/tools/go/ssa"
)

// errClasses computes which error values a function can return at result index idx, classified as
// "nil", a sentinel name (package-level error variable, through %w wrapping), or "other:<origin>".
type errClassifier struct {
	c        *Ctx
	memo     map[string]map[string]bool
	inFlight map[string]bool
	impls    map[string][]*ssa.Function
}

func newErrClassifier(c *Ctx) *errClassifier {
	ec := &errClassifier{c: c, memo: map[string]map[string]bool{}, inFlight: map[string]bool{}, impls: map[string][]*ssa.Function{}}
	for _, f := range c.P.RepoFuncs() {
		if f.Signature.Recv() != nil && f.Synthetic == "" && f.Blocks != nil && !strings.Contains(c.R.posStr(f.Pos()), "_mock") && !strings.HasSuffix(c.R.posStr(f.Pos()), "client.go") {
			ec.impls[f.Name()] = append(ec.impls[f.Name()], f)
		}
	}
	return ec
}

func (ec *errClassifier) ofFunc(f *ssa.Function, idx int) map[string]bool {
	key := f.String() + "#" + itoa(idx)
	if m, ok := ec.memo[key]; ok {
		return m
	}
	if ec.inFlight[key] {
		return map[string]bool{}
	}
	ec.inFlight[key] = true
	out := map[string]bool{}
	eachInstr(f, func(in ssa.Instruction) {
		ret, ok := in.(*ssa.Return)
		if !ok || idx >= len(ret.Results) || in.Block().Comment == "recover" {
			return
		}
		for k := range ec.ofValue(f, returnedValue(ret, idx, nil), 0, map[ssa.Value]bool{}) {
			out[k] = true
		}
	})
	delete(ec.inFlight, key)
	ec.memo[key] = out
	return out
}

func (ec *errClassifier) globalClass(g *ssa.Global) map[string]bool {
	name := g.Pkg.Pkg.Name() + "." + g.Name()
	// initialiser: errors.New -> the sentinel itself; fmt.Errorf("%w", X) -> class of X as well
	out := map[string]bool{name: true}
	if initFn := g.Pkg.Func("init"); initFn != nil {
		eachInstr(initFn, func(in ssa.Instruction) {
			st, ok := in.(*ssa.Store)
			if !ok || st.Addr != ssa.Value(g) {
				return
			}
			if call, ok := st.Val.(*ssa.Call); ok && calleeName(&call.Call) == "fmt.Errorf" {
				for _, w := range wrappedOperands(call) {
					for k := range ec.ofValue(initFn, w, 0, map[ssa.Value]bool{}) {
						out[k] = true
					}
				}
			}
		})
	}
	return out
}

// wrappedOperands returns the operands of a fmt.Errorf call that are consumed by %w.
func wrappedOperands(call *ssa.Call) []ssa.Value {
	var out []ssa.Value
	if len(call.Call.Args) < 2 {
		return nil
	}
	cv, ok := constOf(call.Call.Args[0])
	if !ok {
		return nil
	}
	verbs := formatVerbs(strings.Trim(cv.ExactString(), `"`))
	elems, ok := varargElems(call.Call.Args[1])
	if !ok {
		return nil
	}
	for i, v := range verbs {
		if v == 'w' && i < len(elems) && elems[i] != nil {
			out = append(out, elems[i])
		}
	}
	return out
}

func (ec *errClassifier) ofValue(f *ssa.Function, v ssa.Value, depth int, seen map[ssa.Value]bool) map[string]bool {
	out := map[string]bool{}
	if v == nil || depth > 12 || seen[v] {
		return out
	}
	seen[v] = true
	add := func(m map[string]bool) {
		for k := range m {
			out[k] = true
		}
	}
	switch x := v.(type) {
	case *ssa.Const:
		if x.Value == nil {
			out["nil"] = true
		}
	case *ssa.MakeInterface:
		add(ec.ofValue(f, x.X, depth+1, seen))
		if len(out) == 0 {
			out["other:"+typeShort(x.X.Type())] = true
		}
	case *ssa.ChangeInterface:
		add(ec.ofValue(f, x.X, depth+1, seen))
	case *ssa.Phi:
		for _, e := range x.Edges {
			add(ec.ofValue(f, e, depth+1, seen))
		}
	case *ssa.UnOp:
		if x.Op != token.MUL {
			break
		}
		switch a := x.X.(type) {
		case *ssa.Global:
			add(ec.globalClass(a))
		case *ssa.Alloc:
			if a.Referrers() != nil {
				for _, ref := range *a.Referrers() {
					if st, ok := ref.(*ssa.Store); ok && st.Addr == ssa.Value(a) {
						add(ec.ofValue(f, st.Val, depth+1, seen))
					}
				}
			}
		default:
			out["other:"+firstN(pathOf(x), 40)] = true
		}
	case *ssa.Extract:
		call, ok := x.Tuple.(*ssa.Call)
		if !ok {
			out["other:"+firstN(pathOf(x), 40)] = true
			break
		}
		add(ec.ofCall(f, call, x.Index, depth, seen))
	case *ssa.Call:
		add(ec.ofCall(f, x, 0, depth, seen))
	case *ssa.Parameter:
		out["param:"+pname(x)] = true
	default:
		out["other:"+firstN(pathOf(v), 40)] = true
	}
	return out
}

func (ec *errClassifier) ofCall(f *ssa.Function, call *ssa.Call, idx, depth int, seen map[ssa.Value]bool) map[string]bool {
	out := map[string]bool{}
	n := calleeName(&call.Call)
	switch n {
	case "fmt.Errorf":
		ws := wrappedOperands(call)
		for _, w := range ws {
			for k := range ec.ofValue(f, w, depth+1, seen) {
				out[k] = true
			}
		}
		if len(ws) == 0 {
			out["other:fmt.Errorf("+firstN(constFormatOf(call), 30)+")"] = true
		}
		return out
	case "errors.New":
		out["other:errors.New("+firstN(constFormatOf(call), 30)+")"] = true
		return out
	}
	var targets []*ssa.Function
	if cal := call.Call.StaticCallee(); cal != nil && cal.Blocks != nil && isRepoPath(fnPkgPath(cal)) {
		targets = []*ssa.Function{cal}
	} else if call.Call.IsInvoke() {
		if iface, ok := call.Call.Value.Type().Underlying().(*types.Interface); ok {
			for _, m := range ec.impls[call.Call.Method.Name()] {
				rt := m.Signature.Recv().Type()
				if types.Implements(rt, iface) || types.Implements(types.NewPointer(rt), iface) {
					targets = append(targets, m)
				}
			}
		}
	}
	if len(targets) == 0 {
		out["other:"+shortName(n)] = true
		return out
	}
	for _, t := range targets {
		for k := range ec.ofFunc(t, idx) {
			if strings.HasPrefix(k, "param:") {
				continue
			}
			out[k] = true
		}
	}
	return out
}

func sortedKeys(m map[string]bool) []string {
	var ks []string
	for k := range m {
		ks = append(ks, k)
	}
	sort.Strings(ks)
	return ks
}
