package main

import (
	"fmt"
	"go/constant"
	"go/token"
	"go/types"
	"sort"
	"strings"

	"golang.org/x/tools/go/ssa"
)

func init() {
	register("C01", &propCheck{Run: checkC01,
		Explain: "The derivation is a fixed function whose every wire-visible ingredient is a constant or an ordering in the source; C01 decides those ingredients, not the arithmetic. " +
			"C01.1 derivation labels: every salt/info argument of hkdf.New and every label of core.ConjureHMAC in the derivation packages resolves to a compile-time string; per package the set equals the published table (so client and station sides of one transport share one label, and a label cannot move on both sides together); the HMAC is keyed by the shared secret on both sides; " +
			"C01.2 wire constants: the version thresholds (1/2/3/4 and every private copy), the 104-byte legacy pre-draw, the 16-byte seed, and the per-transport port ranges and fixed ports have their published values, identical on the station and client side of each transport; " +
			"C01.3 one routine: each phantom label has exactly one derivation site; the station selector (Select) and the client entry (SelectPhantom) both reach it through static calls, pass their own seed parameter unchanged, choose the subnet group before filtering the family, and Select dispatches on the library version with exactly the thresholds of core; the station and the registration server pass the seed, generation, library version and family of the registration to Select and to the port selection; " +
			"C01.4 draw order: the sequence of draws from each derivation stream (shared keys, obfs4 keys, DTLS certificates) is the published one, the legacy pre-draw is gated by libver < 4 and only on the station side, the stream stored for the transport is the one the seed was drawn from, and the transport stream is consumed at most once per registration (only while no keys are set); " +
			"C01.5 port fallback: the station asks the transport for a port only when libver >= 3 and the phantom subnet randomises, otherwise 443; every transport's seeded port draw uses its own seed parameter and is gated by the client's randomise flag on both sides. " +
			"Not decided: big-integer arithmetic of the subnet/address choice, the legacy varint/math-rand selectors' numerics, and byte-level equality of outputs (those need execution).",
		Assume: []string{"HKDF / HMAC from golang.org/x/crypto and the standard library are deterministic functions of their arguments", "external client libraries in the field implement the published table this check pins"}})
}

// ---- constant-string resolution -------------------------------------------------------------

// strConstOf resolves v to a compile-time string: a string constant, []byte("..."), nil (""), or a package
// variable whose only store (in the package initialiser) is such a value and that is written nowhere else.
func (c *Ctx) strConstOf(v ssa.Value) (string, bool) {
	for i := 0; i < 6; i++ {
		switch x := v.(type) {
		case *ssa.Const:
			if x.Value == nil {
				return "", true // nil slice
			}
			if x.Value.Kind() == constant.String {
				return constant.StringVal(x.Value), true
			}
			return "", false
		case *ssa.Convert:
			v = x.X
			continue
		case *ssa.ChangeType:
			v = x.X
			continue
		case *ssa.UnOp:
			if x.Op != token.MUL {
				return "", false
			}
			g, ok := x.X.(*ssa.Global)
			if !ok {
				return "", false
			}
			var val ssa.Value
			stores := map[ssa.Instruction]bool{}
			scan := func(f *ssa.Function) {
				eachInstr(f, func(in ssa.Instruction) {
					if st, ok := in.(*ssa.Store); ok && st.Addr == ssa.Value(g) {
						stores[in] = true
						val = st.Val
					}
				})
			}
			for _, f := range c.P.RepoFuncs() {
				if fnPkgPath(f) == g.Pkg.Pkg.Path() {
					scan(f)
				}
			}
			if initFn := g.Pkg.Func("init"); initFn != nil {
				scan(initFn)
			}
			n := len(stores)
			if n != 1 {
				return "", false
			}
			v = val
			continue
		}
		break
	}
	return "", false
}

type labelSite struct {
	pkg, fn, kind, value string // kind: hkdf-salt | hkdf-info | hmac
	pos                  token.Pos
	keyPath              string
	keyIsParam           bool
}

// c01Published is the published derivation table: per package, the labels it may use and in which role.
var c01Published = map[string][]string{
	"pkg/core":                                {"hkdf-salt=conjureconjureconjureconjure", "hkdf-info="},
	"pkg/phantoms":                            {"hkdf-salt=", "hkdf-info=phantom-select-subnet", "hkdf-info=phantom-addr-id"},
	"pkg/transports":                          {"hkdf-salt=", "hkdf-info=phantom-select-dst-port"},
	"pkg/dtls":                                {"hkdf-salt=clientHelloRandomFromSeed", "hkdf-salt=certsFromSeed", "hkdf-info="},
	"pkg/transports/wrapping/min":             {"hmac=MinTrasportHMACString"},
	"pkg/transports/wrapping/prefix":          {"hmac=PrefixTransportHMACString"},
	"pkg/transports/connecting/dtls":          {"hmac=dtlsTrasportHMACString"},
	"pkg/transports/wrapping/obfs4":           {},
	"pkg/transports/connecting":               {},
	"pkg/transports/wrapping":                 {},
	"pkg/transports/client":                   {},
	"pkg/station/lib":                         {},
	"pkg/regserver/regprocessor":              {},
	"internal/compatability/v0":               nil, // frozen copies of old client code: informational only
	"internal/compatability/v1":               nil,
	"pkg/registrars/decoy-registrar":          nil, // decoy choice of the decoy registrar: not part of this property
	"pkg/registrars/dns-registrar":            nil,
	"pkg/registrars/registration":             nil,
	"pkg/registrars/lib":                      nil,
	"pkg/registrars/dns-registrar/tworeqresp": nil,
}

func (c *Ctx) collectLabels() ([]labelSite, []string) {
	var out []labelSite
	var unresolved []string
	for _, f := range c.P.RepoFuncs() {
		if strings.Contains(c.R.posStr(f.Pos()), "_mock") {
			continue
		}
		pkg := strings.TrimPrefix(fnPkgPath(f), repoMod+"/")
		eachInstr(f, func(in ssa.Instruction) {
			ci, ok := in.(ssa.CallInstruction)
			if !ok {
				return
			}
			switch calleeName(ci.Common()) {
			case "golang.org/x/crypto/hkdf.New":
				a := ci.Common().Args
				for i, kind := range map[int]string{2: "hkdf-salt", 3: "hkdf-info"} {
					s, ok := c.strConstOf(a[i])
					if !ok {
						if want, known := c01Published[pkg]; known && want == nil {
							continue
						}
						unresolved = append(unresolved, fmt.Sprintf("%s: %s of hkdf.New is %s", fnName(f), kind, firstN(pathOf(a[i]), 60)))
						continue
					}
					_, isP := a[1].(*ssa.Parameter)
					out = append(out, labelSite{pkg, fnName(f), kind, s, in.Pos(), pathOf(a[1]), isP})
				}
			case repoMod + "/pkg/core.ConjureHMAC":
				a := ci.Common().Args
				s, ok := c.strConstOf(a[1])
				if !ok {
					if c01Published[pkg] == nil {
						return
					}
					unresolved = append(unresolved, fmt.Sprintf("%s: label of ConjureHMAC is %s", fnName(f), firstN(pathOf(a[1]), 60)))
					return
				}
				_, isP := a[0].(*ssa.Parameter)
				out = append(out, labelSite{pkg, fnName(f), "hmac", s, in.Pos(), pathOf(a[0]), isP})
			}
		})
	}
	return out, unresolved
}

// ---- draw sequences ---------------------------------------------------------------------------

// bufLen is the static length of a buffer handed to a Read: make([]byte, K), x[:] of an array, or a field that the
// function initialises with such a value.
func bufLen(f *ssa.Function, v ssa.Value) (int64, bool) {
	for i := 0; i < 6; i++ {
		switch x := v.(type) {
		case *ssa.MakeSlice:
			if cv, ok := constOf(x.Len); ok {
				n, ok := constant.Int64Val(constant.ToInt(cv))
				return n, ok
			}
			return 0, false
		case *ssa.Slice:
			if x.Low == nil && x.High != nil {
				if cv, ok := constOf(x.High); ok {
					n, ok := constant.Int64Val(constant.ToInt(cv))
					return n, ok
				}
			}
			if x.Low != nil || x.High != nil {
				return 0, false
			}
			if pt, ok := x.X.Type().Underlying().(*types.Pointer); ok {
				if at, ok := pt.Elem().Underlying().(*types.Array); ok {
					return at.Len(), true
				}
			}
			v = x.X
			continue
		case *ssa.UnOp:
			if x.Op != token.MUL {
				return 0, false
			}
			// load of a field / local: the unique store to the same path in this function
			want := pathOf(x.X)
			var val ssa.Value
			n := 0
			eachInstr(f, func(in ssa.Instruction) {
				if st, ok := in.(*ssa.Store); ok && pathOf(st.Addr) == want {
					n++
					val = st.Val
				}
			})
			if n != 1 {
				return 0, false
			}
			v = val
			continue
		case *ssa.Convert:
			v = x.X
			continue
		case *ssa.ChangeType:
			v = x.X
			continue
		}
		break
	}
	return 0, false
}

type drawStep struct {
	in   ssa.Instruction
	desc string
}

// drawSeq lists the consumers of the stream value `rd` in f in dominance order. ok=false if two consumers are
// not ordered by dominance (the sequence would depend on the path).
func drawSeq(f *ssa.Function, rd ssa.Value) ([]drawStep, bool) {
	vals := map[ssa.Value]bool{rd: true}
	// aliases: interface conversions and single-source phis
	for changed := true; changed; {
		changed = false
		eachInstr(f, func(in ssa.Instruction) {
			v, ok := in.(ssa.Value)
			if !ok || vals[v] {
				return
			}
			switch x := in.(type) {
			case *ssa.MakeInterface:
				if vals[x.X] {
					vals[v], changed = true, true
				}
			case *ssa.ChangeInterface:
				if vals[x.X] {
					vals[v], changed = true, true
				}
			case *ssa.ChangeType:
				if vals[x.X] {
					vals[v], changed = true, true
				}
			}
		})
	}
	var steps []drawStep
	eachInstr(f, func(in ssa.Instruction) {
		switch x := in.(type) {
		case ssa.CallInstruction:
			cc := x.Common()
			if cc.IsInvoke() && vals[cc.Value] {
				d := cc.Method.Name()
				if len(cc.Args) == 1 {
					if n, ok := bufLen(f, cc.Args[0]); ok {
						d += fmt.Sprintf("[%d]", n)
					} else {
						d += "[?]"
					}
					d += " -> " + stripBufPath(pathOf(cc.Args[0]))
				}
				steps = append(steps, drawStep{in, d})
				return
			}
			for i, a := range cc.Args {
				if vals[a] {
					d := lastSeg(calleeName(cc))
					if calleeName(cc) == "crypto/rand.Int" && i == 0 && len(cc.Args) == 2 {
						d += "[<" + bigBound(f, in, cc.Args[1]) + "]"
					}
					if d == "io.ReadFull" && i == 0 && len(cc.Args) == 2 {
						if n, ok := bufLen(f, cc.Args[1]); ok {
							d += fmt.Sprintf("[%d]", n)
						} else {
							d += "[?]"
						}
					}
					steps = append(steps, drawStep{in, d})
					return
				}
			}
		case *ssa.Store:
			if vals[x.Val] {
				if _, fld, ok := fieldOwner(x.Addr); ok {
					steps = append(steps, drawStep{in, "keep as ." + fld})
				}
			}
		}
	})
	// dominance order
	dom := func(a, b ssa.Instruction) bool {
		if a.Block() == b.Block() {
			return indexOf(a.Block(), a) < indexOf(b.Block(), b)
		}
		return a.Block().Dominates(b.Block())
	}
	ok := true
	sort.SliceStable(steps, func(i, j int) bool { return dom(steps[i].in, steps[j].in) })
	for i := 0; i+1 < len(steps); i++ {
		if !dom(steps[i].in, steps[i+1].in) {
			// allowed when the earlier one is conditional and the later one post-dominates the join: require that the
			// later one is not reachable from entry while avoiding... keep it simple: the later must be reachable
			// from the earlier and not vice versa
			fwd, _ := reach(f, steps[i].in, isInstr(steps[i+1].in), nil, nil)
			back, _ := reach(f, steps[i+1].in, isInstr(steps[i].in), nil, nil)
			if !fwd || back {
				ok = false
			}
		}
	}
	return steps, ok
}

func stripBufPath(p string) string {
	p = strings.TrimSuffix(p, "[:]")
	if strings.HasPrefix(p, "make(") || (strings.HasPrefix(p, "new([") && strings.Contains(p, "[:")) {
		return "scratch"
	}
	if i := strings.LastIndex(p, "."); i >= 0 {
		return p[i:]
	}
	return p
}

// fieldLoadSrc renders a load of x.f as "<x>.f" where an address-taken local x that is stored exactly once is
// replaced by the value it was initialised with.
func fieldLoadSrc(v ssa.Value) string {
	u, ok := stripConv(v).(*ssa.UnOp)
	if !ok || u.Op != token.MUL {
		return pathOf(v)
	}
	fa, ok := u.X.(*ssa.FieldAddr)
	if !ok {
		return pathOf(v)
	}
	base := pathOf(fa.X)
	if al, ok := fa.X.(*ssa.Alloc); ok && al.Referrers() != nil {
		var val ssa.Value
		n := 0
		for _, ref := range *al.Referrers() {
			if st, ok := ref.(*ssa.Store); ok && st.Addr == ssa.Value(al) {
				n++
				val = st.Val
			}
		}
		if n == 1 {
			base = pathOf(val)
		}
	}
	return base + "." + fieldName(fa.X.Type(), fa.Field)
}

func lastSeg(s string) string {
	if i := strings.LastIndex(s, "/"); i >= 0 {
		return s[i+1:]
	}
	return s
}

// guardsOf renders the non-error branch atoms that dominate `in` (by edge removal), e.g. "(clientLibVer < 4)".
func guardsOf(f *ssa.Function, in ssa.Instruction) []string {
	var out []string
	seen := map[string]bool{}
	for _, b := range f.Blocks {
		if len(b.Instrs) == 0 {
			continue
		}
		iff, ok := b.Instrs[len(b.Instrs)-1].(*ssa.If)
		if !ok {
			continue
		}
		cond, _ := normCond(iff.Cond)
		if strings.Contains(cond, "nil") || seen[cond] {
			continue
		}
		seen[cond] = true
		for _, pol := range []bool{true, false} {
			if guarded(f, in, Atom{cond, pol}) {
				out = append(out, Atom{cond, pol}.String())
			}
		}
	}
	sort.Strings(out)
	return out
}

// ---- the check --------------------------------------------------------------------------------

func checkC01(c *Ctx) {
	r := c.R
	// ---- C01.11 "ClientConf generation": the station derives from the generation as the current subnet file defines it -
	// a reload replaces the selector as a whole (shared with C07.8)
	checkSelectorReplaced(c, "C01.11")
	// ---- C01.13 the generation a registration names is the client's: the registrars rewrite it only on the bidirectional
	// path, where the newer ClientConf goes back to the client in the same response; a unidirectional client never learns
	// of a rewrite and keeps deriving from the generation it holds
	r.Rule("C01.13", "the registrars rewrite a registration's generation only on the bidirectional path", 1)
	{
		n := 0
		for _, f := range c.funcsOfPkgs("pkg/regserver/apiregserver", "pkg/regserver/dnsregserver", "pkg/regserver/regprocessor") {
			if strings.Contains(r.posStr(f.Pos()), "_test") {
				continue
			}
			for _, st := range fieldStores(f, "proto.ClientToStation", "DecoyListGeneration") {
				n++
				okk := strings.Contains(strings.ToLower(f.Name()), "bidirectional") || onlyCalledFromMatching(f, func(g *ssa.Function) bool { return strings.Contains(strings.ToLower(g.Name()), "bidirectional") || strings.Contains(g.Name(), "processBdReq") }, 2)
				r.Check(okk, "C01.13", fnName(f)+": rewrites ClientToStation.DecoyListGeneration", st.Pos(), fnName(f), "on the bidirectional path only",
					"the generation of a registration is replaced on a path that is not (only) the bidirectional one: a unidirectional client gets no response, keeps the ClientConf it has and derives its phantom from its own generation, while the stations derive from the rewritten one")
			}
		}
		if n == 0 {
			r.Unk("C01.13", "stores to ClientToStation.DecoyListGeneration in the registrars", token.NoPos, "", "none found")
		}
	}

	// ---- C01.12 the client side of "the same ClientConf generation": a pushed ClientConf replaces the stored one as a
	// whole - the object installed by SetClientConf is the one it was handed (a merge appends the repeated subnet groups
	// of the new generation to the old ones: new generation number, selection over a subnet list no station has)
	r.Rule("C01.12", "SetClientConf installs the configuration it was handed, not a merge with the previous one", 1)
	if f := c.fn("C01.12", "pkg/client/assets", "assets", "SetClientConf"); f != nil && len(f.Params) >= 2 {
		n := 0
		for _, st := range fieldStores(f, "assets.assets", "config") {
			n++
			v := stripConv(st.Val)
			okk := v == ssa.Value(f.Params[1])
			if ld, isLd := v.(*ssa.UnOp); isLd && !okk {
				// the rollback: a value loaded from a.config earlier
				if _, fld, ok := fieldOwner(ld.X); ok && fld == "config" {
					okk = true
				}
			}
			if ph, isPhi := v.(*ssa.Phi); isPhi && !okk {
				okk = true
				for _, e := range ph.Edges {
					if stripConv(e) != ssa.Value(f.Params[1]) {
						if ld, isLd := stripConv(e).(*ssa.UnOp); !isLd || !strings.HasSuffix(pathOf(ld.X), ".config") {
							okk = false
						}
					}
				}
			}
			r.Check(okk, "C01.12", "SetClientConf: a.config <- "+firstN(pathOf(st.Val), 40), st.Pos(), fnName(f), "the parameter (or the saved previous configuration on the rollback path)",
				"the stored ClientConf is built from the previous one and the pushed one ("+firstN(pathOf(st.Val), 50)+") instead of being replaced: the client reports the new generation while its phantom subnet list is old groups + new groups, so it derives phantoms and port flags that no station derives for that generation")
		}
		if n == 0 {
			r.Unk("C01.12", "SetClientConf: store to a.config", f.Pos(), fnName(f), "not found")
		}
	}

	// ================= C01.1 labels
	r.Rule("C01.1", "derivation labels are compile-time strings equal to the published table; HMAC tags are keyed by the shared secret", 12)
	sites, unresolved := c.collectLabels()
	for _, u := range unresolved {
		r.Bad("C01.1", "non-constant derivation label: "+u, token.NoPos, "", "a salt / info / HMAC label of the derivation is not a compile-time constant: the derivation is no longer the fixed published function")
	}
	byPkg := map[string]map[string][]labelSite{}
	for _, s := range sites {
		if byPkg[s.pkg] == nil {
			byPkg[s.pkg] = map[string][]labelSite{}
		}
		k := s.kind + "=" + s.value
		byPkg[s.pkg][k] = append(byPkg[s.pkg][k], s)
	}
	var pkgs []string
	for p := range byPkg {
		pkgs = append(pkgs, p)
	}
	sort.Strings(pkgs)
	for _, p := range pkgs {
		want, known := c01Published[p]
		if known && want == nil {
			r.Note(fmt.Sprintf("C01.1: labels in %s are outside the property (frozen compatibility copy / registrar-internal): %v", p, keysOfSites(byPkg[p])))
			continue
		}
		wantSet := map[string]bool{}
		for _, w := range want {
			wantSet[w] = true
		}
		for k, ss := range byPkg[p] {
			if wantSet[k] {
				var fns []string
				for _, s := range ss {
					fns = append(fns, shortName(s.fn))
				}
				sort.Strings(fns)
				r.OK("C01.1", p+": "+k, ss[0].pos, fmt.Sprintf("published label, used by %v", uniq(fns)))
			} else {
				r.Bad("C01.1", p+": unpublished derivation label "+k, ss[0].pos, ss[0].fn,
					"the derivation in "+p+" uses "+k+", which is not in the published table "+fmt.Sprint(want)+": even if client and station code in this repository move together, every deployed client derives different phantoms / ports / tags and can no longer rendezvous")
			}
		}
		for _, w := range want {
			if strings.HasSuffix(w, "=") {
				continue // empty salt/info need not occur
			}
			if len(byPkg[p][w]) == 0 {
				r.Bad("C01.1", p+": published label "+w+" no longer used", token.NoPos, p, "the published label "+w+" has no derivation site in "+p+" any more")
			}
		}
	}
	for p, want := range c01Published {
		if want == nil || byPkg[p] != nil {
			continue
		}
		for _, w := range want {
			if !strings.HasSuffix(w, "=") {
				r.Bad("C01.1", p+": published label "+w+" no longer used", token.NoPos, p, "the published label "+w+" has no derivation site in "+p+" any more")
			}
		}
	}
	// both sides of a tag: station GetIdentifier and client PrepareKeys key the HMAC with the shared secret
	for _, s := range sites {
		if s.kind != "hmac" || c01Published[s.pkg] == nil {
			continue
		}
		okKey := strings.HasSuffix(s.keyPath, ".SharedSecret()") || strings.HasSuffix(s.keyPath, ".SharedSecret") || (s.keyIsParam && strings.Contains(s.fn, "PrepareKeys"))
		r.Check(okKey, "C01.1", s.fn+": tag keyed by the shared secret", s.pos, s.fn, "HMAC key = "+s.keyPath,
			"the connection tag is keyed by "+s.keyPath+" instead of the registration's shared secret: client and station derive different tags")
	}
	for _, tp := range []string{"pkg/transports/wrapping/min", "pkg/transports/wrapping/prefix"} {
		st, cl := 0, 0
		for _, s := range sites {
			if s.pkg == tp && s.kind == "hmac" {
				if strings.Contains(s.fn, "ClientTransport") {
					cl++
				} else {
					st++
				}
			}
		}
		r.Check(st > 0 && cl > 0, "C01.1", tp+": tag derived on both the station and the client side", token.NoPos, tp, fmt.Sprintf("%d station / %d client site(s)", st, cl),
			"the tag derivation of "+tp+" no longer exists on both sides in this package: the two sides cannot be compared")
	}

	// ================= C01.2 wire constants
	r.Rule("C01.2", "version thresholds, draw sizes and port ranges have their published values on both sides", 20)
	intConst := func(pkg, name, want string) {
		got := constIntOf(c.P, repoMod+"/"+pkg, name)
		r.Check(got == want, "C01.2", pkg+"."+name+" == "+want, token.NoPos, pkg, "constant value "+got,
			pkg+"."+name+" is "+got+", the published value is "+want+": clients at the affected library versions take a different derivation branch than the station")
	}
	intConst("pkg/core", "PhantomSelectionMinGeneration", "1")
	intConst("pkg/core", "PhantomHkdfMinVersion", "2")
	intConst("pkg/core", "RandomizeDstPortMinVersion", "3")
	intConst("pkg/core", "SharedKeysRefactorMinVersion", "4")
	for _, p := range []string{"pkg/station/lib", "pkg/transports/wrapping/min", "pkg/transports/wrapping/prefix", "pkg/transports/wrapping/obfs4"} {
		intConst(p, "randomizeDstPortMinVersion", "3")
	}
	ranges := map[string][2]string{
		"pkg/transports/wrapping/min":    {"1024", "65535"},
		"pkg/transports/wrapping/prefix": {"1024", "65535"},
		"pkg/transports/wrapping/obfs4":  {"22", "65535"},
		"pkg/transports/connecting/dtls": {"1024", "65535"},
	}

	// ================= C01.5 (collected together with the range constants)
	r.Rule("C01.5", "443 fallback for old clients / non-randomising subnets; seeded port draws use the seed parameter and are gated by the randomise flag", 12)
	// absent parameters stay absent: a registration without transport parameters is one whose client dials 443 (the
	// client's own default when it SENDS parameters is a different thing); the station side must not invent any
	for _, tp := range []string{"min", "prefix", "obfs4"} {
		f := c.P.Func(repoMod+"/pkg/transports/wrapping/"+tp, "Transport", "ParseParams")
		if f == nil || f.Blocks == nil || len(f.Params) < 3 {
			continue
		}
		nilEdges := edgesEstablishing(f, atomMatcher(Atom{"(" + orderEq("nil", P(f, 2)) + ")", true}))
		okk := len(nilEdges) > 0
		got := ""
		for e := range nilEdges {
			for _, v := range returnedAlong(f, f.Blocks[e.from], f.Blocks[e.from].Succs[e.slot], 0) {
				if cst, isC := v.(*ssa.Const); !isC || cst.Value != nil {
					okk = false
					got = pathOf(v)
				}
			}
		}
		// ... and the test comes first: nothing else decides before it
		if okk {
			for e := range nilEdges {
				if f.Blocks[e.from] != f.Blocks[0] {
					if hit, _ := reach(f, nil, isReturn, func(in ssa.Instruction) bool { return in.Block() == f.Blocks[e.from] }, nil); hit {
						okk = false
						got = "a return precedes the data == nil test"
					}
				}
			}
		}
		r.Check(okk, "C01.5", tp+" ParseParams: absent parameters yield nil parameters", f.Pos(), fnName(f), "from data == nil every return is (nil, …)",
			"for a registration without transport parameters the station builds parameters of its own ("+firstN(got, 60)+"): GetDstPort's params == nil -> 443 rule can no longer apply, the station expects a seeded port while the client - which sent no parameters - dials 443")
	}
	var tps []string
	for p := range ranges {
		tps = append(tps, p)
	}
	sort.Strings(tps)
	for _, tp := range tps {
		fixed := map[string]map[string]bool{"station": {}, "client": {}}
		nDraw := map[string]int{}
		for _, f := range c.funcsOfPkgs(tp) {
			if f.Name() != "GetDstPort" || f.Signature.Recv() == nil {
				continue
			}
			side := "station"
			if strings.Contains(typeShort(f.Signature.Recv().Type()), "ClientTransport") {
				side = "client"
			}
			var seedParam *ssa.Parameter
			for _, p := range f.Params {
				if seedParam == nil && p.Type().String() == "[]byte" {
					seedParam = p
				}
			}
			for _, ci := range callsIn(f, shortIs("PortSelectorRange")) {
				nDraw[side]++
				a := ci.Common().Args
				lo, okl := constOf(a[0])
				hi, okh := constOf(a[1])
				got := [2]string{"?", "?"}
				if okl {
					got[0] = lo.ExactString()
				}
				if okh {
					got[1] = hi.ExactString()
				}
				r.Check(got == ranges[tp], "C01.2", fmt.Sprintf("%s %s: port range [%s,%s)", tp, side, ranges[tp][0], ranges[tp][1]), ci.Pos(), fnName(f), fmt.Sprintf("PortSelectorRange(%s, %s, …)", got[0], got[1]),
					fmt.Sprintf("the %s side of %s draws its port from [%s,%s), the published range is [%s,%s): the two sides (or deployed clients) pick different ports for the same seed", side, tp, got[0], got[1], ranges[tp][0], ranges[tp][1]))
				r.Check(seedParam != nil && a[2] == ssa.Value(seedParam), "C01.5", fnName(f)+": the port is drawn from the seed parameter", ci.Pos(), fnName(f), "third argument is the seed parameter",
					"the port draw is seeded with "+firstN(pathOf(a[2]), 50)+" rather than the seed handed in: client and station draw different ports")
				g := guardedM(f, ci.(ssa.Instruction), func(cond string, pol bool) bool { return pol && strings.HasSuffix(cond, ".GetRandomizeDstPort()") })
				r.Check(g, "C01.5", fnName(f)+": seeded draw only when the client asked for a random port", ci.Pos(), fnName(f), "dominated by GetRandomizeDstPort()",
					"the "+side+" side draws a seeded port without the client's randomise flag being set: the other side uses the fixed port")
			}
			eachInstr(f, func(in ssa.Instruction) {
				ret, ok := in.(*ssa.Return)
				if !ok || len(ret.Results) != 2 || in.Block().Comment == "recover" {
					return
				}
				if e, isC := returnedValue(ret, 1, nil).(*ssa.Const); !isC || e.Value != nil {
					return // error return
				}
				rv := returnedValue(ret, 0, nil)
				if cv, ok := constOf(rv); ok {
					fixed[side][cv.ExactString()] = true
				} else if !strings.Contains(pathOf(rv), "PortSelectorRange") {
					fixed[side]["<"+fieldLoadSrc(rv)+">"] = true
				}
			})
		}
		r.Check(nDraw["station"] > 0 && nDraw["client"] > 0, "C01.5", tp+": both sides have a seeded port draw", token.NoPos, tp, fmt.Sprintf("station %d / client %d", nDraw["station"], nDraw["client"]),
			"the seeded port draw exists on only one side of "+tp)
		sk, ck := keysOfB(fixed["station"]), keysOfB(fixed["client"])
		if tp == "pkg/transports/wrapping/prefix" {
			okp := len(sk) == 1 && len(ck) == 1 && sk[0] == "<t.SupportedPrefixes[prefix.PrefixID(params.(*proto.PrefixTransportParams)#0.GetPrefixId())]#0.DefaultDstPort>" && ck[0] == "<t.Prefix.DstPort(seed)>"
			r.Check(okp, "C01.2", tp+": fixed port comes from the prefix table on both sides", token.NoPos, tp, fmt.Sprintf("station %v / client %v", sk, ck),
				fmt.Sprintf("the non-random port of the prefix transport is %v on the station and %v on the client, not the per-prefix table entry", sk, ck))
		} else {
			r.Check(fmt.Sprint(sk) == fmt.Sprint(ck) && fmt.Sprint(sk) == "[443]", "C01.2", tp+": fixed port 443 on both sides", token.NoPos, tp, fmt.Sprintf("station %v / client %v", sk, ck),
				fmt.Sprintf("the non-random port of %s is %v on the station and %v on the client; published: 443 on both", tp, sk, ck))
		}
	}
	// prefix default ports, station table
	c.checkPrefixPorts()

	if f := c.fn("C01.5", "pkg/station/lib", "RegistrationManager", "getPhantomDstPort"); f != nil {
		var libVer, sr *ssa.Parameter
		if len(f.Params) == 6 {
			libVer, sr = f.Params[4], f.Params[5]
		}
		n := 0
		for _, ci := range callsIn(f, shortIs("GetDstPort")) {
			n++
			okk := libVer != nil && sr != nil && guardedAll(f, ci.(ssa.Instruction), Atom{"(" + pname(libVer) + " < 3)", false}, Atom{pname(sr), true})
			r.Check(okk, "C01.5", "getPhantomDstPort: transport port only for libver >= 3 on a randomising subnet", ci.Pos(), fnName(f), "dominated by !(libVer < 3) && supportsRandom",
				"the station asks the transport for a seeded port although the client is older than version 3 or the phantom subnet does not randomise: those clients connect to 443 and never meet the station")
			a := ci.Common().Args
			okArgs := len(a) == 3 && a[0] == ssa.Value(libVer) && pathOf(a[1]) == argName(f, 2) && pathOf(a[2]) == argName(f, 1)
			r.Check(okArgs, "C01.5", "getPhantomDstPort: passes its own libVer, seed and params to the transport", ci.Pos(), fnName(f), "arguments are the parameters", "getPhantomDstPort hands the transport different inputs than it was given")
		}
		if n == 0 {
			r.Unk("C01.5", "getPhantomDstPort: GetDstPort call", f.Pos(), fnName(f), "not found")
		}
		eachInstr(f, func(in ssa.Instruction) {
			ret, ok := in.(*ssa.Return)
			if !ok || len(ret.Results) != 2 {
				return
			}
			if e, isC := ret.Results[1].(*ssa.Const); !isC || e.Value != nil {
				return
			}
			if cv, ok := constOf(ret.Results[0]); ok {
				r.Check(cv.ExactString() == "443", "C01.5", "getPhantomDstPort: fallback port is 443", ret.Pos(), fnName(f), "constant 443", "the fallback port is "+cv.ExactString()+", deployed clients use 443")
			}
		})
	}
	if f := c.fn("C01.5", "pkg/regserver/regprocessor", "RegProcessor", "processBdReq"); f != nil {
		for _, ci := range callsIn(f, shortIs("GetDstPort")) {
			if !ci.Common().IsInvoke() || len(ci.Common().Args) != 3 {
				continue
			}
			a := ci.Common().Args
			okArgs := strings.HasSuffix(pathOf(a[0]), "GetClientLibVersion())") && strings.HasSuffix(pathOf(a[1]), ".ConjureSeed")
			r.Check(okArgs, "C01.5", "processBdReq: port from the client's library version and the registration's seed", ci.Pos(), fnName(f), firstN(pathOf(a[0])+", "+pathOf(a[1]), 90),
				"the registration server computes the response port from other inputs than the client library version and the registration's ConjureSeed: the port it tells the client differs from the one the station derives")
		}
	}

	// ================= C01.3 one routine
	r.Rule("C01.3", "station and client entry reach the same single derivation routine with the same inputs and version dispatch", 14)
	c.checkC01Routine(sites)

	// ================= C01.6 the derivation depends on its inputs only (not on earlier selections / shared caches)
	checkSelectionPurity(c, "C01.6", "pkg/phantoms")
	// ---- C01.8 the station selects from the client's own list: the subnets of a generation are used in the order they
	// are configured (the address id is mapped onto them in list order) and only the requested generation's entry is
	// used (a neighbouring generation's list is a different list)
	// ---- C01.10 the DTLS peer check accepts by the secret-derived key alone: the certificates also carry a validity
	// window taken from the local clock, so comparing their bytes (or dates) makes acceptance depend on the date
	r.Rule("C01.10", "the DTLS peer check does not compare clock-derived certificate fields", 1)
	if f := c.fn("C01.10", "pkg/dtls", "", "verifyCert"); f != nil {
		clocky := []string{".RawTBSCertificate", ".Raw,", ".Raw)", ".NotBefore", ".NotAfter", ".RawSubjectPublicKeyInfo"}
		var bad []string
		var pos token.Pos = f.Pos()
		note := func(sx string, p token.Pos) {
			for _, k := range clocky {
				if strings.Contains(sx, k) {
					// CheckSignature(alg, presented.RawTBSCertificate, presented.Signature) is the signature check itself
					bad = append(bad, firstN(sx, 80))
					pos = p
					return
				}
			}
		}
		eachInstr(f, func(in ssa.Instruction) {
			switch x := in.(type) {
			case *ssa.If:
				cnd, _ := normCond(x.Cond)
				note(cnd, x.Cond.Pos())
			case *ssa.Call:
				n := calleeName(&x.Call)
				if n == "bytes.Equal" || n == "bytes.Compare" || n == "crypto/subtle.ConstantTimeCompare" || strings.HasSuffix(n, ".Equal") || strings.HasSuffix(n, ".Before") || strings.HasSuffix(n, ".After") {
					note(pathOf(x)+")", x.Pos())
				}
			}
		})
		r.Check(len(bad) == 0, "C01.10", "verifyCert: acceptance rests on the signature under the derived key only", pos, fnName(f), "no comparison of raw certificate bytes or validity dates",
			"verifyCert compares "+strings.Join(bad, "; ")+": the derived certificates embed a validity window computed from time.Now(), so two parties holding the same secret reject each other when they derive on different days - the accepted credential is no longer a function of the secret alone")
	}

	// ---- C01.9 the published selection works on whole big integers (ids and offsets of IPv6 networks exceed 64 bits):
	// a big.Int is narrowed to a machine word only where its bound is a machine word
	r.Rule("C01.9", "selection never narrows a big integer to 64 bits unless it was drawn below a 64-bit bound", 1)
	{
		n := 0
		for _, f := range c.funcsOfPkgs("pkg/phantoms") {
			eachInstr(f, func(in ssa.Instruction) {
				call, ok := in.(*ssa.Call)
				if !ok {
					return
				}
				switch calleeName(&call.Call) {
				case "(*math/big.Int).Uint64", "(*math/big.Int).Int64":
				default:
					return
				}
				n++
				okk, how := false, ""
				// the receiver is the result of rand.Int(reader, big.NewInt(<machine integer>))
				if ex, isEx := call.Call.Args[0].(*ssa.Extract); isEx && ex.Index == 0 {
					if draw, isCall := ex.Tuple.(*ssa.Call); isCall && calleeName(&draw.Call) == "crypto/rand.Int" {
						if b, isCall := draw.Call.Args[1].(*ssa.Call); isCall && calleeName(&b.Call) == "math/big.NewInt" {
							okk, how = true, "drawn below big.NewInt("+firstN(pathOf(b.Call.Args[0]), 30)+")"
						}
					}
				}
				if !okk {
					okk = guardedM(f, in, func(cnd string, pol bool) bool {
						return pol && (strings.HasSuffix(cnd, ".IsUint64()") || strings.HasSuffix(cnd, ".IsInt64()"))
					})
					how = "guarded by IsUint64 / IsInt64"
				}
				r.Check(okk, "C01.9", fnName(f)+": "+calleeShort(&call.Call)+" of "+firstN(pathOf(call.Call.Args[0]), 40)+" loses nothing", in.Pos(), fnName(f), how,
					"a big integer of the selection ("+firstN(pathOf(call.Call.Args[0]), 40)+") is cut to 64 bits: ids and offsets of IPv6 networks shorter than /64 do not fit, the upper bits are dropped, and the station picks another address than clients computing the published algorithm")
			})
		}
		if n == 0 {
			r.OK("C01.9", "pkg/phantoms: no big.Int is narrowed", token.NoPos, "no Uint64 / Int64 call")
		}
	}

	r.Rule("C01.8", "configured subnet order is kept (only the reviewed weight sort); a generation resolves to its own entry only", 2)
	{
		var sorts []string
		okSort := true
		var pos token.Pos
		nf := 0
		for _, f := range c.funcsOfPkgs("pkg/phantoms") {
			if strings.Contains(r.posStr(f.Pos()), "_test") {
				continue
			}
			nf++
			eachInstr(f, func(in ssa.Instruction) {
				ci, ok := in.(ssa.CallInstruction)
				if !ok {
					return
				}
				n := calleeName(ci.Common())
				if (!strings.HasPrefix(n, "sort.") && !strings.HasPrefix(n, "slices.Sort") && n != "slices.Reverse") || n == "sort.init" || n == "slices.init" {
					return
				}
				encl := f
				for encl.Parent() != nil {
					encl = encl.Parent()
				}
				site := encl.Name() + ": " + n
				sorts = append(sorts, site)
				if !(encl.Name() == "getSubnetsHkdf" && n == "sort.Slice") {
					okSort = false
					pos = in.Pos()
				}
			})
		}
		sort.Strings(sorts)
		r.Check(okSort && nf > 0, "C01.8", "pkg/phantoms: the only sort is the weight sort of getSubnetsHkdf", pos, "", fmt.Sprint(sorts),
			"a list of the subnet configuration is re-ordered ("+fmt.Sprint(sorts)+"): the address id is mapped onto a group's subnets in list order, so a station that sorts (or otherwise canonicalises the order of) the configured CIDRs picks a different phantom than the client, which uses the ClientConf order")
	}
	if f := c.fn("C01.8", "pkg/phantoms", "PhantomIPSelector", "GetSubnetsByGeneration"); f != nil && len(f.Params) == 2 {
		want := P(f, 0) + ".Networks[" + P(f, 1) + "]"
		okk, n := true, 0
		eachInstr(f, func(in ssa.Instruction) {
			ret, ok := in.(*ssa.Return)
			if !ok || len(ret.Results) != 1 || ret.Block().Comment == "recover" {
				return
			}
			rv := returnedValue(ret, 0, nil)
			if cst, isC := rv.(*ssa.Const); isC && cst.Value == nil {
				return
			}
			n++
			vp := pathOf(rv)
			if !(strings.HasPrefix(vp, want) && guarded(f, ret, Atom{want + "#1", true})) {
				okk = false
			}
		})
		r.Check(okk && n > 0, "C01.8", "GetSubnetsByGeneration: returns the entry stored under the requested generation, only if present", f.Pos(), fnName(f), want+" under its found flag",
			"a generation that has no entry of its own is answered from another entry (a fallback to a neighbouring or default generation): the station derives the phantom from a different list than the client of that generation uses, instead of rejecting the registration")
	}

	// ---- C01.7 the base the offset is added to is the masked network, as in every released client
	r.Rule("C01.7", "subnets are net.ParseCIDR networks or built from masked addresses", 1)
	checkMaskedBase(c, "C01.7", "pkg/phantoms")

	// ================= C01.4 draw order
	r.Rule("C01.4", "published draw order from each derivation stream; legacy pre-draw gated by libver < 4; transport stream consumed once", 8)
	c.checkC01Draws()
}

func keysOfB(m map[string]bool) []string {
	var ks []string
	for k := range m {
		ks = append(ks, k)
	}
	sort.Strings(ks)
	return ks
}

func keysOfSites(m map[string][]labelSite) []string {
	var ks []string
	for k := range m {
		ks = append(ks, k)
	}
	sort.Strings(ks)
	return ks
}

func uniq(s []string) []string {
	var out []string
	for i, x := range s {
		if i == 0 || x != s[i-1] {
			out = append(out, x)
		}
	}
	return out
}

// checkPrefixPorts pins the fixed port of every default prefix on the station table and requires the client table to
// carry the same port for the same prefix id.
func (c *Ctx) checkPrefixPorts() {
	r := c.R
	const pkg = "pkg/transports/wrapping/prefix"
	want := map[string]string{"Min": "443", "GetLong": "80", "PostLong": "80", "HTTPResp": "80", "TLSClientHello": "443", "TLSServerHello": "443", "TLSAlertWarning": "443", "TLSAlertFatal": "443", "DNSOverTCP": "53", "OpenSSH2": "22"}
	pk := c.P.All[repoMod+"/"+pkg]
	if pk == nil {
		r.Unk("C01.2", "prefix tables", token.NoPos, pkg, "package not loaded")
		return
	}
	idName := map[string]string{} // const value -> name
	for _, n := range pk.Types.Scope().Names() {
		if cst, ok := pk.Types.Scope().Lookup(n).(*types.Const); ok && typeShort(cst.Type()) == "prefix.PrefixID" {
			idName[cst.Val().ExactString()] = n
		}
	}
	// station: defaultPrefixes map literal, field DefaultDstPort; client: DefaultPrefixes / clientPrefix literal with field DefaultDstPort? read both from the package initialiser
	sp := c.P.SSAPkgs[repoMod+"/"+pkg]
	if sp == nil || sp.Func("init") == nil {
		r.Unk("C01.2", "prefix tables", token.NoPos, pkg, "package initialiser not found")
		return
	}
	// map updates in init: key const PrefixID -> struct value; find stores of const ints into fields named *DstPort / *Port of the value's alloc
	type entry struct{ table, id, port string }
	var entries []entry
	eachInstr(sp.Func("init"), func(in ssa.Instruction) {
		mu, ok := in.(*ssa.MapUpdate)
		if !ok {
			return
		}
		kc, ok := constOf(mu.Key)
		if !ok {
			return
		}
		id := idName[kc.ExactString()]
		if id == "" {
			return
		}
		table := firstN(pathOf(mu.Map), 40)
		if u, ok := mu.Map.(*ssa.UnOp); ok {
			if g, ok := u.X.(*ssa.Global); ok {
				table = g.Name()
			}
		}
		// the value: load of an alloc (struct literal) or pointer to alloc
		var al ssa.Value
		switch v := mu.Value.(type) {
		case *ssa.UnOp:
			al = v.X
		case *ssa.Alloc:
			al = v
		case *ssa.MakeInterface:
			al = v.X
			if u, ok := al.(*ssa.UnOp); ok {
				al = u.X
			}
		}
		if al == nil {
			return
		}
		a, ok := al.(*ssa.Alloc)
		if !ok || a.Referrers() == nil {
			return
		}
		for _, ref := range *a.Referrers() {
			fa, ok := ref.(*ssa.FieldAddr)
			if !ok || fa.Referrers() == nil {
				continue
			}
			fn := fieldName(fa.X.Type(), fa.Field)
			if !strings.Contains(fn, "Port") {
				continue
			}
			for _, r2 := range *fa.Referrers() {
				if st, ok := r2.(*ssa.Store); ok && st.Addr == ssa.Value(fa) {
					if cv, ok := constOf(st.Val); ok {
						entries = append(entries, entry{table, id, cv.ExactString()})
					}
				}
			}
		}
	})
	tables := map[string]map[string]string{}
	for _, e := range entries {
		if tables[e.table] == nil {
			tables[e.table] = map[string]string{}
		}
		tables[e.table][e.id] = e.port
	}
	if len(tables) == 0 {
		r.Unk("C01.2", "prefix tables", token.NoPos, pkg, "no prefix table with constant ports found in the package initialiser")
		return
	}
	var tn []string
	for t := range tables {
		tn = append(tn, t)
	}
	sort.Strings(tn)
	for _, t := range tn {
		var diffs []string
		for id, w := range want {
			if got, ok := tables[t][id]; !ok {
				diffs = append(diffs, id+": missing")
			} else if got != w {
				diffs = append(diffs, fmt.Sprintf("%s: %s (published %s)", id, got, w))
			}
		}
		sort.Strings(diffs)
		r.Check(len(diffs) == 0, "C01.2", "prefix table "+t+": fixed ports of the default prefixes", token.NoPos, pkg, fmt.Sprintf("%d entries match the published ports", len(tables[t])),
			"prefix table "+t+" deviates from the published fixed ports: "+strings.Join(diffs, "; ")+": for a non-randomised registration client and station (or a deployed client) use different ports")
	}
	// the client table is derived from the station table entry by entry
	if f := c.fn("C01.2", pkg, "", "applyDefaultPrefixes"); f != nil {
		n := 0
		eachInstr(f, func(in ssa.Instruction) {
			mu, ok := in.(*ssa.MapUpdate)
			if !ok || !strings.Contains(pathOf(mu.Map), "DefaultPrefixes") {
				return
			}
			n++
			kp := pathOf(mu.Key)
			okKey := strings.HasSuffix(kp, "range(prefix.defaultPrefixes))#1")
			okPort, okID := false, false
			if a, ok := stripConv(mu.Value).(*ssa.Alloc); ok && a.Referrers() != nil {
				for _, ref := range *a.Referrers() {
					fa, ok := ref.(*ssa.FieldAddr)
					if !ok || fa.Referrers() == nil {
						continue
					}
					for _, r2 := range *fa.Referrers() {
						st, ok := r2.(*ssa.Store)
						if !ok || st.Addr != ssa.Value(fa) {
							continue
						}
						switch fieldName(fa.X.Type(), fa.Field) {
						case "port":
							okPort = fieldLoadSrc(st.Val) == strings.TrimSuffix(kp, "#1")+"#2.DefaultDstPort"
						case "id":
							okID = pathOf(st.Val) == kp
						}
					}
				}
			}
			r.Check(okKey && okPort && okID, "C01.2", "applyDefaultPrefixes: client entry = (id, DefaultDstPort) of the station entry with the same id", in.Pos(), fnName(f), "key, id and port from the same iteration over defaultPrefixes",
				"the client prefix table is not filled with the station table's own (id, DefaultDstPort) per entry: for a non-randomised prefix registration the client connects to a different port than the station expects")
		})
		if n == 0 {
			r.Unk("C01.2", "applyDefaultPrefixes: DefaultPrefixes insert", f.Pos(), fnName(f), "not found")
		}
	}
	if f := c.fn("C01.2", pkg, "clientPrefix", "DstPort"); f != nil {
		eachInstr(f, func(in ssa.Instruction) {
			if ret, ok := in.(*ssa.Return); ok && len(ret.Results) == 1 {
				r.Check(pathOf(returnedValue(ret, 0, nil)) == "c.port", "C01.2", "clientPrefix.DstPort returns the table port", ret.Pos(), fnName(f), "c.port", "the client prefix's DstPort does not return the port copied from the station table")
			}
		})
	}
}

func (c *Ctx) checkC01Routine(sites []labelSite) {
	r := c.R
	const ph = "pkg/phantoms"
	// single derivation site per phantom / port label
	for _, lbl := range []string{"phantom-select-subnet", "phantom-addr-id", "phantom-select-dst-port"} {
		var fns []string
		for _, s := range sites {
			if s.kind == "hkdf-info" && s.value == lbl && c01Published[s.pkg] != nil {
				fns = append(fns, s.fn)
			}
		}
		r.Check(len(fns) == 1, "C01.3", "label "+lbl+" has exactly one derivation site", token.NoPos, "", fmt.Sprint(fns),
			fmt.Sprintf("label %s is used by %d derivation sites %v: the station and the client entry point can run different code for the same label", lbl, len(fns), fns))
	}
	// seed handling at the derivation sites: hkdf keyed by the function's own seed parameter
	for _, s := range sites {
		if s.kind == "hkdf-info" && (s.pkg == ph || s.pkg == "pkg/transports") {
			r.Check(s.keyIsParam, "C01.3", s.fn+": stream keyed by the seed parameter", s.pos, s.fn, "hkdf secret = "+s.keyPath,
				"the derivation stream is keyed by "+s.keyPath+" rather than the seed handed in")
		}
	}
	// the weighted group choice: groups ordered by weight only (ties keep the order the sort leaves them in - every
	// released client does exactly this, so any other tie-break or a stable sort moves tied groups), one draw below
	// the total weight, cumulative subtraction until negative
	if f := c.fn("C01.3", ph, "", "getSubnetsHkdf"); f != nil {
		var sorts []ssa.CallInstruction
		eachInstr(f, func(in ssa.Instruction) {
			if ci, ok := in.(ssa.CallInstruction); ok && (strings.HasPrefix(calleeName(ci.Common()), "sort.") || strings.HasPrefix(calleeName(ci.Common()), "slices.Sort")) {
				sorts = append(sorts, ci)
			}
		})
		okSort := len(sorts) == 1 && calleeName(sorts[0].Common()) == "sort.Slice"
		got := ""
		var sorted ssa.Value
		if okSort {
			okSort = false
			sorted = stripConv(sorts[0].Common().Args[0])
			if mc, ok := sorts[0].Common().Args[1].(*ssa.MakeClosure); ok {
				less := mc.Fn.(*ssa.Function)
				nret := 0
				okSort = true
				// a method value (sorted.lessByWeight): look at the method behind the bound-method wrapper; its
				// receiver must be the slice being sorted
				if less.Synthetic != "" && strings.HasSuffix(less.Name(), "$bound") && len(mc.Bindings) == 1 {
					var target *ssa.Function
					eachInstr(less, func(in ssa.Instruction) {
						if call, ok := in.(*ssa.Call); ok && call.Call.StaticCallee() != nil {
							target = call.Call.StaticCallee()
						}
					})
					if target == nil || target.Blocks == nil || len(target.Params) != 3 || stripConv(mc.Bindings[0]) != sorted {
						okSort = false
					} else {
						less = target
					}
				}
				eachInstr(less, func(in ssa.Instruction) {
					if ret, ok := in.(*ssa.Return); ok {
						nret++
						got = pathOf(ret.Results[0])
						bo, ok := ret.Results[0].(*ssa.BinOp)
						np := len(less.Params)
						if !ok || bo.Op != token.LSS || np < 2 || np > 3 || !weightOfElem(bo.X, less.Params[np-2]) || !weightOfElem(bo.Y, less.Params[np-1]) {
							okSort = false
						}
					}
				})
				okSort = okSort && nret == 1
			}
		} else if len(sorts) > 0 {
			got = calleeName(sorts[0].Common())
		}
		pos := f.Pos()
		if len(sorts) > 0 {
			pos = sorts[0].Pos()
		}
		r.Check(okSort, "C01.3", "getSubnetsHkdf: groups ordered by sort.Slice on weight only", pos, fnName(f), "less(i,j) = weight(group i) < weight(group j)",
			"the weighted groups are not ordered by exactly sort.Slice(groups, weight_i < weight_j) ("+firstN(got, 80)+"): groups of equal weight end up in a different order than in every released client, so for seeds landing in a tied group the station picks a different subnet (and randomise flag) than the client")
		okDraw, okLoop := false, false
		var drawn ssa.Value
		eachInstr(f, func(in ssa.Instruction) {
			if ci, ok := in.(*ssa.Call); ok && calleeName(&ci.Call) == "crypto/rand.Int" {
				// second operand: big.NewInt(total) where total is a loop-carried sum of int64(weight)
				if bn, ok := ci.Call.Args[1].(*ssa.Call); ok && calleeName(&bn.Call) == "math/big.NewInt" {
					if ph, ok := bn.Call.Args[0].(*ssa.Phi); ok {
						for _, e := range ph.Edges {
							if bo, ok := e.(*ssa.BinOp); ok && bo.Op == token.ADD && strings.HasSuffix(pathOf(bo.Y), ".GetWeight())") && strings.HasPrefix(pathOf(bo.Y), "int64(") {
								okDraw = true
							}
						}
					}
				}
				for _, ex := range extractOf(ci, 0) {
					drawn = ex
				}
			}
		})
		eachInstr(f, func(in ssa.Instruction) {
			iff, ok := in.(*ssa.If)
			if !ok {
				return
			}
			lt, ok := iff.Cond.(*ssa.BinOp)
			if !ok || lt.Op != token.LSS {
				return
			}
			if cv, ok := constOf(lt.Y); !ok || cv.ExactString() != "0" {
				return
			}
			sub, ok := lt.X.(*ssa.BinOp)
			if !ok || sub.Op != token.SUB {
				return
			}
			// remainder: a phi of (the drawn value, this subtraction); subtrahend: int64(weight of the current sorted element)
			ph, ok := sub.X.(*ssa.Phi)
			if !ok || drawn == nil {
				return
			}
			fromDraw, fromSelf := false, false
			for _, e := range ph.Edges {
				if e == ssa.Value(sub) {
					fromSelf = true
				} else if dependsOn(e, drawn) {
					fromDraw = true
				}
			}
			yp := pathOf(sub.Y)
			elemOK := strings.HasPrefix(yp, "int64(") && strings.HasSuffix(yp, ".GetWeight())") && sorted != nil && strings.HasPrefix(strings.TrimPrefix(yp, "int64("), pathOf(sorted)+"[")
			if !fromDraw || !fromSelf || !elemOK {
				return
			}
			for _, i2 := range in.Block().Succs[0].Instrs {
				if cl, ok := i2.(*ssa.Call); ok && calleeShort(&cl.Call) == "parseSubnets" && strings.HasPrefix(pathOf(cl.Call.Args[0]), pathOf(sorted)+"[") {
					okLoop = true
				}
			}
		})
		r.Check(okDraw, "C01.3", "getSubnetsHkdf: one draw below the sum of the group weights", f.Pos(), fnName(f), "rand.Int(stream, big.NewInt(sum of int64(weight)))", "the group draw is not rand.Int(stream, totalWeight) with totalWeight the sum of the group weights")
		r.Check(okLoop, "C01.3", "getSubnetsHkdf: cumulative subtraction in sorted order, first negative wins", f.Pos(), fnName(f), "rnd -= weight; rnd < 0 -> parseSubnets(choice)", "the walk over the sorted groups is not 'subtract the weight, take the group when the remainder turns negative'")
	}
	closure := func(root *ssa.Function) map[string]bool {
		seen := map[*ssa.Function]bool{}
		names := map[string]bool{}
		var visit func(f *ssa.Function)
		visit = func(f *ssa.Function) {
			if f == nil || seen[f] || f.Blocks == nil || !isRepoPath(fnPkgPath(f)) {
				return
			}
			seen[f] = true
			names[f.Name()] = true
			eachInstr(f, func(in ssa.Instruction) {
				if ci, ok := in.(ssa.CallInstruction); ok {
					visit(ci.Common().StaticCallee())
				}
			})
		}
		visit(root)
		return names
	}
	sel := c.fn("C01.3", ph, "PhantomIPSelector", "Select")
	cli := c.fn("C01.3", ph, "", "SelectPhantom")
	for _, e := range []struct {
		f    *ssa.Function
		name string
	}{{sel, "station Select"}, {cli, "client SelectPhantom"}} {
		if e.f == nil {
			continue
		}
		cl := closure(e.f)
		r.Check(cl["getSubnetsHkdf"] && cl["selectPhantomImplHkdf"], "C01.3", e.name+" reaches getSubnetsHkdf and selectPhantomImplHkdf", e.f.Pos(), fnName(e.f), "static call closure",
			e.name+" no longer reaches the shared HKDF routines (getSubnetsHkdf / selectPhantomImplHkdf): the two sides run different selection code")
	}
	if sel != nil {
		// version dispatch
		type disp struct {
			callee string
			atoms  []Atom
			what   string
		}
		for _, d := range []disp{
			{"selectPhantomImplV0", []Atom{{"(" + argName(sel, 2) + " < 1)", true}}, "libver < 1"},
			{"selectPhantomImplVarint", []Atom{{"(" + argName(sel, 2) + " < 1)", false}, {"(" + argName(sel, 2) + " < 2)", true}}, "1 <= libver < 2"},
			{"selectPhantomImplHkdf", []Atom{{"(" + argName(sel, 2) + " < 1)", false}, {"(" + argName(sel, 2) + " < 2)", false}}, "libver >= 2"},
		} {
			calls := callsIn(sel, shortIs(d.callee))
			if len(calls) == 0 {
				r.Bad("C01.3", "Select: "+d.callee+" for "+d.what, sel.Pos(), fnName(sel), "Select no longer calls "+d.callee+": clients with "+d.what+" get a phantom from a different algorithm than the one they run")
				continue
			}
			for _, ci := range calls {
				g := guardedAll(sel, ci.(ssa.Instruction), d.atoms...)
				a := ci.Common().Args
				okSeed := len(a) >= 2 && pathOf(a[0]) == argName(sel, 0)
				// the subnets argument went through the family filter, which consumed the version-specific subnet choice
				okFlow := false
				if len(a) >= 2 {
					leaves, okL := familyFilterLeaves(sel, a[1])
					okFlow = okL
					for _, l := range leaves {
						la := argsOf(&l.call.Call)
						if len(la) < 1 || !strings.Contains(pathOf(la[0]), "subnetsByVersion("+argName(sel, 0)+", "+argName(sel, 2)+",") {
							okFlow = false
						}
					}
				}
				r.Check(g && okSeed && okFlow, "C01.3", "Select: "+d.callee+" exactly for "+d.what+", on the filtered group chosen for this seed", ci.Pos(), fnName(sel), "guards "+fmt.Sprint(d.atoms)+"; args "+firstN(pathOf(a[1]), 80),
					"the selector for clients with "+d.what+" is not called under exactly that version test with (seed, family-filtered subnets chosen by subnetsByVersion(seed, clientLibVer, …)): those clients compute a different phantom than the station")
			}
		}
		for _, fl := range []struct {
			name string
			pol  bool
		}{{"V6Only", true}, {"V4Only", false}} {
			for _, ci := range callsIn(sel, shortIs(fl.name)) {
				r.Check(guarded(sel, ci.(ssa.Instruction), Atom{argName(sel, 3), fl.pol}), "C01.3", "Select: "+fl.name+" iff v6Support == "+fmt.Sprint(fl.pol), ci.Pos(), fnName(sel), "dominated by the family flag",
					"the family filter "+fl.name+" is applied for the wrong address family")
			}
		}
	}
	if f := c.fn("C01.3", ph, "", "subnetsByVersion"); f != nil {
		for _, d := range []struct {
			callee string
			pol    bool
		}{{"getSubnetsVarint", true}, {"getSubnetsHkdf", false}} {
			calls := callsIn(f, shortIs(d.callee))
			if len(calls) == 0 {
				r.Bad("C01.3", "subnetsByVersion: "+d.callee, f.Pos(), fnName(f), "subnetsByVersion no longer calls "+d.callee)
				continue
			}
			for _, ci := range calls {
				a := ci.Common().Args
				weighted := false
				if cv, ok := constOf(a[len(a)-1]); ok && cv.Kind() == constant.Bool && constant.BoolVal(cv) {
					weighted = true
				}
				seedOK := false
				for _, x := range a {
					if pathOf(x) == argName(f, 0) {
						seedOK = true
					}
				}
				r.Check(guarded(f, ci.(ssa.Instruction), Atom{"(" + argName(f, 1) + " < 2)", d.pol}) && weighted && seedOK, "C01.3", "subnetsByVersion: "+d.callee+" (weighted, own seed) iff (libver < 2) == "+fmt.Sprint(d.pol), ci.Pos(), fnName(f), "version test, weighted=true, seed parameter",
					"the subnet-group choice for this library version is not "+d.callee+"(…seed…, weighted=true) under the published version test")
			}
		}
	}
	if cli != nil {
		// SelectPhantom: getSubnets(subnetsList, seed, weighted) -> transform -> selectIPAddr(seed, ·)
		for _, ci := range callsIn(cli, shortIs("selectIPAddr", "selectPhantomImplHkdf")) {
			a := ci.Common().Args
			p1 := pathOf(a[1])
			okk := pathOf(a[0]) == argName(cli, 0) && strings.Contains(p1, "getSubnets("+argName(cli, 1)+", "+argName(cli, 0)+", "+argName(cli, 3)+")")
			r.Check(okk, "C01.3", "SelectPhantom: address drawn with the same seed from the (filtered) group chosen with that seed", ci.Pos(), fnName(cli), firstN(p1, 90),
				"the client entry point draws the address with other inputs than (seed, filter(getSubnets(list, seed, weighted))): it no longer mirrors the station's Select")
		}
	}
	// station and registration server feed Select from the registration
	if f := c.fn("C01.3", "pkg/station/lib", "RegistrationManager", "NewRegistration"); f != nil {
		for _, ci := range callsIn(f, shortIs("Select")) {
			a := argsOf(ci.Common())
			okk := len(a) == 4 && pathOf(a[0]) == argName(f, 1)+".ConjureSeed" && strings.Contains(pathOf(a[1]), argName(f, 0)+".GetDecoyListGeneration()") && strings.Contains(pathOf(a[2]), argName(f, 0)+".GetClientLibVersion()") && pathOf(a[3]) == argName(f, 2)
			r.Check(okk, "C01.3", "NewRegistration: Select(ConjureSeed, generation, libver, family) of the registration", ci.Pos(), fnName(f), firstN(fmt.Sprint(pathOf(a[0]), ", ", pathOf(a[1]), ", ", pathOf(a[2]), ", ", pathOf(a[3])), 120),
				"the station selects the phantom from other inputs than the registration's seed, ClientConf generation, library version and address family")
		}
		for _, ci := range callsIn(f, shortIs("getPhantomDstPort")) {
			a := argsOf(ci.Common())
			okk := len(a) == 5 && pathOf(a[2]) == argName(f, 1)+".ConjureSeed" && strings.Contains(pathOf(a[3]), argName(f, 0)+".GetClientLibVersion()") && strings.HasSuffix(pathOf(a[4]), ".SupportRandomPort()") && strings.Contains(pathOf(a[4]), "Select(")
			r.Check(okk, "C01.3", "NewRegistration: port from (transport, params, ConjureSeed, libver, the selected phantom's randomise flag)", ci.Pos(), fnName(f), firstN(pathOf(a[2])+", "+pathOf(a[3])+", "+pathOf(a[4]), 120),
				"the station derives the phantom port from other inputs than the registration's seed, library version and the chosen subnet's randomise flag")
		}
	}
	if f := c.fn("C01.3", "pkg/station/lib", "RegistrationManager", "NewRegistrationC2SWrapper"); f != nil {
		for _, ci := range callsIn(f, shortIs("GenSharedKeys")) {
			a := ci.Common().Args
			okk := len(a) == 3 && strings.Contains(pathOf(a[0]), "GetClientLibVersion()") && strings.HasSuffix(pathOf(a[1]), ".GetSharedSecret()")
			r.Check(okk, "C01.3", "NewRegistrationC2SWrapper: keys from (client library version, shared secret) of the message", ci.Pos(), fnName(f), firstN(pathOf(a[0])+", "+pathOf(a[1]), 100),
				"the station derives the registration's keys from other inputs than the message's client library version and shared secret")
		}
	}
	if f := c.fn("C01.3", "pkg/regserver/regprocessor", "RegProcessor", "processBdReq"); f != nil {
		n := 0
		// the two selections, in processBdReq itself or in a helper it hands the selection to (arguments are then
		// rendered in processBdReq's own names)
		for _, l := range findDeep(f, shortIs("Select"), 2) {
			a := argsOf(l.common())
			if len(a) != 4 {
				continue
			}
			n++
			p0, p1, p2 := l.toRoot(pathOf(a[0])), l.toRoot(pathOf(a[1])), l.toRoot(pathOf(a[2]))
			ci := l.call
			okk := strings.HasSuffix(p0, ".ConjureSeed") && strings.Contains(p1, "GetDecoyListGeneration()") && (p2 == "clientLibVer" || strings.Contains(p2, "GetClientLibVersion()"))
			r.Check(okk, "C01.3", "processBdReq: Select(ConjureSeed, generation, libver, ·)", ci.Pos(), fnName(f), firstN(p0+", "+p1+", "+p2, 120),
				"the registration server selects the phantom it reports to the client from other inputs than the station will use")
		}
		if n < 2 {
			r.Unk("C01.3", "processBdReq: Select calls", f.Pos(), fnName(f), fmt.Sprintf("found %d, expected 2 (v4, v6)", n))
		}
	}
}

func (c *Ctx) checkC01Draws() {
	r := c.R
	expect := func(f *ssa.Function, rd ssa.Value, want []string, what string) {
		steps, ordered := drawSeq(f, rd)
		var got []string
		for _, s := range steps {
			d := s.desc
			for _, g := range guardsOf(f, s.in) {
				for _, prm := range f.Params {
					if b, ok := prm.Type().Underlying().(*types.Basic); ok && b.Info()&types.IsInteger != 0 && strings.Contains(g, "("+pname(prm)+" ") {
						d += " if " + g
					}
				}
			}
			got = append(got, d)
		}
		pos := f.Pos()
		okk := ordered && fmt.Sprint(got) == fmt.Sprint(want)
		if !okk && ordered {
			// a draw moved into a same-package helper: compare with the helper's own draws spliced in at the call
			var exp []string
			inlinedOK := true
			for _, s := range steps {
				suffix := ""
				for _, g := range guardsOf(f, s.in) {
					for _, prm := range f.Params {
						if b, ok := prm.Type().Underlying().(*types.Basic); ok && b.Info()&types.IsInteger != 0 && strings.Contains(g, "("+pname(prm)+" ") {
							suffix += " if " + g
						}
					}
				}
				call, isCall := s.in.(*ssa.Call)
				var h *ssa.Function
				if isCall {
					h = helperCallee(f, &call.Call)
				}
				if h == nil {
					exp = append(exp, s.desc+suffix)
					continue
				}
				pi := -1
				for i, a := range call.Call.Args {
					if a == rd || pathOf(a) == pathOf(rd) {
						pi = i
					}
				}
				if pi < 0 || pi >= len(h.Params) {
					inlinedOK = false
					break
				}
				sub, subOrdered := drawSeq(h, h.Params[pi])
				if !subOrdered {
					inlinedOK = false
					break
				}
				for _, ss := range sub {
					exp = append(exp, ss.desc+suffix)
				}
			}
			if inlinedOK && fmt.Sprint(exp) == fmt.Sprint(want) {
				okk, got = true, exp
			}
		}
		r.Check(okk, "C01.4", fnName(f)+": draw order "+what, pos, fnName(f), strings.Join(got, " ; "),
			fmt.Sprintf("the draws from the derivation stream in %s are %v (path-independent: %v), the published order is %v: every value drawn after the first difference changes", fnName(f), got, ordered, want))
	}
	hk := func(f *ssa.Function) ssa.Value {
		var v ssa.Value
		for _, ci := range callsIn(f, nameIs("golang.org/x/crypto/hkdf.New")) {
			v = ci.Value()
		}
		return v
	}
	if f := c.fn("C01.4", "pkg/core", "", "GenSharedKeys"); f != nil {
		if rd := hk(f); rd != nil {
			expect(f, rd, []string{"Read[104] -> scratch if (" + argName(f, 0) + " < 4)", "Read[16] -> .ConjureSeed", "keep as .TransportReader"}, "legacy pre-draw, seed, transport stream")
		} else {
			r.Unk("C01.4", "GenSharedKeys: hkdf stream", f.Pos(), fnName(f), "hkdf.New not found")
		}
	}
	if f := c.fn("C01.4", "pkg/core", "", "GenerateClientSharedKeys"); f != nil {
		if rd := hk(f); rd != nil {
			steps, ordered := drawSeq(f, rd)
			var got []string
			for _, s := range steps {
				got = append(got, s.desc)
			}
			sort.Strings(got) // the composite literal stores the stream before the read; only the set and the single read matter
			want := []string{"Read[16] -> .ConjureSeed", "keep as .Reader"}
			r.Check(ordered && fmt.Sprint(got) == fmt.Sprint(want), "C01.4", fnName(f)+": seed is the first and only draw; the same stream is kept for the transport", f.Pos(), fnName(f), strings.Join(got, " ; "),
				fmt.Sprintf("the client-side key generation draws %v, published: %v (the client is always at the current version: no legacy pre-draw)", got, want))
		} else {
			r.Unk("C01.4", "GenerateClientSharedKeys: hkdf stream", f.Pos(), fnName(f), "hkdf.New not found")
		}
	}
	if f := c.fn("C01.4", "pkg/transports/wrapping/obfs4", "", "generateObfs4Keys"); f != nil && len(f.Params) == 1 {
		expect(f, f.Params[0], []string{"Read[32] -> .PrivateKey", "Read[20] -> .NodeID"}, "private key, node id")
	}
	// the seeded port: min + (one draw below max-min), the published formula (the upper bound is exclusive)
	if f := c.fn("C01.4", "pkg/transports", "", "PortSelectorRange"); f != nil && len(f.Params) == 3 {
		if rd := hk(f); rd != nil {
			expect(f, rd, []string{"rand.Int[<NewInt((" + P(f, 1) + " - " + P(f, 0) + "))]"}, "one draw below max-min")
			var draw ssa.Value
			for _, ci := range callsIn(f, nameIs("crypto/rand.Int")) {
				for _, ex := range extractOf(ci.(*ssa.Call), 0) {
					draw = ex
				}
			}
			okRet, nRet := draw != nil, 0
			var muts []string
			if draw != nil {
				eachInstr(f, func(in ssa.Instruction) {
					switch x := in.(type) {
					case *ssa.Return:
						if e, isC := x.Results[1].(*ssa.Const); !isC || e.Value != nil {
							return
						}
						if _, isConst := x.Results[0].(*ssa.Const); isConst {
							return // the error path of the draw returns (0, nil)
						}
						nRet++
						cv, ok := x.Results[0].(*ssa.Convert)
						if !ok {
							okRet = false
							return
						}
						call, ok := cv.X.(*ssa.Call)
						if !ok || calleeName(&call.Call) != "(*math/big.Int).Uint64" || call.Call.Args[0] != draw {
							okRet = false
						}
					case *ssa.Call:
						n := calleeName(&x.Call)
						if len(x.Call.Args) > 0 && x.Call.Args[0] == draw && strings.HasPrefix(n, "(*math/big.Int).") {
							switch n {
							case "(*math/big.Int).Uint64", "(*math/big.Int).Int64", "(*math/big.Int).Cmp", "(*math/big.Int).String", "(*math/big.Int).Sign", "(*math/big.Int).IsUint64", "(*math/big.Int).IsInt64", "(*math/big.Int).BitLen":
							default:
								var as []string
								for _, a := range x.Call.Args[1:] {
									if a == draw {
										as = append(as, "draw")
									} else {
										as = append(as, pathOf(a))
									}
								}
								muts = append(muts, strings.TrimPrefix(n, "(*math/big.Int).")+"("+strings.Join(as, ", ")+")")
							}
						}
					}
				})
			}
			want := "[Add(draw, big.NewInt(" + P(f, 0) + "))]"
			r.Check(okRet && nRet == 1 && fmt.Sprint(muts) == want, "C01.4", "PortSelectorRange: port = uint16(min + draw)", f.Pos(), fnName(f), "draw updated by "+fmt.Sprint(muts)+", returned as uint16(draw.Uint64())",
				"the seeded port is not min + (draw below max-min): the station expects the client on a different port than every released client computes from the same seed")
		} else {
			r.Unk("C01.4", "PortSelectorRange: hkdf stream", f.Pos(), fnName(f), "hkdf.New not found")
		}
	}
	if f := c.fn("C01.4", "pkg/dtls", "", "newCertificate"); f != nil && len(f.Params) == 1 {
		expect(f, f.Params[0], []string{"dtls.getPrivkey", "dtls.getX509Tpl"}, "key pair, then template")
	}
	if f := c.fn("C01.4", "pkg/dtls", "", "getX509Tpl"); f != nil && len(f.Params) == 1 {
		expect(f, f.Params[0], []string{"rand.Int[<1361129467683753853853498429727072845823]", "io.ReadFull[8]"}, "serial below 2^130-1, common name")
	}
	if f := c.fn("C01.4", "pkg/dtls", "", "certsFromSeed"); f != nil {
		if rd := hk(f); rd != nil {
			expect(f, rd, []string{"dtls.newCertificate", "dtls.newCertificate"}, "client certificate, then server certificate")
			// returned in draw order
			calls := callsIn(f, shortIs("newCertificate"))
			if len(calls) == 2 {
				eachInstr(f, func(in ssa.Instruction) {
					ret, ok := in.(*ssa.Return)
					if !ok || len(ret.Results) != 3 {
						return
					}
					if e, isC := ret.Results[2].(*ssa.Const); !isC || e.Value != nil {
						return
					}
					okk := dependsOn(ret.Results[0], calls[0].Value()) && dependsOn(ret.Results[1], calls[1].Value()) && !dependsOn(ret.Results[0], calls[1].Value())
					r.Check(okk, "C01.4", "certsFromSeed: (client, server) = (first, second) certificate drawn", ret.Pos(), fnName(f), "results in draw order", "certsFromSeed returns the certificates in the opposite roles: each side presents the certificate the other side expects of itself")
				})
			}
		}
	}
	// one derivation stream per registration: the keys returned by GenSharedKeys carry a stateful stream
	// (TransportReader); handing the same result to two registrations makes the second one continue where the first
	// stopped, so its transport keys are ones no client derives
	for _, f := range c.funcsOfPkgs("pkg/station/lib", "pkg/regserver/regprocessor") {
		for _, ci := range callsIn(f, shortIs("GenSharedKeys")) {
			call, ok := ci.(*ssa.Call)
			if !ok {
				continue
			}
			var keyVals []ssa.Value
			for _, ex := range extractOf(call, 0) {
				keyVals = append(keyVals, ex)
			}
			// the local the result is stored into (its address or a load of it is what gets passed on)
			eachInstr(f, func(in ssa.Instruction) {
				if st, ok := in.(*ssa.Store); ok {
					for _, kv := range keyVals {
						if st.Val == kv {
							if al, ok := st.Addr.(*ssa.Alloc); ok {
								keyVals = append(keyVals, al)
							}
						}
					}
				}
			})
			var users []ssa.Instruction
			eachInstr(f, func(in ssa.Instruction) {
				c2, ok := in.(ssa.CallInstruction)
				if !ok || in == ssa.Instruction(call) {
					return
				}
				cal := c2.Common().StaticCallee()
				if cal == nil || !isRepoPath(fnPkgPath(cal)) {
					return
				}
				for _, a := range c2.Common().Args {
					for _, kv := range keyVals {
						if a == kv || dependsOn(a, kv) {
							if typeShort(a.Type()) == "core.ConjureSharedKeys" || typeShort(a.Type()) == "*core.ConjureSharedKeys" {
								users = append(users, in)
								return
							}
						}
					}
				}
			})
			inLoop := false
			for _, u := range users {
				if again, _ := reach(f, u, isInstr(u), isInstr(call), nil); again {
					inLoop = true
				}
			}
			r.Check(len(users) <= 1 && !inLoop, "C01.4", fnName(f)+": the keys of one GenSharedKeys call go to at most one registration", call.Pos(), fnName(f), fmt.Sprintf("%d consumer call(s)", len(users)),
				fmt.Sprintf("the result of one GenSharedKeys call is handed to %d registration-building call(s)%s: the registrations share one stateful TransportReader, the second one draws its obfs4 keys from where the first stopped and is filed under an identity no client derives", len(users), map[bool]string{true: " (inside a loop)", false: ""}[inLoop]))
		}
	}
	// the transport stream is consumed at most once per registration
	n := 0
	for _, f := range c.funcsOfPkgs("pkg/transports/wrapping/obfs4") {
		for _, ci := range callsIn(f, shortIs("generateObfs4Keys")) {
			a := ci.Common().Args
			ap := pathOf(a[0])
			if !strings.HasSuffix(ap, ".TransportReader()") {
				if strings.Contains(fnName(f), "ClientTransport") {
					r.Check(ap == argName(f, 2), "C01.4", fnName(f)+": obfs4 keys from the stream handed to PrepareKeys", ci.Pos(), fnName(f), ap, "the client derives its obfs4 keys from "+ap+" rather than the shared-keys stream passed in")
				}
				continue
			}
			n++
			regP := strings.TrimSuffix(ap, ".TransportReader()")
			g := guarded(f, ci.(ssa.Instruction), Atom{"(" + orderEq(regP+".TransportKeys()", "nil") + ")", true})
			// result stored back
			stored := false
			for _, sc := range callsIn(f, shortIs("SetTransportKeys")) {
				if pathOf(recvOf(sc.Common())) == regP && dependsOn(sc.Common().Args[len(sc.Common().Args)-1], ci.Value()) {
					stored = true
				}
			}
			r.Check(g && stored, "C01.4", fnName(f)+": transport stream read only while no keys are set, and the keys are kept", ci.Pos(), fnName(f), "dominated by "+regP+".TransportKeys() == nil; SetTransportKeys(result)",
				"obfs4 keys are drawn from the registration's transport stream without the 'no keys yet' test (or are not stored): a second draw continues the stream and yields keys the client never derives")
		}
	}
	if n == 0 {
		r.Unk("C01.4", "obfs4 station key derivation", token.NoPos, "pkg/transports/wrapping/obfs4", "no generateObfs4Keys(reg.TransportReader()) site found")
	}
}

// guardedAll: every atom individually dominates the instruction (guarded with several atoms means "by any of them").
func guardedAll(f *ssa.Function, in ssa.Instruction, atoms ...Atom) bool {
	for _, a := range atoms {
		if !guarded(f, in, a) {
			return false
		}
	}
	return true
}

// weightOfElem: v is <slice>[idx].GetWeight() for the given index parameter.
func weightOfElem(v ssa.Value, idx *ssa.Parameter) bool {
	call, ok := v.(*ssa.Call)
	if !ok || calleeShort(&call.Call) != "GetWeight" || len(call.Call.Args) != 1 {
		return false
	}
	u, ok := call.Call.Args[0].(*ssa.UnOp)
	if !ok || u.Op != token.MUL {
		return false
	}
	ia, ok := u.X.(*ssa.IndexAddr)
	return ok && ia.Index == ssa.Value(idx)
}

// argName is the name of the i-th declared parameter of f (the receiver is not counted).
func argName(f *ssa.Function, i int) string {
	if f.Signature.Recv() != nil {
		i++
	}
	if i < len(f.Params) {
		return pname(f.Params[i])
	}
	return "?"
}

// onlyCalledFromMatching: every static call site of the unexported function f is in a function accepted by ok (or in
// a function for which the same holds, up to depth levels).
func onlyCalledFromMatching(f *ssa.Function, ok func(*ssa.Function) bool, depth int) bool {
	if f.Object() == nil || f.Parent() != nil {
		return false
	}
	sites, asValue := callersOf(f)
	if asValue || len(sites) == 0 {
		return false
	}
	for _, s := range sites {
		p := s.Parent()
		if p == nil {
			return false
		}
		if ok(p) {
			continue
		}
		if depth <= 0 || !onlyCalledFromMatching(p, ok, depth-1) {
			return false
		}
	}
	return true
}
