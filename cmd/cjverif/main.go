package main

import (
	"encoding/json"
	"flag"
	"fmt"
	"go/token"
	"os"
	"path/filepath"
	"runtime/debug"
	"sort"
	"strconv"
	"strings"
	"time"

	"golang.org/x/tools/go/ssa"
)

// Ctx is what a property check sees.
type Ctx struct {
	P    *Program
	R    *Report
	Tier string
	Dir  string // repo dir
	// Overlay holds analysis-time file replacements (mutant self-test); non-Go inputs consult it too.
	Overlay map[string][]byte
}

// readRepoFile reads a file of the repository, honouring the overlay.
func (c *Ctx) readRepoFile(rel string) ([]byte, error) {
	abs := filepath.Join(c.Dir, rel)
	if b, ok := c.Overlay[abs]; ok {
		return b, nil
	}
	return os.ReadFile(abs)
}

// fn resolves an anchor function; an unresolved anchor is an undecided obligation.
func (c *Ctx) fn(rule, pkg, recv, name string) *ssa.Function {
	f := c.P.Func(repoMod+"/"+pkg, recv, name)
	if f == nil && (pkg == "cmd/application" || pkg == "cmd/registration-server") {
		f = c.P.Func(repoMod+"/"+pkg, recv, name)
	}
	if f == nil || f.Blocks == nil {
		label := pkg + "." + name
		if recv != "" {
			label = pkg + ".(" + recv + ")." + name
		}
		c.R.Unk(rule, "anchor "+label, token.NoPos, label, "anchor function "+label+" not found in the loaded program")
		return nil
	}
	return f
}

type propCheck struct {
	Run     func(*Ctx)
	Explain string
	Assume  []string
}

var properties = map[string]*propCheck{}

func register(id string, p *propCheck) { properties[id] = p }

func usage() {
	fmt.Fprintln(os.Stderr, `usage:
  cjverif check -property C05 [-tier quick|thorough] [-repo /repo] [-overlay file=replacement]...
  cjverif dump -fn pkg:recv:name [-repo /repo]
  cjverif selftest -property C05 [-repo /repo]
  cjverif list`)
	os.Exit(2)
}

type multiFlag []string

func (m *multiFlag) String() string     { return strings.Join(*m, ",") }
func (m *multiFlag) Set(s string) error { *m = append(*m, s); return nil }

func verifDir() string {
	if d := os.Getenv("VERIF_DIR"); d != "" {
		return d
	}
	exe, err := os.Executable()
	if err == nil {
		d := filepath.Dir(filepath.Dir(exe))
		if _, err := os.Stat(filepath.Join(d, "properties.jsonl")); err == nil {
			return d
		}
	}
	return "/verif"
}

func main() {
	if len(os.Args) < 2 {
		usage()
	}
	loadCanonNames(verifDir())
	switch os.Args[1] {
	case "gen-names":
		os.Exit(cmdGenNames(os.Args[2:]))
	case "check":
		os.Exit(cmdCheck(os.Args[2:]))
	case "dump":
		os.Exit(cmdDump(os.Args[2:]))
	case "selftest":
		os.Exit(cmdSelftest(os.Args[2:]))
	case "trypatch":
		os.Exit(cmdTryPatch(os.Args[2:]))
	case "list":
		var ids []string
		for id := range properties {
			ids = append(ids, id)
		}
		sort.Strings(ids)
		fmt.Println(strings.Join(ids, " "))
	default:
		usage()
	}
}

func parseOverlays(ov multiFlag, repo string) (map[string][]byte, error) {
	if len(ov) == 0 {
		return nil, nil
	}
	m := map[string][]byte{}
	for _, o := range ov {
		i := strings.IndexByte(o, '=')
		if i < 0 {
			return nil, fmt.Errorf("bad -overlay %q", o)
		}
		target := o[:i]
		if !filepath.IsAbs(target) {
			target = filepath.Join(repo, target)
		}
		b, err := os.ReadFile(o[i+1:])
		if err != nil {
			return nil, err
		}
		m[target] = b
	}
	return m, nil
}

func cmdCheck(args []string) (code int) {
	fs := flag.NewFlagSet("check", flag.ExitOnError)
	prop := fs.String("property", "", "property id")
	tier := fs.String("tier", os.Getenv("VERIF_TIER"), "quick|thorough")
	repo := fs.String("repo", "/repo", "repository working tree")
	noEv := fs.Bool("no-evidence", false, "do not write the evidence file (used by the mutant self-test)")
	var ov multiFlag
	fs.Var(&ov, "overlay", "file=replacement (analysis-time overlay; used by the mutant self-test)")
	_ = fs.Parse(args)
	if *tier == "" {
		*tier = "quick"
	}
	pc := properties[*prop]
	if pc == nil {
		fmt.Fprintf(os.Stderr, "unknown property %q\n", *prop)
		return 2
	}
	seed, _ := strconv.ParseInt(os.Getenv("VERIF_SEED"), 10, 64)
	t0 := time.Now()
	vdir := verifDir()
	defer func() {
		if r := recover(); r != nil {
			fmt.Fprintf(os.Stderr, "analyser panic (no verdict): %v\n%s\n", r, debug.Stack())
			code = 2
		}
	}()
	// 1. fixtures: the engines must flag exactly the violating fixtures.
	fx, err := runFixtures(vdir)
	if err != nil {
		fmt.Fprintln(os.Stderr, "fixture self-check failed (no verdict):", err)
		return 2
	}
	// 2. the repository, from its current working tree.
	overlay, err := parseOverlays(ov, *repo)
	if err != nil {
		fmt.Fprintln(os.Stderr, err)
		return 2
	}
	p, err := LoadProgram(*repo, repoPatterns, overlay, "")
	if err != nil {
		fmt.Fprintln(os.Stderr, "load failed (no verdict):", err)
		return 2
	}
	nrepo := 0
	for _, pk := range p.RepoPkgs {
		if isRepoPath(pk.PkgPath) {
			nrepo++
		}
	}
	if nrepo < 38 {
		fmt.Fprintf(os.Stderr, "load failed (no verdict): only %d repo packages loaded, expected >= 38\n", nrepo)
		return 2
	}
	r := NewReport(*prop, *tier, p.Roots[0].Fset, *repo)
	c := &Ctx{P: p, R: r, Tier: *tier, Dir: *repo, Overlay: overlay}
	allRepoFuncs = p.RepoFuncs()
	pc.Run(c)
	if *tier == "thorough" {
		// second build configuration: the files behind the repository's own build tag
		for _, tags := range []string{"debug"} {
			p2, err := LoadProgram(*repo, repoPatterns, overlay, tags)
			if err != nil {
				fmt.Fprintf(os.Stderr, "load with -tags=%s failed (no verdict): %v\n", tags, err)
				return 2
			}
			r2 := NewReport(*prop, *tier, p2.Roots[0].Fset, *repo)
			allRepoFuncs = p2.RepoFuncs()
			pc.Run(&Ctx{P: p2, R: r2, Tier: *tier, Dir: *repo, Overlay: overlay})
			have := map[string]bool{}
			for _, f := range r.Findings {
				have[f.Key] = true
			}
			extra := 0
			for _, f := range r2.Findings {
				if !have[f.Key] {
					f.What = "[only with -tags=" + tags + "] " + f.What
					r.Findings = append(r.Findings, f)
					extra++
				}
			}
			r.Note("thorough: re-analysed with -tags=%s: %d obligations, %d finding(s) not present in the default configuration", tags, len(r2.Obligations), extra)
		}
		allRepoFuncs = p.RepoFuncs()
	}
	known, err := loadKnown(filepath.Join(vdir, "known_findings.json"))
	if err != nil {
		fmt.Fprintln(os.Stderr, err)
		return 2
	}
	var st map[string]any
	if *tier == "thorough" && len(ov) == 0 && !*noEv {
		st = runMutants(vdir, *repo, *prop)
		if st != nil {
			st["seeded"] = runSeeds(vdir, *repo, *prop)
			st["refactorings"] = runRefactors(vdir, *repo, *prop)
		}
	}
	return r.Finalize(finalizeOpts{
		VerifDir: vdir, Known: known, Wall: time.Since(t0), Seed: seed,
		Packages: nrepo, Functions: len(p.RepoFuncs()), CGNodes: p.cgNodes, Fixtures: fx,
		Assumption: pc.Assume, Explain: pc.Explain, SelfTest: st, NoEvidence: *noEv,
	})
}

func cmdDump(args []string) int {
	fs := flag.NewFlagSet("dump", flag.ExitOnError)
	fnSpec := fs.String("fn", "", "pkg:recv:name (pkg relative to the repo module)")
	repo := fs.String("repo", "/repo", "repo")
	conds := fs.Bool("conds", false, "only print canonical branch conditions")
	_ = fs.Parse(args)
	p, err := LoadProgram(*repo, repoPatterns, nil, "")
	if err != nil {
		fmt.Fprintln(os.Stderr, err)
		return 2
	}
	for _, spec := range strings.Split(*fnSpec, ",") {
		parts := strings.Split(spec, ":")
		if len(parts) != 3 {
			usage()
		}
		pkg := parts[0]
		if !strings.Contains(pkg, ".") || strings.HasPrefix(pkg, "cmd/") {
			pkg = repoMod + "/" + pkg
		}
		f := p.Func(pkg, parts[1], parts[2])
		if f == nil {
			fmt.Println("not found:", spec)
			continue
		}
		for _, g := range withAnon(f) {
			dumpFn(p, g, *conds)
		}
	}
	return 0
}

func dumpFn(p *Program, f *ssa.Function, condsOnly bool) {
	fset := p.Roots[0].Fset
	fmt.Printf("=== %s\n", f)
	if condsOnly {
		for _, c := range condsOf(f) {
			fmt.Println("  cond:", c)
		}
		return
	}
	for _, b := range f.Blocks {
		var succ []string
		for _, s := range b.Succs {
			succ = append(succ, strconv.Itoa(s.Index))
		}
		fmt.Printf("b%d (%s) -> %s\n", b.Index, b.Comment, strings.Join(succ, ","))
		for _, in := range b.Instrs {
			line := fset.Position(in.Pos()).Line
			s := in.String()
			if v, ok := in.(ssa.Value); ok {
				s = v.Name() + " = " + s + "   ; " + pathOf(v)
			}
			if iff, ok := in.(*ssa.If); ok {
				cc, pol := normCond(iff.Cond)
				s += "   ; " + Atom{cc, pol}.String()
			}
			fmt.Printf("   %4d  %s\n", line, s)
		}
	}
}

// cmdGenNames freezes today's parameter / captured-variable names of every repository function into
// /verif/anchors/param_names.json (run by hand when the rule tables are re-validated against a new tree).
func cmdGenNames(args []string) int {
	fs := flag.NewFlagSet("gen-names", flag.ExitOnError)
	repo := fs.String("repo", "/repo", "repo")
	_ = fs.Parse(args)
	canonTable = map[string]fnNames{}
	p, err := LoadProgram(*repo, repoPatterns, nil, "")
	if err != nil {
		fmt.Fprintln(os.Stderr, err)
		return 2
	}
	out := map[string]fnNames{}
	for _, f := range p.RepoFuncs() {
		var n fnNames
		for _, q := range f.Params {
			n.Params = append(n.Params, q.Name())
		}
		for _, q := range f.FreeVars {
			n.FreeVars = append(n.FreeVars, q.Name())
		}
		if len(n.Params)+len(n.FreeVars) > 0 {
			out[f.String()] = n
		}
	}
	b, _ := json.MarshalIndent(out, "", " ")
	dir := filepath.Join(verifDir(), "anchors")
	_ = os.MkdirAll(dir, 0o755)
	if err := os.WriteFile(filepath.Join(dir, "param_names.json"), b, 0o644); err != nil {
		fmt.Fprintln(os.Stderr, err)
		return 2
	}
	fmt.Printf("%d functions\n", len(out))
	return 0
}
