package main

import (
	"fmt"
	"go/constant"
	"go/token"
	"go/types"
	"strings"

	"golang.org/x/tools/go/ssa"
)

func init() {
	register("C05", &propCheck{Run: checkC05,
		Explain: "Path rules on halfPipe/Proxy (go/ssa CFG with nil-fact path sensitivity). " +
			"C05.1 io.Reader contract: on every path from src.Read to the next Read or to a return, the bytes buf[:n] are written first unless the path established n<=0; " +
			"C05.2 the slice written is a prefix of the buffer that was read into with a bound derived from n, and every byte counter is fed from the write count; " +
			"C05.3 the loop continues only after a nil write error and nw==nr; " +
			"C05.4 the WaitGroup release and the close of both connections are deferred before the first return, the closer reaches Close on every path, " +
			"wg.Add(n) matches n must-pass `go halfPipe`, Wait precedes removeSession, add/removeSession are paired, covertConn.Close is deferred after a successful dial, every caller of Proxy (or its caller) defers Close of a connection. " +
			"Decides these structural conditions of loss-free relay and teardown on all paths; not stream equality over all chunkings.",
		Assume: []string{"io.Reader/io.Writer contracts of the standard library", "the asynchronous `go closeConn(src)` terminates (bounded by the 10 s linger)"}})
}

// readThenErr implements E11 for one Read call site.
// Returns (ok, witness). consume: instructions that deliver buf[:f(n)] onward.
func readThenErr(fn *ssa.Function, read *ssa.Call, exemptEdge func(cnd string, pol bool) bool) (nConsumers int, bad bool, witness []int, why string) {
	args := argsOf(&read.Call)
	if len(args) != 1 {
		return 0, true, nil, "Read call does not have exactly one buffer argument"
	}
	buf := args[0]
	ns := extractOf(read, 0)
	if len(ns) == 0 {
		return 0, true, nil, "byte count of Read is discarded"
	}
	n := ns[0]
	bufPath := pathOf(buf)
	isBufSlice := func(v ssa.Value) bool {
		sl, ok := stripConv(v).(*ssa.Slice)
		return ok && (sl.X == buf || pathOf(sl.X) == bufPath) && sl.High != nil && dependsOn(sl.High, n)
	}
	// carriers: local struct temporaries into which buf[:n] was stored (errBytes{buffer[:n], err})
	carriers := map[*ssa.Alloc]bool{}
	eachInstr(fn, func(in ssa.Instruction) {
		if st, ok := in.(*ssa.Store); ok && isBufSlice(st.Val) {
			if fa, ok := st.Addr.(*ssa.FieldAddr); ok {
				if a, ok := fa.X.(*ssa.Alloc); ok && !a.Heap {
					carriers[a] = true
				}
			}
		}
	})
	carries := func(v ssa.Value) bool {
		if isBufSlice(v) {
			return true
		}
		if u, ok := v.(*ssa.UnOp); ok && u.Op == token.MUL {
			if a, ok := u.X.(*ssa.Alloc); ok && carriers[a] {
				return true
			}
		}
		return false
	}
	isConsumer := func(in ssa.Instruction) bool {
		var vals []ssa.Value
		switch x := in.(type) {
		case *ssa.Call:
			switch calleeName(&x.Call) {
			case "bytes.Equal", "bytes.Compare", "bytes.HasPrefix", "bytes.HasSuffix", "bytes.Contains", "bytes.Index", "builtin.len", "builtin.cap":
				return false // observers do not deliver the data anywhere
			}
			vals = x.Call.Args
		case *ssa.Send:
			return carries(x.X)
		case *ssa.Select:
			for _, st := range x.States {
				if st.Dir == 1 && st.Send != nil && carries(st.Send) {
					return true // offered for delivery
				}
			}
			return false
		case *ssa.Store:
			// retained on the heap: the slice itself, or the count n saved next to a buffer that lives in the object
			if fa, ok := x.Addr.(*ssa.FieldAddr); ok {
				if a, isA := fa.X.(*ssa.Alloc); isA && !a.Heap {
					return false // a local temporary is only a carrier
				}
				if isBufSlice(x.Val) {
					return true
				}
				if dependsOn(x.Val, n) {
					if _, _, isField := fieldOwner(stripLoad(buf)); isField {
						return true
					}
				}
			}
			return false
		case *ssa.Return:
			// returning n together with err hands the bytes (already in the caller's buffer) to the caller
			hasN, hasBuf := false, false
			for i, r := range x.Results {
				if dependsOn(r, n) || dependsOn(returnedValue(x, i, nil), n) {
					hasN = true
				}
				_ = hasBuf
			}
			return hasN
		default:
			return false
		}
		for _, v := range vals {
			if carries(v) {
				return true
			}
		}
		return false
	}
	eachInstr(fn, func(in ssa.Instruction) {
		if _, isRet := in.(*ssa.Return); !isRet && isConsumer(in) {
			nConsumers++
		}
	})
	np := pathOf(n)
	zeroEdges := edgesEstablishing(fn, func(c string, pol bool) bool {
		// n <= 0 : !(0 < n) ; n == 0 ; n < 1
		if c == "(0 < "+np+")" && !pol {
			return true
		}
		if c == "("+orderEq("0", np)+")" && pol {
			return true
		}
		if c == "("+np+" < 1)" && pol {
			return true
		}
		if exemptEdge != nil && exemptEdge(c, pol) {
			return true
		}
		return false
	})
	isNext := func(in ssa.Instruction) bool {
		if in == ssa.Instruction(read) {
			return true
		}
		if r, ok := in.(*ssa.Return); ok {
			return !isConsumer(r)
		}
		return false
	}
	blocked := func(in ssa.Instruction) bool {
		if _, ok := in.(*ssa.Return); ok {
			return false
		}
		return isConsumer(in)
	}
	hit, w := reachPS(fn, read, isNext, blocked, zeroEdges)
	if hit {
		return nConsumers, true, w, "a path leaves the read (to the next read or a return) without delivering buf[:n] and without having established n <= 0"
	}
	return nConsumers, false, nil, ""
}

func checkC05(c *Ctx) {
	r := c.R
	hp := c.fn("C05.1", "pkg/station/lib", "", "halfPipe")
	px := c.fn("C05.4", "pkg/station/lib", "", "Proxy")
	r.Rule("C05.1", "bytes returned together with a read error are written before the loop exits (io.Reader contract as a path rule)", 1)
	r.Rule("C05.2", "the written slice is a prefix of the read buffer bounded by n; counters take the write count", 3)
	r.Rule("C05.3", "the relay loop continues only after a nil write error and a full write", 2)
	r.Rule("C05.4", "teardown: deferred WaitGroup release and close of both sides; balanced WaitGroup and session gauge; covert closed; callers close the client", 9)
	if hp != nil {
		var reads, writes []*ssa.Call
		eachInstr(hp, func(in ssa.Instruction) {
			if call, ok := in.(*ssa.Call); ok && call.Call.IsInvoke() {
				switch call.Call.Method.Name() {
				case "Read":
					reads = append(reads, call)
				case "Write":
					writes = append(writes, call)
				}
			}
		})
		if len(reads) != 1 || len(writes) != 1 {
			r.Unk("C05.1", "halfPipe: one Read and one Write", hp.Pos(), fnName(hp), fmt.Sprintf("expected exactly one Read and one Write call in the relay loop, found %d/%d", len(reads), len(writes)))
		} else {
			rd, wr := reads[0], writes[0]
			nc, bad, w, why := readThenErr(hp, rd, nil)
			if bad {
				r.Bad("C05.1", "halfPipe: "+pathOf(recvOf(&rd.Call))+".Read data dropped on error path", rd.Pos(), fnName(hp),
					why+": when the reader returns (n>0, err) — the DTLS stream does, io.Reader allows it — the final bytes never reach the other side", r.blockPath(hp, w)...)
			} else {
				r.OK("C05.1", "halfPipe: every exit from "+pathOf(recvOf(&rd.Call))+".Read delivers buf[:n] or has n<=0", rd.Pos(), fmt.Sprintf("%d consumer(s) of the read buffer; no consumer-free path to the next Read/return", nc))
			}
			// C05.2
			buf := argsOf(&rd.Call)[0]
			n := extractOf(rd, 0)
			sl, _ := stripConv(argsOf(&wr.Call)[0]).(*ssa.Slice)
			okSlice := sl != nil && (sl.X == buf || pathOf(sl.X) == pathOf(buf)) && sl.Low == nil && sl.High != nil && len(n) > 0 && dependsOn(sl.High, n[0])
			// the bound may depend only on n, len(buf) and constants
			if okSlice {
				okSlice = onlyDependsOn(sl.High, map[ssa.Value]bool{n[0]: true, buf: true})
			}
			r.Check(okSlice, "C05.2", "halfPipe: Write argument is buf[:f(nr)] of the buffer read into", wr.Pos(), fnName(hp),
				"argument "+firstN(pathOf(argsOf(&wr.Call)[0]), 120), "the bytes written are not the prefix buf[:nr] of the buffer that Read filled (wrong buffer, offset or bound): the stream is corrupted")
			// src of read and dst of write differ
			r.Check(pathOf(recvOf(&rd.Call)) != pathOf(recvOf(&wr.Call)), "C05.2", "halfPipe: reads from one side, writes to the other", wr.Pos(), fnName(hp),
				pathOf(recvOf(&rd.Call))+" -> "+pathOf(recvOf(&wr.Call)), "Read and Write use the same connection: data is echoed instead of relayed")
			nw := extractOf(wr, 0)
			eachInstr(hp, func(in ssa.Instruction) {
				call, ok := in.(*ssa.Call)
				if !ok {
					return
				}
				sh := calleeShort(&call.Call)
				if strings.HasPrefix(sh, "addBytes") {
					sh = "addBytes" // addBytes, addBytesUp / addBytesDown: the tunnel's own counters
				}
				switch sh {
				case "addBytes", "AddBytesUp", "AddBytesDown", "AddBytes":
					a := argsOf(&call.Call)
					okc := len(a) > 0 && len(nw) > 0 && dependsOn(a[0], nw[0]) && (len(n) == 0 || !dependsOnAvoiding(a[0], n[0], wr))
					r.Check(okc, "C05.2", "halfPipe: "+calleeShort(&call.Call)+" counts the write result", call.Pos(), fnName(hp),
						"argument derives from the Write count", "the byte counter is fed from something other than the number of bytes actually written: reported counts differ from delivered bytes on short writes")
				}
			})
			// every delivered count is in the tunnel's counter before halfPipe returns (whichever exit is taken)
			if len(nw) > 0 {
				isCounter := func(name string, _ *ssa.CallCommon) bool {
					return strings.Contains(name, "tunnelStats).addBytes")
				}
				publishes := map[ssa.Instruction]bool{}
				eachInstr(hp, func(in ssa.Instruction) {
					ci, ok := in.(ssa.CallInstruction)
					if !ok {
						return
					}
					if _, isDefer := in.(*ssa.Defer); isDefer {
						return
					}
					if strings.HasPrefix(calleeShort(ci.Common()), "addBytes") && strings.Contains(calleeName(ci.Common()), "tunnelStats).") {
						if a := argsOf(ci.Common()); len(a) > 0 && dependsOn(a[0], nw[0]) {
							publishes[in] = true
						}
						return
					}
					for _, t := range closureTargets(hp, ci.Common()) {
						if t.Parent() == hp && len(callsIn(t, isCounter)) > 0 {
							// a local helper that publishes an accumulator: it counts only if the accumulator is fed from nw
							publishes[in] = true
						}
					}
				})
				lost, w := reach(hp, wr, isReturn, anyOf(publishes), nil)
				if lost || len(publishes) == 0 {
					r.Bad("C05.2", "halfPipe: an exit is reachable after a write whose count has not been added to the tunnel counter", wr.Pos(), fnName(hp),
						"after dst.Write returned there is a path to a return that passes no addBytes for that count (e.g. counts are batched and only published on some exits): the byte counts reported for the tunnel are smaller than the bytes delivered", r.blockPath(hp, w)...)
				} else {
					r.OK("C05.2", "halfPipe: every write count is added to the tunnel counter before any exit", wr.Pos(), fmt.Sprintf("%d publishing call(s), must-pass from the Write to every return", len(publishes)))
				}
			}
			// C05.3
			if len(nw) > 0 && len(n) > 0 {
				eqEdges := edgesEstablishing(hp, atomMatcher(Atom{"(" + orderEq(pathOf(nw[0]), pathOf(n[0])) + ")", true}))
				loop, w := reachPS(hp, wr, isInstr(rd), nil, eqEdges)
				if loop || len(eqEdges) == 0 {
					r.Bad("C05.3", "halfPipe: loop continues without nw == nr", wr.Pos(), fnName(hp),
						"a path from the Write back to the next Read does not pass the nw == nr test: after a short write the remaining bytes are silently lost and the stream continues", r.blockPath(hp, w)...)
				} else {
					r.OK("C05.3", "halfPipe: next Read only after nw == nr", wr.Pos(), "every loop path passes the equality edge")
				}
			}
			we := extractOf(wr, 1)
			if len(we) > 0 {
				nilEdges := edgesEstablishing(hp, atomMatcher(Atom{"(" + orderEq(pathOf(we[0]), "nil") + ")", true}))
				loop, w := reachPS(hp, wr, isInstr(rd), nil, nilEdges)
				if loop || len(nilEdges) == 0 {
					r.Bad("C05.3", "halfPipe: loop continues after a write error", wr.Pos(), fnName(hp),
						"a path from the Write back to the next Read does not establish a nil write error: the loop keeps reading after the peer failed", r.blockPath(hp, w)...)
				} else {
					r.OK("C05.3", "halfPipe: next Read only after a nil write error", wr.Pos(), "every loop path passes the ew == nil edge")
				}
			} else {
				r.Bad("C05.3", "halfPipe: write error discarded", wr.Pos(), fnName(hp), "the error result of dst.Write is not examined")
			}
		}
		// C05.4 teardown in halfPipe
		var doneDefer, closeDefer *ssa.Defer
		closesPaths := map[string]bool{}
		var condClose []string
		eachInstr(hp, func(in ssa.Instruction) {
			d, ok := in.(*ssa.Defer)
			if !ok {
				return
			}
			mc, ok := d.Call.Value.(*ssa.MakeClosure)
			if !ok {
				return
			}
			cf := mc.Fn.(*ssa.Function)
			if len(callsIn(cf, nameIs("(*sync.WaitGroup).Done"))) > 0 && mustCall(cf, nameIs("(*sync.WaitGroup).Done")) {
				doneDefer = d
			}
			// closer: calls (Call or Go) a function value with a connection argument; that function must reach Close on every path
			eachInstr(cf, func(ci ssa.Instruction) {
				call, ok := ci.(ssa.CallInstruction)
				if !ok {
					return
				}
				for _, target := range closureTargets(hp, call.Common()) {
					if len(target.Params) == 0 {
						continue
					}
					if mustCallOn(target, "Close", target.Params[0]) {
						if len(call.Common().Args) > 0 {
							// the teardown closes this side on EVERY path through the deferred closure (not only when some
							// flag says the side is "still open")
							if skip, _ := reach(cf, nil, isReturn, isInstr(ci), nil); skip {
								condClose = append(condClose, pathOf(call.Common().Args[0]))
								continue
							}
							closesPaths[pathOf(call.Common().Args[0])] = true
							closeDefer = d
						}
					}
				}
			})
		})
		firstRet := func(need ssa.Instruction) (bool, []int) {
			return reach(hp, nil, isReturn, isInstr(need), nil)
		}
		if doneDefer == nil {
			r.Bad("C05.4", "halfPipe: deferred wg.Done on every exit", hp.Pos(), fnName(hp), "no deferred closure that always calls wg.Done(): Proxy's wg.Wait() can hang forever")
		} else if esc, w := firstRet(doneDefer); esc {
			r.Bad("C05.4", "halfPipe: return before the wg.Done defer is registered", doneDefer.Pos(), fnName(hp), "a return precedes the registration of the deferred wg.Done(): Proxy never returns", r.blockPath(hp, w)...)
		} else {
			r.OK("C05.4", "halfPipe: wg.Done deferred before any return", doneDefer.Pos(), "must-pass defer")
		}
		if closeDefer == nil || !(closesPaths["src"] && closesPaths["dst"]) {
			r.Bad("C05.4", "halfPipe: deferred close of both connections", hp.Pos(), fnName(hp),
				fmt.Sprintf("the deferred teardown does not reach Close() on every path for both src and dst (closes unconditionally: %v; only conditionally: %v): when one direction ends the other side stays open - an EOF or EPIPE means the PEER is gone, the local connection still has to be closed", keysOf(closesPaths), condClose))
		} else if esc, w := firstRet(closeDefer); esc {
			r.Bad("C05.4", "halfPipe: return before the closing defer is registered", closeDefer.Pos(), fnName(hp), "a return precedes the registration of the deferred close of both connections", r.blockPath(hp, w)...)
		} else {
			r.OK("C05.4", "halfPipe: close of src and dst deferred before any return; closer reaches Close on all paths", closeDefer.Pos(), "must-pass defer; closer must-calls Close")
		}
	}
	if px != nil {
		var add, wait *ssa.Call
		var gos []*ssa.Go
		var addSess, remSess, dial *ssa.Call
		var covertDefer *ssa.Defer
		eachInstr(px, func(in ssa.Instruction) {
			switch x := in.(type) {
			case *ssa.Call:
				switch calleeName(&x.Call) {
				case "(*sync.WaitGroup).Add":
					add = x
				case "(*sync.WaitGroup).Wait":
					wait = x
				case "net.Dial", "net.DialTimeout":
					dial = x
				}
				switch calleeShort(&x.Call) {
				case "addSession":
					addSess = x
				case "removeSession":
					remSess = x
				}
			case *ssa.Go:
				if strings.HasSuffix(calleeName(&x.Call), ".halfPipe") {
					gos = append(gos, x)
				}
			case *ssa.Defer:
				if x.Call.IsInvoke() && x.Call.Method.Name() == "Close" {
					covertDefer = x
				}
			}
		})
		if add == nil || wait == nil || len(gos) == 0 {
			r.Unk("C05.4", "Proxy: wg.Add / go halfPipe / wg.Wait", px.Pos(), fnName(px), "expected shape not found")
		} else {
			cv, isC := constOf(add.Call.Args[1])
			okN := isC && cv.String() == fmt.Sprint(len(gos))
			for _, g := range gos {
				if miss, _ := reach(px, add, isInstr(wait), isInstr(g), nil); miss {
					okN = false
				}
			}
			r.Check(okN, "C05.4", fmt.Sprintf("Proxy: wg.Add(%v) matches %d must-pass go halfPipe before Wait", cv, len(gos)), add.Pos(), fnName(px),
				"every path from Add to Wait starts each direction", "the WaitGroup count does not equal the number of relay goroutines started on every path: Wait() hangs or returns while a direction is still running")
			// the two directions are (client->covert) and (covert->client)
			if len(gos) == 2 {
				a0, a1 := pathOf(gos[0].Call.Args[0])+">"+pathOf(gos[0].Call.Args[1]), pathOf(gos[1].Call.Args[1])+">"+pathOf(gos[1].Call.Args[0])
				r.Check(a0 == a1 && pathOf(gos[0].Call.Args[0]) != pathOf(gos[0].Call.Args[1]), "C05.4", "Proxy: the two directions are mirror images", gos[0].Pos(), fnName(px),
					a0, "the two relay goroutines are not (a->b) and (b->a): one direction is never relayed")
			}
		}
		if addSess != nil && remSess != nil && wait != nil {
			leak, w := reach(px, addSess, isReturn, isInstr(remSess), nil)
			if leak {
				r.Bad("C05.4", "Proxy: addSession without removeSession", addSess.Pos(), fnName(px), "a path returns after addSession without removeSession: the session gauge drifts", r.blockPath(px, w)...)
			} else {
				r.OK("C05.4", "Proxy: add/removeSession paired on all paths", addSess.Pos(), "must-pass")
			}
			early, _ := reach(px, addSess, isInstr(remSess), isInstr(wait), nil)
			r.Check(!early, "C05.4", "Proxy: wg.Wait precedes removeSession", remSess.Pos(), fnName(px), "must-pass", "the session is reported finished before both directions have ended")
		} else {
			r.Unk("C05.4", "Proxy: session gauge", px.Pos(), fnName(px), "addSession/removeSession/Wait not all found")
		}
		if dial != nil {
			failEdges := edgesEstablishing(px, func(cnd string, pol bool) bool {
				// dial failed: CovertDialErr != "" ; err != nil ; generalizeErr(err) != nil
				if strings.HasSuffix(cnd, `.CovertDialErr)`) && strings.Contains(cnd, `"" == `) && !pol {
					return true
				}
				if strings.Contains(cnd, pathOf(dial)+"#1") && strings.Contains(cnd, "nil") && !pol {
					return true
				}
				return false
			})
			isCovertDefer := func(in ssa.Instruction) bool { return covertDefer != nil && in == ssa.Instruction(covertDefer) }
			leak, w := reach(px, dial, isReturn, isCovertDefer, failEdges)
			if covertDefer == nil || leak {
				r.Bad("C05.4", "Proxy: covert connection not closed on every exit after a successful dial", dial.Pos(), fnName(px),
					"a path from the dial to a return neither registers `defer covertConn.Close()` nor is the dial-failed branch: the covert socket leaks", r.blockPath(px, w)...)
			} else {
				r.OK("C05.4", "Proxy: covertConn.Close deferred on every path after a successful dial", covertDefer.Pos(), "must-pass defer or dial-failed edge")
			}
			if covertDefer != nil {
				r.Check(dependsOn(covertDefer.Call.Value, dial), "C05.4", "Proxy: the deferred Close is on the dialed connection", covertDefer.Pos(), fnName(px), pathOf(covertDefer.Call.Value), "the deferred Close is not on the connection returned by the dial")
			}
		} else {
			r.Unk("C05.4", "Proxy: dial", px.Pos(), fnName(px), "no net.Dial call found")
		}
		// callers of Proxy close the client connection
		nCallers := 0
		for _, f := range c.P.RepoFuncs() {
			for _, call := range callsIn(f, func(n string, _ *ssa.CallCommon) bool { return strings.HasSuffix(n, "station/lib.Proxy") }) {
				nCallers++
				okc, how := closesConnBefore(c, f, call.(ssa.Instruction), 0)
				r.Check(okc, "C05.4", fnName(f)+": client connection closed by a defer around Proxy", call.Pos(), fnName(f), how,
					"neither this caller nor its callers defer Close() of the client connection before calling Proxy: an early return of Proxy (dial failure, PROXY header failure) leaks the client socket")
			}
		}
		if nCallers == 0 {
			r.Unk("C05.4", "callers of Proxy", px.Pos(), fnName(px), "no caller of Proxy found")
		}
	}
	_ = token.NoPos
	// ---- C05.6 the two sites that decide the direction agree: halfPipe derives "upload" from its tag, Proxy chooses the
	// tags - the pipe that reads from the client must be the one halfPipe takes for the upload, the other one not
	// ---- C05.7 the relay's close is never abortive: SetLinger(0) makes Close discard what was written but not yet sent
	// ---- C05.9 a direction that moves data keeps the whole session alive: the two pipes share both connections, and the
	// pipe that is idle (a one-way upload or download) sits in a Read on this pipe's destination whose deadline only
	// this pipe refreshes. After every forwarded chunk the read deadline of the source AND both deadlines of the
	// destination are pushed out (SetDeadline, or the read/write pair), on every path back to the next Read.
	r.Rule("C05.9", "each forwarded chunk refreshes the read deadline of the source and the read and write deadlines of the destination", 1)
	if hp != nil {
		var rd, wr *ssa.Call
		nR, nW := 0, 0
		eachInstr(hp, func(in ssa.Instruction) {
			if call, ok := in.(*ssa.Call); ok && call.Call.IsInvoke() {
				switch call.Call.Method.Name() {
				case "Read":
					rd = call
					nR++
				case "Write":
					wr = call
					nW++
				}
			}
		})
		if nR == 1 && nW == 1 {
			src, dst := pathOf(recvOf(&rd.Call)), pathOf(recvOf(&wr.Call))
			need := []struct {
				conn string
				ms   []string
				what string
			}{
				{src, []string{"SetDeadline", "SetReadDeadline"}, "read deadline of the source"},
				{dst, []string{"SetDeadline", "SetReadDeadline"}, "read deadline of the destination"},
				{dst, []string{"SetDeadline", "SetWriteDeadline"}, "write deadline of the destination"},
			}
			var missing []string
			for _, nd := range need {
				nd := nd
				refresh := func(in ssa.Instruction) bool {
					call, ok := in.(*ssa.Call)
					if !ok {
						return false
					}
					if !call.Call.IsInvoke() {
						// a helper of the package that refreshes the deadline of the connection it is handed
						hc := helperCallee(hp, &call.Call)
						if hc == nil {
							return false
						}
						for i, a := range call.Call.Args {
							if pathOf(a) != nd.conn || i >= len(hc.Params) {
								continue
							}
							found := false
							eachInstr(hc, func(in2 ssa.Instruction) {
								c2, ok := in2.(*ssa.Call)
								if !ok || !c2.Call.IsInvoke() || c2.Call.Value != ssa.Value(hc.Params[i]) {
									return
								}
								for _, m := range nd.ms {
									if c2.Call.Method.Name() != m {
										continue
									}
									// reached on every run of the helper that reports success (or on every run at all)
									okRet := func(x ssa.Instruction) bool {
										ret, ok := x.(*ssa.Return)
										if !ok {
											return false
										}
										if len(ret.Results) == 0 {
											return true
										}
										cst, isC := returnedValue(ret, len(ret.Results)-1, nil).(*ssa.Const)
										if !isC {
											return true
										}
										return cst.Value == nil || (cst.Value.Kind() == constant.Bool && constant.BoolVal(cst.Value))
									}
									if skip, _ := reach(hc, nil, okRet, isInstr(in2), nil); !skip {
										found = true
									}
								}
							})
							if found {
								return true
							}
						}
						return false
					}
					if pathOf(call.Call.Value) != nd.conn {
						return false
					}
					for _, m := range nd.ms {
						if call.Call.Method.Name() == m {
							return true
						}
					}
					return false
				}
				// from the Write, can the next Read be reached without that refresh?
				if hit, _ := reach(hp, wr, isInstr(rd), refresh, nil); hit {
					missing = append(missing, nd.what)
				}
			}
			r.Check(len(missing) == 0, "C05.9", "halfPipe: stall timeout refreshed for both connections after each forwarded chunk", wr.Pos(), fnName(hp),
				"no path from Write back to Read avoids SetDeadline / the read-write pair on "+src+" and "+dst,
				"after a forwarded chunk the "+strings.Join(missing, ", ")+" is not pushed out: the opposite pipe, idle in a one-way transfer, times out on its stale deadline and the healthy session is torn down mid-stream (the rest of the stream is lost)")
		} else {
			r.Unk("C05.9", "halfPipe: one Read and one Write", hp.Pos(), fnName(hp), "relay loop not identified")
		}
	}

	// ---- C05.11 each pipe relays through memory of its own: the buffer Read fills is allocated by this call of halfPipe
	// (or handed in as a fresh allocation of its own by every caller). Two pipes of one tunnel run concurrently; a
	// buffer carved out of shared or pooled memory - and re-extended to its capacity - lets one direction's read land
	// in the bytes the other direction is about to write.
	checkPrivateRelayBuffer(c, "C05.11")

	// ---- C05.12 the relay's DTLS client connection: (a) its Close always closes the transport under it - whatever the
	// stream's own Close answered - so that "both connections are closed, no goroutine left behind" also holds when the
	// peer left first; (b) a deadline armed on a connection from the handshake context is cleared on that same
	// connection on every successful return (a leftover absolute deadline fails the healthy tunnel seconds later)
	r.Rule("C05.12", "SCTPConn.Close always closes the transport under it; handshake deadlines are cleared on the connection they were set on", 2)
	if f := c.fn("C05.12", "pkg/dtls", "SCTPConn", "Close"); f != nil {
		found, okk := false, true
		for _, ff := range withAnon(f) {
			eachInstr(ff, func(in ssa.Instruction) {
				call, ok := in.(*ssa.Call)
				if !ok || !call.Call.IsInvoke() || call.Call.Method.Name() != "Close" || !strings.HasSuffix(pathOf(call.Call.Value), ".conn") {
					return
				}
				found = true
				if !unconditional(ff, in) {
					okk = false
				}
			})
		}
		r.Check(found && okk, "C05.12", "SCTPConn.Close: the underlying connection is closed on every path", f.Pos(), fnName(f), "s.conn.Close() is reached whatever any condition says",
			"SCTPConn.Close can return without closing the DTLS / UDP transport under it (e.g. when the stream's Close fails because the association is already gone): the relay's teardown leaves the transport and its read goroutines open for good")
	}
	checkHandshakeDeadlines(c, "C05.12")
	// ---- C05.13 the DTLS client connection delivers what it received before it reports the close (shared with C16.12)
	r.Rule("C05.13", "hbConn.Read drains its queue before it reports the close", 1)
	checkDrainBeforeClosed(c, "C05.13")

	// ---- C05.10 the open-session gauge is a count, not an epoch statistic: it moves by +1 / -1 in addSession /
	// removeSession only; nothing stores into it and nothing overwrites the statistics object as a whole
	r.Rule("C05.10", "the session gauge is changed only by the +1 / -1 of addSession / removeSession", 2)
	{
		nAdd := 0
		for _, f := range c.funcsOfPkgs("pkg/station/lib") {
			for _, ff := range withAnon(f) {
				eachInstr(ff, func(in ssa.Instruction) {
					switch x := in.(type) {
					case *ssa.Call:
						name := calleeName(&x.Call)
						if !strings.HasPrefix(name, "sync/atomic.") || len(x.Call.Args) == 0 {
							return
						}
						if _, fld, ok := fieldOwner(x.Call.Args[0]); !ok || fld != "sessionsProxying" {
							return
						}
						switch {
						case strings.HasSuffix(name, ".LoadInt64"):
						case strings.HasSuffix(name, ".AddInt64"):
							cv, isC := constOf(x.Call.Args[1])
							okd := isC && (cv.ExactString() == "1" || cv.ExactString() == "-1")
							nAdd++
							r.Check(okd, "C05.10", fnName(ff)+": sessionsProxying moves by one", x.Pos(), fnName(ff), "atomic.AddInt64(±1)", "the session gauge is changed by something other than +1 / -1")
						default:
							r.Bad("C05.10", fnName(ff)+": "+shortName(name)+" on sessionsProxying", x.Pos(), fnName(ff), "the open-session gauge is overwritten (epoch reset?): sessions that are still open drop out of it and their removeSession drives it negative - the reported count no longer equals the sessions being relayed")
						}
					case *ssa.Store:
						if _, fld, ok := fieldOwner(x.Addr); ok && fld == "sessionsProxying" {
							if al, isA := x.Addr.(*ssa.FieldAddr).X.(*ssa.Alloc); isA && freshRoot(al, ff) {
								return
							}
							r.Bad("C05.10", fnName(ff)+": plain store to sessionsProxying", x.Pos(), fnName(ff), "the open-session gauge is overwritten")
							return
						}
						// *s = ProxyStats{...}: the whole object, gauge included
						pt, isP := x.Addr.Type().Underlying().(*types.Pointer)
						if !isP || typeShort(pt.Elem()) != "lib.ProxyStats" {
							return
						}
						if al, isA := x.Addr.(*ssa.Alloc); isA && freshRoot(al, ff) {
							return
						}
						if _, isG := x.Addr.(*ssa.Global); isG && passedToOnce(ff) {
							return // the once-only initialiser of the singleton
						}
						r.Bad("C05.10", fnName(ff)+": overwrites the whole ProxyStats object", x.Pos(), fnName(ff), "re-initialising the statistics object zeroes the open-session gauge together with the epoch counters: sessions still open drop out of it and their removeSession drives it negative")
					}
				})
			}
		}
		if nAdd < 2 {
			r.Unk("C05.10", "addSession / removeSession", token.NoPos, "", fmt.Sprintf("expected the +1 and the -1 of the gauge, found %d AddInt64 call(s)", nAdd))
		}
	}

	r.Rule("C05.7", "no relay connection is closed with a zero linger interval", 1)
	{
		n := 0
		for _, f := range c.funcsOfPkgs("pkg/station/lib", "cmd/application") {
			eachInstr(f, func(in ssa.Instruction) {
				ci, ok := in.(ssa.CallInstruction)
				if !ok {
					return
				}
				cc := ci.Common()
				isLinger := calleeName(cc) == "(*net.TCPConn).SetLinger" || (cc.IsInvoke() && cc.Method.Name() == "SetLinger")
				if !isLinger {
					return
				}
				n++
				arg := cc.Args[len(cc.Args)-1]
				lo, hi, okI := evalInterval(arg, 0)
				okk := okI && (lo > 0 || hi < 0)
				r.Check(okk, "C05.7", fnName(f)+": SetLinger with a non-zero interval", in.Pos(), fnName(f), fmt.Sprintf("SetLinger(%s), value in [%d, %d]", firstN(pathOf(arg), 40), lo, hi),
					"the connection is closed with SetLinger("+firstN(pathOf(arg), 40)+"), which may be 0: Close then aborts the connection and the kernel discards the bytes the relay already wrote but that were not sent yet - the tail of a transfer is lost while the counters say it was delivered")
			})
		}
		if n == 0 {
			r.OK("C05.7", "no SetLinger call in the station", token.NoPos, "the default close (unsent data is still delivered) applies")
		}
	}
	// ---- C05.8 the DTLS client connection the relay reads from queues its messages by reference
	r.Rule("C05.8", "the DTLS receive loop reads every message into its own buffer", 1)
	checkQueuedBufferFresh(c, "C05.8")
	r.Rule("C05.6", "Proxy's tags make halfPipe attribute the client->covert pipe to 'up' and the covert->client pipe to 'down'", 2)
	{
		hpf := c.P.Func(repoMod+"/pkg/station/lib", "", "halfPipe")
		pxf := c.P.Func(repoMod+"/pkg/station/lib", "", "Proxy")
		test := "" // the constant halfPipe tests its tag against, and how
		how := ""
		tagIdx := -1
		if hpf != nil && hpf.Blocks != nil {
			eachInstr(hpf, func(in ssa.Instruction) {
				call, ok := in.(*ssa.Call)
				if !ok {
					return
				}
				n := calleeName(&call.Call)
				if (n == "strings.HasPrefix" || n == "strings.HasSuffix" || n == "strings.Contains") && len(call.Call.Args) == 2 {
					if prm, ok := call.Call.Args[0].(*ssa.Parameter); ok {
						if cv, ok := constOf(call.Call.Args[1]); ok && cv.Kind() == constant.String {
							for i, p := range hpf.Params {
								if p == prm {
									tagIdx = i
								}
							}
							test, how = constant.StringVal(cv), n
						}
					}
				}
			})
		}
		var gos []*ssa.Go
		if pxf != nil && pxf.Blocks != nil {
			eachInstrDeep(pxf, 2, func(in ssa.Instruction, _ deepCtx) {
				if g, ok := in.(*ssa.Go); ok && g.Call.StaticCallee() == hpf && hpf != nil {
					gos = append(gos, g)
				}
			})
		}
		if test == "" || tagIdx < 0 || len(gos) != 2 {
			r.Unk("C05.6", "direction sites", token.NoPos, "", fmt.Sprintf("halfPipe's tag test (%q) or Proxy's two go halfPipe calls (%d) not found", test, len(gos)))
		} else {
			// the constant part of the tag each call passes: a constant, or constant + something / something + constant
			tagConst := func(v ssa.Value) (prefix, suffix string, whole bool, ok bool) {
				if cv, isC := constOf(v); isC && cv.Kind() == constant.String {
					return constant.StringVal(cv), constant.StringVal(cv), true, true
				}
				if bo, isB := v.(*ssa.BinOp); isB && bo.Op == token.ADD {
					if cv, isC := constOf(bo.X); isC && cv.Kind() == constant.String {
						return constant.StringVal(cv), "", false, true
					}
					if cv, isC := constOf(bo.Y); isC && cv.Kind() == constant.String {
						return "", constant.StringVal(cv), false, true
					}
				}
				return "", "", false, false
			}
			takenForUp := func(v ssa.Value) (bool, bool) {
				pre, suf, whole, ok := tagConst(v)
				if !ok {
					return false, false
				}
				switch how {
				case "strings.HasPrefix":
					if pre == "" && !whole {
						return false, false // the tag starts with a run-time value
					}
					return strings.HasPrefix(pre, test), len(pre) >= len(test) || whole || !strings.HasPrefix(test, pre)
				case "strings.HasSuffix":
					if suf == "" && !whole {
						return false, false
					}
					return strings.HasSuffix(suf, test), len(suf) >= len(test) || whole || !strings.HasSuffix(test, suf)
				default:
					return strings.Contains(pre+suf, test), whole
				}
			}
			for _, g := range gos {
				src := pathOf(g.Call.Args[0])
				fromClient := strings.Contains(strings.ToLower(src), "client")
				up, decided := takenForUp(g.Call.Args[tagIdx])
				r.Check(decided && up == fromClient, "C05.6", "Proxy: halfPipe("+firstN(src, 30)+" -> …) is attributed to "+map[bool]string{true: "up", false: "down"}[fromClient], g.Pos(), fnName(pxf),
					fmt.Sprintf("tag %s; halfPipe tests %s(tag, %q)", firstN(pathOf(g.Call.Args[tagIdx]), 40), how, test),
					fmt.Sprintf("halfPipe decides the direction with %s(tag, %q) but Proxy passes the tag %s for the pipe reading from %s: its bytes, duration and errors are booked on the wrong side (the reported byte counts no longer equal what was delivered in each direction)", how, test, firstN(pathOf(g.Call.Args[tagIdx]), 40), firstN(src, 30)))
			}
		}
	}

	// ---- C05.5 the relay cannot block itself: no mutex is acquired while it may already be held (sync.Mutex is not
	// re-entrant: the second acquisition never returns, the direction never reaches wg.Done and Proxy never returns),
	// and every acquisition is released on all paths
	r.Rule("C05.5", "nothing reachable from Proxy / halfPipe acquires a mutex it may already hold, or returns holding one", 0)
	{
		var roots []*ssa.Function
		for _, n := range []string{"Proxy", "halfPipe"} {
			if f := c.P.Func(repoMod+"/pkg/station/lib", "", n); f != nil && f.Blocks != nil {
				roots = append(roots, f)
			}
		}
		fns := staticClosure(roots, func(f *ssa.Function) bool { return fnPkgPath(f) == repoMod+"/pkg/station/lib" })
		if len(fns) < 2 {
			r.Unk("C05.5", "relay functions", token.NoPos, "", "Proxy / halfPipe not found")
		} else {
			before := len(r.Findings)
			checkNoReentrancy(r, "C05.5", fns, nil)
			checkLockLeaks(r, "C05.5", fns)
			if len(r.Findings) == before {
				r.OK("C05.5", "relay path: no re-entrant or leaked mutex acquisition", roots[0].Pos(), fmt.Sprintf("%d functions reachable from Proxy/halfPipe in pkg/station/lib scanned", len(fns)))
			}
		}
	}

}

func keysOf(m map[string]bool) []string {
	var ks []string
	for k := range m {
		ks = append(ks, k)
	}
	sortStrings(ks)
	return ks
}

// closesConnBefore: f defers Close on a connection-typed value on every path to `at`, or every static caller of f does (≤2 levels up).
func closesConnBefore(c *Ctx, f *ssa.Function, at ssa.Instruction, depth int) (bool, string) {
	isCloseDefer := func(in ssa.Instruction) bool {
		d, ok := in.(*ssa.Defer)
		if !ok {
			return false
		}
		if calleeShort(&d.Call) == "Close" {
			return true
		}
		return false
	}
	if miss, _ := reach(f, nil, isInstr(at), isCloseDefer, nil); !miss {
		return true, "defer …Close() is registered in " + fnName(f) + " on every path to the call"
	}
	if depth >= 2 {
		return false, ""
	}
	// closures: the enclosing function's defers do not cover a goroutine body; look at static callers only
	var callers []ssa.CallInstruction
	var owners []*ssa.Function
	for _, g := range c.P.RepoFuncs() {
		for _, call := range callsIn(g, func(_ string, cc *ssa.CallCommon) bool { return cc.StaticCallee() == f }) {
			callers = append(callers, call)
			owners = append(owners, g)
		}
	}
	if len(callers) == 0 {
		return false, ""
	}
	var hows []string
	for i, call := range callers {
		if _, isGo := call.(*ssa.Go); isGo {
			return false, ""
		}
		ok, how := closesConnBefore(c, owners[i], call.(ssa.Instruction), depth+1)
		if !ok {
			return false, ""
		}
		hows = append(hows, how)
	}
	return true, strings.Join(hows, "; ")
}

// mustCall: every path from entry to a return of fn passes a call matching m.
func mustCall(fn *ssa.Function, m func(string, *ssa.CallCommon) bool) bool {
	is := func(in ssa.Instruction) bool {
		if ci, ok := in.(ssa.CallInstruction); ok {
			return m(calleeName(ci.Common()), ci.Common())
		}
		return false
	}
	esc, _ := reach(fn, nil, isReturn, is, nil)
	return !esc
}

// mustCallOn: every path through fn invokes method `name` on value recv (by path).
func mustCallOn(fn *ssa.Function, name string, recv ssa.Value) bool {
	rp := pathOf(recv)
	found := false
	is := func(in ssa.Instruction) bool {
		if ci, ok := in.(ssa.CallInstruction); ok {
			if calleeShort(ci.Common()) == name {
				if rv := recvOf(ci.Common()); rv != nil && pathOf(rv) == rp {
					found = true
					return true
				}
			}
		}
		return false
	}
	esc, _ := reach(fn, nil, isReturn, is, nil)
	// make sure there is at least one such call at all
	eachInstr(fn, func(in ssa.Instruction) { is(in) })
	return !esc && found
}

// closureTargets resolves the functions a call may invoke when the callee is a
// closure value, a static function, or a local function variable assigned once
// in the enclosing function (`closeConn := func…`).
func closureTargets(encl *ssa.Function, c *ssa.CallCommon) []*ssa.Function {
	if f := c.StaticCallee(); f != nil {
		return []*ssa.Function{f}
	}
	v := c.Value
	if u, ok := v.(*ssa.UnOp); ok && u.Op == token.MUL {
		v = u.X
		if u2, ok := v.(*ssa.UnOp); ok && u2.Op == token.MUL {
			v = u2.X
		}
	}
	// free variable of a closure: find the binding in the enclosing function
	if fv, ok := v.(*ssa.FreeVar); ok {
		fn := fv.Parent()
		idx := -1
		for i, x := range fn.FreeVars {
			if x == fv {
				idx = i
			}
		}
		var out []*ssa.Function
		eachInstr(encl, func(in ssa.Instruction) {
			mc, ok := in.(*ssa.MakeClosure)
			if !ok || mc.Fn != ssa.Value(fn) || idx < 0 || idx >= len(mc.Bindings) {
				return
			}
			out = append(out, storedFuncs(encl, mc.Bindings[idx])...)
		})
		return out
	}
	if a, ok := v.(*ssa.Alloc); ok {
		return storedFuncs(encl, a)
	}
	return nil
}

// storedFuncs: functions stored into the local cell addr within fn.
func storedFuncs(fn *ssa.Function, addr ssa.Value) []*ssa.Function {
	var out []*ssa.Function
	eachInstr(fn, func(in ssa.Instruction) {
		st, ok := in.(*ssa.Store)
		if !ok || st.Addr != addr {
			return
		}
		switch x := st.Val.(type) {
		case *ssa.MakeClosure:
			out = append(out, x.Fn.(*ssa.Function))
		case *ssa.Function:
			out = append(out, x)
		}
	})
	return out
}

// onlyDependsOn: v's data dependencies bottom out only in allowed values, constants, len() of allowed values.
func onlyDependsOn(v ssa.Value, allowed map[ssa.Value]bool) bool {
	seen := map[ssa.Value]bool{}
	var walk func(x ssa.Value, d int) bool
	walk = func(x ssa.Value, d int) bool {
		if x == nil || d > 40 || seen[x] || allowed[x] {
			return true
		}
		seen[x] = true
		switch y := x.(type) {
		case *ssa.Const:
			return true
		case *ssa.Parameter, *ssa.FreeVar, *ssa.Global, *ssa.Alloc:
			return false
		case *ssa.UnOp:
			if y.Op == token.MUL {
				return false // a load from memory: not derived from n
			}
		}
		in, ok := x.(ssa.Instruction)
		if !ok {
			return false
		}
		for _, op := range in.Operands(nil) {
			if *op == nil {
				continue
			}
			if _, isFn := (*op).(*ssa.Function); isFn {
				continue
			}
			if _, isB := (*op).(*ssa.Builtin); isB {
				continue
			}
			if !walk(*op, d+1) {
				return false
			}
		}
		return true
	}
	return walk(v, 0)
}

// stripLoad returns the address a value was loaded from (or the value itself).
func stripLoad(v ssa.Value) ssa.Value {
	if u, ok := v.(*ssa.UnOp); ok && u.Op == token.MUL {
		return u.X
	}
	return v
}

// staticClosure: roots, their closures, and everything reachable from them through static calls, go and defer
// statements, restricted to functions accepted by keep.
func staticClosure(roots []*ssa.Function, keep func(*ssa.Function) bool) []*ssa.Function {
	seen := map[*ssa.Function]bool{}
	var out []*ssa.Function
	var visit func(f *ssa.Function)
	visit = func(f *ssa.Function) {
		if f == nil || seen[f] || f.Blocks == nil || !keep(f) {
			return
		}
		seen[f] = true
		out = append(out, f)
		for _, a := range f.AnonFuncs {
			visit(a)
		}
		eachInstr(f, func(in ssa.Instruction) {
			if ci, ok := in.(ssa.CallInstruction); ok {
				visit(ci.Common().StaticCallee())
				if mc, ok := ci.Common().Value.(*ssa.MakeClosure); ok {
					if g, ok := mc.Fn.(*ssa.Function); ok {
						visit(g)
					}
				}
			}
		})
	}
	for _, f := range roots {
		visit(f)
	}
	return out
}

// passedToOnce: f is only ever used as the argument of (*sync.Once).Do.
func passedToOnce(f *ssa.Function) bool {
	if f.Pkg == nil {
		return false
	}
	used, onlyOnce := false, true
	for _, m := range f.Pkg.Members {
		g, ok := m.(*ssa.Function)
		if !ok {
			continue
		}
		for _, gg := range withAnon(g) {
			eachInstr(gg, func(in ssa.Instruction) {
				for _, op := range in.Operands(nil) {
					if *op != ssa.Value(f) {
						continue
					}
					used = true
					ci, isCall := in.(ssa.CallInstruction)
					if !isCall || calleeName(ci.Common()) != "(*sync.Once).Do" || ci.Common().Value == ssa.Value(f) {
						onlyOnce = false
					}
				}
			})
		}
	}
	return used && onlyOnce
}

// privateBuffer: "" if v is memory allocated in f itself (make / new array, possibly re-sliced, through phis and
// locals), or a parameter for which every caller passes such an allocation of its own; else what it is.
func privateBuffer(f *ssa.Function, v ssa.Value, depth int) string {
	if depth > 6 {
		return "too deeply derived to follow"
	}
	switch x := v.(type) {
	case *ssa.MakeSlice:
		return ""
	case *ssa.Alloc:
		if _, isArr := x.Type().Underlying().(*types.Pointer).Elem().Underlying().(*types.Array); isArr {
			return ""
		}
		// a local variable holding the slice: every store
		if x.Referrers() != nil {
			n := 0
			for _, ref := range *x.Referrers() {
				if st, ok := ref.(*ssa.Store); ok && st.Addr == ssa.Value(x) {
					n++
					if why := privateBuffer(f, st.Val, depth+1); why != "" {
						return why
					}
				}
			}
			if n > 0 {
				return ""
			}
		}
		return "a local that is never assigned"
	case *ssa.Slice:
		return privateBuffer(f, x.X, depth+1)
	case *ssa.UnOp:
		if x.Op == token.MUL {
			if _, isAlloc := x.X.(*ssa.Alloc); isAlloc {
				return privateBuffer(f, x.X, depth+1)
			}
			return "loaded from " + firstN(pathOf(x.X), 40)
		}
	case *ssa.Phi:
		for _, e := range x.Edges {
			if e == ssa.Value(x) {
				continue
			}
			if why := privateBuffer(f, e, depth+1); why != "" {
				return why
			}
		}
		return ""
	case *ssa.Parameter:
		idx := -1
		for i, p := range f.Params {
			if p == x {
				idx = i
			}
		}
		sites, asValue := callersOf(f)
		if idx < 0 || len(sites) == 0 && !asValue {
			return "the parameter " + x.Name()
		}
		// go / defer call sites are not in `sites`: look for them
		var all []*ssa.CallCommon
		for _, sct := range sites {
			all = append(all, &sct.Call)
		}
		for _, g := range allRepoFuncs {
			eachInstr(g, func(in ssa.Instruction) {
				switch y := in.(type) {
				case *ssa.Go:
					if y.Call.StaticCallee() == f {
						all = append(all, &y.Call)
					}
				case *ssa.Defer:
					if y.Call.StaticCallee() == f {
						all = append(all, &y.Call)
					}
				}
			})
		}
		seen := map[ssa.Value]bool{}
		for _, cc := range all {
			if idx >= len(cc.Args) {
				return "the parameter " + x.Name()
			}
			a := cc.Args[idx]
			mk, isMk := a.(*ssa.MakeSlice)
			if !isMk {
				return "handed in by a caller as " + firstN(pathOf(a), 50) + " (not an allocation of its own)"
			}
			if seen[mk] {
				return "one allocation handed to two pipes"
			}
			seen[mk] = true
		}
		if len(all) == 0 {
			return "the parameter " + x.Name()
		}
		return ""
	}
	return "derived from " + firstN(pathOf(v), 50)
}

// checkPrivateRelayBuffer (C05.11, C04.13)
func checkPrivateRelayBuffer(c *Ctx, rule string) {
	r := c.R
	hp := c.fn(rule, "pkg/station/lib", "", "halfPipe")
	r.Rule(rule, "the relay buffer of a pipe is a fresh allocation private to that pipe", 1)
	if hp != nil {
		for _, ci := range callsIn(hp, func(n string, cc *ssa.CallCommon) bool { return cc.IsInvoke() && cc.Method.Name() == "Read" }) {
			call := ci.(*ssa.Call)
			buf := call.Call.Args[0]
			why := privateBuffer(hp, buf, 0)
			r.Check(why == "", rule, "halfPipe: the buffer handed to Read is private to this pipe", call.Pos(), fnName(hp), "allocated in this call: "+firstN(pathOf(buf), 60),
				"the relay buffer is "+why+": the two directions of a tunnel (or two tunnels) can read into overlapping memory, so bytes of one direction are overwritten before they are written out - the stream is corrupted")
		}
	}

}

// isZeroTime: v is the zero time.Time (the composite literal time.Time{}).
func isZeroTime(v ssa.Value) bool {
	switch x := v.(type) {
	case *ssa.Const:
		return true
	case *ssa.UnOp:
		if a, ok := x.X.(*ssa.Alloc); ok && x.Op == token.MUL {
			// a local time.Time that is never stored to
			if a.Referrers() != nil {
				for _, ref := range *a.Referrers() {
					if st, ok := ref.(*ssa.Store); ok && st.Addr == ssa.Value(a) {
						return false
					}
					if _, isFA := ref.(*ssa.FieldAddr); isFA {
						return false
					}
				}
			}
			return true
		}
	}
	return false
}

// checkHandshakeDeadlines (C05.12, C16.11): a deadline armed on a connection from the handshake context is cleared on
// that same connection before every successful return.
func checkHandshakeDeadlines(c *Ctx, rule string) {
	r := c.R
	nArmed := 0
	for _, f := range c.funcsOfPkgs("pkg/dtls") {
		if f.Blocks == nil || strings.Contains(r.posStr(f.Pos()), "_test") {
			continue
		}
		nm := f.Name()
		armed := map[string]ssa.Instruction{}
		eachInstr(f, func(in ssa.Instruction) {
			call, ok := in.(*ssa.Call)
			if !ok || !call.Call.IsInvoke() || call.Call.Method.Name() != "SetDeadline" {
				return
			}
			if strings.Contains(pathOf(call.Call.Args[0]), ".Deadline()") {
				armed[pathOf(call.Call.Value)] = in
			}
		})
		nArmed += len(armed)
		for conn, arm := range armed {
			conn := conn
			isClear := func(in ssa.Instruction) bool {
				call, ok := in.(*ssa.Call)
				if !ok || !call.Call.IsInvoke() || call.Call.Method.Name() != "SetDeadline" || pathOf(call.Call.Value) != conn {
					if ok && !call.Call.IsInvoke() {
						// a helper of the package that clears the deadline of the connection it is handed
						if hc := helperCallee(f, &call.Call); hc != nil {
							for i, a := range call.Call.Args {
								if pathOf(a) != conn || i >= len(hc.Params) {
									continue
								}
								hit := false
								eachInstr(hc, func(in2 ssa.Instruction) {
									if c2, ok := in2.(*ssa.Call); ok && c2.Call.IsInvoke() && c2.Call.Method.Name() == "SetDeadline" && c2.Call.Value == ssa.Value(hc.Params[i]) && isZeroTime(c2.Call.Args[0]) {
										hit = true
									}
								})
								if hit {
									return true
								}
							}
						}
					}
					return false
				}
				return isZeroTime(call.Call.Args[0])
			}
			isOK := func(in ssa.Instruction) bool {
				ret, ok := in.(*ssa.Return)
				if !ok || len(ret.Results) != 2 {
					return false
				}
				cst, isC := returnedValue(ret, 1, nil).(*ssa.Const)
				return isC && cst.Value == nil
			}
			left, w := reach(f, arm, isOK, isClear, nil)
			if left {
				r.Bad(rule, nm+": the handshake deadline on "+conn+" is cleared before a successful return", arm.Pos(), fnName(f),
					"a successful return is reachable with the context's absolute deadline still armed on "+conn+": a few seconds into the tunnel its reads time out, the DTLS connection is closed and the rest of the client's stream is lost although both peers are alive", r.blockPath(f, w)...)
			} else {
				r.OK(rule, nm+": the handshake deadline on "+conn+" is cleared before a successful return", arm.Pos(), "SetDeadline(time.Time{}) on the same connection on every path to a nil-error return")
			}
		}
	}

	if nArmed == 0 {
		r.Unk(rule, "pkg/dtls: deadline armed from the handshake context", token.NoPos, "", "no SetDeadline(ctx.Deadline()) found in the package")
	}

}

// checkDrainBeforeClosed (C05.13, C16.12): hbConn.Read reports "closed" only when nothing is queued: the blocking wait
// that includes the closed channel is preceded by a non-blocking attempt on the receive queue.
func checkDrainBeforeClosed(c *Ctx, rule string) {
	r := c.R
	f := c.fn(rule, "pkg/dtls", "hbConn", "Read")
	if f == nil {
		return
	}
	var blocking, poll *ssa.Select
	eachInstr(f, func(in ssa.Instruction) {
		sel, ok := in.(*ssa.Select)
		if !ok {
			return
		}
		hasClosed, hasQueue := false, false
		for _, st := range sel.States {
			if strings.HasSuffix(pathOf(st.Chan), ".closed") {
				hasClosed = true
			}
			if strings.HasSuffix(pathOf(st.Chan), ".recvCh") {
				hasQueue = true
			}
		}
		if sel.Blocking && hasClosed {
			blocking = sel
		}
		if !sel.Blocking && hasQueue && !hasClosed {
			poll = sel
		}
	})
	if blocking == nil {
		r.Unk(rule, "hbConn.Read: wait on the closed channel", f.Pos(), fnName(f), "no blocking select with the closed channel found")
		return
	}
	okk := false
	if poll != nil {
		skip, _ := reach(f, nil, isInstr(blocking), isInstr(poll), nil)
		okk = !skip
	}
	r.Check(okk, rule, "hbConn.Read: queued messages are delivered before the close is reported", blocking.Pos(), fnName(f), "a non-blocking receive from recvCh precedes the wait that includes closed",
		"Read chooses between a queued message and the closed channel in one select: once the connection has closed, the runtime picks at random, so messages that were received before the close (the tail of the client's upload) are dropped and the reader is told 'closed'")
}
