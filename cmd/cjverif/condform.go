package main

import (
	"fmt"
	"go/constant"
	"sort"
	"strings"

	"golang.org/x/tools/go/ssa"
)

// E12 CondForm: finite predicate abstraction of a small loop-free region.
//
// The region starts at instruction `start` (exclusive) or block entry; the walk
// follows the CFG, deciding each If by the valuation of its classified atom,
// and stops at the first instruction for which outcome() returns a non-empty
// label. classify maps a canonical condition to (atom name, polarity of the
// atom when the canonical condition is true); an unclassifiable condition makes
// the region undecided.

type condFormResult struct {
	Atoms []string          // sorted atom names seen
	Table map[string]string // valuation (e.g. "A=1,B=0") -> outcome label
	Vals  map[string]map[string]bool
}

func condForm(fn *ssa.Function, startBlock *ssa.BasicBlock, startIdx int,
	classify func(cond string) (atom string, pol bool, ok bool),
	outcome func(in ssa.Instruction, b *ssa.BasicBlock, idx int, prev *ssa.BasicBlock, val map[string]bool) string, maxAtoms int) (*condFormResult, error) {
	return condFormWith(fn, startBlock, startIdx, classify, outcome, maxAtoms, nil)
}

// condFormWith: as condForm, with additional atoms that the outcome function evaluates itself (a returned boolean
// expression has no branch of its own).
func condFormWith(fn *ssa.Function, startBlock *ssa.BasicBlock, startIdx int,
	classify func(cond string) (atom string, pol bool, ok bool),
	outcome func(in ssa.Instruction, b *ssa.BasicBlock, idx int, prev *ssa.BasicBlock, val map[string]bool) string, maxAtoms int, extraAtoms []string) (*condFormResult, error) {

	// discover atoms reachable in the region (walk all branches until an outcome)
	atomSet := map[string]bool{}
	type pos struct {
		b   *ssa.BasicBlock
		idx int
	}
	seen := map[int]bool{}
	var discover func(b *ssa.BasicBlock, idx int) error
	discover = func(b *ssa.BasicBlock, idx int) error {
		if idx == 0 {
			if seen[b.Index] {
				return nil
			}
			seen[b.Index] = true
		}
		for i := idx; i < len(b.Instrs); i++ {
			in := b.Instrs[i]
			if outcome(in, b, i, nil, nil) != "" {
				return nil
			}
			if iff, ok := in.(*ssa.If); ok {
				conds := []ssa.Value{iff.Cond}
				if ph, _, ok := condPhi(b); ok {
					// a short-circuit expression materialised as a value (switch case, assigned bool): its operands
					conds = conds[:0]
					for _, e := range ph.Edges {
						if _, isConst := e.(*ssa.Const); !isConst {
							conds = append(conds, e)
						}
					}
				}
				for _, cv := range conds {
					c, _ := normCond(cv)
					a, _, ok := classify(c)
					if !ok {
						// the condition extracted into a predicate helper of the package: its own atoms, in the caller's names
						if hAtoms, hok := predicateTableAtoms(fn, cv, classify, 0); hok {
							for _, ha := range hAtoms {
								atomSet[ha] = true
							}
							continue
						}
						return fmt.Errorf("unrecognised condition %q in the region", c)
					}
					atomSet[a] = true
				}
			}
		}
		for _, s := range b.Succs {
			if err := discover(s, 0); err != nil {
				return err
			}
		}
		return nil
	}
	if err := discover(startBlock, startIdx); err != nil {
		return nil, err
	}
	for _, a := range extraAtoms {
		atomSet[a] = true
	}
	var atoms []string
	for a := range atomSet {
		atoms = append(atoms, a)
	}
	sort.Strings(atoms)
	if len(atoms) > maxAtoms {
		return nil, fmt.Errorf("region has %d atoms (> %d): %v", len(atoms), maxAtoms, atoms)
	}
	res := &condFormResult{Atoms: atoms, Table: map[string]string{}, Vals: map[string]map[string]bool{}}
	for mask := 0; mask < 1<<len(atoms); mask++ {
		val := map[string]bool{}
		var parts []string
		for i, a := range atoms {
			val[a] = mask&(1<<i) != 0
			parts = append(parts, fmt.Sprintf("%s=%d", a, b2i(val[a])))
		}
		b, idx := startBlock, startIdx
		var prev *ssa.BasicBlock
		prevSlot := 0
		steps := 0
		label := ""
	walk:
		for {
			steps++
			if steps > 500 {
				return nil, fmt.Errorf("region walk did not terminate (loop inside the region)")
			}
			next := -1
			for i := idx; i < len(b.Instrs); i++ {
				in := b.Instrs[i]
				if l := outcome(in, b, i, prev, val); l != "" {
					label = l
					break walk
				}
				if iff, ok := in.(*ssa.If); ok {
					cv, flip := ssa.Value(iff.Cond), false
					if ph, neg, ok := condPhi(b); ok {
						pi := 0
						if prev != nil {
							pi = predSlot(prev, prevSlot, b)
						}
						if pi == 0 {
							return nil, fmt.Errorf("region starts inside a materialised short-circuit expression")
						}
						cv, flip = ph.Edges[pi-1], neg
					}
					if k, ok := cv.(*ssa.Const); ok && k.Value != nil && k.Value.Kind() == constant.Bool {
						if constant.BoolVal(k.Value) != flip {
							next = 0
						} else {
							next = 1
						}
						continue
					}
					c, cpol := normCond(cv)
					if flip {
						cpol = !cpol
					}
					a, apol, okc := classify(c)
					if !okc {
						if hv, hok := evalPredicateHelper(fn, cv, classify, val, 0); hok {
							// hv is the truth of the (NOT-stripped) call value; cpol says under which truth the branch cond holds
							_, cp2 := normCond(cv)
							if flip {
								cp2 = !cp2
							}
							if hv == cp2 {
								next = 0
							} else {
								next = 1
							}
							continue
						}
					}
					// canonical cond c is true iff atom == apol; branch cond true iff c == cpol
					cTrue := val[a] == apol
					if cTrue == cpol {
						next = 0
					} else {
						next = 1
					}
				}
			}
			if next < 0 {
				if len(b.Succs) == 0 {
					label = "exit"
					break
				}
				next = 0
			}
			prev, prevSlot = b, next
			b, idx = b.Succs[next], 0
		}
		res.Table[strings.Join(parts, ",")] = label
		res.Vals[strings.Join(parts, ",")] = val
	}
	return res, nil
}

func b2i(b bool) int {
	if b {
		return 1
	}
	return 0
}

// evalTable compares a result with an expected boolean function: want(val) returns the expected outcome label.
func (r *condFormResult) compare(want func(val map[string]bool) string) []string {
	var diffs []string
	var keys []string
	for k := range r.Table {
		keys = append(keys, k)
	}
	sort.Strings(keys)
	for _, k := range keys {
		val := r.Vals[k]
		if val == nil {
			val = map[string]bool{}
			for _, p := range strings.Split(k, ",") {
				if i := strings.LastIndex(p, "="); i > 0 {
					val[p[:i]] = p[i+1:] == "1"
				}
			}
		}
		if w := want(val); w != r.Table[k] {
			diffs = append(diffs, fmt.Sprintf("under {%s} the code does %q, the property requires %q", k, r.Table[k], w))
		}
	}
	return diffs
}

// predicate helpers inside a decision region: `if r.hasTimedOut(rec)` stands for the helper's own decision. The helper
// is a same-package function with a single boolean result whose body is loop-free; its branch conditions and returned
// conditions are classified in the CALLER's names (parameters replaced by the arguments of the call).

func predicateHelperOf(f *ssa.Function, cv ssa.Value) (*ssa.Function, *ssa.Call, bool) {
	v, _ := stripNot(cv)
	call, idx, ok := boolCallOf(v)
	if !ok || idx != 0 {
		return nil, nil, false
	}
	h := helperCallee(f, &call.Call)
	if h == nil || h.Signature.Results().Len() != 1 || len(h.Blocks) > 40 {
		return nil, nil, false
	}
	return h, call, true
}

func predicateTableAtoms(f *ssa.Function, cv ssa.Value, classify func(string) (string, bool, bool), depth int) ([]string, bool) {
	h, call, ok := predicateHelperOf(f, cv)
	if !ok || depth > 1 {
		return nil, false
	}
	cls := func(c string) (string, bool, bool) { return classify(substParams(c, h, &call.Call)) }
	set := map[string]bool{}
	okAll := true
	add := func(v ssa.Value) {
		if _, isConst := v.(*ssa.Const); isConst {
			return
		}
		c, _ := normCond(v)
		if a, _, ok := cls(c); ok {
			set[a] = true
			return
		}
		if more, ok := predicateTableAtoms(h, v, cls, depth+1); ok {
			for _, m := range more {
				set[m] = true
			}
			return
		}
		okAll = false
	}
	for _, bc := range branchConds(h) {
		add(bc.cond)
	}
	eachInstr(h, func(in ssa.Instruction) {
		if ret, ok := in.(*ssa.Return); ok && len(ret.Results) == 1 && ret.Block().Comment != "recover" {
			v := returnedValue0(ret, 0, nil)
			if ph, isPhi := v.(*ssa.Phi); isPhi {
				for _, e := range ph.Edges {
					add(e)
				}
			} else {
				add(v)
			}
		}
	})
	if !okAll {
		return nil, false
	}
	var out []string
	for a := range set {
		out = append(out, a)
	}
	sort.Strings(out)
	return out, true
}

// evalPredicateHelper: the truth value of the helper call behind cv (NOT stripped) under the valuation.
func evalPredicateHelper(f *ssa.Function, cv ssa.Value, classify func(string) (string, bool, bool), val map[string]bool, depth int) (bool, bool) {
	h, call, ok := predicateHelperOf(f, cv)
	if !ok || depth > 1 {
		return false, false
	}
	cls := func(c string) (string, bool, bool) { return classify(substParams(c, h, &call.Call)) }
	// truth of a boolean value of h under val
	var truth func(v ssa.Value) (bool, bool)
	truth = func(v ssa.Value) (bool, bool) {
		if k, ok := v.(*ssa.Const); ok && k.Value != nil && k.Value.Kind() == constant.Bool {
			return constant.BoolVal(k.Value), true
		}
		c, pol := normCond(v)
		if a, apol, ok := cls(c); ok {
			return (val[a] == apol) == pol, true
		}
		if hv, ok := evalPredicateHelper(h, v, cls, val, depth+1); ok {
			_, p2 := normCond(v)
			return hv == p2, true
		}
		return false, false
	}
	b := h.Blocks[0]
	var prev *ssa.BasicBlock
	prevSlot := 0
	for steps := 0; steps < 200; steps++ {
		last := b.Instrs[len(b.Instrs)-1]
		switch x := last.(type) {
		case *ssa.Return:
			v := returnedValue0(x, 0, prev)
			if ph, isPhi := v.(*ssa.Phi); isPhi && prev != nil && ph.Block() == b {
				if pi := predSlot(prev, prevSlot, b); pi > 0 {
					v = ph.Edges[pi-1]
				}
			}
			return truth(v)
		case *ssa.If:
			cnd, flip := ssa.Value(x.Cond), false
			if ph, neg, ok := condPhi(b); ok {
				pi := 0
				if prev != nil {
					pi = predSlot(prev, prevSlot, b)
				}
				if pi == 0 {
					return false, false
				}
				cnd, flip = ph.Edges[pi-1], neg
			}
			t, ok := truth(cnd)
			if !ok {
				return false, false
			}
			next := 1
			if t != flip {
				next = 0
			}
			prev, prevSlot = b, next
			b = b.Succs[next]
		default:
			if len(b.Succs) != 1 {
				return false, false
			}
			prev, prevSlot = b, 0
			b = b.Succs[0]
		}
	}
	return false, false
}
