package main

import (
	"fmt"
	"go/constant"
	"sort"
	"strings"

	"golang.org/x/tools/go/ssa"
)

// E12 CondForm: finite predicate abstraction of a small loop-free region.
//
// The region starts at instruction `start` (exclusive) or block entry; the walk
// follows the CFG, deciding each If by the valuation of its classified atom,
// and stops at the first instruction for which outcome() returns a non-empty
// label. classify maps a canonical condition to (atom name, polarity of the
// atom when the canonical condition is true); an unclassifiable condition makes
// the region undecided.

type condFormResult struct {
	Atoms []string          // sorted atom names seen
	Table map[string]string // valuation (e.g. "A=1,B=0") -> outcome label
}

func condForm(fn *ssa.Function, startBlock *ssa.BasicBlock, startIdx int,
	classify func(cond string) (atom string, pol bool, ok bool),
	outcome func(in ssa.Instruction, b *ssa.BasicBlock, idx int, prev *ssa.BasicBlock, val map[string]bool) string, maxAtoms int) (*condFormResult, error) {
	return condFormWith(fn, startBlock, startIdx, classify, outcome, maxAtoms, nil)
}

// condFormWith: as condForm, with additional atoms that the outcome function evaluates itself (a returned boolean
// expression has no branch of its own).
func condFormWith(fn *ssa.Function, startBlock *ssa.BasicBlock, startIdx int,
	classify func(cond string) (atom string, pol bool, ok bool),
	outcome func(in ssa.Instruction, b *ssa.BasicBlock, idx int, prev *ssa.BasicBlock, val map[string]bool) string, maxAtoms int, extraAtoms []string) (*condFormResult, error) {

	// discover atoms reachable in the region (walk all branches until an outcome)
	atomSet := map[string]bool{}
	type pos struct {
		b   *ssa.BasicBlock
		idx int
	}
	seen := map[int]bool{}
	var discover func(b *ssa.BasicBlock, idx int) error
	discover = func(b *ssa.BasicBlock, idx int) error {
		if idx == 0 {
			if seen[b.Index] {
				return nil
			}
			seen[b.Index] = true
		}
		for i := idx; i < len(b.Instrs); i++ {
			in := b.Instrs[i]
			if outcome(in, b, i, nil, nil) != "" {
				return nil
			}
			if iff, ok := in.(*ssa.If); ok {
				conds := []ssa.Value{iff.Cond}
				if ph, _, ok := condPhi(b); ok {
					// a short-circuit expression materialised as a value (switch case, assigned bool): its operands
					conds = conds[:0]
					for _, e := range ph.Edges {
						if _, isConst := e.(*ssa.Const); !isConst {
							conds = append(conds, e)
						}
					}
				}
				for _, cv := range conds {
					c, _ := normCond(cv)
					a, _, ok := classify(c)
					if !ok {
						return fmt.Errorf("unrecognised condition %q in the region", c)
					}
					atomSet[a] = true
				}
			}
		}
		for _, s := range b.Succs {
			if err := discover(s, 0); err != nil {
				return err
			}
		}
		return nil
	}
	if err := discover(startBlock, startIdx); err != nil {
		return nil, err
	}
	for _, a := range extraAtoms {
		atomSet[a] = true
	}
	var atoms []string
	for a := range atomSet {
		atoms = append(atoms, a)
	}
	sort.Strings(atoms)
	if len(atoms) > maxAtoms {
		return nil, fmt.Errorf("region has %d atoms (> %d): %v", len(atoms), maxAtoms, atoms)
	}
	res := &condFormResult{Atoms: atoms, Table: map[string]string{}}
	for mask := 0; mask < 1<<len(atoms); mask++ {
		val := map[string]bool{}
		var parts []string
		for i, a := range atoms {
			val[a] = mask&(1<<i) != 0
			parts = append(parts, fmt.Sprintf("%s=%d", a, b2i(val[a])))
		}
		b, idx := startBlock, startIdx
		var prev *ssa.BasicBlock
		prevSlot := 0
		steps := 0
		label := ""
	walk:
		for {
			steps++
			if steps > 500 {
				return nil, fmt.Errorf("region walk did not terminate (loop inside the region)")
			}
			next := -1
			for i := idx; i < len(b.Instrs); i++ {
				in := b.Instrs[i]
				if l := outcome(in, b, i, prev, val); l != "" {
					label = l
					break walk
				}
				if iff, ok := in.(*ssa.If); ok {
					cv, flip := ssa.Value(iff.Cond), false
					if ph, neg, ok := condPhi(b); ok {
						pi := 0
						if prev != nil {
							pi = predSlot(prev, prevSlot, b)
						}
						if pi == 0 {
							return nil, fmt.Errorf("region starts inside a materialised short-circuit expression")
						}
						cv, flip = ph.Edges[pi-1], neg
					}
					if k, ok := cv.(*ssa.Const); ok && k.Value != nil && k.Value.Kind() == constant.Bool {
						if constant.BoolVal(k.Value) != flip {
							next = 0
						} else {
							next = 1
						}
						continue
					}
					c, cpol := normCond(cv)
					if flip {
						cpol = !cpol
					}
					a, apol, _ := classify(c)
					// canonical cond c is true iff atom == apol; branch cond true iff c == cpol
					cTrue := val[a] == apol
					if cTrue == cpol {
						next = 0
					} else {
						next = 1
					}
				}
			}
			if next < 0 {
				if len(b.Succs) == 0 {
					label = "exit"
					break
				}
				next = 0
			}
			prev, prevSlot = b, next
			b, idx = b.Succs[next], 0
		}
		res.Table[strings.Join(parts, ",")] = label
	}
	return res, nil
}

func b2i(b bool) int {
	if b {
		return 1
	}
	return 0
}

// evalTable compares a result with an expected boolean function: want(val) returns the expected outcome label.
func (r *condFormResult) compare(want func(val map[string]bool) string) []string {
	var diffs []string
	var keys []string
	for k := range r.Table {
		keys = append(keys, k)
	}
	sort.Strings(keys)
	for _, k := range keys {
		val := map[string]bool{}
		for _, p := range strings.Split(k, ",") {
			if p == "" {
				continue
			}
			kv := strings.SplitN(p, "=", 2)
			val[kv[0]] = kv[1] == "1"
		}
		if w := want(val); w != r.Table[k] {
			diffs = append(diffs, fmt.Sprintf("under {%s} the code does %q, the property requires %q", k, r.Table[k], w))
		}
	}
	return diffs
}
