package main

import (
	"encoding/json"
	"fmt"
	"go/token"
	"os"
	"path/filepath"
	"sort"
	"strings"
	"time"
)

// Verdict of one obligation instance.
type Verdict string

const (
	Discharged Verdict = "discharged"
	Violated   Verdict = "violated"
	Undecided  Verdict = "undecided"
)

// Finding is one violated/undecided construct.
type Finding struct {
	Property string   `json:"property"`
	Rule     string   `json:"rule"`           // e.g. C05.1
	Key      string   `json:"key"`            // stable: rule + construct, never a line number
	Kind     Verdict  `json:"kind"`           // violated | undecided
	Pos      string   `json:"pos"`            // file:line (for humans only)
	Func     string   `json:"function"`       // enclosing function
	What     string   `json:"what"`           // one sentence: which clause breaks and how
	Path     []string `json:"path,omitempty"` // offending path / witness
	Known    bool     `json:"known"`
}

// Obligation is one rule instance with its verdict.
type Obligation struct {
	Rule      string  `json:"rule"`
	Construct string  `json:"construct"`
	Verdict   Verdict `json:"verdict"`
	Evidence  string  `json:"evidence,omitempty"`
	Pos       string  `json:"pos,omitempty"`
}

// Report accumulates the result of checking one property.
type Report struct {
	Property    string
	Tier        string
	Obligations []Obligation
	Findings    []Finding
	RuleCount   map[string]int // instances matched per rule
	RuleMin     map[string]int // frozen minimum instances per rule
	RuleDoc     map[string]string
	Notes       []string
	fset        *token.FileSet
	repoDir     string
}

func NewReport(prop, tier string, fset *token.FileSet, repoDir string) *Report {
	return &Report{Property: prop, Tier: tier, RuleCount: map[string]int{}, RuleMin: map[string]int{}, RuleDoc: map[string]string{}, fset: fset, repoDir: repoDir}
}

// Rule declares a rule with its doc line and the frozen minimum number of instances.
func (r *Report) Rule(rule, doc string, min int) {
	r.RuleDoc[rule] = doc
	r.RuleMin[rule] = min
	if _, ok := r.RuleCount[rule]; !ok {
		r.RuleCount[rule] = 0
	}
}

func (r *Report) posStr(p token.Pos) string {
	if !p.IsValid() || r.fset == nil {
		return ""
	}
	ps := r.fset.Position(p)
	f := ps.Filename
	if rel, err := filepath.Rel(r.repoDir, f); err == nil && !strings.HasPrefix(rel, "..") {
		f = rel
	}
	return fmt.Sprintf("%s:%d", f, ps.Line)
}

// OK records a discharged obligation instance.
func (r *Report) OK(rule, construct string, pos token.Pos, evidence string) {
	r.RuleCount[rule]++
	r.Obligations = append(r.Obligations, Obligation{Rule: rule, Construct: construct, Verdict: Discharged, Evidence: evidence, Pos: r.posStr(pos)})
}

// Bad records a violated obligation instance.
func (r *Report) Bad(rule, construct string, pos token.Pos, fn string, what string, path ...string) {
	r.RuleCount[rule]++
	r.Obligations = append(r.Obligations, Obligation{Rule: rule, Construct: construct, Verdict: Violated, Evidence: what, Pos: r.posStr(pos)})
	r.Findings = append(r.Findings, Finding{Property: r.Property, Rule: rule, Key: rule + "|" + construct, Kind: Violated, Pos: r.posStr(pos), Func: fn, What: what, Path: path})
}

// Unk records an undecided obligation (anchor not found, unrecognised shape): fails the check.
func (r *Report) Unk(rule, construct string, pos token.Pos, fn string, why string) {
	r.RuleCount[rule]++
	r.Obligations = append(r.Obligations, Obligation{Rule: rule, Construct: construct, Verdict: Undecided, Evidence: why, Pos: r.posStr(pos)})
	r.Findings = append(r.Findings, Finding{Property: r.Property, Rule: rule, Key: rule + "|undecided|" + construct, Kind: Undecided, Pos: r.posStr(pos), Func: fn, What: "UNDECIDED: " + why + " (if the anchor was renamed or reshaped, update the rule table)"})
}

// Check is a convenience: OK if cond else Bad.
func (r *Report) Check(cond bool, rule, construct string, pos token.Pos, fn, okEvidence, badWhat string) bool {
	if cond {
		r.OK(rule, construct, pos, okEvidence)
	} else {
		r.Bad(rule, construct, pos, fn, badWhat)
	}
	return cond
}

func (r *Report) Note(format string, a ...any) { r.Notes = append(r.Notes, fmt.Sprintf(format, a...)) }

// ---------------------------------------------------------------------------
// Known findings

type KnownFinding struct {
	Status   string `json:"status"` // known | fixed
	Property string `json:"property"`
	Rule     string `json:"rule"`
	Key      string `json:"key"`
	What     string `json:"what"`
	Commit   string `json:"commit,omitempty"`
}

func loadKnown(path string) ([]KnownFinding, error) {
	b, err := os.ReadFile(path)
	if err != nil {
		if os.IsNotExist(err) {
			return nil, nil
		}
		return nil, err
	}
	var k []KnownFinding
	if err := json.Unmarshal(b, &k); err != nil {
		return nil, fmt.Errorf("%s: %w", path, err)
	}
	return k, nil
}

// ---------------------------------------------------------------------------
// Finalisation: min-instance enforcement, known matching, evidence, output.

type finalizeOpts struct {
	VerifDir   string
	Known      []KnownFinding
	Wall       time.Duration
	Seed       int64
	Packages   int
	Functions  int
	CGNodes    int
	Fixtures   map[string]string // fixture name -> result
	Assumption []string
	Explain    string
	SelfTest   map[string]any
	NoEvidence bool
}

func (r *Report) Finalize(o finalizeOpts) int {
	// vacuity guard
	rules := make([]string, 0, len(r.RuleMin))
	for k := range r.RuleMin {
		rules = append(rules, k)
	}
	sort.Strings(rules)
	for _, rule := range rules {
		if r.RuleCount[rule] < r.RuleMin[rule] {
			r.Findings = append(r.Findings, Finding{Property: r.Property, Rule: rule, Key: rule + "|undecided|instance-count", Kind: Undecided,
				What: fmt.Sprintf("UNDECIDED: rule matched %d instance(s), fewer than the %d confirmed by hand: the rule no longer sees its subject", r.RuleCount[rule], r.RuleMin[rule])})
			r.Obligations = append(r.Obligations, Obligation{Rule: rule, Construct: "instance-count", Verdict: Undecided, Evidence: fmt.Sprintf("matched %d < min %d", r.RuleCount[rule], r.RuleMin[rule])})
		}
	}
	knownIdx := map[string]KnownFinding{}
	for _, k := range o.Known {
		if k.Status == "known" && k.Property == r.Property {
			knownIdx[k.Key] = k
		}
	}
	// de-duplicate findings by key (same construct reached twice)
	seen := map[string]bool{}
	var fs []Finding
	for _, f := range r.Findings {
		if seen[f.Key] {
			continue
		}
		seen[f.Key] = true
		if _, ok := knownIdx[f.Key]; ok && f.Kind == Violated {
			f.Known = true
		}
		fs = append(fs, f)
	}
	sort.SliceStable(fs, func(i, j int) bool { return fs[i].Key < fs[j].Key })
	r.Findings = fs

	nNew, nKnown := 0, 0
	for _, f := range fs {
		if f.Known {
			nKnown++
			fmt.Printf("KNOWN-FINDING: property=%s %s %s -- %s\n", r.Property, f.Key, f.Pos, knownIdx[f.Key].What)
		} else {
			nNew++
		}
	}
	if os.Getenv("CJVERIF_VERBOSE") != "" {
		for _, ob := range r.Obligations {
			fmt.Printf("  [%s] %s %s %s :: %s\n", ob.Verdict, ob.Rule, ob.Pos, ob.Construct, ob.Evidence)
		}
	}
	disc, total := 0, len(r.Obligations)
	for _, ob := range r.Obligations {
		if ob.Verdict == Discharged {
			disc++
		}
	}
	evDir := filepath.Join(o.VerifDir, "evidence")
	_ = os.MkdirAll(evDir, 0o755)
	replay := filepath.Join(evDir, r.Property+".violations.json")
	if nNew > 0 {
		b, _ := json.MarshalIndent(fs, "", " ")
		_ = os.WriteFile(replay, append(b, '\n'), 0o644)
		for _, f := range fs {
			if f.Known {
				continue
			}
			fmt.Printf("  %s %s [%s] %s in %s: %s\n", f.Kind, f.Rule, f.Key, f.Pos, f.Func, f.What)
			for _, p := range f.Path {
				fmt.Printf("      %s\n", p)
			}
		}
	} else {
		_ = os.Remove(replay)
	}

	// samples: a few obligations per rule, violated first
	var samples []any
	perRule := map[string]int{}
	obs := append([]Obligation(nil), r.Obligations...)
	sort.SliceStable(obs, func(i, j int) bool {
		if (obs[i].Verdict != Discharged) != (obs[j].Verdict != Discharged) {
			return obs[i].Verdict != Discharged
		}
		return false
	})
	for _, ob := range obs {
		if perRule[ob.Rule] >= 3 && ob.Verdict == Discharged {
			continue
		}
		perRule[ob.Rule]++
		samples = append(samples, ob)
		if len(samples) >= 60 {
			break
		}
	}
	ruleTable := map[string]any{}
	for _, rule := range rules {
		ruleTable[rule] = map[string]any{"doc": r.RuleDoc[rule], "instances": r.RuleCount[rule], "min_instances": r.RuleMin[rule]}
	}
	cov := map[string]any{
		"explanation":           o.Explain,
		"obligations":           total,
		"discharged":            disc,
		"violated_known":        nKnown,
		"violated_or_undecided": nNew,
		"rules":                 ruleTable,
		"samples":               samples,
		"packages_loaded":       o.Packages,
		"functions_analysed":    o.Functions,
		"callgraph_nodes":       o.CGNodes,
		"fixtures":              o.Fixtures,
		"exhaustive":            false,
		"notes":                 r.Notes,
		"checker_cmd":           "bin/cjverif check -property " + r.Property + " -tier " + r.Tier,
	}
	if o.SelfTest != nil {
		cov["mutant_selftest"] = o.SelfTest
	}
	ev := map[string]any{
		"property_id": r.Property,
		"tier":        r.Tier,
		"seed":        o.Seed,
		"level":       "other",
		"coverage":    cov,
		"assumptions": o.Assumption,
		"wall_s":      float64(int(o.Wall.Seconds()*100)) / 100,
		"violations":  nNew,
	}
	if !o.NoEvidence {
		b, _ := json.MarshalIndent(ev, "", " ")
		if err := os.WriteFile(filepath.Join(evDir, r.Property+".json"), append(b, '\n'), 0o644); err != nil {
			fmt.Fprintln(os.Stderr, "cannot write evidence:", err)
			return 2
		}
	}
	fmt.Printf("%s tier=%s obligations=%d discharged=%d known=%d new=%d wall=%.1fs\n", r.Property, r.Tier, total, disc, nKnown, nNew, o.Wall.Seconds())
	if nNew > 0 {
		fmt.Printf("VIOLATION property=%s replay=%s\n", r.Property, replay)
		return 1
	}
	return 0
}
