package main

import (
	"fmt"
	"path/filepath"
	"sort"
	"strings"

	"golang.org/x/tools/go/ssa"
)

// runFixtures analyses /verif/fixtures with the same engines the property checks use and requires that exactly
// the examples named bad* are flagged (and the ok* ones are not). It runs before every check: an engine that no
// longer recognises its own positive example gives no verdict. This is also the standing positive example for
// rules whose expected instance count on the repository is zero (e.g. the pool-alias rule C15.5).
func runFixtures(vdir string) (map[string]string, error) {
	dir := filepath.Join(vdir, "fixtures")
	p, err := LoadProgram(dir, []string{"./..."}, nil, "")
	if err != nil {
		return nil, fmt.Errorf("loading fixtures: %w", err)
	}
	fns := map[string]*ssa.Function{}
	var all []*ssa.Function
	for _, f := range p.RepoFuncs() {
		if f.Blocks == nil {
			continue
		}
		all = append(all, f)
		if f.Parent() == nil && f.Signature.Recv() == nil {
			fns[f.Name()] = f
		}
	}
	if len(fns) < 20 {
		return nil, fmt.Errorf("fixtures: only %d functions loaded", len(fns))
	}
	saved := allRepoFuncs
	allRepoFuncs = all
	defer func() { allRepoFuncs = saved }()

	// ---- taint, once for the whole fixture package
	rep := NewReport("fixtures", "quick", p.Roots[0].Fset, dir)
	ctx := &Ctx{P: p, R: rep, Dir: dir}
	ts := newTaint(ctx, taintCfg{
		inScope: func(f *ssa.Function) bool { return true },
		isSource: func(f *ssa.Function, in ssa.Instruction, cc *ssa.CallCommon) (taintKind, string) {
			if calleeShort(cc) == "RemoteAddr" {
				return tText, "RemoteAddr"
			}
			return 0, ""
		},
	})
	for _, f := range all {
		for _, prm := range f.Params {
			if prm.Type().String() == "net.Conn" && strings.Contains(f.Name(), "Taint") {
				ts.add(prm, tConn, nil, "fixture connection", prm.Pos())
			}
		}
	}
	ts.run()
	taintHit := map[*ssa.Function]bool{}
	for _, f := range all {
		eachInstr(f, func(in ssa.Instruction) {
			ci, ok := in.(ssa.CallInstruction)
			if !ok || calleeShort(ci.Common()) != "sink" {
				return
			}
			for _, a := range ci.Common().Args {
				ops := []ssa.Value{a}
				if el, ok := varargElems(a); ok {
					ops = el
				}
				for _, o := range ops {
					if o == nil {
						continue
					}
					if k, _ := ts.textOf(o); k&tText != 0 {
						taintHit[f] = true
					}
				}
			}
		})
	}
	taintFlag := func(f *ssa.Function) bool {
		if taintHit[f] {
			return true
		}
		for _, a := range f.AnonFuncs {
			if taintHit[a] {
				return true
			}
		}
		hit := false
		eachInstr(f, func(in ssa.Instruction) {
			if ci, ok := in.(ssa.CallInstruction); ok {
				if cal := ci.Common().StaticCallee(); cal != nil && taintHit[cal] && cal.Name() == "emit" {
					hit = true
				}
			}
		})
		return hit
	}

	out := map[string]string{}
	var errs []string
	var names []string
	for n := range fns {
		names = append(names, n)
	}
	sort.Strings(names)
	for _, n := range names {
		f := fns[n]
		var want, isCase bool
		rest := ""
		switch {
		case strings.HasPrefix(n, "bad"):
			want, isCase, rest = true, true, n[3:]
		case strings.HasPrefix(n, "ok"):
			want, isCase, rest = false, true, n[2:]
		}
		if !isCase {
			continue
		}
		var got bool
		engine := ""
		switch {
		case strings.HasPrefix(rest, "Guard"):
			engine = "E1 guard dominance"
			got = true
			for _, ci := range callsIn(f, shortIs("mark")) {
				got = !guarded(f, ci.(ssa.Instruction), Atom{"(" + pname(f.Params[0]) + " < 10)", true})
			}
		case strings.HasPrefix(rest, "Lock"):
			engine = "E3 lockset leak"
			got = len(analyseLocks(f, lockSet{}).ExitLeak) > 0
		case strings.HasPrefix(rest, "Pool"):
			engine = "pool alias"
			got = len(poolAliasViolations([]*ssa.Function{f})) > 0
		case strings.HasPrefix(rest, "Bounds"), strings.HasPrefix(rest, "Alloc"), strings.HasPrefix(rest, "VarBound"):
			engine = "bounds / allocation"
			for _, bc := range boundCandidates(f) {
				if !bc.ok {
					got = true
				}
			}
		case strings.HasPrefix(rest, "Taint"):
			engine = "E4 taint"
			got = taintFlag(f)
		case strings.HasPrefix(rest, "Read"):
			engine = "E11 read-then-error"
			for _, ci := range callsIn(f, shortIs("Read")) {
				if call, ok := ci.(*ssa.Call); ok {
					_, bad, _, _ := readThenErr(f, call, nil)
					got = got || bad
				}
			}
		case strings.HasPrefix(rest, "Narrow"):
			engine = "E10 narrowing"
			for _, s := range narrowSites(f) {
				if !s.OK {
					got = true
				}
			}
		case strings.HasPrefix(rest, "ErrClass"):
			engine = "error classes"
			ec := newErrClassifier(ctx)
			for k := range ec.ofFunc(f, 0) {
				if strings.HasPrefix(k, "other:") {
					got = true
				}
			}
		case strings.HasPrefix(rest, "Whenever"):
			engine = "adversarial reachability"
			for _, ci := range callsIn(f, shortIs("mark")) {
				got = !reachAgainst(f, ci.(ssa.Instruction), func(b *ssa.BasicBlock) bool {
					iff, ok := b.Instrs[len(b.Instrs)-1].(*ssa.If)
					if !ok {
						return false
					}
					cnd, _ := normCond(iff.Cond)
					return !strings.Contains(cnd, pname(f.Params[0]))
				})
			}
		case strings.HasPrefix(rest, "Reentrant"):
			engine = "E3b re-entrancy"
			rr := NewReport("fixtures", "quick", p.Roots[0].Fset, dir)
			checkNoReentrancy(rr, "fx", all, nil)
			for _, fd := range rr.Findings {
				if fd.Func == fnName(f) {
					got = true
				}
			}
		case strings.HasPrefix(rest, "Held"):
			engine = "E3c guarded-by"
			rr := NewReport("fixtures", "quick", p.Roots[0].Fset, dir)
			checkGuardedBy(rr, "fx", all, []guardSpec{{Owner: "fx.table", Field: "rows", Mutex: "mu"}}, func(g *ssa.Function) string {
				if g != f {
					return "not the fixture under test"
				}
				return ""
			})
			got = len(rr.Findings) > 0
		case strings.HasPrefix(rest, "UnderLock"):
			engine = "E3d calls under the write lock"
			rr := NewReport("fixtures", "quick", p.Roots[0].Fset, dir)
			checkNoCallsUnderWriteLock(rr, "fx", f, func(string) bool { return true }, func(string) bool { return false })
			got = len(rr.Findings) > 0
		case strings.HasPrefix(rest, "MutInput"):
			engine = "input mutation"
			eachInstr(f, func(in ssa.Instruction) {
				if writesInput(f, in) != "" {
					got = true
				}
			})
		case strings.HasPrefix(rest, "LoopBuf"):
			engine = "shared loop buffer"
			got = len(sharedLoopBuffers(f)) > 0
		case strings.HasPrefix(rest, "Loop") && !strings.HasPrefix(rest, "LoopBuf"):
			engine = "loop bounds"
			for _, l := range loopsOf(f) {
				l := l
				classifyLoop(&l)
				if l.class == "" {
					got = true
				}
			}
		case strings.HasPrefix(rest, "PrivBuf"):
			engine = "private memory"
			eachInstr(f, func(in ssa.Instruction) {
				if call, ok := in.(*ssa.Call); ok && call.Call.IsInvoke() && call.Call.Method.Name() == "Read" {
					if privateBuffer(f, call.Call.Args[0], 0) != "" {
						got = true
					}
				}
			})
		case strings.HasPrefix(rest, "Uncond"):
			engine = "unconditional effect"
			eachInstr(f, func(in ssa.Instruction) {
				if call, ok := in.(*ssa.Call); ok && calleeShort(&call.Call) == "sink" {
					if !unconditional(f, in) {
						got = true
					}
				}
			})
		case strings.HasPrefix(rest, "AcceptCarrier"):
			engine = "accept to handler"
			got = !helperOnlyInspects(f, 0, 0)
		case strings.HasPrefix(rest, "Park"):
			engine = "parking operations"
			eachInstr(f, func(in ssa.Instruction) {
				if parksOn(in) != "" {
					got = true
				}
			})
		case strings.HasPrefix(rest, "Draw"):
			engine = "draw order"
			steps, ordered := drawSeq(f, f.Params[0])
			var d []string
			for _, s := range steps {
				d = append(d, s.desc)
			}
			got = !ordered || fmt.Sprint(d) != "[Read[16] -> scratch Read[4] -> scratch]"
		default:
			continue
		}
		status := "silent"
		if got {
			status = "flagged"
		}
		out[n] = engine + ": " + status
		if got != want {
			errs = append(errs, fmt.Sprintf("%s (%s): flagged=%v, expected %v", n, engine, got, want))
		}
	}
	if len(errs) > 0 {
		return out, fmt.Errorf("engine self-check on fixtures failed: %s", strings.Join(errs, "; "))
	}
	return out, nil
}
