package main

// runFixtures analyses /verif/fixtures with the same engines and requires that
// exactly the violating constructs are flagged. Filled in per engine.
func runFixtures(vdir string) (map[string]string, error) {
	return map[string]string{}, nil
}
