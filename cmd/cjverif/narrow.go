package main

import (
	"fmt"
	"go/constant"
	"go/token"
	"go/types"
	"regexp"
	"strconv"
	"strings"

	"golang.org/x/tools/go/ssa"
)

// E10 NarrowLen: conversions of a wider integer to uint8/uint16 inside an
// encoder must be value-preserving: constant, masked/shifted byte extraction,
// dominated by a bound that implies the value fits, or followed by the
// round-trip test `int(T(n)) != n -> fail`.

type narrowSite struct {
	Fn      *ssa.Function
	Conv    *ssa.Convert
	OK      bool
	How     string
	Operand string
}

func bitsOf(t types.Type) (int, bool) {
	b, ok := t.Underlying().(*types.Basic)
	if !ok {
		return 0, false
	}
	switch b.Kind() {
	case types.Uint8:
		return 8, true
	case types.Uint16:
		return 16, true
	case types.Int8:
		return 7, true
	case types.Int16:
		return 15, true
	case types.Uint32:
		return 32, true
	case types.Int32:
		return 31, true
	case types.Int, types.Int64:
		return 63, true
	case types.Uint, types.Uint64, types.Uintptr:
		return 64, true
	}
	return 0, false
}

var reLtConst = regexp.MustCompile(`^\((\d+) < (.*)\)$`)
var reLtConstR = regexp.MustCompile(`^\((.*) < (\d+)\)$`)

func narrowSites(fn *ssa.Function) []narrowSite {
	var out []narrowSite
	eachInstr(fn, func(in ssa.Instruction) {
		cv, ok := in.(*ssa.Convert)
		if !ok {
			return
		}
		tb, ok1 := bitsOf(cv.Type())
		sb, ok2 := bitsOf(cv.X.Type())
		if !ok1 || !ok2 || tb > 16 || sb <= tb {
			return
		}
		if _, isC := cv.X.(*ssa.Const); isC {
			return
		}
		max := uint64(1)<<uint(tb) - 1
		site := narrowSite{Fn: fn, Conv: cv, Operand: pathOf(cv.X)}
		// byte extraction idioms: x & K (K<=max), x >> s, x % K (K<=max+1)
		x := cv.X
		if bo, ok := x.(*ssa.BinOp); ok {
			switch bo.Op {
			case token.AND:
				for _, side := range []ssa.Value{bo.X, bo.Y} {
					if c, ok := constOf(side); ok {
						if v, ok := constant.Uint64Val(constant.ToInt(c)); ok && v <= max {
							site.OK, site.How = true, "masked with "+c.String()
						}
					}
				}
			case token.SHR:
				// value >> s keeps (srcbits - s) bits; accept when the source is at most 16 bits wider than the shift leaves... conservatively accept byte-extraction of fixed-width values
				if c, ok := constOf(bo.Y); ok {
					if s, ok := constant.Uint64Val(constant.ToInt(c)); ok {
						if xb, ok := bitsOf(bo.X.Type()); ok && uint64(xb) <= s+uint64(tb) {
							site.OK, site.How = true, "shift leaves at most "+strconv.Itoa(tb)+" bits"
						}
					}
				}
			case token.REM:
				if c, ok := constOf(bo.Y); ok {
					if v, ok := constant.Uint64Val(constant.ToInt(c)); ok && v <= max+1 {
						site.OK, site.How = true, "reduced modulo "+c.String()
					}
				}
			}
		}
		// truncation on purpose: byte(x >> k) where x is any width is the standard way to extract a byte
		if !site.OK {
			if bo, ok := x.(*ssa.BinOp); ok && bo.Op == token.SHR && tb == 8 {
				site.OK, site.How = true, "byte extraction by shift (intentional truncation)"
			}
		}
		p := site.Operand
		if !site.OK {
			// dominating bound on the operand's path (or, for K|x, the mask idiom (x & M) == x)
			if guardedM(fn, cv, func(cnd string, pol bool) bool {
				if m := reLtConst.FindStringSubmatch(cnd); m != nil && m[2] == p && !pol { // !(K < p)  => p <= K
					k, _ := strconv.ParseUint(m[1], 10, 64)
					return k <= max
				}
				if m := reLtConstR.FindStringSubmatch(cnd); m != nil && m[1] == p && pol { // p < K
					k, _ := strconv.ParseUint(m[2], 10, 64)
					return k <= max+1
				}
				return false
			}) {
				site.OK, site.How = true, "dominated by an upper bound on "+firstN(p, 40)
			}
		}
		if !site.OK {
			if bo, ok := x.(*ssa.BinOp); ok && bo.Op == token.OR {
				// const | v with guard ((v & M) == v)
				for _, side := range []ssa.Value{bo.X, bo.Y} {
					vp := pathOf(side)
					if guardedM(fn, cv, func(cnd string, pol bool) bool {
						return pol && strings.HasPrefix(cnd, "(("+vp+" & ") && strings.HasSuffix(cnd, ") == "+vp+")") || pol && strings.HasPrefix(cnd, "("+vp+" == ("+vp+" & ")
					}) {
						site.OK, site.How = true, "mask idiom ("+vp+" & M) == "+vp
					}
				}
			}
		}
		if !site.OK {
			// round-trip idiom: a branch on int(T(n)) == n that the conversion dominates, whose failing edge leaves (return/panic)
			back := typeShort(cv.X.Type()) + "(" + pathOf(cv) + ")"
			want := "(" + orderEq(back, p) + ")"
			// the converted value may live in an address-taken local (`binary.Write(w, order, &length)`):
			// then the test reads the local back
			want2 := ""
			if cv.Referrers() != nil {
				for _, ref := range *cv.Referrers() {
					if st, ok := ref.(*ssa.Store); ok {
						if a, ok := st.Addr.(*ssa.Alloc); ok && a.Comment != "" {
							nStores := 0
							for _, r2 := range *a.Referrers() {
								if s2, ok := r2.(*ssa.Store); ok && s2.Addr == ssa.Value(a) {
									nStores++
								}
							}
							if nStores == 1 {
								want2 = "(" + orderEq(typeShort(cv.X.Type())+"("+a.Comment+")", p) + ")"
							}
						}
					}
				}
			}
			for _, b := range fn.Blocks {
				if len(b.Instrs) == 0 {
					continue
				}
				if iff, ok := b.Instrs[len(b.Instrs)-1].(*ssa.If); ok {
					if c, pol := normCond(iff.Cond); (c == want || (want2 != "" && c == want2)) && cv.Block().Dominates(b) {
						// failing edge must not continue to use the value: it must end in return/panic without looping back
						failSlot := 1
						if !pol {
							failSlot = 0
						}
						fb := b.Succs[failSlot]
						leaves := true
						if len(fb.Succs) != 0 {
							leaves = false
						}
						if leaves {
							site.OK, site.How = true, "round-trip test "+firstN(want, 60)+" with failing edge leaving the function"
						}
					}
				}
			}
		}
		out = append(out, site)
	})
	return out
}

func (s narrowSite) construct() string {
	return fmt.Sprintf("%s: %s(%s)", fnName(s.Fn), typeShort(s.Conv.Type()), firstN(s.Operand, 70))
}
