package main

import (
	"fmt"
	"go/token"
	"go/types"
	"sort"
	"strings"

	"golang.org/x/tools/go/ssa"
)

// funcsOfPkgs returns the repo source functions whose package is one of pkgs (paths relative to the module).
func (c *Ctx) funcsOfPkgs(pkgs ...string) []*ssa.Function {
	want := map[string]bool{}
	for _, p := range pkgs {
		if strings.HasPrefix(p, "fixtures/") {
			want[p] = true
		} else {
			want[repoMod+"/"+p] = true
		}
	}
	var out []*ssa.Function
	for _, f := range c.P.RepoFuncs() {
		if want[fnPkgPath(f)] {
			out = append(out, f)
		}
	}
	return out
}

// ---------------------------------------------------------------------------
// E3b re-entrancy: acquiring a mutex (any mode) that may already be held.

func checkNoReentrancy(r *Report, rule string, fns []*ssa.Function, mutexFilter func(path string) bool) {
	sums := acquireSummaries(fns)
	for _, f := range fns {
		hasLock := false
		eachInstr(f, func(in ssa.Instruction) {
			if ci, ok := in.(ssa.CallInstruction); ok {
				if _, _, op := lockOp(ci.Common()); op != "" {
					hasLock = true
				}
			}
		})
		if !hasLock {
			continue
		}
		lf := analyseLocks(f, lockSet{})
		eachInstr(f, func(in ssa.Instruction) {
			call, ok := in.(*ssa.Call)
			if !ok {
				return
			}
			may := realLocks(lf.May[in])
			if p, m, op := lockOp(&call.Call); op == "lock" {
				if mutexFilter != nil && !mutexFilter(p) {
					return
				}
				construct := fmt.Sprintf("%s: %s.%s", fnName(f), p, lockVerb(m))
				if held, ok := may.holdsPath(p); ok {
					r.Bad(rule, construct+" while "+held+" may be held", in.Pos(), fnName(f),
						fmt.Sprintf("mutex %s is acquired (%s) on a path where %s is still held (a deferred unlock keeps it to function exit): with a writer waiting in between, sync.RWMutex blocks the second acquisition forever", p, lockVerb(m), held))
				} else {
					r.OK(rule, construct, in.Pos(), "not held on any path reaching this acquisition; may-set="+may.String())
				}
				return
			}
			if len(may) == 0 {
				return
			}
			callee := call.Call.StaticCallee()
			if callee == nil {
				return
			}
			for _, a := range sums[callee] {
				tp, ok := translatePath(a.Path, callee, &call.Call)
				if !ok {
					continue
				}
				if mutexFilter != nil && !mutexFilter(tp) {
					continue
				}
				if held, ok := may.holdsPath(tp); ok {
					r.Bad(rule, fmt.Sprintf("%s: call %s acquires %s while %s may be held", fnName(f), fnName(callee), tp, held), in.Pos(), fnName(f),
						fmt.Sprintf("callee chain %s acquires %s which the caller may already hold (%s)", a.Via, tp, held))
				}
			}
		})
	}
}

func lockVerb(m string) string {
	if m == "R" {
		return "RLock"
	}
	return "Lock"
}

// ---------------------------------------------------------------------------
// E9 for locks: every acquisition is released on all paths (directly or by a registered defer).

func checkLockLeaks(r *Report, rule string, fns []*ssa.Function) {
	for _, f := range fns {
		n := 0
		eachInstr(f, func(in ssa.Instruction) {
			if ci, ok := in.(*ssa.Call); ok {
				if _, _, op := lockOp(&ci.Call); op == "lock" {
					n++
				}
			}
		})
		if n == 0 {
			continue
		}
		lf := analyseLocks(f, lockSet{})
		if len(lf.ExitLeak) > 0 {
			r.Bad(rule, fnName(f)+": returns holding "+strings.Join(lf.ExitLeak, ","), f.Pos(), fnName(f),
				"a path reaches a return with "+strings.Join(lf.ExitLeak, ",")+" held and no deferred unlock registered: the next acquirer blocks forever")
		} else {
			r.OK(rule, fnName(f)+": all acquisitions released", f.Pos(), fmt.Sprintf("%d acquisition(s), none held at any return", n))
		}
	}
}

// ---------------------------------------------------------------------------
// E3a guarded-by.

type guardSpec struct {
	Owner string // typeShort of the struct, e.g. "lib.RegisteredDecoys"
	Field string
	// Mutex path relative to the struct value: a field name of the same struct
	// ("m") — the lock path is <path of struct>.<Mutex>.
	Mutex string
	// If set, the lock lives on another object: LockPathOf computes the
	// required lock path from the access (used for DecoyRegistration.Valid
	// guarded by the RegisteredDecoys mutex).
	Foreign bool
}

type access struct {
	in    ssa.Instruction
	fa    ssa.Value
	write bool
	lock  string // required lock path
	desc  string
}

// mapWrites reports whether value v (loaded from a guarded field) is written through:
// MapUpdate, delete, or the same on inner maps obtained by Lookup.
func usedForWrite(v ssa.Value, depth int) bool {
	if depth > 3 || v.Referrers() == nil {
		return false
	}
	for _, ref := range *v.Referrers() {
		switch x := ref.(type) {
		case *ssa.MapUpdate:
			if x.Map == v {
				return true
			}
		case *ssa.Call:
			if b, ok := x.Call.Value.(*ssa.Builtin); ok && b.Name() == "delete" && len(x.Call.Args) > 0 && x.Call.Args[0] == v {
				return true
			}
		case *ssa.Lookup:
			if x.X == v {
				if _, ok := x.Type().Underlying().(*types.Map); ok {
					if usedForWrite(x, depth+1) {
						return true
					}
				}
				if tup, ok := x.Type().(*types.Tuple); ok && tup.Len() == 2 {
					for _, r2 := range *x.Referrers() {
						if ex, ok := r2.(*ssa.Extract); ok && ex.Index == 0 {
							if _, ok := ex.Type().Underlying().(*types.Map); ok && usedForWrite(ex, depth+1) {
								return true
							}
						}
					}
				}
			}
		case *ssa.Phi:
			if usedForWrite(x, depth+1) {
				return true
			}
		}
	}
	return false
}

func collectAccesses(f *ssa.Function, spec guardSpec) []access {
	var out []access
	eachInstr(f, func(in ssa.Instruction) {
		var base ssa.Value
		var fav ssa.Value
		switch x := in.(type) {
		case *ssa.FieldAddr:
			o, fld, _ := fieldOwner(x)
			if o != spec.Owner || fld != spec.Field {
				return
			}
			base, fav = x.X, x
		case *ssa.Field:
			o, fld, _ := fieldOwner(x)
			if o != spec.Owner || fld != spec.Field {
				return
			}
			base, fav = x.X, x
		default:
			return
		}
		write := false
		if fa, ok := fav.(*ssa.FieldAddr); ok && fa.Referrers() != nil {
			for _, ref := range *fa.Referrers() {
				switch y := ref.(type) {
				case *ssa.Store:
					if y.Addr == fa {
						write = true
					}
				case *ssa.UnOp:
					if y.Op == token.MUL && usedForWrite(y, 0) {
						write = true
					}
				case *ssa.Call:
					// address passed to a function (atomic.AddInt64(&x.f, …)) — treated as a write
					write = true
				}
			}
		}
		lock := pathOf(base) + "." + spec.Mutex
		if spec.Foreign {
			lock = "@" + spec.Mutex
		}
		out = append(out, access{in: in, fa: fav, write: write, lock: lock, desc: pathOf(fav)})
	})
	return out
}

type requirement struct {
	lock  string // rooted at a parameter of the function
	write bool
	why   string
}

// checkGuardedBy verifies that every access to the listed fields happens with
// the owning object's mutex held (W for writes, R or W for reads) on every
// path. Unexported functions that touch a field without the lock get the
// summary "requires L"; each of their static call sites must hold L.
func checkGuardedBy(r *Report, rule string, fns []*ssa.Function, specs []guardSpec, exempt func(f *ssa.Function) string) {
	inSet := map[*ssa.Function]bool{}
	for _, f := range fns {
		inSet[f] = true
	}
	// callers index
	callers := map[*ssa.Function][]*ssa.Call{}
	usedAsValue := map[*ssa.Function]bool{}
	for _, f := range fns {
		eachInstr(f, func(in ssa.Instruction) {
			switch x := in.(type) {
			case *ssa.Call:
				if cal := x.Call.StaticCallee(); cal != nil && inSet[cal] {
					callers[cal] = append(callers[cal], x)
				}
			case *ssa.Go:
				if cal := x.Call.StaticCallee(); cal != nil {
					usedAsValue[cal] = true
				}
			case *ssa.Defer:
				if cal := x.Call.StaticCallee(); cal != nil {
					usedAsValue[cal] = true
				}
			}
			// function used as a value (stored, passed): operands that are *ssa.Function other than call target
			for _, op := range in.Operands(nil) {
				if fn, ok := (*op).(*ssa.Function); ok {
					if ci, ok := in.(ssa.CallInstruction); ok && ci.Common().Value == fn {
						continue
					}
					usedAsValue[fn] = true
				}
			}
		})
	}
	flows := map[*ssa.Function]*LockFlow{}
	flow := func(f *ssa.Function) *LockFlow {
		if lf, ok := flows[f]; ok {
			return lf
		}
		lf := analyseLocks(f, lockSet{})
		flows[f] = lf
		return lf
	}
	holds := func(fn *ssa.Function, must lockSet, lock string, write bool) bool {
		if strings.HasPrefix(lock, "@") {
			_, ok := holdsOwner(fn, must, lock[1:], write)
			return ok
		}
		if must[lock+"/W"] {
			return true
		}
		return !write && must[lock+"/R"]
	}
	requires := map[*ssa.Function][]requirement{}
	canDefer := func(f *ssa.Function, lock string) bool {
		// may the obligation be moved to callers?
		if f.Parent() != nil || usedAsValue[f] || len(callers[f]) == 0 {
			return false
		}
		if f.Object() != nil && f.Object().Exported() {
			return false
		}
		if strings.HasPrefix(lock, "@") {
			return true
		}
		root := lock
		if i := strings.IndexAny(lock, ".["); i >= 0 {
			root = lock[:i]
		}
		for _, p := range f.Params {
			if pname(p) == root {
				return true
			}
		}
		return false
	}
	type pending struct {
		f     *ssa.Function
		in    ssa.Instruction
		lock  string
		write bool
		desc  string
	}
	var work []pending
	for _, f := range fns {
		if exempt != nil && exempt(f) != "" {
			continue
		}
		for _, sp := range specs {
			for _, a := range collectAccesses(f, sp) {
				if strings.HasPrefix(a.lock, "new(") || freshRoot(a.fa, f) {
					r.OK(rule, fnName(f)+": "+accessKind(a.write)+" "+a.desc+" (object not yet published)", a.in.Pos(), "freshly allocated in this function")
					continue
				}
				work = append(work, pending{f, a.in, a.lock, a.write, accessKind(a.write) + " " + a.desc})
			}
		}
	}
	seenReq := map[string]bool{}
	for len(work) > 0 {
		p := work[0]
		work = work[1:]
		lf := flow(p.f)
		must := lf.Must[p.in]
		construct := fnName(p.f) + ": " + p.desc
		if holds(p.f, must, p.lock, p.write) {
			r.OK(rule, construct, p.in.Pos(), "must-lockset "+realLocks(must).String()+" contains "+p.lock)
			continue
		}
		if canDefer(p.f, p.lock) {
			key := fnName(p.f) + "|" + p.lock + "|" + fmt.Sprint(p.write)
			r.OK(rule, construct+" (helper: requires "+p.lock+" from callers)", p.in.Pos(), fmt.Sprintf("unexported helper; obligation moved to its %d static call site(s)", len(callers[p.f])))
			if seenReq[key] {
				continue
			}
			seenReq[key] = true
			requires[p.f] = append(requires[p.f], requirement{p.lock, p.write, p.desc})
			for _, call := range callers[p.f] {
				tp, ok := p.lock, true
				if !strings.HasPrefix(p.lock, "@") {
					tp, ok = translatePath(p.lock, p.f, &call.Call)
				}
				if !ok {
					r.Unk(rule, construct+" via "+fnName(call.Parent()), call.Pos(), fnName(call.Parent()), "cannot translate lock path "+p.lock+" to the caller")
					continue
				}
				if strings.HasPrefix(tp, "new(") {
					continue
				}
				work = append(work, pending{call.Parent(), call, tp, p.write, "call " + fnName(p.f) + " (needs " + tp + " for " + p.desc + ")"})
			}
			continue
		}
		mode := "read lock"
		if p.write {
			mode = "write lock"
		}
		r.Bad(rule, construct+" without "+p.lock, p.in.Pos(), fnName(p.f),
			fmt.Sprintf("%s requires the %s %s on every path, but the must-lockset here is %s: a concurrent writer makes this a data race", p.desc, mode, p.lock, realLocks(must).String()))
	}
}

func accessKind(w bool) string {
	if w {
		return "write"
	}
	return "read"
}

// noCallsUnderLock: while a lock whose path satisfies filter may be held in
// mode W, no call other than lock operations and the allowed ones may occur.
func checkNoCallsUnderWriteLock(r *Report, rule string, f *ssa.Function, filter func(path string) bool, allowed func(name string) bool) {
	lf := analyseLocks(f, lockSet{})
	n := 0
	var bad []string
	eachInstr(f, func(in ssa.Instruction) {
		// an operation that can wait for another goroutine (channel send / receive, select without default): while it
		// waits, the write lock is held
		if park := parksOn(in); park != "" {
			if _, isCall := in.(*ssa.Call); !isCall {
				for k := range realLocks(lf.May[in]) {
					if strings.HasSuffix(k, "/W") && filter(strings.TrimSuffix(k, "/W")) {
						n++
						bad = append(bad, park)
						r.Bad(rule, fnName(f)+": "+park+" under "+k, in.Pos(), fnName(f),
							"the function can wait for another goroutine ("+park+") while it holds the write lock "+k+": if nobody is there to take part, it never releases the lock and every reader (request) and every later writer blocks for good")
					}
				}
				return
			}
		}
		ci, ok := in.(*ssa.Call)
		if !ok {
			return
		}
		if _, _, op := lockOp(&ci.Call); op != "" {
			return
		}
		for k := range realLocks(lf.May[in]) {
			if strings.HasSuffix(k, "/W") && filter(strings.TrimSuffix(k, "/W")) {
				n++
				name := calleeName(&ci.Call)
				if allowed != nil && allowed(name) {
					continue
				}
				bad = append(bad, name)
				r.Bad(rule, fnName(f)+": call "+shortName(name)+" under "+k, in.Pos(), fnName(f),
					"work is done while the write lock "+k+" is held; every reader (request) is stalled for its duration")
			}
		}
	})
	if len(bad) == 0 {
		r.OK(rule, fnName(f)+": critical section under write lock contains no calls", f.Pos(), fmt.Sprintf("%d call(s) examined under the write lock", n))
	}
	sort.Strings(bad)
}

// freshRoot reports whether the object whose field is accessed was created in
// this function and is therefore not yet visible to other goroutines: its
// root is an allocation, or the result of a same-package constructor call
// (a function that returns the owner type and does not receive it).
func freshRoot(fav ssa.Value, f *ssa.Function) bool {
	var v ssa.Value
	switch x := fav.(type) {
	case *ssa.FieldAddr:
		v = x.X
	case *ssa.Field:
		v = x.X
	default:
		return false
	}
	for i := 0; i < 16; i++ {
		switch x := v.(type) {
		case *ssa.Alloc:
			return true
		case *ssa.FieldAddr:
			v = x.X
		case *ssa.UnOp:
			v = x.X
		case *ssa.Extract:
			v = x.Tuple
		case *ssa.Call:
			callee := x.Call.StaticCallee()
			if callee == nil || callee.Package() == nil || f.Package() == nil || callee.Package() != f.Package() {
				return false
			}
			// constructor: no parameter of the result's pointer type
			var want types.Type
			if pt, ok := fav.(*ssa.FieldAddr); ok {
				want = pt.X.Type()
			}
			for _, p := range callee.Params {
				if want != nil && types.Identical(p.Type(), want) {
					return false
				}
			}
			return true
		default:
			return false
		}
	}
	return false
}
