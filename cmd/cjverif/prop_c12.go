package main

import (
	"fmt"
	"go/token"
	"regexp"
	"sort"
	"strings"

	"golang.org/x/tools/go/ssa"
)

func init() {
	register("C12", &propCheck{Run: checkC12,
		Explain: "C12.1 both registrar entry points reach processing only with RegistrationResponse==nil (store nil or nil-test edge on every path); " +
			"C12.2 the forwarded wrapper is a fresh object, RegRespBytes/RegRespSignature are stored only from Marshal/Sign results under `authenticated`, and no code in the registrar reads those fields from the input; the forwarded response is the input wrapper's current response; " +
			"C12.3 must-alias analysis (forward, must-equal sets with phi rule): at every nil-error return of processBdReq the returned pointer is the current content of c2sPayload.RegistrationResponse; RegisterBidirectional returns that pointer and does not re-assign the cell before forwarding; " +
			"C12.4 Override and the station-side parameter override run only under !DisableRegistrarOverrides; " +
			"C12.5 the station takes PhantomPort from rr.DstPort, the IPv4 override only for the v4 registration and the IPv6 override only for the v6 one; " +
			"C12.6 each weighted override-subnet loop leaves the loop on its first match; " +
			"C12.7 every address override is preceded by the exclusion loop and an excluded phantom returns without override. " +
			"Decides object identity and gating structurally; not wire equality after protobuf or the arithmetic of random addresses.",
		Assume: []string{"an Override implementation may replace c2sPayload.RegistrationResponse (modelled as havoc of the cell)", "generated protobuf getters are pure"}})
}

// mustEqCell: forward must-analysis of "SSA values known to equal the current content of a heap cell".
func mustEqCell(fn *ssa.Function, cellStore func(ssa.Instruction) (ssa.Value, bool), cellRead func(ssa.Instruction) (ssa.Value, bool), havoc func(ssa.Instruction) bool) map[ssa.Instruction]map[ssa.Value]bool {
	n := len(fn.Blocks)
	in := make([]map[ssa.Value]bool, n)
	out := make([]map[ssa.Value]bool, n)
	visited := make([]bool, n)
	clone := func(m map[ssa.Value]bool) map[ssa.Value]bool {
		o := map[ssa.Value]bool{}
		for k := range m {
			o[k] = true
		}
		return o
	}
	transfer := func(b *ssa.BasicBlock, s map[ssa.Value]bool, rec map[ssa.Instruction]map[ssa.Value]bool) map[ssa.Value]bool {
		s = clone(s)
		for _, ins := range b.Instrs {
			if rec != nil {
				rec[ins] = clone(s)
			}
			if v, ok := cellStore(ins); ok {
				s = map[ssa.Value]bool{v: true}
				continue
			}
			if havoc(ins) {
				s = map[ssa.Value]bool{}
				continue
			}
			if v, ok := cellRead(ins); ok {
				s[v] = true
			}
		}
		return s
	}
	in[0] = map[ssa.Value]bool{}
	visited[0] = true
	work := []int{0}
	for iter := 0; len(work) > 0 && iter < 10000; iter++ {
		bi := work[0]
		work = work[1:]
		b := fn.Blocks[bi]
		o := transfer(b, in[bi], nil)
		out[bi] = o
		for _, s := range b.Succs {
			// recompute in[s] = ∩ over visited preds of out[pred], with phi rule
			var ns map[ssa.Value]bool
			for _, p := range s.Preds {
				if out[p.Index] == nil {
					continue
				}
				if ns == nil {
					ns = clone(out[p.Index])
				} else {
					for k := range ns {
						if !out[p.Index][k] {
							delete(ns, k)
						}
					}
				}
			}
			if ns == nil {
				ns = map[ssa.Value]bool{}
			}
			for _, ins := range s.Instrs {
				ph, ok := ins.(*ssa.Phi)
				if !ok {
					break
				}
				all := true
				for i, p := range s.Preds {
					if out[p.Index] == nil {
						continue
					}
					e := ph.Edges[i]
					if !(out[p.Index][e] || e == ssa.Value(ph) && ns[ph]) {
						// self edge through a loop: accept if phi already in the pred's out
						if !out[p.Index][ph] {
							all = false
						}
					}
				}
				if all {
					ns[ph] = true
				}
			}
			changed := !visited[s.Index] || len(ns) != len(in[s.Index])
			if !changed {
				for k := range ns {
					if !in[s.Index][k] {
						changed = true
					}
				}
			}
			if changed {
				// monotone: sets may only shrink after the first visit
				if visited[s.Index] {
					for k := range ns {
						if !in[s.Index][k] {
							delete(ns, k)
						}
					}
					if len(ns) == len(in[s.Index]) {
						continue
					}
				}
				in[s.Index] = ns
				visited[s.Index] = true
				work = append(work, s.Index)
			}
		}
	}
	rec := map[ssa.Instruction]map[ssa.Value]bool{}
	for _, b := range fn.Blocks {
		if visited[b.Index] {
			transfer(b, in[b.Index], rec)
		}
	}
	return rec
}

func checkC12(c *Ctx) {
	r := c.R
	const rp = "pkg/regserver/regprocessor"

	// ---- C12.1
	r.Rule("C12.1", "client-supplied RegistrationResponse is cleared before processing (both entry points)", 2)
	for _, name := range []string{"RegisterUnidirectional", "RegisterBidirectional"} {
		f := c.fn("C12.1", rp, "RegProcessor", name)
		if f == nil {
			continue
		}
		base := pname(f.Params[1])
		isClear := func(in ssa.Instruction) bool {
			st, ok := in.(*ssa.Store)
			if !ok || !isRespField(st.Addr, base) {
				return false
			}
			cst, ok := st.Val.(*ssa.Const)
			return ok && cst.Value == nil
		}
		nilEdges := edgesEstablishing(f, func(cnd string, pol bool) bool {
			return pol && (cnd == "("+orderEq(base+".GetRegistrationResponse()", "nil")+")" || cnd == "("+orderEq(base+".RegistrationResponse", "nil")+")")
		})
		fwd := c12Forwarders(c)
		for _, call := range callsIn(f, func(n string, cc *ssa.CallCommon) bool {
			if shortIs("processBdReq", "processC2SWrapper")(n, cc) {
				return true
			}
			_, isFwd := fwd[cc.StaticCallee()]
			return isFwd
		}) {
			esc, w := reach(f, nil, isInstr(call.(ssa.Instruction)), isClear, nilEdges)
			if esc {
				r.Bad("C12.1", name+": "+calleeShort(call.Common())+" reachable with a client-supplied RegistrationResponse", call.Pos(), fnName(f),
					"a path reaches processing without clearing (or testing nil) the RegistrationResponse the client put in the wrapper: client-chosen phantom/port/params would be forwarded to the stations", r.blockPath(f, w)...)
			} else {
				r.OK("C12.1", name+": response cleared before "+calleeShort(call.Common()), call.Pos(), "every path passes the nil store or the nil-test edge")
			}
		}
	}

	// ---- C12.2
	r.Rule("C12.2", "forwarded wrapper is fresh; signature fields only from Marshal/Sign under `authenticated`; input signature fields never read", 5)
	if f := c.fn("C12.2", rp, "RegProcessor", "processC2SWrapper"); f != nil {
		in0 := pname(f.Params[1])
		// a build phase the function delegates to: `return p.helper(wrapper, …)` - the same rule is read there, with
		// the wrapper under the helper's own parameter name
		for hops := 0; hops < 2; hops++ {
			hasMarshal := len(callsIn(f, nameIs("google.golang.org/protobuf/proto.Marshal"))) > 0
			if hasMarshal {
				break
			}
			var deleg *ssa.Call
			eachInstr(f, func(in ssa.Instruction) {
				ret, ok := in.(*ssa.Return)
				if !ok || len(ret.Results) != 2 {
					return
				}
				if ex, ok := returnedValue(ret, 0, nil).(*ssa.Extract); ok {
					if call, ok := ex.Tuple.(*ssa.Call); ok && helperCallee(f, &call.Call) != nil {
						deleg = call
					}
				}
			})
			if deleg == nil {
				break
			}
			h := helperCallee(f, &deleg.Call)
			idx := -1
			for i, a := range deleg.Call.Args {
				if pathOf(a) == in0 {
					idx = i
				}
			}
			if idx < 0 || idx >= len(h.Params) {
				break
			}
			f, in0 = h, pname(h.Params[idx])
		}
		// the marshalled (returned) object
		var final *ssa.Call
		objArg := 0
		for _, call := range callsIn(f, nameIs("google.golang.org/protobuf/proto.Marshal", "(google.golang.org/protobuf/proto.MarshalOptions).Marshal", "(google.golang.org/protobuf/proto.MarshalOptions).MarshalAppend")) {
			if cc, ok := call.(*ssa.Call); ok {
				switch {
				case strings.HasSuffix(calleeName(&cc.Call), ").Marshal"):
					objArg = 1
				case strings.HasSuffix(calleeName(&cc.Call), ").MarshalAppend"):
					objArg = 2
					// the destination must be nil or storage of this call: a buffer kept on the processor is shared by
					// concurrent requests and rewritten before the socket has copied the previous frame
					dst := cc.Call.Args[1]
					okDst := false
					if k, isC := dst.(*ssa.Const); isC && k.Value == nil {
						okDst = true
					}
					if !okDst && !inputDerived(dst, 0, map[ssa.Value]bool{}) && !resliceOfInput(dst, 0, map[ssa.Value]bool{}) {
						okDst = true
					}
					r.Check(okDst, "C12.2", "processC2SWrapper: the forwarded bytes are storage of this request", cc.Pos(), fnName(f), "MarshalAppend onto nil / a local buffer",
						"the forwarded wrapper is marshalled into "+firstN(pathOf(dst), 50)+", a buffer that outlives the request: a concurrent registration rewrites it before the publisher has sent it, and the stations receive another client's registration in this one's place")
				}
				for _, ret := range *cc.Referrers() {
					if _, ok := ret.(*ssa.Return); ok {
						final = cc
					}
					if ex, ok := ret.(*ssa.Extract); ok && ex.Index == 0 && ex.Referrers() != nil {
						for _, r2 := range *ex.Referrers() {
							if _, ok := r2.(*ssa.Return); ok {
								final = cc
							}
						}
					}
				}
			}
		}
		if final == nil {
			r.Unk("C12.2", "processC2SWrapper: returned proto.Marshal", f.Pos(), fnName(f), "no `return proto.Marshal(x)` found")
		} else {
			obj := stripConv(final.Call.Args[objArg])
			_, fresh := obj.(*ssa.Alloc)
			r.Check(fresh, "C12.2", "processC2SWrapper: forwarded message is a freshly allocated wrapper", final.Pos(), fnName(f), pathOf(obj),
				"the message forwarded to the stations is not a fresh object (it is "+pathOf(obj)+"): client-supplied fields such as RegRespBytes/RegRespSignature are forwarded verbatim")
			objPath := pathOf(obj)
			eachInstr(f, func(in ssa.Instruction) {
				st, ok := in.(*ssa.Store)
				if !ok {
					return
				}
				o, fld, ok := fieldOwner(st.Addr)
				if !ok || o != "proto.C2SWrapper" || pathOf(st.Addr.(*ssa.FieldAddr).X) != objPath {
					return
				}
				src := pathOf(st.Val)
				switch fld {
				case "RegRespBytes", "RegRespSignature":
					okSrc := false
					if fld == "RegRespBytes" {
						okSrc = strings.HasPrefix(src, "proto.Marshal("+in0+".GetRegistrationResponse())#0")
					} else {
						okSrc = strings.HasPrefix(src, "ed25519.Sign(p.privkey, proto.Marshal("+in0+".GetRegistrationResponse())#0)")
					}
					g := guarded(f, st, Atom{"p.authenticated", true})
					r.Check(okSrc && g, "C12.2", "processC2SWrapper: "+fld+" <- registrar's own Marshal/Sign under p.authenticated", st.Pos(), fnName(f), firstN(src, 100),
						fld+" of the forwarded message is stored from "+firstN(src, 80)+" (must be the registrar's Marshal/Sign of the current response, under p.authenticated): a client could supply its own signed response")
				case "RegistrationResponse":
					r.Check(src == in0+".GetRegistrationResponse()" || src == in0+".RegistrationResponse", "C12.2", "processC2SWrapper: forwarded RegistrationResponse is the wrapper's current response", st.Pos(), fnName(f), src,
						"the response attached to the forwarded message is "+firstN(src, 80)+", not the object processBdReq attached to the wrapper: client and stations get different responses")
				case "RegistrationPayload", "SharedSecret":
					r.Check(strings.HasPrefix(src, in0+"."), "C12.2", "processC2SWrapper: "+fld+" copied from the input wrapper", st.Pos(), fnName(f), src, fld+" is not copied from the processed wrapper")
				}
			})
		}
	}
	nRead := 0
	for _, f := range c.funcsOfPkgs(rp, "pkg/regserver/apiregserver", "pkg/regserver/dnsregserver") {
		eachInstr(f, func(in ssa.Instruction) {
			bad := ""
			switch x := in.(type) {
			case *ssa.Call:
				if n := calleeShort(&x.Call); n == "GetRegRespBytes" || n == "GetRegRespSignature" {
					bad = n + "()"
				}
			case *ssa.UnOp:
				if x.Op == token.MUL {
					if o, fld, ok := fieldOwner(x.X); ok && o == "proto.C2SWrapper" && (fld == "RegRespBytes" || fld == "RegRespSignature") {
						bad = "." + fld
					}
				}
			}
			if bad != "" {
				nRead++
				r.Bad("C12.2", fnName(f)+": reads "+bad+" of a wrapper", in.Pos(), fnName(f), "the registrar reads a signature field from a wrapper: client-supplied signature material can flow into the forwarded message")
			}
		})
	}
	if nRead == 0 {
		r.OK("C12.2", "registrar packages never read RegRespBytes/RegRespSignature", token.NoPos, "who-may-read over regprocessor, apiregserver, dnsregserver")
	}

	// ---- C12.3 one object
	r.Rule("C12.3", "the response returned to the client is the object attached to the forwarded wrapper", 3)
	if f := c.fn("C12.3", rp, "RegProcessor", "processBdReq"); f != nil {
		base := pname(f.Params[1])
		cellStore := func(in ssa.Instruction) (ssa.Value, bool) {
			if st, ok := in.(*ssa.Store); ok && isRespField(st.Addr, base) {
				return stripConv(st.Val), true
			}
			return nil, false
		}
		cellRead := func(in ssa.Instruction) (ssa.Value, bool) {
			switch x := in.(type) {
			case *ssa.Call:
				if calleeShort(&x.Call) == "GetRegistrationResponse" && len(x.Call.Args) == 1 && pathOf(x.Call.Args[0]) == base {
					return x, true
				}
			case *ssa.UnOp:
				if x.Op == token.MUL && isRespField(x.X, base) {
					return x, true
				}
			}
			return nil, false
		}
		havoc := func(in ssa.Instruction) bool {
			call, ok := in.(*ssa.Call)
			if !ok {
				return false
			}
			if _, ok := cellRead(in); ok {
				return false
			}
			n := calleeShort(&call.Call)
			if strings.HasPrefix(n, "Get") {
				return false
			}
			for _, a := range call.Call.Args {
				if pathOf(a) == base {
					return true
				}
			}
			return false
		}
		eq := mustEqCell(f, cellStore, cellRead, havoc)
		nRet := 0
		eachInstr(f, func(in ssa.Instruction) {
			ret, ok := in.(*ssa.Return)
			if !ok || len(ret.Results) != 2 {
				return
			}
			if cst, ok := ret.Results[1].(*ssa.Const); !ok || cst.Value != nil {
				return // error return
			}
			nRet++
			v := stripConv(ret.Results[0])
			if eq[in][v] {
				r.OK("C12.3", fmt.Sprintf("processBdReq: nil-error return #%d returns the attached response", nRet), in.Pos(), "returned value "+firstN(pathOf(v), 80)+" is in the must-equal set of c2sPayload.RegistrationResponse")
			} else {
				var have []string
				for k := range eq[in] {
					have = append(have, firstN(pathOf(k), 60))
				}
				sortStrings(have)
				r.Bad("C12.3", fmt.Sprintf("processBdReq: a successful return hands back an object that is not the one attached to the wrapper (%s)", firstN(pathOf(v), 60)), in.Pos(), fnName(f),
					"the client receives "+firstN(pathOf(v), 80)+" while the forwarded wrapper carries a different RegistrationResponse object (must-equal set: "+strings.Join(have, ", ")+"): client and stations can disagree on phantom, port or parameters")
			}
		})
		if nRet == 0 {
			r.Unk("C12.3", "processBdReq: nil-error returns", f.Pos(), fnName(f), "no successful return found")
		}
	}
	if f := c.fn("C12.3", rp, "RegProcessor", "RegisterBidirectional"); f != nil {
		var bd, fw *ssa.Call
		fwArg := 1
		fwd := c12Forwarders(c)
		eachInstr(f, func(in ssa.Instruction) {
			if call, ok := in.(*ssa.Call); ok {
				switch calleeShort(&call.Call) {
				case "processBdReq":
					bd = call
				case "processC2SWrapper":
					fw = call
				default:
					if k, isFwd := fwd[call.Call.StaticCallee()]; isFwd {
						fw, fwArg = call, k
					}
				}
			}
		})
		if bd == nil || fw == nil {
			r.Unk("C12.3", "RegisterBidirectional: processBdReq then processC2SWrapper", f.Pos(), fnName(f), "calls not found")
		} else {
			okArgs := pathOf(bd.Call.Args[1]) == pathOf(fw.Call.Args[fwArg])
			order, _ := reach(f, bd, isInstr(fw), nil, nil)
			restore := false
			eachInstr(f, func(in ssa.Instruction) {
				if st, ok := in.(*ssa.Store); ok && isRespField(st.Addr, "") {
					if ok, _ := reach(f, bd, isInstr(in), nil, nil); ok {
						restore = true
					}
				}
			})
			r.Check(okArgs && order && !restore, "C12.3", "RegisterBidirectional: the wrapper processed is the wrapper forwarded, response cell untouched in between", fw.Pos(), fnName(f), "same argument, ordered, no store",
				"the wrapper forwarded to the stations is not the one processBdReq attached the response to (or the response cell is re-assigned after it)")
			eachInstr(f, func(in ssa.Instruction) {
				ret, ok := in.(*ssa.Return)
				if !ok || len(ret.Results) != 2 {
					return
				}
				if cst, ok := ret.Results[1].(*ssa.Const); !ok || cst.Value != nil {
					return
				}
				ex, _ := stripConv(ret.Results[0]).(*ssa.Extract)
				r.Check(ex != nil && ex.Tuple == ssa.Value(bd) && ex.Index == 0, "C12.3", "RegisterBidirectional: returns processBdReq's response", in.Pos(), fnName(f), pathOf(ret.Results[0]),
					"the response handed to the client is not the one processBdReq produced and attached")
			})
		}
	}

	// ---- C12.4 gates
	r.Rule("C12.4", "overrides of transport parameters only when the client has not disabled them (registrar and station)", 3)
	if f := c.fn("C12.4", rp, "RegProcessor", "processBdReq"); f != nil {
		isGate := func(cnd string, pol bool) bool {
			return !pol && strings.HasSuffix(cnd, ".GetDisableRegistrarOverrides()")
		}
		n := 0
		eachInstr(f, func(in ssa.Instruction) {
			call, ok := in.(*ssa.Call)
			if !ok {
				return
			}
			name := calleeShort(&call.Call)
			if name == "Override" || name == "overridePrefix" {
				n++
				r.Check(guardedM(f, in, isGate), "C12.4", "processBdReq: "+name+" only under !GetDisableRegistrarOverrides()", in.Pos(), fnName(f), "dominated by the false edge of the client's flag",
					name+" can run although the client set disable_registrar_overrides: the client keeps using its own parameters while stations expect the overridden ones")
			}
		})
		if n < 2 {
			r.Unk("C12.4", "processBdReq: Override/overridePrefix call sites", f.Pos(), fnName(f), fmt.Sprintf("found %d of 2 expected override call sites", n))
		}
	}
	if f := c.fn("C12.4", "pkg/station/lib", "RegistrationManager", "NewRegistrationC2SWrapper"); f != nil {
		n := 0
		eachInstr(f, func(in ssa.Instruction) {
			st, ok := in.(*ssa.Store)
			if !ok {
				return
			}
			if o, fld, ok := fieldOwner(st.Addr); ok && o == "proto.ClientToStation" && fld == "TransportParams" {
				n++
				g := guardedM(f, in, func(cnd string, pol bool) bool {
					return !pol && strings.HasSuffix(cnd, ".GetDisableRegistrarOverrides()")
				})
				src := pathOf(st.Val)
				r.Check(g && strings.Contains(src, "GetRegistrationResponse().GetTransportParams()"), "C12.4", "station: TransportParams <- response params only under !GetDisableRegistrarOverrides()", in.Pos(), fnName(f), src,
					"the station applies the registrar's parameter override without checking the client's disable flag (or from another source): station and client disagree on the transport parameters")
				// ... and whenever the response carries parameters and the client allows overrides: no other condition
				// (the address family being built, the source, the transport) may decide whether they are applied
				var extra []string
				always := reachGame(f, in, func(bl *ssa.BasicBlock) int {
					iff, ok := bl.Instrs[len(bl.Instrs)-1].(*ssa.If)
					if !ok {
						return gameAny
					}
					cnd, _ := normCond(iff.Cond)
					if strings.Contains(cnd, "GetRegistrationResponse()") || strings.Contains(cnd, "GetDisableRegistrarOverrides()") || (strings.Contains(cnd, "nil") && strings.Contains(cnd, ")#1")) {
						return gameAny
					}
					if hit, _ := reachAt(f, bl, isInstr(in), nil, nil); !hit {
						return gameAny
					}
					extra = append(extra, cnd)
					return gameAll
				})
				r.Check(always, "C12.4", "station: response params applied whenever present and allowed", in.Pos(), fnName(f), "reached whatever any condition says other than the presence of the response / its parameters, the client's flag and error returns",
					"whether the station applies the registrar's parameter override also depends on "+firstN(strings.Join(uniq(sortedCopy(extra)), ", "), 100)+": for some registrations built from the forwarded message the station keeps the client's own parameters while the client was told the registrar's")
			}
		})
		if n == 0 {
			r.Bad("C12.4", "station: response transport parameters are never applied", f.Pos(), fnName(f), "the station ignores the registrar's parameter override: it waits for the wrong prefix/port")
		}
	}

	// ---- C12.12 "a station ingesting that message ends up with that same phantom": once the station has taken the address
	// out of the response it is not dropped again - the value stored into PhantomIp never becomes nil on a path that has
	// already passed the point where the override was read (a local plausibility test that resets it makes station and
	// client disagree about the phantom)
	r.Rule("C12.12", "the phantom taken from the response is not discarded again before it is stored", 1)
	if f := c.fn("C12.12", "pkg/station/lib", "RegistrationManager", "NewRegistrationC2SWrapper"); f != nil {
		n := 0
		for _, st := range fieldStores(f, "lib.DecoyRegistration", "PhantomIp") {
			n++
			// blocks in which an override value is computed: the non-nil, non-phi leaves of the stored value
			var leaves []ssa.Value
			type nilEdge struct{ pred *ssa.BasicBlock }
			var nils []nilEdge
			seenV := map[ssa.Value]bool{}
			var walk func(v ssa.Value)
			walk = func(v ssa.Value) {
				if seenV[v] {
					return
				}
				seenV[v] = true
				if ph, ok := v.(*ssa.Phi); ok {
					for i, e := range ph.Edges {
						if cst, isC := e.(*ssa.Const); isC && cst.Value == nil {
							if i < len(ph.Block().Preds) {
								nils = append(nils, nilEdge{ph.Block().Preds[i]})
							}
							continue
						}
						walk(e)
					}
					return
				}
				leaves = append(leaves, v)
			}
			walk(st.Val)
			bad := false
			for _, ne := range nils {
				for _, lf := range leaves {
					in, ok := lf.(ssa.Instruction)
					if !ok || in.Block() == nil {
						continue
					}
					if in.Block() == ne.pred {
						bad = true
					}
					if hit, _ := reachAt(f, in.Block(), func(x ssa.Instruction) bool { return x.Block() == ne.pred }, nil, nil); hit && in.Block() != ne.pred {
						bad = true
					}
				}
			}
			r.Check(!bad && len(leaves) > 0, "C12.12", "NewRegistrationC2SWrapper: the response's address reaches PhantomIp once it was read", st.Pos(), fnName(f), fmt.Sprintf("%d source(s); no nil arrives from a block behind them", len(leaves)),
				"after the phantom address was taken from the registration response it can be reset to 'none' (a local test on the station decides): the client was told the registrar's phantom, the forwarded message carries it, and the station registers the address it derived itself")
		}
		if n == 0 {
			r.Unk("C12.12", "NewRegistrationC2SWrapper: store to PhantomIp", f.Pos(), fnName(f), "not found")
		}
	}

	// ---- C12.11 what the client was told travels to the stations in the field they read: the forwarded wrapper carries the
	// response itself (RegistrationResponse), whether or not the signed serialisation is attached as well - only nil tests
	// and error returns may decide whether the field is filled
	r.Rule("C12.11", "the forwarded wrapper always carries the registration response in the field the stations read", 1)
	if f := c.fn("C12.11", rp, "RegProcessor", "processC2SWrapper"); f != nil {
		n := 0
		eachInstr(f, func(in ssa.Instruction) {
			st, ok := in.(*ssa.Store)
			if !ok {
				return
			}
			if o, fld, ok := fieldOwner(st.Addr); !ok || o != "proto.C2SWrapper" || fld != "RegistrationResponse" {
				return
			}
			if cst, isC := st.Val.(*ssa.Const); isC && cst.Value == nil {
				return
			}
			n++
			var extra []string
			always := reachGame(f, in, func(bl *ssa.BasicBlock) int {
				iff, ok := bl.Instrs[len(bl.Instrs)-1].(*ssa.If)
				if !ok {
					return gameAny
				}
				cnd, _ := normCond(iff.Cond)
				if strings.Contains(cnd, "nil") {
					return gameAny
				}
				if hit, _ := reachAt(f, bl, isInstr(in), nil, nil); !hit {
					return gameAny
				}
				// a test whose other side only leads to error returns refuses the request; it does not drop the field
				for _, sc := range bl.Succs {
					if hit, _ := reachAt(f, sc, isInstr(in), nil, nil); hit {
						continue
					}
					okRet, _ := reachAt(f, sc, func(x ssa.Instruction) bool {
						ret, ok := x.(*ssa.Return)
						if !ok || len(ret.Results) == 0 {
							return ok
						}
						// a return that hands back a message (first result not the constant nil) is not a refusal
						cst, isC := returnedValue(ret, 0, nil).(*ssa.Const)
						return !(isC && cst.Value == nil)
					}, nil, nil)
					if !okRet {
						return gameAny
					}
				}
				extra = append(extra, cnd)
				return gameAll
			})
			r.Check(always, "C12.11", "processC2SWrapper: RegistrationResponse is attached whatever the authentication mode", in.Pos(), fnName(f), "reached whatever any condition other than nil tests says",
				"whether the forwarded message carries the response in its RegistrationResponse field depends on "+firstN(strings.Join(uniq(sortedCopy(extra)), ", "), 80)+": in that configuration the stations, which read that field, never see the phantom, port and parameters the client was told")
		})
		if n == 0 {
			// the store moved into a helper of the package (the function was split into phases): it is attached there
			found := findInstrDeep(f, func(l located) bool {
				st, ok := l.call.(*ssa.Store)
				if !ok || len(l.chain) == 0 {
					return false
				}
				o, fld, ok := fieldOwner(st.Addr)
				if !ok || o != "proto.C2SWrapper" || fld != "RegistrationResponse" {
					return false
				}
				cst, isC := st.Val.(*ssa.Const)
				return !(isC && cst.Value == nil)
			}, 2)
			if len(found) > 0 {
				okAll := true
				for _, l := range found {
					if !unconditionalButRefusals(l.in, l.call) {
						okAll = false
					}
				}
				r.Check(okAll, "C12.11", "processC2SWrapper: RegistrationResponse is attached whatever the authentication mode", found[0].call.Pos(), fnName(found[0].in), "in a helper of the package, reached whatever any condition other than nil tests says",
					"whether the forwarded message carries the response in its RegistrationResponse field depends on a condition of "+fnName(found[0].in))
			} else {
				r.Unk("C12.11", "processC2SWrapper: store of RegistrationResponse", f.Pos(), fnName(f), "not found")
			}
		}
	}

	// ---- C12.5 station applies response
	r.Rule("C12.5", "station applies the response's port and the address of the registration's own family", 3)
	if f := c.fn("C12.5", "pkg/station/lib", "RegistrationManager", "NewRegistrationC2SWrapper"); f != nil {
		okPort := false
		for _, st := range fieldStores(f, "lib.DecoyRegistration", "PhantomPort") {
			var dep bool
			eachInstr(f, func(in ssa.Instruction) {
				if call, ok := in.(*ssa.Call); ok && calleeShort(&call.Call) == "GetDstPort" && strings.Contains(pathOf(call), "GetRegistrationResponse()") {
					if dependsOn(st.Val, call) {
						dep = true
					}
				}
			})
			if dep {
				okPort = true
			}
		}
		r.Check(okPort, "C12.5", "station: PhantomPort <- rr.GetDstPort()", f.Pos(), fnName(f), "store depends on the response's DstPort", "the station does not take the destination port from the registration response: it listens for the client on a different port than the registrar told the client")
		n4, n6 := 0, 0
		eachInstr(f, func(in ssa.Instruction) {
			u, ok := in.(*ssa.UnOp)
			if !ok || u.Op != token.MUL {
				return
			}
			o, fld, ok := fieldOwner(u.X)
			if !ok || o != "proto.RegistrationResponse" {
				return
			}
			switch fld {
			case "Ipv4Addr":
				n4++
				r.Check(guarded(f, in, Atom{"includeV6", false}), "C12.5", "station: rr.Ipv4Addr read only for the IPv4 registration", in.Pos(), fnName(f), "guarded by !includeV6",
					"the response's IPv4 address can be applied to the IPv6 registration of a dual-stack client")
			case "Ipv6Addr":
				n6++
				r.Check(guarded(f, in, Atom{"includeV6", true}), "C12.5", "station: rr.Ipv6Addr read only for the IPv6 registration", in.Pos(), fnName(f), "guarded by includeV6",
					"the response's IPv6 address can be applied to the IPv4 registration of a dual-stack client")
			}
		})
		// the response is applied whenever it is present: the only conditions on the way to its fields are tests of
		// the response itself, the family flag and (for transport parameters) the client's opt-out
		resp := P(f, 1) + ".GetRegistrationResponse()"
		var points []ssa.Instruction
		label := map[ssa.Instruction]string{}
		eachInstr(f, func(in ssa.Instruction) {
			switch x := in.(type) {
			case *ssa.Call:
				if calleeShort(&x.Call) == "GetDstPort" && strings.HasPrefix(pathOf(x), resp) {
					points = append(points, in)
					label[in] = "the response's DstPort"
				}
			case *ssa.UnOp:
				if o, fld, ok := fieldOwner(x.X); ok && x.Op == token.MUL && o == "proto.RegistrationResponse" && (fld == "Ipv4Addr" || fld == "Ipv6Addr") {
					points = append(points, in)
					label[in] = "the response's " + fld
				}
			case *ssa.Store:
				if o, fld, ok := fieldOwner(x.Addr); ok && o == "proto.ClientToStation" && fld == "TransportParams" {
					points = append(points, in)
					label[in] = "the response's TransportParams"
				}
			}
		})
		isAllowed := func(cnd string) bool {
			return strings.Contains(cnd, resp) || cnd == P(f, 2) || strings.Contains(cnd, "core.GenSharedKeys(") || strings.Contains(cnd, "GetDisableRegistrarOverrides()")
		}
		for _, pt := range points {
			var extra []string
			okk := reachAgainst(f, pt, func(b *ssa.BasicBlock) bool {
				iff, ok := b.Instrs[len(b.Instrs)-1].(*ssa.If)
				if !ok {
					return false
				}
				cnd, _ := normCond(iff.Cond)
				if isAllowed(cnd) {
					return false
				}
				// only conditions that can actually keep the point from being reached matter
				if hit, _ := reachAt(f, b, isInstr(pt), nil, nil); !hit {
					return false
				}
				extra = append(extra, cnd)
				return true
			})
			r.Check(okk, "C12.5", "station: "+label[pt]+" applied whenever the response carries it", pt.Pos(), fnName(f), "reachable whatever the outcome of every condition other than tests of the response, the family flag and the client's opt-out",
				"the registration response forwarded by the registrar is applied only if an additional condition goes the right way (candidates: "+firstN(strings.Join(uniq(sortedCopy(extra)), ", "), 140)+"): otherwise the station ignores what the registrar told the client and derives its own phantom / port / parameters")
		}
		if n4 == 0 || n6 == 0 {
			r.Bad("C12.5", fmt.Sprintf("station: response addresses not applied (v4 reads %d, v6 reads %d)", n4, n6), f.Pos(), fnName(f), "the station ignores the phantom address chosen by the registrar: it expects the client on a different phantom")
		}
		nIP := 0
		for _, st := range fieldStores(f, "lib.DecoyRegistration", "PhantomIp") {
			nIP++
			_ = st
		}
		r.Check(nIP >= 1, "C12.5", "station: PhantomIp overridden from the response", f.Pos(), fnName(f), fmt.Sprintf("%d store(s)", nIP), "no store applies the override address to the registration")
	}

	// ---- C12.6 first match
	r.Rule("C12.6", "weighted override-subnet loops stop at the first matching cumulative weight and use a draw independent of the percentage gate", 4)
	// the cumulative weights are index-aligned with the subnet list they were computed from (the selection loops use
	// the position in one to pick from the other): one entry per subnet, entry i written for subnet i
	if f := c.P.Func(repoMod+"/"+rp, "", "processOverrideSubnetsWeights"); f != nil && f.Blocks != nil && len(f.Params) == 1 {
		okAlign := true
		why := ""
		nRet := 0
		eachInstr(f, func(in ssa.Instruction) {
			ret, ok := in.(*ssa.Return)
			if !ok || len(ret.Results) != 1 {
				return
			}
			rv := returnedValue(ret, 0, nil)
			if cst, isC := rv.(*ssa.Const); isC && cst.Value == nil {
				return
			}
			nRet++
			ms, isMake := stripConv(rv).(*ssa.MakeSlice)
			if !isMake || pathOf(ms.Len) != "len("+P(f, 0)+")" {
				okAlign = false
				why = "the returned slice is " + firstN(pathOf(rv), 60) + ", not make([]float64, len(subnets))"
				return
			}
			// written by indexed stores only (no append), each at the range index of the subnet list
			if ms.Referrers() != nil {
				for _, ref := range *ms.Referrers() {
					switch x := ref.(type) {
					case *ssa.IndexAddr:
						if !strings.Contains(pathOf(x.Index), "rangeindex") {
							// reads of cw[i-1] are fine; stores must use the loop index
							if x.Referrers() != nil {
								for _, r2 := range *x.Referrers() {
									if _, isSt := r2.(*ssa.Store); isSt {
										okAlign = false
										why = "an entry is stored at " + firstN(pathOf(x.Index), 40) + ", not at the subnet's own index"
									}
								}
							}
						}
					case *ssa.Call:
						if b, isB := x.Call.Value.(*ssa.Builtin); isB && b.Name() == "append" {
							okAlign = false
							why = "entries are appended"
						}
					}
				}
			}
		})
		r.Check(okAlign && nRet > 0, "C12.6", "processOverrideSubnetsWeights: one cumulative weight per subnet, at the subnet's index", f.Pos(), fnName(f), "make([]float64, len(subnets)); cw[i] written in the loop over subnets",
			"the cumulative weights are no longer aligned with the subnet list ("+why+"): the selection loops use a position in the weights to index the subnets, so a different subnet than the one whose weight matched is used - disabled (zero-weight) subnets are chosen and active ones never are")
	}
	if f := c.fn("C12.6", rp, "RegProcessor", "processBdReq"); f != nil {
		n := 0
		// the loops are in processBdReq itself, or in a helper of the package that is handed the cumulative weights
		// (read in the caller's names; a draw that is a parameter of the helper is the caller's argument)
		type loopHost struct {
			g    *ssa.Function
			call *ssa.CallCommon
		}
		hosts := []loopHost{{f, nil}}
		eachInstr(f, func(in ssa.Instruction) {
			if ci, ok := in.(ssa.CallInstruction); ok {
				if hf := helperCallee(f, ci.Common()); hf != nil {
					for _, a := range ci.Common().Args {
						if strings.Contains(pathOf(a), "CumulativeWeights") {
							hosts = append(hosts, loopHost{hf, ci.Common()})
							break
						}
					}
				}
			}
		})
		for _, host := range hosts {
			g := host.g
			for _, b := range g.Blocks {
				if len(b.Instrs) == 0 {
					continue
				}
				iff, ok := b.Instrs[len(b.Instrs)-1].(*ssa.If)
				if !ok {
					continue
				}
				cnd, pol := normCond(iff.Cond)
				if host.call != nil {
					cnd = substParams(cnd, g, host.call)
				}
				if !strings.Contains(cnd, "CumulativeWeights[") || !strings.Contains(cnd, " < ") {
					continue
				}
				i := strings.Index(cnd, " < ")
				if !strings.Contains(cnd[i:], "CumulativeWeights[") {
					continue // the weight must be on the right: draw < weight
				}
				n++
				// the element load block = loop body start; matched edge:
				slot := 0
				if !pol {
					slot = 1
				}
				matched := b.Succs[slot]
				// loop header: the block that dominates b and has a back edge from within; find via the IndexAddr's index phi
				var header *ssa.BasicBlock
				for _, in := range b.Instrs {
					iaPath := ""
					if ia, ok := in.(*ssa.IndexAddr); ok {
						iaPath = pathOf(ia.X)
						if host.call != nil {
							iaPath = substParams(iaPath, g, host.call)
						}
					}
					if ia, ok := in.(*ssa.IndexAddr); ok && strings.Contains(iaPath, "CumulativeWeights") {
						if bo, ok := ia.Index.(*ssa.BinOp); ok {
							if ph, ok := bo.X.(*ssa.Phi); ok {
								header = ph.Block()
							}
						}
						if ph, ok := ia.Index.(*ssa.Phi); ok {
							header = ph.Block()
						}
					}
				}
				which := cnd[i+3:]
				which = which[:strings.Index(which, "[")]
				// C12.6b: the draw compared with the cumulative weights is a random value independent of the
				// draw that gates the override percentage (a shared draw is confined to [0, prcnt) inside the
				// override branch, so subnets above that cut are never chosen).
				if bo, ok := iff.Cond.(*ssa.BinOp); ok {
					draw := bo.X
					yp := pathOf(bo.Y)
					if host.call != nil {
						yp = substParams(yp, g, host.call)
					}
					if !strings.Contains(yp, "CumulativeWeights[") {
						draw = bo.Y
					}
					if pr, isParam := draw.(*ssa.Parameter); isParam && host.call != nil {
						for pi, q := range g.Params {
							if q == pr && pi < len(host.call.Args) {
								draw = host.call.Args[pi]
							}
						}
					}
					drawSrc := randomSources(draw)
					gateSrc := map[ssa.Value]bool{}
					for _, b2 := range f.Blocks {
						if len(b2.Instrs) == 0 {
							continue
						}
						if if2, ok := b2.Instrs[len(b2.Instrs)-1].(*ssa.If); ok {
							if c2, _ := normCond(if2.Cond); strings.Contains(c2, "RegsToOverride") {
								if bo2, ok := if2.Cond.(*ssa.BinOp); ok {
									for k := range randomSources(bo2.X) {
										gateSrc[k] = true
									}
									for k := range randomSources(bo2.Y) {
										gateSrc[k] = true
									}
								}
							}
						}
					}
					shared := false
					for k := range drawSrc {
						if gateSrc[k] {
							shared = true
						}
					}
					if len(drawSrc) == 0 {
						r.Bad("C12.6", "processBdReq: the value compared with "+which+" is not a random draw", iff.Cond.Pos(), fnName(f), "the weighted choice compares "+firstN(pathOf(draw), 80)+", which does not come from a random source: the same subnet is always chosen")
					} else if shared {
						r.Bad("C12.6", "processBdReq: the draw for "+which+" is the draw that gates the override percentage", iff.Cond.Pos(), fnName(f),
							"inside the override branch the gating draw is already known to be below the configured percentage, so reusing it for the weighted choice confines it to the low cumulative weights: subnets whose interval starts above that cut are never used")
					} else {
						r.OK("C12.6", "processBdReq: the draw for "+which+" is independent of the percentage gate", iff.Cond.Pos(), fmt.Sprintf("%d random source(s), none shared with the gate", len(drawSrc)))
					}
				}
				if header == nil {
					r.Unk("C12.6", "processBdReq: loop over "+which, iff.Pos(), fnName(f), "could not locate the loop header of the weighted choice")
					continue
				}
				back, _ := reachAt(g, matched, func(in ssa.Instruction) bool { return in.Block() == header }, nil, nil)
				if matched == header {
					back = true
				}
				if back {
					r.Bad("C12.6", "processBdReq: loop over "+which+" continues after a match", iff.Cond.Pos(), fnName(f),
						"after `draw < cumulativeWeight[i]` matched, the loop keeps iterating; every later cumulative weight is larger, so the last subnet always wins and the other non-zero-weight subnets are never used")
				} else {
					r.OK("C12.6", "processBdReq: loop over "+which+" exits on the first match", iff.Cond.Pos(), "no path from the matched edge back to the loop header")
				}
			}
		}
		if n < 2 {
			r.Unk("C12.6", "processBdReq: weighted-choice loops", f.Pos(), fnName(f), fmt.Sprintf("found %d of 2 expected loops comparing a draw with *CumulativeWeights[i]", n))
		}
	}

	// ---- C12.10 every configured exclusion is in force: the processor keeps the whole configured exclusion list (a
	// full copy or the list itself), not a filtered one - an exclusion carries no meaningful weight or port
	r.Rule("C12.10", "the exclusion list of the processor is the whole configured list", 2)
	{
		n := 0
		for _, f := range c.funcsOfPkgs(rp) {
			for _, st := range fieldStores(f, "regprocessor.RegProcessor", "exclusionsFromOverride") {
				n++
				okk, how := false, ""
				switch v := stripConv(st.Val).(type) {
				case *ssa.Parameter:
					okk, how = true, "the configured list itself"
				case *ssa.MakeSlice:
					// make([]Subnet, len(p)) filled by copy(field, p)
					lp := pathOf(v.Len)
					if strings.HasPrefix(lp, "len(") {
						src := strings.TrimSuffix(strings.TrimPrefix(lp, "len("), ")")
						for _, ci := range callsIn(f, func(_ string, cc *ssa.CallCommon) bool {
							b, isB := cc.Value.(*ssa.Builtin)
							return isB && b.Name() == "copy"
						}) {
							a := ci.Common().Args
							if strings.HasSuffix(pathOf(a[0]), ".exclusionsFromOverride") && pathOf(a[1]) == src {
								okk, how = true, "make(len("+src+")) + copy"
							}
						}
					}
				case *ssa.Call:
					switch calleeName(&v.Call) {
					case "slices.Clone":
						okk, how = true, "slices.Clone"
					}
					if b, isB := v.Call.Value.(*ssa.Builtin); isB && b.Name() == "append" {
						if k, isC := v.Call.Args[0].(*ssa.Const); isC && k.Value == nil {
							if _, isP := v.Call.Args[1].(*ssa.Parameter); isP {
								okk, how = true, "append(nil, list...)"
							}
						}
					}
				}
				r.Check(okk, "C12.10", fnName(f)+": exclusionsFromOverride holds every configured exclusion", st.Pos(), fnName(f), how,
					"the processor's exclusion list is built as "+firstN(pathOf(st.Val), 60)+", not as the whole configured list: an exclusion entry that a filter drops (no weight, no port - keys an exclusion does not need) is not in force, and phantoms inside the excluded subnet are moved into an override subnet")
			}
		}
		if n == 0 {
			r.Unk("C12.10", "stores of RegProcessor.exclusionsFromOverride", token.NoPos, "", "none found")
		}
	}

	// ---- C12.9 a family the request declares and the registrar cannot select for fails the request: the stations run
	// the same selection on the published request (which still declares the family) and drop the whole message
	r.Rule("C12.9", "a failed phantom selection fails the bidirectional request", 2)
	if f := c.fn("C12.9", rp, "RegProcessor", "processBdReq"); f != nil {
		n := 0
		for _, l := range findInstrDeep(f, func(l located) bool {
			call, ok := l.call.(*ssa.Call)
			return ok && call.Call.IsInvoke() && call.Call.Method.Name() == "Select" && strings.HasSuffix(typeShort(call.Call.Value.Type()), "ipSelector")
		}, 1) {
			call := l.call.(*ssa.Call)
			g := l.in
			n++
			errEdges := edgesEstablishing(g, atomMatcher(errAtoms(call, false)...))
			if len(errEdges) == 0 {
				r.Bad("C12.9", fnName(g)+": the error of Select is not tested", call.Pos(), fnName(g), "the selection's error is never branched on")
				continue
			}
			okAll := true
			var w []int
			for e := range errEdges {
				succ := g.Blocks[e.from].Succs[e.slot]
				hit, ww := reachAt(g, succ, func(in2 ssa.Instruction) bool {
					ret, ok := in2.(*ssa.Return)
					if !ok || len(ret.Results) == 0 {
						return false
					}
					ev := returnedValue(ret, len(ret.Results)-1, nil)
					cst, isC := ev.(*ssa.Const)
					return isC && cst.Value == nil
				}, nil, nil)
				if hit {
					okAll, w = false, ww
				}
			}
			if okAll {
				r.OK("C12.9", fmt.Sprintf("%s: a failing Select (#%d) fails the request", fnName(g), n), call.Pos(), "every path from its error edge ends in a non-nil error return")
			} else {
				r.Bad("C12.9", fmt.Sprintf("%s: a failing Select (#%d) can still end in an answer", fnName(g), n), call.Pos(), fnName(g),
					"after a phantom selection failed, a path still returns a response and the request is published: the published request declares the family, the station's own selection fails the same way and it drops the whole message - the client is told a phantom no station holds", r.blockPath(g, w)...)
			}
		}
		if n == 0 {
			r.Unk("C12.9", "processBdReq: Select calls", f.Pos(), fnName(f), "none found")
		}
	}

	// ---- C12.8 the configured override subnet is the network the operator wrote: the draw starts at IPNet.IP, so the
	// stored network is ParseCIDR's masked result, untouched
	r.Rule("C12.8", "override subnets are stored as the masked network ParseCIDR returns", 1)
	if f := c.fn("C12.8", "pkg/regserver/regprocessor", "Ipnet", "UnmarshalText"); f != nil {
		var parse *ssa.Call
		for _, ci := range callsIn(f, nameIs("net.ParseCIDR")) {
			parse, _ = ci.(*ssa.Call)
		}
		if parse == nil {
			r.Unk("C12.8", "Ipnet.UnmarshalText: net.ParseCIDR", f.Pos(), fnName(f), "not found")
		} else {
			netPath := pathOf(parse) + "#1"
			stored, touched := false, ""
			eachInstr(f, func(in ssa.Instruction) {
				st, ok := in.(*ssa.Store)
				if !ok {
					return
				}
				fa, ok := st.Addr.(*ssa.FieldAddr)
				if !ok {
					return
				}
				if o, fld, ok := fieldOwner(fa); ok && o == "regprocessor.Ipnet" && fld == "IPNet" {
					stored = pathOf(st.Val) == netPath
					if !stored {
						touched = "n.IPNet = " + firstN(pathOf(st.Val), 60)
					}
					return
				}
				if pathOf(fa.X) == netPath {
					touched = firstN(pathOf(fa), 60) + " = " + firstN(pathOf(st.Val), 60)
				}
			})
			r.Check(stored && touched == "", "C12.8", "Ipnet.UnmarshalText: stores the network returned by net.ParseCIDR unchanged", parse.Pos(), fnName(f), "n.IPNet = ParseCIDR(text)#1; no field of it is written",
				"the stored override subnet is not the masked network net.ParseCIDR returned ("+touched+"): the override draw starts at IPNet.IP, so a CIDR written with host bits yields phantoms outside the configured subnet")
		}
	}

	// ---- C12.7 exclusions first
	r.Rule("C12.7", "address overrides are preceded by the exclusion loop; an excluded phantom is returned unchanged", 2)
	// the substituted address is base + uniform offset in [0, size): the draw spans exactly the subnet
	if f := c.P.Func(repoMod+"/pkg/regserver/regprocessor", "", "getRandUint32IPv4"); f != nil && f.Blocks != nil {
		n := 0
		for _, ci := range callsIn(f, shortIs("randomInt")) {
			n++
			a := ci.Common().Args
			lo, hi := pathOf(a[0]), pathOf(a[1])
			base := "regprocessor.ipv4ToUint32(" + P(f, 0) + ".IP)#0"
			okk := lo == base
			if add, isAdd := a[1].(*ssa.BinOp); okk && isAdd && add.Op == token.ADD && add.X == a[0] {
				sz := pathOf(add.Y)
				okk = strings.Contains(sz, "(1 << ") && strings.Contains(sz, P(f, 0)+".Mask.Size()#1 - "+P(f, 0)+".Mask.Size()#0")
			} else {
				okk = false
			}
			r.Check(okk, "C12.7", "getRandUint32IPv4: address drawn from [base, base + 2^(bits-ones))", ci.Pos(), fnName(f), "randomInt(base, base+size)",
				"the substituted phantom is drawn from ["+firstN(lo, 60)+", "+firstN(hi, 90)+") instead of exactly the override subnet [base, base+size): addresses outside the configured subnet can be chosen (or, for small subnets, the range is empty / wraps around)")
		}
		if n == 0 {
			r.Unk("C12.7", "getRandUint32IPv4: randomInt call", f.Pos(), fnName(f), "not found")
		}
	}
	if f := c.P.Func(repoMod+"/pkg/regserver/regprocessor", "", "randomInt"); f != nil && f.Blocks != nil {
		eachInstr(f, func(in ssa.Instruction) {
			ret, ok := in.(*ssa.Return)
			if !ok || len(ret.Results) != 2 {
				return
			}
			if e, isC := returnedValue(ret, 1, nil).(*ssa.Const); !isC || e.Value != nil {
				return
			}
			vp := pathOf(returnedValue(ret, 0, nil))
			want := "(" + P(f, 0) + " + uint32(rand.Int(rand.Reader, big.NewInt(int64((" + P(f, 1) + " - " + P(f, 0) + "))))#0.Int64()))"
			r.Check(vp == want, "C12.7", "randomInt: x + uniform draw below (y - x)", ret.Pos(), fnName(f), "x + rand.Int(y-x)",
				"randomInt returns "+firstN(vp, 100)+" instead of x + rand.Int(y - x): the draw no longer covers exactly [x, y)")
		})
	}
	if f := c.fn("C12.7", rp, "RegProcessor", "processBdReq"); f != nil {
		var exclLoad ssa.Instruction
		var containsIf *ssa.If
		eachInstr(f, func(in ssa.Instruction) {
			if u, ok := in.(*ssa.UnOp); ok && u.Op == token.MUL {
				if o, fld, ok := fieldOwner(u.X); ok && o == "regprocessor.RegProcessor" && fld == "exclusionsFromOverride" {
					exclLoad = in
				}
			}
			if iff, ok := in.(*ssa.If); ok {
				if cnd, _ := normCond(iff.Cond); strings.Contains(cnd, ".Contains(") && strings.Contains(cnd, "Ipv4Addr") {
					containsIf = iff
				}
			}
		})
		var overrides []ssa.Instruction
		eachInstr(f, func(in ssa.Instruction) {
			if st, ok := in.(*ssa.Store); ok {
				if o, fld, ok := fieldOwner(st.Addr); ok && o == "proto.RegistrationResponse" && fld == "Ipv4Addr" && strings.Contains(pathOf(st.Val), "getRandUint32IPv4") {
					overrides = append(overrides, in)
				}
			}
		})
		// the exclusion test may sit in a predicate helper of the package: excluded(ip) ranges over the whole list, answers
		// true under a Contains hit on its parameter and false after the loop; the overrides then sit behind its false edge
		var viaHelper *ssa.Call
		if (exclLoad == nil || containsIf == nil) && len(overrides) > 0 {
			eachInstr(f, func(in ssa.Instruction) {
				call, ok := in.(*ssa.Call)
				if !ok || viaHelper != nil {
					return
				}
				hc := helperCallee(f, &call.Call)
				if hc == nil || !isBoolType(call.Type()) {
					return
				}
				argOK := false
				for _, a := range call.Call.Args {
					if strings.Contains(pathOf(a), "Ipv4Addr") {
						argOK = true
					}
				}
				loads, hit := false, false
				eachInstr(hc, func(in2 ssa.Instruction) {
					if u, ok := in2.(*ssa.UnOp); ok && u.Op == token.MUL {
						if o, fld, ok := fieldOwner(u.X); ok && o == "regprocessor.RegProcessor" && fld == "exclusionsFromOverride" {
							loads = true
						}
					}
					if ret, ok := in2.(*ssa.Return); ok && len(ret.Results) == 1 {
						if cv, isC := constOf(returnedValue(ret, 0, nil)); isC && cv.String() == "true" {
							if guardedM(hc, ret, func(cnd string, pol bool) bool { return pol && strings.Contains(cnd, ".Contains(") }) {
								hit = true
							}
						}
					}
				})
				if argOK && loads && hit && anyContainsHelperRange(hc) {
					viaHelper = call
				}
			})
		}
		if viaHelper != nil {
			for _, ov := range overrides {
				g := guardedM(f, ov, func(cnd string, pol bool) bool { return cnd == pathOf(viaHelper) && !pol })
				r.Check(g, "C12.7", "processBdReq: exclusion loop precedes the address override", ov.Pos(), fnName(f), "behind the false edge of "+firstN(pathOf(viaHelper), 60),
					"a path overrides the phantom address without the exclusion test having answered 'not excluded'")
			}
			r.OK("C12.7", "processBdReq: every configured exclusion is consulted", viaHelper.Pos(), "the predicate helper ranges over the whole exclusion list and answers true on the first Contains hit")
		} else if exclLoad == nil || containsIf == nil || len(overrides) == 0 {
			r.Unk("C12.7", "processBdReq: exclusion loop and address overrides", f.Pos(), fnName(f), fmt.Sprintf("exclusion load %v, Contains test %v, %d override store(s)", exclLoad != nil, containsIf != nil, len(overrides)))
		} else {
			for _, ov := range overrides {
				skip, w := reach(f, nil, isInstr(ov), isInstr(exclLoad), nil)
				if skip {
					r.Bad("C12.7", "processBdReq: address override reachable without consulting the exclusions", ov.Pos(), fnName(f), "a path overrides the phantom address without running the exclusion loop first", r.blockPath(f, w)...)
				} else {
					r.OK("C12.7", "processBdReq: exclusion loop precedes the address override", ov.Pos(), "must-pass")
				}
			}
			// every configured exclusion is consulted: from the top of the loop body the Contains test is reached
			// whatever else the body tests first (an entry that is skipped - by transport label, weight, anything -
			// is an exclusion that does not exclude)
			var body *ssa.BasicBlock
			for _, b := range f.Blocks {
				for _, in := range b.Instrs {
					if nx, ok := in.(*ssa.Next); ok && len(b.Succs) == 2 {
						if rg, ok := nx.Iter.(*ssa.Range); ok && strings.HasSuffix(pathOf(rg.X), ".exclusionsFromOverride") {
							body = b.Succs[0]
						}
					}
				}
				// index-based loops over the slice: the block that loads the element
				if body == nil {
					for _, in := range b.Instrs {
						if ia, ok := in.(*ssa.IndexAddr); ok && strings.HasSuffix(pathOf(ia.X), ".exclusionsFromOverride") && b.Dominates(containsIf.Block()) {
							body = b
						}
					}
				}
			}
			if body == nil {
				r.Unk("C12.7", "processBdReq: exclusion loop body", f.Pos(), fnName(f), "loop over exclusionsFromOverride not found")
			} else {
				var extra []string
				all := reachGameFrom(f, body, containsIf, func(bl *ssa.BasicBlock) int {
					iff, ok := bl.Instrs[len(bl.Instrs)-1].(*ssa.If)
					if !ok || iff == containsIf {
						return gameAny
					}
					if hit, _ := reachAt(f, bl, isInstr(containsIf), nil, nil); !hit {
						return gameAny
					}
					c2, _ := normCond(iff.Cond)
					extra = append(extra, c2)
					return gameAll
				})
				r.Check(all, "C12.7", "processBdReq: every exclusion entry is tested against the phantom", containsIf.Pos(), fnName(f), "the Contains test is reached from the top of the loop body whatever else is tested",
					"an exclusion entry can be skipped before its subnet is compared with the phantom ("+firstN(strings.Join(uniq(sortedCopy(extra)), ", "), 120)+"): a phantom inside that excluded subnet is replaced by an override address after all")
			}
			cnd, pol := normCond(containsIf.Cond)
			_ = cnd
			slot := 0
			if !pol {
				slot = 1
			}
			exclBlock := containsIf.Block().Succs[slot]
			hit := false
			for _, ov := range overrides {
				if ok, _ := reachAt(f, exclBlock, isInstr(ov), nil, nil); ok {
					hit = true
				}
			}
			r.Check(!hit, "C12.7", "processBdReq: an excluded phantom leaves without address override", containsIf.Pos(), fnName(f), "no override store reachable from the Contains-true edge",
				"a phantom that lies in an excluded subnet can still be replaced by an override address")
		}
	}
}

// randomSources returns the call instructions to random generators that v data-depends on.
func randomSources(v ssa.Value) map[ssa.Value]bool {
	out := map[ssa.Value]bool{}
	seen := map[ssa.Value]bool{}
	var walk func(x ssa.Value, d int)
	walk = func(x ssa.Value, d int) {
		if x == nil || d > 40 || seen[x] {
			return
		}
		seen[x] = true
		if call, ok := x.(*ssa.Call); ok {
			n := calleeName(&call.Call)
			if strings.HasPrefix(n, "math/rand.") || strings.HasPrefix(n, "(*math/rand.Rand)") || strings.HasPrefix(n, "crypto/rand.") || strings.HasSuffix(n, ".randomInt") {
				out[x] = true
				return
			}
		}
		if in, ok := x.(ssa.Instruction); ok {
			for _, op := range in.Operands(nil) {
				if *op != nil {
					walk(*op, d+1)
				}
			}
		}
	}
	walk(v, 0)
	return out
}

var tnumRe = regexp.MustCompile(`\bt\d+\b`)

// stripNums removes SSA register numbers from an instruction's text so that it can serve in a construct key.
func stripNums(s string) string { return tnumRe.ReplaceAllString(s, "t") }

func sortedCopy(s []string) []string {
	o := append([]string{}, s...)
	sort.Strings(o)
	return o
}

// c12Forwarders: helpers of the registrar package that hand one of their own parameters, untouched, to
// processC2SWrapper as the wrapper (a "process and publish" tail shared by the entry points). The value is the
// position of that parameter in the helper's argument list.
func c12Forwarders(c *Ctx) map[*ssa.Function]int {
	out := map[*ssa.Function]int{}
	for _, h := range c.funcsOfPkgs("pkg/regserver/regprocessor") {
		if h.Name() == "processC2SWrapper" || h.Name() == "RegisterUnidirectional" || h.Name() == "RegisterBidirectional" {
			continue
		}
		for _, ci := range callsIn(h, shortIs("processC2SWrapper")) {
			args := ci.Common().Args
			if len(args) < 2 {
				continue
			}
			for k, q := range h.Params {
				if args[1] != ssa.Value(q) {
					continue
				}
				// the helper itself does not touch the response cell of the wrapper
				touched := false
				eachInstr(h, func(in ssa.Instruction) {
					if st, ok := in.(*ssa.Store); ok && isRespField(st.Addr, "") {
						touched = true
					}
				})
				if !touched {
					out[h] = k
				}
			}
		}
	}
	return out
}

func isRespField(v ssa.Value, base string) bool {
	o, f, ok := fieldOwner(v)
	if !ok || o != "proto.C2SWrapper" || f != "RegistrationResponse" {
		return false
	}
	fa, isFA := v.(*ssa.FieldAddr)
	return base == "" || (isFA && pathOf(fa.X) == base)
}

// anyContainsHelperRange: every If in the loop body of h that precedes the Contains test is the range test itself (no
// entry of the list is skipped by another condition).
func anyContainsHelperRange(h *ssa.Function) bool {
	n := 0
	ok := true
	for _, b := range h.Blocks {
		iff, isIf := b.Instrs[len(b.Instrs)-1].(*ssa.If)
		if !isIf {
			continue
		}
		n++
		cnd, _ := normCond(iff.Cond)
		if strings.Contains(cnd, ".Contains(") || strings.HasPrefix(b.Comment, "rangeindex.") || strings.HasPrefix(b.Comment, "rangeiter.") || strings.Contains(cnd, "next(range(") || strings.Contains(cnd, "phi:rangeindex") {
			continue
		}
		ok = false
	}
	return ok && n >= 2
}

// unconditionalButRefusals: in is reached whatever any condition says, except nil tests and tests whose other side only
// refuses (returns without a message).
func unconditionalButRefusals(f *ssa.Function, in ssa.Instruction) bool {
	return reachGame(f, in, func(bl *ssa.BasicBlock) int {
		iff, ok := bl.Instrs[len(bl.Instrs)-1].(*ssa.If)
		if !ok {
			return gameAny
		}
		if cnd, _ := normCond(iff.Cond); strings.Contains(cnd, "nil") {
			return gameAny
		}
		if hit, _ := reachAt(f, bl, isInstr(in), nil, nil); !hit {
			return gameAny
		}
		for _, sc := range bl.Succs {
			if hit, _ := reachAt(f, sc, isInstr(in), nil, nil); hit {
				continue
			}
			okRet, _ := reachAt(f, sc, func(x ssa.Instruction) bool {
				ret, ok := x.(*ssa.Return)
				if !ok || len(ret.Results) == 0 {
					return ok
				}
				cst, isC := returnedValue(ret, 0, nil).(*ssa.Const)
				return !(isC && cst.Value == nil)
			}, nil, nil)
			if !okRet {
				return gameAny
			}
		}
		return gameAll
	})
}
