package main

import (
	"go/token"
	"go/types"
	"strings"

	"golang.org/x/tools/go/ssa"
)

// isChanRecv reports a bare (blocking) receive and returns the channel.
func isChanRecv(in ssa.Instruction) (ssa.Value, bool) {
	if u, ok := in.(*ssa.UnOp); ok && u.Op == token.ARROW {
		return u.X, true
	}
	return nil, false
}

// isDoneChan: the channel is the result of a Done() method call (context.Context or compatible).
func isDoneChan(ch ssa.Value) bool {
	ch = stripConv(ch)
	if call, ok := ch.(*ssa.Call); ok {
		return calleeShort(&call.Call) == "Done" && len(argsOf(&call.Call)) == 0
	}
	return false
}

// blocking primitive callees (by resolved name).
var blockingCallees = map[string]string{
	"time.Sleep":                "sleep",
	"net.Dial":                  "network dial",
	"net.DialTimeout":           "network dial",
	"net.DialTCP":               "network dial",
	"net.DialUDP":               "network dial",
	"(*net.Dialer).Dial":        "network dial",
	"(*net.Dialer).DialContext": "network dial",
	"net.ResolveIPAddr":         "DNS resolution",
	"net.LookupIP":              "DNS resolution",
	"net.LookupHost":            "DNS resolution",
	"net/http.Post":             "HTTP request",
	"net/http.Get":              "HTTP request",
	"(*net/http.Client).Do":     "HTTP request",
	"(*sync.WaitGroup).Wait":    "WaitGroup wait",
	"os.ReadFile":               "file I/O",
	"os.Open":                   "file I/O",
	"os.WriteFile":              "file I/O",
	"(net.Conn).Read":           "connection I/O",
	"(net.Conn).Write":          "connection I/O",
	"(io.Reader).Read":          "stream I/O",
	"(io.Writer).Write":         "stream I/O",
	"io.Copy":                   "stream I/O",
	"io.ReadAll":                "stream I/O",
	"io.ReadFull":               "stream I/O",
	"(*github.com/refraction-networking/conjure/pkg/station/lib.RegistrationManager).PhantomIsLive": "liveness probe",
}

type blockInfo struct {
	what string
	via  []string
}

// blockingReach answers whether fn can reach a blocking primitive through
// static repo callees (dependencies are not entered); memoised.
type blockingAnalysis struct {
	memo    map[*ssa.Function]*blockInfo
	visting map[*ssa.Function]bool
	// dynamic: resolution of dynamic calls through struct fields of function type:
	// "Owner.field" -> functions stored there anywhere in the repo.
	fieldFuncs map[string][]*ssa.Function
}

func newBlockingAnalysis(p *Program) *blockingAnalysis {
	ba := &blockingAnalysis{memo: map[*ssa.Function]*blockInfo{}, visting: map[*ssa.Function]bool{}, fieldFuncs: map[string][]*ssa.Function{}}
	for _, f := range p.RepoFuncs() {
		eachInstr(f, func(in ssa.Instruction) {
			st, ok := in.(*ssa.Store)
			if !ok {
				return
			}
			o, fld, ok := fieldOwner(st.Addr)
			if !ok {
				return
			}
			switch v := stripConv(st.Val).(type) {
			case *ssa.MakeClosure:
				if fn, ok := v.Fn.(*ssa.Function); ok {
					ba.fieldFuncs[o+"."+fld] = append(ba.fieldFuncs[o+"."+fld], fn)
				}
			case *ssa.Function:
				ba.fieldFuncs[o+"."+fld] = append(ba.fieldFuncs[o+"."+fld], v)
			}
		})
	}
	return ba
}

// dynFieldTargets: for a dynamic call whose function value is loaded from a struct field, the stored functions.
func (ba *blockingAnalysis) dynFieldTargets(c *ssa.CallCommon) (string, []*ssa.Function) {
	if c.IsInvoke() || c.StaticCallee() != nil {
		return "", nil
	}
	v := c.Value
	if u, ok := v.(*ssa.UnOp); ok && u.Op == token.MUL {
		if o, fld, ok := fieldOwner(u.X); ok {
			return o + "." + fld, ba.fieldFuncs[o+"."+fld]
		}
	}
	return "", nil
}

func (ba *blockingAnalysis) blocks(fn *ssa.Function) *blockInfo {
	if bi, ok := ba.memo[fn]; ok {
		return bi
	}
	if ba.visting[fn] {
		return nil
	}
	ba.visting[fn] = true
	defer delete(ba.visting, fn)
	var res *blockInfo
	pk := fnPkgPath(fn)
	if !isRepoPath(pk) && !strings.HasPrefix(pk, "fixtures/") {
		ba.memo[fn] = nil
		return nil
	}
	for _, b := range fn.Blocks {
		for _, in := range b.Instrs {
			if res != nil {
				break
			}
			switch x := in.(type) {
			case *ssa.Send:
				res = &blockInfo{"channel send", []string{fnName(fn)}}
			case *ssa.Select:
				if x.Blocking {
					res = &blockInfo{"blocking select", []string{fnName(fn)}}
				}
			case *ssa.UnOp:
				if x.Op == token.ARROW {
					res = &blockInfo{"channel receive", []string{fnName(fn)}}
				}
			case *ssa.Call:
				name := calleeName(&x.Call)
				if w, ok := blockingCallees[name]; ok {
					res = &blockInfo{w + " (" + shortName(name) + ")", []string{fnName(fn)}}
					break
				}
				// third-party network clients
				if strings.Contains(name, "go-redis") && (calleeShort(&x.Call) == "Publish") {
					res = &blockInfo{"redis publish (" + shortName(name) + ")", []string{fnName(fn)}}
					break
				}
				if cal := x.Call.StaticCallee(); cal != nil {
					if bi := ba.blocks(cal); bi != nil {
						res = &blockInfo{bi.what, append([]string{fnName(fn)}, bi.via...)}
					}
				} else if _, tg := ba.dynFieldTargets(&x.Call); len(tg) > 0 {
					for _, t := range tg {
						if bi := ba.blocks(t); bi != nil {
							res = &blockInfo{bi.what, append([]string{fnName(fn)}, bi.via...)}
							break
						}
					}
				}
			}
		}
	}
	ba.memo[fn] = res
	return res
}

func isChanType(t types.Type) bool {
	_, ok := t.Underlying().(*types.Chan)
	return ok
}
