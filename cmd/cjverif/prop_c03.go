package main

import (
	"fmt"
	"go/constant"
	"go/token"
	"go/types"
	"sort"
	"strings"

	"golang.org/x/tools/go/ssa"
)

func init() {
	register("C03", &propCheck{Run: checkC03,
		Explain: "C03.1 connection-effect rule: before positive identification the client connection is only observed (RemoteAddr), given a deadline, read, drained into io.Discard or offered to WrapConnection; every WrapConnection implementation (computed from the interface) lets its connection parameter escape only into PrependToConn, whose result is returned with a nil error or — obfs4 — handed to the handshake only after the mark matched; " +
			"C03.2 no early return: every return of the handler reachable after the deadline was set is preceded on every path by a drain to the deadline, a sleep until the deadline, a read error (peer gone / deadline fired) or the successful hand-over to Proxy; " +
			"C03.3 the deadline is set before the first read, from time.Now().Add(d) with d in [5 s, 10 s) by interval evaluation; " +
			"C03.4 obfs4 answers not-this-transport only at >= MaxHandshakeLength bytes and try-again below its thresholds; " +
			"C03.5 the transports loop removes a transport only on ErrNotTransport (or a foreign registration type) and keeps it on ErrTryAgain. " +
			"Decides that no code path can write to, close or leave the connection early; wall-clock behaviour, the vendored obfs4 handshake after a mark match and kernel ACK behaviour are not decided.",
		Assume: []string{"the deferred Close lives in the caller (handleNewConn), so leaving the handler is the only way to close early", "io.Copy(io.Discard, conn) returns only on EOF, error or deadline"}})
}

// wrappingImpls returns the WrapConnection methods of all concrete repo types that implement lib.WrappingTransport (mocks and tests excluded).
func wrappingImpls(c *Ctx) []*ssa.Function {
	var out []*ssa.Function
	for _, f := range c.P.RepoFuncs() {
		if f.Name() != "WrapConnection" || f.Signature.Recv() == nil {
			continue
		}
		pos := c.R.posStr(f.Pos())
		if strings.Contains(pos, "_mock") || strings.Contains(pos, "_test") {
			continue
		}
		if f.Signature.Params().Len() != 4 {
			continue
		}
		out = append(out, f)
	}
	return out
}

// interval evaluation of small integer arithmetic over constants and rand.Int63n(c)
func evalInterval(v ssa.Value, depth int) (lo, hi int64, ok bool) {
	if depth > 10 {
		return 0, 0, false
	}
	switch x := v.(type) {
	case *ssa.Const:
		if x.Value == nil {
			return 0, 0, false
		}
		i, exact := constant.Int64Val(constant.ToInt(x.Value))
		return i, i, exact
	case *ssa.ChangeType:
		return evalInterval(x.X, depth+1)
	case *ssa.Convert:
		return evalInterval(x.X, depth+1)
	case *ssa.Call:
		n := calleeName(&x.Call)
		if (n == "math/rand.Int63n" || n == "math/rand.Intn" || n == "math/rand.Int31n") && len(x.Call.Args) == 1 {
			l, h, ok := evalInterval(x.Call.Args[0], depth+1)
			if ok && l == h && l > 0 {
				return 0, l - 1, true
			}
		}
		return 0, 0, false
	case *ssa.BinOp:
		l1, h1, ok1 := evalInterval(x.X, depth+1)
		l2, h2, ok2 := evalInterval(x.Y, depth+1)
		if !ok1 || !ok2 {
			return 0, 0, false
		}
		switch x.Op {
		case token.ADD:
			return l1 + l2, h1 + h2, true
		case token.SUB:
			return l1 - h2, h1 - l2, true
		case token.MUL:
			if l1 >= 0 && l2 >= 0 {
				return l1 * l2, h1 * h2, true
			}
		}
	}
	return 0, 0, false
}

// isSentinelIdentity: cnd is "(X == sentinel)" in canonical operand order.
func isSentinelIdentity(cnd, sentinel string) bool {
	return strings.HasPrefix(cnd, "(") && (strings.HasSuffix(cnd, " == "+sentinel+")") || strings.HasPrefix(cnd, "("+sentinel+" == "))
}

func checkC03(c *Ctx) {
	r := c.R
	identityUsed := map[string]bool{}
	h := c.fn("C03.1", "cmd/application", "connManager", "handleNewTCPConn")
	r.Rule("C03.1", "before identification the connection is only observed, read, drained or offered to a transport; transports do not touch it", 8)
	r.Rule("C03.2", "no return of the handler after the deadline is set without waiting it out (drain / sleep / read error / Proxy)", 1)
	r.Rule("C03.3", "deadline set before the first read, d in [5 s, 10 s)", 2)
	r.Rule("C03.4", "obfs4 thresholds: try-again below the minimum / maximum handshake length, not-transport only at the maximum", 3)
	r.Rule("C03.5", "transports loop: remove only on ErrNotTransport / foreign registration; keep on ErrTryAgain; classification agrees with wrapping", 3)

	if h != nil {
		var conn *ssa.Parameter
		for _, p := range h.Params {
			if p.Name() == "clientConn" || typeShort(p.Type()) == "net.Conn" {
				conn = p
			}
		}
		if conn == nil {
			r.Unk("C03.1", "handleNewTCPConn: connection parameter", h.Pos(), fnName(h), "no net.Conn parameter")
			return
		}
		// ---- C03.1 uses of the connection in the handler
		aliases := map[ssa.Value]bool{conn: true}
		changed := true
		for changed {
			changed = false
			eachInstr(h, func(in ssa.Instruction) {
				switch x := in.(type) {
				case *ssa.ChangeInterface:
					if aliases[x.X] && !aliases[x] {
						aliases[x], changed = true, true
					}
				case *ssa.MakeInterface:
					if aliases[x.X] && !aliases[x] {
						aliases[x], changed = true, true
					}
				case *ssa.Phi:
					for _, e := range x.Edges {
						if aliases[e] && !aliases[x] {
							aliases[x], changed = true, true
						}
					}
				}
			})
		}
		allowedMethods := map[string]bool{"RemoteAddr": true, "LocalAddr": true, "SetDeadline": true, "SetReadDeadline": true, "Read": true}
		eachInstr(h, func(in ssa.Instruction) {
			ci, ok := in.(ssa.CallInstruction)
			if !ok {
				return
			}
			cc := ci.Common()
			if cc.IsInvoke() && aliases[cc.Value] {
				m := cc.Method.Name()
				r.Check(allowedMethods[m], "C03.1", "handleNewTCPConn: clientConn."+m, in.Pos(), fnName(h), "observer / deadline / read",
					"the handler calls "+m+" on a connection that has not been identified: the station writes to, closes or alters the connection and reveals itself to a probe")
				return
			}
			for i, a := range cc.Args {
				if !aliases[a] {
					continue
				}
				name := calleeName(cc)
				if _, isCall := in.(*ssa.Call); !isCall {
					// go f(conn) / defer f(conn): the handler goes on (and returns: its caller's deferred Close ends the
					// connection) while, or before, f runs - waiting the deadline out must happen in the handler itself
					r.Bad("C03.1", "handleNewTCPConn: clientConn handed to "+instrText(in), in.Pos(), fnName(h),
						"the unidentified connection is handed to a goroutine / deferred call ("+shortName(pathOfCallee(cc))+") and the handler carries on: when it returns, the connection is closed at once - at exactly the byte count where the last transport gave up - instead of being read until the classification deadline")
					continue
				}
				switch {
				case name == "io.Copy" && i == 1 && pathOf(cc.Args[0]) == "io.Discard":
					r.OK("C03.1", "handleNewTCPConn: io.Copy(io.Discard, clientConn)", in.Pos(), "drain (read only)")
				case calleeShort(cc) == "WrapConnection" && cc.IsInvoke() && i == 1:
					r.OK("C03.1", "handleNewTCPConn: clientConn offered to WrapConnection", in.Pos(), "checked per implementation below")
				case cc.StaticCallee() != nil && isRepoPath(fnPkgPath(cc.StaticCallee())) && onlyObserves(cc.StaticCallee(), i, 0):
					r.OK("C03.1", "handleNewTCPConn: clientConn passed to observer "+shortName(name), in.Pos(), "callee only calls accessors on it")
				case helperCallee(h, cc) != nil && drainsOnly(helperCallee(h, cc), i):
					r.OK("C03.1", "handleNewTCPConn: clientConn passed to the drain helper "+shortName(name), in.Pos(), "callee only observes it and drains it into io.Discard")
				default:
					r.Bad("C03.1", "handleNewTCPConn: clientConn escapes into "+shortName(pathOfCallee(cc)), in.Pos(), fnName(h),
						"the unidentified connection is handed to "+shortName(pathOfCallee(cc))+", which may write to or close it")
				}
			}
		})
		// ---- C03.17 before the deadline is armed the handler turns a peer away only when it could not learn who the peer
		// is (no IP address, a failed lookup): every return that can be reached without SetDeadline sits behind a nil test
		{
			var dl ssa.Instruction
			eachInstr(h, func(in ssa.Instruction) {
				if call, ok := in.(*ssa.Call); ok && call.Call.IsInvoke() && aliases[call.Call.Value] && call.Call.Method.Name() == "SetDeadline" && dl == nil {
					dl = in
				}
			})
			if dl != nil {
				r.Rule("C03.17", "returns before the deadline is armed sit behind a nil test (no address / failed lookup)", 1)
				nEarly, bad := 0, false
				var pos token.Pos = h.Pos()
				eachInstr(h, func(in ssa.Instruction) {
					ret, ok := in.(*ssa.Return)
					if !ok || ret.Block().Comment == "recover" {
						return
					}
					if early, _ := reach(h, nil, isInstr(in), isInstr(dl), nil); !early {
						return
					}
					nEarly++
					cnd, cv := nearestBranch(ret.Block())
					okRet := strings.Contains(cnd, "nil")
					if !okRet && cv != nil {
						// `if !ok { return }` with ok the verdict of a lookup helper of the package that answers false only
						// right behind a nil test (a failed lookup)
						if v, _ := stripNot(cv); v != nil {
							if hcall, ridx, isB := boolCallOf(v); isB {
								if hc := helperCallee(h, &hcall.Call); hc != nil {
									all, nF := true, 0
									eachInstr(hc, func(in2 ssa.Instruction) {
										r2, ok := in2.(*ssa.Return)
										if !ok || ridx >= len(r2.Results) {
											return
										}
										c2, isC := returnedValue(r2, ridx, nil).(*ssa.Const)
										if !isC || c2.Value == nil || c2.Value.Kind() != constant.Bool || constant.BoolVal(c2.Value) {
											return
										}
										nF++
										if hcnd, _ := nearestBranch(r2.Block()); !strings.Contains(hcnd, "nil") {
											all = false
										}
									})
									okRet = all && nF > 0
								}
							}
						}
					}
					if !okRet {
						bad = true
						pos = in.Pos()
					}
				})
				r.Check(!bad, "C03.17", "handleNewTCPConn: early returns only for peers without an address or a failed lookup", pos, fnName(h), fmt.Sprintf("%d return(s) reachable before SetDeadline, each dominated by a nil test", nEarly),
					"the handler returns (its caller closes the connection) before the classification deadline is armed, on a condition that is not 'no address / lookup failed': such peers are closed at once and never read, which tells a prober something about the phantom")
			}
		}
		// ---- C03.3 deadline
		var setDL *ssa.Call
		eachInstr(h, func(in ssa.Instruction) {
			if call, ok := in.(*ssa.Call); ok && call.Call.IsInvoke() && aliases[call.Call.Value] && call.Call.Method.Name() == "SetDeadline" && setDL == nil {
				setDL = call
			}
		})
		if setDL == nil {
			r.Bad("C03.3", "handleNewTCPConn: no classification deadline is set", h.Pos(), fnName(h), "the handler never sets a deadline on the client connection: an idle probe is held (or dropped) at a recognisable time")
		} else {
			firstIO := func(in ssa.Instruction) bool {
				call, ok := in.(*ssa.Call)
				if !ok {
					return false
				}
				if call.Call.IsInvoke() && aliases[call.Call.Value] && call.Call.Method.Name() == "Read" {
					return true
				}
				return calleeName(&call.Call) == "io.Copy"
			}
			before, w := reach(h, nil, firstIO, isInstr(setDL), nil)
			if before {
				r.Bad("C03.3", "handleNewTCPConn: a read is reachable before the deadline is set", setDL.Pos(), fnName(h), "the first read can happen with no classification deadline", r.blockPath(h, w)...)
			} else {
				r.OK("C03.3", "handleNewTCPConn: SetDeadline precedes the first Read / drain", setDL.Pos(), "must-pass")
			}
			// the deadline of an unidentified connection is set once: re-arming it makes the close time a function of
			// the probe's pacing
			eachInstr(h, func(in ssa.Instruction) {
				call, ok := in.(*ssa.Call)
				if !ok || call == setDL || !call.Call.IsInvoke() || !aliases[call.Call.Value] {
					return
				}
				switch call.Call.Method.Name() {
				case "SetDeadline", "SetReadDeadline", "SetWriteDeadline":
					r.Bad("C03.3", "handleNewTCPConn: the classification deadline is set again ("+call.Call.Method.Name()+")", in.Pos(), fnName(h),
						"the unidentified connection's deadline is changed after it was first set: the moment the station closes the connection then depends on when (and how) the probe sent its bytes, not only on the random 5-10 s drawn at accept")
				}
			})
			okD := false
			desc := pathOf(setDL.Call.Args[0])
			if add, ok := setDL.Call.Args[0].(*ssa.Call); ok && calleeName(&add.Call) == "(time.Time).Add" {
				if now, ok := add.Call.Args[0].(*ssa.Call); ok && calleeName(&now.Call) == "time.Now" {
					if lo, hi, ok := evalInterval(add.Call.Args[1], 0); ok {
						desc = fmt.Sprintf("time.Now().Add(d), d in [%d ns, %d ns]", lo, hi)
						okD = lo >= 5_000_000_000 && hi < 10_000_000_000
					}
				}
			}
			r.Check(okD, "C03.3", "handleNewTCPConn: deadline = now + d with 5 s <= d < 10 s", setDL.Pos(), fnName(h), desc,
				"the classification deadline is not provably a random value in [5 s, 10 s) ("+firstN(desc, 100)+"): probes are released at a fixed or out-of-range time")
			// ---- C03.2 no early return
			isWait := func(in ssa.Instruction) bool {
				ci, ok := in.(ssa.CallInstruction)
				if !ok {
					return false
				}
				cc := ci.Common()
				n := calleeName(cc)
				if n == "io.Copy" && len(cc.Args) == 2 && pathOf(cc.Args[0]) == "io.Discard" && aliases[cc.Args[1]] {
					return true
				}
				// the drain moved into a helper of the package that drains the connection on every path through it
				if hf := helperCallee(h, cc); hf != nil {
					for i, a := range cc.Args {
						if aliases[a] && drainsOnly(hf, i) && mustDrain(hf, i) {
							return true
						}
					}
				}
				if n == "time.Sleep" && len(cc.Args) == 1 {
					if u, ok := cc.Args[0].(*ssa.Call); ok && calleeName(&u.Call) == "time.Until" && u.Call.Args[0] == setDL.Call.Args[0] {
						return true
					}
				}
				if strings.HasSuffix(n, "station/lib.Proxy") {
					return true
				}
				return false
			}
			readErr := edgesEstablishing(h, func(cnd string, pol bool) bool {
				return !pol && strings.Contains(cnd, "clientConn.Read(") && strings.HasSuffix(cnd, "#1) == nil)")
			})
			early, w := reach(h, setDL, isReturn, isWait, readErr)
			if early {
				r.Bad("C03.2", "handleNewTCPConn: a return is reachable before the classification deadline has been waited out", setDL.Pos(), fnName(h),
					"after the deadline was set a path returns (the caller then closes the connection) without draining to the deadline, sleeping until it, a read error or the hand-over to Proxy: the early close tells a probe how its data was classified", r.blockPath(h, w)...)
			} else {
				r.OK("C03.2", "handleNewTCPConn: every return after SetDeadline waits the deadline out", setDL.Pos(), fmt.Sprintf("%d read-error edge(s); waits: drain/sleep-until/Proxy", len(readErr)))
			}
		}
		// ---- C03.5 classification in the transports loop
		var wrapCall ssa.Instruction
		eachInstr(h, func(in ssa.Instruction) {
			if call, ok := in.(*ssa.Call); ok && call.Call.IsInvoke() && call.Call.Method.Name() == "WrapConnection" {
				wrapCall = in
			}
		})
		if wrapCall == nil {
			r.Unk("C03.5", "handleNewTCPConn: WrapConnection call", h.Pos(), fnName(h), "not found")
		} else {
			nDel := 0
			eachInstr(h, func(in ssa.Instruction) {
				call, ok := in.(*ssa.Call)
				if !ok {
					return
				}
				b, ok := call.Call.Value.(*ssa.Builtin)
				if !ok || b.Name() != "delete" || pathOf(call.Call.Args[0]) != "regManager.GetWrappingTransports()" {
					return
				}
				nDel++
				g := guardedM(h, in, func(cnd string, pol bool) bool {
					if pol && strings.HasPrefix(cnd, "errors.Is(") && strings.HasSuffix(cnd, "transports.ErrNotTransport)") {
						return true
					}
					if pol && isSentinelIdentity(cnd, "transports.ErrNotTransport") {
						identityUsed["ErrNotTransport"] = true
						return true
					}
					if !pol && strings.HasSuffix(cnd, ".(*lib.DecoyRegistration)#1") {
						return true
					}
					return false
				})
				r.Check(g, "C03.5", "handleNewTCPConn: a transport is removed only on ErrNotTransport or a foreign registration type", in.Pos(), fnName(h), "guarded",
					"a transport is removed from the candidates on another outcome (e.g. try-again): a valid client whose flight arrives in several segments is never recognised, and probes see a different reaction")
			})
			if nDel == 0 {
				r.Unk("C03.5", "handleNewTCPConn: delete(possibleTransports)", h.Pos(), fnName(h), "no removal found")
			}
			// try-again keeps the transport
			for e := range edgesEstablishing(h, func(cnd string, pol bool) bool {
				if pol && isSentinelIdentity(cnd, "transports.ErrTryAgain") {
					identityUsed["ErrTryAgain"] = true
					return true
				}
				return pol && strings.HasPrefix(cnd, "errors.Is(") && strings.HasSuffix(cnd, "transports.ErrTryAgain)")
			}) {
				succ := h.Blocks[e.from].Succs[e.slot]
				hit := false
				if len(succ.Instrs) > 0 {
					hit, _ = reachAt(h, succ, func(in ssa.Instruction) bool {
						if call, ok := in.(*ssa.Call); ok {
							if b, ok := call.Call.Value.(*ssa.Builtin); ok && b.Name() == "delete" {
								return true
							}
						}
						return isReturn(in)
					}, isInstr(wrapCall), nil)
					if first := succ.Instrs[0]; first != nil {
						if call, ok := first.(*ssa.Call); ok {
							if b, ok := call.Call.Value.(*ssa.Builtin); ok && b.Name() == "delete" {
								hit = true
							}
						}
					}
				}
				// reaching the next Read (not WrapConnection) first is also fine: block both
				if hit {
					hit, _ = reachAt(h, succ, func(in ssa.Instruction) bool {
						if call, ok := in.(*ssa.Call); ok {
							if b, ok := call.Call.Value.(*ssa.Builtin); ok && b.Name() == "delete" {
								return true
							}
						}
						return false
					}, func(in ssa.Instruction) bool {
						if in == wrapCall {
							return true
						}
						if call, ok := in.(*ssa.Call); ok && call.Call.IsInvoke() && call.Call.Method.Name() == "Read" {
							return true
						}
						return false
					}, nil)
				}
				r.Check(!hit, "C03.5", "handleNewTCPConn: ErrTryAgain keeps the transport for the next read", h.Blocks[e.from].Instrs[len(h.Blocks[e.from].Instrs)-1].(*ssa.If).Cond.Pos(), fnName(h), "no removal before the next WrapConnection/Read",
					"a transport that asked for more data is removed (or the handler leaves) before it is offered the accumulated bytes again")
			}
		}
	}

	// ---- C03.5b classification and wrapping must agree: a transport that wraps a sentinel (fmt.Errorf("%w", ErrX))
	// is only classified correctly by errors.Is; an identity comparison sends it down the "unexpected error" branch,
	// where the handler stops reading (a reaction that depends on how close the probe came).
	{
		wraps := map[string]string{}
		seenF := map[*ssa.Function]bool{}
		var scan func(f *ssa.Function)
		scan = func(f *ssa.Function) {
			if seenF[f] || f.Blocks == nil || !isRepoPath(fnPkgPath(f)) {
				return
			}
			seenF[f] = true
			eachInstr(f, func(in ssa.Instruction) {
				call, ok := in.(*ssa.Call)
				if !ok {
					return
				}
				if n := calleeName(&call.Call); n == "fmt.Errorf" || n == "errors.Join" {
					p := pathOf(call)
					for _, s := range []string{"ErrNotTransport", "ErrTryAgain"} {
						if strings.Contains(p, "transports."+s) {
							wraps[s] = fnName(f)
						}
					}
				}
				if cal := call.Call.StaticCallee(); cal != nil && strings.Contains(fnPkgPath(cal), "/pkg/transports") {
					scan(cal)
				}
			})
		}
		for _, f := range wrappingImpls(c) {
			scan(f)
		}
		bad := false
		for s, where := range wraps {
			if identityUsed[s] {
				bad = true
				r.Bad("C03.5", "handler compares "+s+" by identity while "+where+" returns it wrapped", token.NoPos, where,
					"a transport returns "+s+" wrapped in another error, but the handler classifies transport results with == instead of errors.Is: the wrapped result takes the unexpected-error branch, where the handler stops reading until the deadline — the station's reaction then depends on the probe's content")
			}
		}
		if !bad {
			r.OK("C03.5", "sentinel classification agrees with how transports return them", token.NoPos, fmt.Sprintf("wrapped: %v; identity comparisons: %v", wraps, identityUsed))
		}
	}

	// ---- C03.6 the error surface of classification: whatever a probe sends, a transport answers "more data" or
	// "not mine" (the two outcomes on which the handler keeps reading / draining); any other error takes the
	// handler's give-up branch, which stops reading. Other errors are acceptable only after identification
	// (reviewed per transport below).
	r.Rule("C03.6", "before identification a wrapping transport returns only ErrTryAgain / ErrNotTransport (possibly wrapped)", 3)
	{
		ec := newErrClassifier(c)
		const regState = "depends only on the stored state of a registration on the phantom (its key stream / keys), not on the probe's bytes"
		const afterMark = "returned only after the client's mark matched a registration's keys, i.e. after identification"
		const afterTag = "returned only after the revealed tag matched a registration (the client proved knowledge of that registration's secret)"
		reviewed := map[string]map[string]string{
			"obfs4": {
				"other:fmt.Errorf(broken registration)": regState, "other:fmt.Errorf(Incorrect Key Type)": regState,
				"other:golang.org/x/crypto/curve25519.X25519": regState, "dtls.ErrInsufficientBuffer": regState, "net.ErrClosed": regState,
				"other:fmt.Errorf(use of Read on packet-oriented…)": regState, "other:new(net.OpError)": regState, "other:readBytes.err": regState, "other:s.readErr": regState,
				"other:github.com/refraction-networking/obfs4/common/drbg.NewSeed":                         afterMark,
				"other:(*github.com/refraction-networking/obfs4/transports/obfs4.Transport).ServerFactory": afterMark,
				"other:(github.com/refraction-networking/obfs4/transports/base.ServerFactory).WrapConn":    afterMark,
			},
			"prefix": {"prefix.ErrIncorrectPrefix": afterTag, "prefix.ErrIncorrectTransport": afterTag},
		}
		for _, f := range wrappingImpls(c) {
			classes := ec.ofFunc(f, 2)
			tp := fnPkgPath(f)
			tp = tp[strings.LastIndex(tp, "/")+1:]
			var bad, rev []string
			for _, k := range sortedKeys(classes) {
				switch {
				case k == "nil", k == "transports.ErrTryAgain", k == "transports.ErrNotTransport":
					continue
				case reviewed[tp][k] != "":
					rev = append(rev, k)
					continue
				case !strings.HasPrefix(k, "other:") && !strings.HasPrefix(k, "param:"):
					// a package-level error whose initialiser wraps one of the two sentinels carries their class
					if gl := findErrGlobal(c, k); gl != nil {
						cls := ec.globalClass(gl)
						if cls["transports.ErrTryAgain"] || cls["transports.ErrNotTransport"] {
							continue
						}
					}
				}
				bad = append(bad, k)
			}
			if len(bad) == 0 {
				ev := "nil / try-again / not-transport"
				if len(rev) > 0 {
					ev += "; reviewed: " + strings.Join(rev, ", ")
				}
				r.OK("C03.6", fnName(f)+": error classes before identification", f.Pos(), ev)
			} else {
				r.Bad("C03.6", fnName(f)+": can return "+firstN(strings.Join(bad, ", "), 90), f.Pos(), fnName(f),
					"on unauthenticated input this transport can return an error that is neither ErrTryAgain nor ErrNotTransport nor in the reviewed table ("+strings.Join(bad, ", ")+"): the handler then gives up on the connection and sleeps until the deadline without reading, so the station's reaction (it stops reading; a writer blocks) depends on the probe's bytes")
			}
		}
		// the prefix transport's two post-identification errors really are post-identification
		if tf := c.fn("C03.6", "pkg/transports/wrapping/prefix", "Transport", "tryFindReg"); tf != nil {
			var getReg *ssa.Call
			for _, ci := range callsIn(tf, shortIs("getReg")) {
				getReg, _ = ci.(*ssa.Call)
			}
			n := 0
			eachInstr(tf, func(in ssa.Instruction) {
				u, ok := in.(*ssa.UnOp)
				if !ok || u.Op != token.MUL {
					return
				}
				g, ok := u.X.(*ssa.Global)
				if !ok || (g.Name() != "ErrIncorrectTransport" && g.Name() != "ErrIncorrectPrefix") {
					return
				}
				// uses that produce the error (not errors.Is tests of an already recorded one)
				produces := false
				for _, ref := range *u.Referrers() {
					switch x := ref.(type) {
					case *ssa.Return, *ssa.Store, *ssa.MakeInterface, *ssa.Phi:
						_ = x
						produces = true
					}
				}
				if !produces {
					return
				}
				n++
				okk := getReg != nil && guarded(tf, in, errAtoms(getReg, true)...)
				if !okk {
					// the final `return ErrIncorrectPrefix` is guarded by errors.Is(eWrongPrefix, ErrIncorrectPrefix), and
					// eWrongPrefix is only assigned under the getReg guard
					okk = guardedM(tf, in, func(cnd string, pol bool) bool {
						return pol && strings.HasPrefix(cnd, "errors.Is(") && strings.Contains(cnd, "prefix.ErrIncorrectPrefix")
					})
				}
				r.Check(okk, "C03.6", "tryFindReg: "+g.Name()+" only after a registration was found under the revealed tag", in.Pos(), fnName(tf), "dominated by getReg err == nil (or by the recorded wrong-prefix match)",
					g.Name()+" can be produced although no registration was found under the revealed tag: a probe triggers the handler's give-up branch")
			})
			if n == 0 {
				r.Note("C03.6: tryFindReg no longer produces ErrIncorrectTransport / ErrIncorrectPrefix")
			}
		}
	}

	// ---- C03.9 a probe cannot take the process (and with it every open connection) down through the prefix table: every
	// default prefix keeps Offset == len(static match) and MinLen == MaxLen == Offset + tag, so the tag slice the length
	// test admits is inside the buffer (shared with C04.3)
	r.Rule("C03.9", "prefix table: offsets and length thresholds agree for every default prefix", 10)
	checkPrefixTableAs(c, "C03.9")

	// ---- C03.10 nothing the handler calls before it reads can wedge on the registry lock: no acquisition of a station
	// mutex while it may already be held (sync.RWMutex: a second RLock behind a waiting writer never returns; the
	// handler then neither reads the probe nor closes it). Shared with C09.6.
	r.Rule("C03.10", "no re-entrant acquisition of a mutex in the station library", 10)
	checkNoReentrancy(r, "C03.10", c.funcsOfPkgs("pkg/station/lib"), nil)

	// ---- C03.8 the handler turns a peer away before the deadline is armed only when an address lookup FAILED; what a
	// lookup says about the address (no record, reserved AS number, unknown country) is an answer, not a failure -
	// otherwise every peer from an address the databases do not cover is closed at once, whatever it sends
	// ---- C03.12 the only exit before the deadline is "the peer has no IP address": for a TCP peer the address is taken
	// from the socket address itself (a printed address with an IPv6 zone does not parse back)
	r.Rule("C03.12", "a TCP peer's address is read from its *net.TCPAddr, not re-parsed from text", 1)
	if f := c.fn("C03.12", "cmd/application", "", "getRemoteAsIP"); f != nil {
		okk := false
		eachInstr(f, func(in ssa.Instruction) {
			ta, ok := in.(*ssa.TypeAssert)
			if !ok || typeShort(ta.AssertedType) != "*net.TCPAddr" || !strings.HasSuffix(pathOf(ta.X), ".RemoteAddr()") {
				return
			}
			want := pathOf(ta)
			if ta.CommaOk {
				want += "#0"
			}
			want += ".IP"
			// its IP is what the function answers (directly or through the named result)
			eachInstr(f, func(in2 ssa.Instruction) {
				switch x := in2.(type) {
				case *ssa.Return:
					if len(x.Results) == 1 && pathOf(x.Results[0]) == want {
						okk = true
					}
				case *ssa.Store:
					if _, isA := x.Addr.(*ssa.Alloc); isA && pathOf(x.Val) == want {
						okk = true
					}
				case *ssa.Phi:
					for _, e := range x.Edges {
						if pathOf(e) == want {
							okk = true
						}
					}
				}
			})
		})
		r.Check(okk, "C03.12", "getRemoteAsIP: answers the IP of the connection's *net.TCPAddr", f.Pos(), fnName(f), "type test on RemoteAddr(), its IP field returned",
			"the peer address of a TCP connection is not taken from its *net.TCPAddr: an address rebuilt from the printed form is nil for zone-scoped (link-local IPv6) sources, the handler treats the peer as 'not an IP connection' and returns before setting the deadline - such probes are closed at once")
	}

	// ---- C03.11 positive identification means this connection's own tag was revealed and found
	r.Rule("C03.11", "the prefix transport identifies a peer only by the tag revealed from this connection's bytes", 1)
	checkPrefixLookupKey(c, "C03.11")
	checkAcceptToHandler(c, h)
	// ---- C03.16 nothing a probe can trigger takes the station down: the candidate set the transports range over on every
	// read is a copy made under the lock, never the tracking map itself (shared with C11.9 / C08.6)
	checkLiveLookup(c, "C03.16", "every wrapping transport ranges over it on every read of an unidentified connection while ingest and the sweep write the same map: the runtime aborts the process ('concurrent map iteration and map write'), and every pending unauthenticated connection is hung up before its deadline")
	// ---- C03.15 "writes no byte to the peer": what a handler classifies is what ITS peer sent - the buffer its Read fills
	// is memory of this call (a buffer from a free list can be on the list twice, and then two handlers classify each
	// other's bytes: a prober is matched with a client's tag and gets the covert's bytes)
	r.Rule("C03.15", "the handler reads the peer's bytes into a buffer allocated by that call", 1)
	if h != nil {
		n := 0
		eachInstr(h, func(in ssa.Instruction) {
			call, ok := in.(*ssa.Call)
			if !ok || !call.Call.IsInvoke() || call.Call.Method.Name() != "Read" || len(call.Call.Args) != 1 {
				return
			}
			n++
			why := privateBuffer(h, call.Call.Args[0], 0)
			r.Check(why == "", "C03.15", "handleNewTCPConn: the buffer handed to Read is private to this connection", call.Pos(), fnName(h), "allocated in this call: "+firstN(pathOf(call.Call.Args[0]), 50),
				"the handler reads into memory that is "+why+": two handlers can read into the same array, so one connection is classified by another connection's bytes - a probe that never presented a tag can be matched, marked and proxied")
		})
		if n == 0 {
			r.Unk("C03.15", "handleNewTCPConn: Read", h.Pos(), fnName(h), "no Read on the connection found")
		}
	}
	// ---- C03.14 the handler's first step asks the manager's GeoIP database (an interface, no nil test): it must never
	// be replaced by the nil result of a failed open, or the next probe takes the station - and every pending
	// connection - down
	r.Rule("C03.14", "the registration manager's GeoIP database is replaced only by a database that opened", 2)
	checkGeoIPReplaced(c, "C03.14")
	r.Rule("C03.8", "the GeoIP wrappers report an error only when the database reader returned one", 2)
	for _, m := range []string{"ASN", "CC"} {
		f := c.fn("C03.8", "pkg/station/geoip", "maxMindDatabase", m)
		if f == nil {
			continue
		}
		var lookups []*ssa.Call
		eachInstr(f, func(in ssa.Instruction) {
			if call, ok := in.(*ssa.Call); ok && strings.Contains(calleeName(&call.Call), "geoip2-golang.Reader).") {
				lookups = append(lookups, call)
			}
		})
		nErr, okAll := 0, len(lookups) > 0
		eachInstr(f, func(in ssa.Instruction) {
			ret, ok := in.(*ssa.Return)
			if !ok || len(ret.Results) != 2 || ret.Block().Comment == "recover" {
				return
			}
			if cst, isC := returnedValue(ret, 1, nil).(*ssa.Const); isC && cst.Value == nil {
				return
			}
			nErr++
			g := false
			for _, lk := range lookups {
				if guarded(f, ret, errAtoms(lk, false)...) {
					g = true
				}
			}
			if !g {
				okAll = false
			}
		})
		r.Check(okAll, "C03.8", "geoip "+m+": an error is returned only after the reader's lookup failed", f.Pos(), fnName(f), fmt.Sprintf("%d error return(s), each dominated by the reader's err != nil", nErr),
			"the "+m+" lookup reports an error for an address the database merely has no (useful) record for: the connection handler returns on that error before it arms the classification deadline, so such peers are closed immediately instead of being read until the deadline")
	}

	// ---- C03.7 the handler waits on nothing but the connection: a handler parked on a channel or a wait group is
	// not reading the probe, and the classification deadline (a read deadline) cannot fire for it
	r.Rule("C03.7", "the connection handler (and the helpers it calls in its package) never parks on a channel, select or wait group", 1)
	if h != nil {
		var ops []string
		nFn := 0
		var firstPos token.Pos
		eachInstrDeep(h, 3, func(in ssa.Instruction, d deepCtx) {
			if in == d.f.Blocks[0].Instrs[0] {
				nFn++
			}
			if what := parksOn(in); what != "" {
				if len(ops) == 0 {
					firstPos = in.Pos()
				}
				ops = append(ops, fnName(d.f)+": "+what)
			}
		})
		for _, a := range h.AnonFuncs {
			eachInstr(a, func(in ssa.Instruction) {
				if what := parksOn(in); what != "" {
					ops = append(ops, fnName(a)+": "+what)
				}
			})
		}
		if len(ops) == 0 {
			r.OK("C03.7", "handleNewTCPConn: no channel / select / wait-group wait before identification", h.Pos(), fmt.Sprintf("%d functions of the package reachable from the handler scanned", nFn))
		} else {
			sort.Strings(ops)
			r.Bad("C03.7", "handleNewTCPConn: can park on "+firstN(strings.Join(ops, "; "), 120), firstPos, fnName(h),
				"while the handler waits there it does not read what the peer sends and its deadline cannot fire: depending on the state other connections left behind, a probe is neither consumed nor closed at the deadline", ops...)
		}
	}

	// ---- C03.1 (transports) and C03.4
	impls := wrappingImpls(c)
	if len(impls) < 3 {
		r.Unk("C03.1", "WrapConnection implementations", token.NoPos, "", fmt.Sprintf("found %d, expected >= 3 (min, prefix, obfs4)", len(impls)))
	}
	for _, f := range impls {
		connP := f.Params[2]
		n := 0
		okAll := true
		var prepend []*ssa.Call
		if connP.Referrers() != nil {
			for _, ref := range *connP.Referrers() {
				n++
				ci, ok := ref.(ssa.CallInstruction)
				if ok && strings.HasSuffix(calleeName(ci.Common()), "pkg/transports.PrependToConn") && ci.Common().Args[0] == ssa.Value(connP) {
					if call, ok := ref.(*ssa.Call); ok {
						prepend = append(prepend, call)
					}
					continue
				}
				if _, isDbg := ref.(*ssa.DebugRef); isDbg {
					n--
					continue
				}
				// the connection may be placed into a deadline-forwarding wrapper that is returned with a nil error,
				// but only after positive identification (obfs4: mark matched and handshake succeeded)
				if st, isSt := ref.(*ssa.Store); isSt && st.Val == ssa.Value(connP) {
					if fa, ok := st.Addr.(*ssa.FieldAddr); ok {
						if al, ok := fa.X.(*ssa.Alloc); ok {
							identified := guardedM(f, st, func(cnd string, pol bool) bool {
								return !pol && strings.Contains(cnd, "findMarkMac") && strings.HasPrefix(cnd, "(-1 == ")
							})
							onlyNil := true
							for _, r2 := range *al.Referrers() {
								if ld, ok := r2.(*ssa.UnOp); ok {
									for _, r3 := range *ld.Referrers() {
										if mi, ok := r3.(*ssa.MakeInterface); ok {
											for _, r4 := range *mi.Referrers() {
												if rt, ok := r4.(*ssa.Return); ok {
													if cst, isC := rt.Results[2].(*ssa.Const); !isC || cst.Value != nil {
														onlyNil = false
													}
												} else if _, isDbg := r4.(*ssa.DebugRef); !isDbg {
													onlyNil = false
												}
											}
										}
									}
								}
							}
							if identified && onlyNil {
								continue
							}
						}
					}
				}
				okAll = false
				r.Bad("C03.1", fnName(f)+": connection parameter used by "+firstN(ref.String(), 60), ref.Pos(), fnName(f),
					"a transport touches the client connection other than by wrapping it after identification: it may write, close or read before the transport has positively identified itself")
			}
		}
		if okAll {
			r.OK("C03.1", fnName(f)+": connection parameter escapes only into PrependToConn", f.Pos(), fmt.Sprintf("%d use(s)", n))
		}
		for _, pc := range prepend {
			// every use of the wrapped connection: returned with a nil error, or passed on only after a positive match
			for _, ref := range *pc.Referrers() {
				switch x := ref.(type) {
				case *ssa.Return:
					cst, isC := x.Results[2].(*ssa.Const)
					r.Check(isC && cst.Value == nil, "C03.1", fnName(f)+": wrapped connection returned only with a nil error", x.Pos(), fnName(f), "return reg, PrependToConn(c, data), nil", "the wrapped connection is returned together with an error")
				case *ssa.MakeInterface, *ssa.ChangeInterface:
					v := x.(ssa.Value)
					for _, r2 := range *v.Referrers() {
						switch y := r2.(type) {
						case *ssa.Return:
							cst, isC := y.Results[2].(*ssa.Const)
							r.Check(isC && cst.Value == nil, "C03.1", fnName(f)+": wrapped connection returned only with a nil error", y.Pos(), fnName(f), "return reg, PrependToConn(c, data), nil", "the wrapped connection is returned together with an error")
						case *ssa.Call:
							g := guardedM(f, y, func(cnd string, pol bool) bool {
								return !pol && strings.Contains(cnd, "findMarkMac") && strings.HasPrefix(cnd, "(-1 == ")
							})
							r.Check(g, "C03.1", fnName(f)+": connection handed to "+calleeShort(&y.Call)+" only after the mark matched", y.Pos(), fnName(f), "guarded by findMarkMac(...) != -1",
								"the connection is handed to the handshake code before the transport has positively identified the client (mark not matched): the station may answer a probe")
						default:
							if _, isDbg := r2.(*ssa.DebugRef); !isDbg {
								r.Bad("C03.1", fnName(f)+": wrapped connection used by "+firstN(r2.String(), 50), r2.Pos(), fnName(f), "unreviewed use of the wrapped client connection")
							}
						}
					}
				case *ssa.DebugRef:
				default:
					r.Bad("C03.1", fnName(f)+": wrapped connection used by "+firstN(ref.String(), 50), ref.Pos(), fnName(f), "unreviewed use of the wrapped client connection")
				}
			}
		}
		// C03.4: obfs4 thresholds
		if strings.Contains(fnPkgPath(f), "/obfs4") {
			maxHS := constIntOf(c.P, fnPkgPath(f), "MaxHandshakeLength")
			minHS := constIntOf(c.P, fnPkgPath(f), "ClientMinHandshakeLength")
			r.Check(maxHS == "8192", "C03.4", "obfs4: MaxHandshakeLength == 8192", f.Pos(), fnName(f), maxHS, "the maximum handshake length differs from the obfs4 protocol's 8192")
			eachInstr(f, func(in ssa.Instruction) {
				ret, ok := in.(*ssa.Return)
				if !ok || len(ret.Results) != 3 {
					return
				}
				switch pathOf(ret.Results[2]) {
				case "transports.ErrNotTransport":
					g := guarded(f, ret, Atom{"(data.Len() < " + maxHS + ")", false})
					r.Check(g, "C03.4", "obfs4: ErrNotTransport only when data.Len() >= MaxHandshakeLength", ret.Pos(), fnName(f), "guarded",
						"obfs4 gives up before the maximum handshake length: the station's reaction changes at a recognisable, smaller byte count (and long valid handshakes are rejected)")
				case "transports.ErrTryAgain":
					g := guarded(f, ret, Atom{"(data.Len() < " + maxHS + ")", true}, Atom{"(data.Len() < " + minHS + ")", true})
					r.Check(g, "C03.4", "obfs4: ErrTryAgain only below a handshake-length threshold", ret.Pos(), fnName(f), "guarded by data.Len() < "+minHS+" or < "+maxHS, "obfs4 asks for more data although the threshold has been reached")
				}
			})
		}
	}
}

// onlyObserves: the callee only calls accessor methods on its parameter #idx (and may pass it to other observers).
func onlyObserves(f *ssa.Function, idx int, depth int) bool {
	if depth > 3 || f.Blocks == nil || idx >= len(f.Params) {
		return false
	}
	p := f.Params[idx]
	if p.Referrers() == nil {
		return true
	}
	ok := true
	for _, ref := range *p.Referrers() {
		switch x := ref.(type) {
		case *ssa.DebugRef:
		case ssa.CallInstruction:
			cc := x.Common()
			if cc.IsInvoke() && cc.Value == ssa.Value(p) {
				switch cc.Method.Name() {
				case "RemoteAddr", "LocalAddr":
				default:
					ok = false
				}
				continue
			}
			ok = false
		case *ssa.TypeAssert, *ssa.ChangeInterface, *ssa.MakeInterface:
			// type switches on the value: their results must not be called with mutators; keep simple: disallow calls on them other than accessors
			v := ref.(ssa.Value)
			if v.Referrers() != nil {
				for _, r2 := range *v.Referrers() {
					if ci, isCall := r2.(ssa.CallInstruction); isCall {
						if !ci.Common().IsInvoke() || (ci.Common().Method.Name() != "RemoteAddr" && ci.Common().Method.Name() != "LocalAddr") {
							ok = false
						}
					}
				}
			}
		default:
			_ = types.Typ
			ok = false
		}
	}
	return ok
}

// findErrGlobal resolves "pkg.Name" to the package-level variable of a repository package.
func findErrGlobal(c *Ctx, qual string) *ssa.Global {
	i := strings.Index(qual, ".")
	if i < 0 {
		return nil
	}
	for _, sp := range c.P.SSAPkgs {
		if sp.Pkg.Name() == qual[:i] {
			if g, ok := sp.Members[qual[i+1:]].(*ssa.Global); ok {
				return g
			}
		}
	}
	return nil
}

// parksOn: the instruction can block the goroutine for an unbounded time on something other than I/O: a channel
// send or receive, a select without default, a WaitGroup or Cond wait. (Mutexes are not counted: the critical
// sections of this code base are short and lock-order rules cover them.)
func parksOn(in ssa.Instruction) string {
	switch x := in.(type) {
	case *ssa.Send:
		return "send on " + firstN(pathOf(x.Chan), 40)
	case *ssa.UnOp:
		if x.Op == token.ARROW {
			return "receive from " + firstN(pathOf(x.X), 40)
		}
	case *ssa.Select:
		if x.Blocking {
			return "select without default"
		}
	case *ssa.Call:
		switch calleeName(&x.Call) {
		case "(*sync.WaitGroup).Wait", "(*sync.Cond).Wait":
			return "call " + calleeShort(&x.Call)
		}
	}
	return ""
}

// drainsOnly: in helper f the connection parameter idx is only observed (RemoteAddr / LocalAddr) or read to
// exhaustion into io.Discard - nothing else touches it.
func drainsOnly(f *ssa.Function, idx int) bool {
	if f == nil || f.Blocks == nil || idx >= len(f.Params) {
		return false
	}
	p := f.Params[idx]
	if p.Referrers() == nil {
		return true
	}
	for _, ref := range *p.Referrers() {
		switch x := ref.(type) {
		case *ssa.DebugRef:
		case ssa.CallInstruction:
			cc := x.Common()
			if cc.IsInvoke() && cc.Value == ssa.Value(p) {
				switch cc.Method.Name() {
				case "RemoteAddr", "LocalAddr":
				default:
					return false
				}
				continue
			}
			return false
		case *ssa.MakeInterface, *ssa.ChangeInterface:
			// io.Copy(io.Discard, conn): the conversion to io.Reader may only feed that call
			v := ref.(ssa.Value)
			if v.Referrers() != nil {
				for _, r2 := range *v.Referrers() {
					if _, isDbg := r2.(*ssa.DebugRef); isDbg {
						continue
					}
					ci, isCall := r2.(ssa.CallInstruction)
					if !isCall || calleeName(ci.Common()) != "io.Copy" || len(ci.Common().Args) != 2 || pathOf(ci.Common().Args[0]) != "io.Discard" || ci.Common().Args[1] != v {
						return false
					}
				}
			}
		default:
			return false
		}
	}
	return true
}

// mustDrain: every path through helper f drains its connection parameter idx into io.Discard before it returns.
func mustDrain(f *ssa.Function, idx int) bool {
	p := f.Params[idx]
	isDrain := func(in ssa.Instruction) bool {
		ci, ok := in.(ssa.CallInstruction)
		if !ok || calleeName(ci.Common()) != "io.Copy" || len(ci.Common().Args) != 2 || pathOf(ci.Common().Args[0]) != "io.Discard" {
			return false
		}
		src := ci.Common().Args[1]
		if src == ssa.Value(p) {
			return true
		}
		switch x := src.(type) {
		case *ssa.MakeInterface:
			return x.X == ssa.Value(p)
		case *ssa.ChangeInterface:
			return x.X == ssa.Value(p)
		}
		return false
	}
	skip, _ := reach(f, nil, isReturn, isDrain, nil)
	return !skip
}

// connAliases: v and the values that are the same connection (interface conversions, phis).
func connAliases(f *ssa.Function, v ssa.Value) map[ssa.Value]bool {
	aliases := map[ssa.Value]bool{v: true}
	for changed := true; changed; {
		changed = false
		eachInstr(f, func(in ssa.Instruction) {
			switch x := in.(type) {
			case *ssa.ChangeInterface:
				if aliases[x.X] && !aliases[x] {
					aliases[x], changed = true, true
				}
			case *ssa.MakeInterface:
				if aliases[x.X] && !aliases[x] {
					aliases[x], changed = true, true
				}
			case *ssa.Phi:
				for _, e := range x.Edges {
					if aliases[e] && !aliases[x] {
						aliases[x], changed = true, true
					}
				}
			case *ssa.FieldAddr:
				// the embedded connection of *net.TCPConn / *net.UDPConn (receiver of the promoted methods)
				if aliases[x.X] && !aliases[x] {
					if st, ok := x.X.Type().Underlying().(*types.Pointer); ok {
						if stt, ok := st.Elem().Underlying().(*types.Struct); ok && stt.Field(x.Field).Embedded() {
							aliases[x], changed = true, true
						}
					}
				}
			}
		})
	}
	return aliases
}

// checkAcceptToHandler (C03.13): the classification handler is the only code that decides what happens to a peer.
// Between the listener's Accept and the handler (a) the accepted connection is handed to the handler goroutine and
// to nothing else, whatever any other condition says (a connection cap, a per-source limiter or a shutdown test that
// closes or skips a freshly accepted connection answers a probe at once, before the 5-10 s deadline); (b) the
// function the goroutine runs touches the connection only through File(), the address accessors, a *deferred* Close
// and the hand-over to the handler, and reaches the handler unless a call on the connection (or on its descriptor)
// reported an error.
func checkAcceptToHandler(c *Ctx, h *ssa.Function) {
	r := c.R
	r.Rule("C03.13", "an accepted connection goes to the classification handler and to nothing else; the path from Accept to the handler depends only on errors of calls on that connection", 2)
	nAccept := 0
	for _, f := range c.funcsOfPkgs("cmd/application") {
		for _, ff := range withAnon(f) {
			eachInstr(ff, func(in ssa.Instruction) {
				call, ok := in.(*ssa.Call)
				if !ok {
					return
				}
				cc := &call.Call
				mname := ""
				if cc.IsInvoke() {
					mname = cc.Method.Name()
				} else if sc := cc.StaticCallee(); sc != nil && sc.Signature.Recv() != nil {
					mname = sc.Name()
				}
				if mname != "Accept" && mname != "AcceptTCP" {
					return
				}
				rt := ""
				if cc.IsInvoke() {
					rt = typeShort(cc.Value.Type())
				} else if len(cc.Args) > 0 {
					rt = typeShort(cc.Args[0].Type())
				}
				if !strings.Contains(rt, "net.") || !strings.Contains(rt, "Listener") {
					return
				}
				nAccept++
				conns := extractOf(call, 0)
				if len(conns) == 0 {
					r.Unk("C03.13", fnName(ff)+": accepted connection", call.Pos(), fnName(ff), "the connection result of "+mname+" is not used")
					return
				}
				aliases := map[ssa.Value]bool{}
				for _, cv := range conns {
					for a := range connAliases(ff, cv) {
						aliases[a] = true
					}
				}
				var gos []*ssa.Go
				bad := false
				for a := range aliases {
					if a.Referrers() == nil {
						continue
					}
					for _, ref := range *a.Referrers() {
						switch x := ref.(type) {
						case *ssa.Go:
							callee := x.Call.StaticCallee()
							uses := false
							for _, arg := range x.Call.Args {
								if aliases[arg] {
									uses = true
								}
							}
							if callee != nil && isRepoPath(fnPkgPath(callee)) && uses && !(x.Call.IsInvoke()) {
								gos = append(gos, x)
								continue
							}
							bad = true
							r.Bad("C03.13", fnName(ff)+": accepted connection used by go "+shortName(pathOfCallee(&x.Call)), x.Pos(), fnName(ff), "the accepted connection is handed to a goroutine that is not a function of the station")
						case *ssa.ChangeInterface, *ssa.MakeInterface, *ssa.Phi, *ssa.DebugRef, *ssa.FieldAddr:
						case *ssa.BinOp:
							// comparison with nil
						default:
							if v, isV := ref.(ssa.Value); isV && aliases[v] {
								continue
							}
							bad = true
							r.Bad("C03.13", fnName(ff)+": accepted connection used by "+firstN(instrText(ref), 60), ref.Pos(), fnName(ff),
								"between Accept and the classification handler the connection is closed, written to or handed elsewhere: a peer that never presented a tag is answered before its deadline")
						}
					}
				}
				if bad {
					return
				}
				if len(gos) == 0 {
					r.Unk("C03.13", fnName(ff)+": hand-over of the accepted connection", call.Pos(), fnName(ff), "no go statement receives the accepted connection")
					return
				}
				errA := errAtoms(call, true)
				isErrNil := atomMatcher(errA...)
				var extra []string
				for _, g := range gos {
					g := g
					okk := reachGameFrom(ff, call.Block(), g, func(bl *ssa.BasicBlock) int {
						iff, ok := bl.Instrs[len(bl.Instrs)-1].(*ssa.If)
						if !ok {
							return gameAny
						}
						cnd, pol := normCond(iff.Cond)
						if isErrNil(cnd, pol) {
							return gameSucc0
						}
						if isErrNil(cnd, !pol) {
							return gameSucc1
						}
						extra = append(extra, cnd)
						return gameAll
					})
					r.Check(okk, "C03.13", fnName(ff)+": every accepted connection is handed to "+shortName(fnName(g.Call.StaticCallee())), g.Pos(), fnName(ff),
						"from a successful "+mname+" the go statement is reached whatever any other condition says",
						"a successfully accepted connection does not always reach the classification handler ("+firstN(strings.Join(uniq(sortedCopy(extra)), ", "), 120)+" decides): the connection is closed or dropped at once, so a probe is answered before the 5-10 s deadline")
					// (b) the goroutine's function
					g0 := g.Call.StaticCallee()
					if g0 == h || h == nil {
						continue
					}
					idx := -1
					for i, arg := range g.Call.Args {
						if aliases[arg] {
							idx = i
						}
					}
					checkConnCarrier(c, g0, idx, h)
				}
			})
		}
	}
	if nAccept == 0 {
		r.Unk("C03.13", "accept loop of the station", token.NoPos, "", "no call of Accept / AcceptTCP on a net listener found in cmd/application")
	}
}

func instrText(in ssa.Instruction) string {
	if ci, ok := in.(ssa.CallInstruction); ok {
		cc := ci.Common()
		pre := ""
		if _, isD := in.(*ssa.Defer); isD {
			pre = "defer "
		}
		if cc.IsInvoke() {
			return pre + typeShort(cc.Value.Type()) + "." + cc.Method.Name()
		}
		return pre + shortName(pathOfCallee(cc))
	}
	return in.String()
}

// checkConnCarrier: g receives the accepted connection as parameter idx and must carry it to the handler h.
func checkConnCarrier(c *Ctx, g *ssa.Function, idx int, h *ssa.Function) {
	r := c.R
	if g.Blocks == nil || idx < 0 || idx >= len(g.Params) {
		r.Unk("C03.13", fnName(g)+": carrier of the accepted connection", g.Pos(), fnName(g), "no body / connection parameter not identified")
		return
	}
	conn := g.Params[idx]
	aliases := connAliases(g, conn)
	allowed := map[string]bool{"File": true, "RemoteAddr": true, "LocalAddr": true}
	var toHandler []ssa.Instruction
	bad := false
	eachInstr(g, func(in ssa.Instruction) {
		ci, ok := in.(ssa.CallInstruction)
		if !ok {
			return
		}
		cc := ci.Common()
		recv := recvOf(cc)
		m := ""
		if cc.IsInvoke() {
			m = cc.Method.Name()
		} else if sc := cc.StaticCallee(); sc != nil && sc.Signature.Recv() != nil {
			m = sc.Name()
		}
		if recv != nil && aliases[recv] {
			_, isDefer := in.(*ssa.Defer)
			_, isGo := in.(*ssa.Go)
			switch {
			case isGo:
			case allowed[m] && !isDefer:
				return
			case m == "Close" && isDefer:
				return
			}
			bad = true
			r.Bad("C03.13", fnName(g)+": "+instrText(in)+" on the accepted connection", in.Pos(), fnName(g),
				"before the classification handler runs, the connection is closed, written to or altered ("+m+"): a peer that never presented a tag is answered before its deadline")
			return
		}
		for i, a := range argsOf(cc) {
			if !aliases[a] {
				continue
			}
			sc := cc.StaticCallee()
			switch {
			case sc == h:
				if _, isCall := in.(*ssa.Call); isCall {
					toHandler = append(toHandler, in)
				} else {
					bad = true
					r.Bad("C03.13", fnName(g)+": the handler is started with "+instrText(in), in.Pos(), fnName(g), "the handler is deferred or detached while this function's deferred Close runs")
				}
			case sc != nil && isRepoPath(fnPkgPath(sc)) && onlyObserves(sc, i, 0):
			case helperCallee(g, cc) != nil && helperOnlyInspects(helperCallee(g, cc), i, 0):
			default:
				bad = true
				r.Bad("C03.13", fnName(g)+": accepted connection escapes into "+shortName(pathOfCallee(cc)), in.Pos(), fnName(g), "the unidentified connection is handed to code that may write to or close it")
			}
		}
	})
	if bad {
		return
	}
	if len(toHandler) == 0 {
		r.Unk("C03.13", fnName(g)+": hand-over to "+shortName(fnName(h)), g.Pos(), fnName(g), "the function started for an accepted connection does not call the classification handler directly")
		return
	}
	var extra []string
	target := toHandler[0]
	okk := reachGame(g, target, func(bl *ssa.BasicBlock) int {
		iff, ok := bl.Instrs[len(bl.Instrs)-1].(*ssa.If)
		if !ok {
			return gameAny
		}
		// a condition may matter only if it tests the error of a call made on the connection or on something
		// obtained from it (its descriptor)
		cnd, _ := normCond(iff.Cond)
		if bo, ok := iff.Cond.(*ssa.BinOp); ok {
			for _, side := range []ssa.Value{bo.X, bo.Y} {
				if !types.Identical(side.Type(), types.Universe.Lookup("error").Type()) {
					continue
				}
				if cst, isC := side.(*ssa.Const); isC && cst.Value == nil {
					continue
				}
				if errOfCallOn(side, aliases, 0) {
					return gameAny
				}
			}
		}
		// ... or the verdict of a helper of the package that only inspects the connection and fails only when such
		// a call failed
		if cv, _ := stripNot(iff.Cond); cv != nil {
			if call, ridx, ok := boolCallOf(cv); ok {
				if hc := helperCallee(g, &call.Call); hc != nil {
					for i, a := range call.Call.Args {
						if aliases[a] && helperOnlyInspects(hc, i, 0) && helperFailsOnlyOnConnErrors(hc, i, ridx) {
							return gameAny
						}
					}
				}
			}
		}
		if hit, _ := reachAt(g, bl, isInstr(target), nil, nil); !hit {
			return gameAny
		}
		extra = append(extra, cnd)
		return gameAll
	})
	r.Check(okk, "C03.13", fnName(g)+": reaches "+shortName(fnName(h))+" unless a call on the connection failed", target.Pos(), fnName(g),
		"the handler call is reached whatever the outcome of every condition other than error tests of calls on the connection / its descriptor",
		"an accepted connection is closed (deferred Close) without ever reaching the classification handler when "+firstN(strings.Join(uniq(sortedCopy(extra)), ", "), 120)+" goes the wrong way: a probe is answered before the 5-10 s deadline")
}

// errOfCallOn: v is (a phi / load of a local holding) the error result of a call whose receiver or arguments derive
// from the connection.
func errOfCallOn(v ssa.Value, aliases map[ssa.Value]bool, depth int) bool {
	if depth > 4 {
		return false
	}
	switch x := v.(type) {
	case *ssa.Extract:
		return errOfCallOn(x.Tuple, aliases, depth+1)
	case *ssa.Phi:
		for _, e := range x.Edges {
			if cst, isC := e.(*ssa.Const); isC && cst.Value == nil {
				continue
			}
			if !errOfCallOn(e, aliases, depth+1) {
				return false
			}
		}
		return len(x.Edges) > 0
	case *ssa.UnOp:
		if a, ok := x.X.(*ssa.Alloc); ok && x.Op == token.MUL && a.Referrers() != nil {
			n, all := 0, true
			for _, ref := range *a.Referrers() {
				if st, ok := ref.(*ssa.Store); ok && st.Addr == a {
					if cst, isC := st.Val.(*ssa.Const); isC && cst.Value == nil {
						continue
					}
					n++
					all = all && errOfCallOn(st.Val, aliases, depth+1)
				}
			}
			return n > 0 && all
		}
	case *ssa.Call:
		for _, a := range append([]ssa.Value{}, x.Call.Args...) {
			for al := range aliases {
				if a == al || dependsOn(a, al) {
					return true
				}
			}
		}
		if x.Call.IsInvoke() {
			for al := range aliases {
				if x.Call.Value == al || dependsOn(x.Call.Value, al) {
					return true
				}
			}
		}
	}
	return false
}

// helperOnlyInspects: f uses its connection parameter idx only through File() and the address accessors, or hands it
// to functions that do the same.
func helperOnlyInspects(f *ssa.Function, idx int, depth int) bool {
	if f == nil || f.Blocks == nil || idx < 0 || idx >= len(f.Params) || depth > 2 {
		return false
	}
	aliases := connAliases(f, f.Params[idx])
	allowed := map[string]bool{"File": true, "RemoteAddr": true, "LocalAddr": true}
	ok := true
	eachInstr(f, func(in ssa.Instruction) {
		ci, isCall := in.(ssa.CallInstruction)
		if !isCall {
			if st, isSt := in.(*ssa.Store); isSt && aliases[st.Val] {
				if _, local := st.Addr.(*ssa.Alloc); !local {
					ok = false
				}
			}
			return
		}
		cc := ci.Common()
		if recv := recvOf(cc); recv != nil && aliases[recv] {
			m := ""
			if cc.IsInvoke() {
				m = cc.Method.Name()
			} else if sc := cc.StaticCallee(); sc != nil {
				m = sc.Name()
			}
			if _, isCallI := in.(*ssa.Call); !isCallI || !allowed[m] {
				ok = false
			}
			return
		}
		for i, a := range argsOf(cc) {
			if !aliases[a] {
				continue
			}
			sc := cc.StaticCallee()
			switch {
			case sc != nil && isRepoPath(fnPkgPath(sc)) && onlyObserves(sc, i, 0):
			case helperCallee(f, cc) != nil && helperOnlyInspects(helperCallee(f, cc), i, depth+1):
			default:
				ok = false
			}
		}
	})
	return ok
}

// helperFailsOnlyOnConnErrors: result ridx of f (a bool, or an error) reports success (true / nil) whatever any
// condition says other than the error tests of calls made on the connection parameter idx or on its descriptor.
func helperFailsOnlyOnConnErrors(f *ssa.Function, idx, ridx int) bool {
	aliases := connAliases(f, f.Params[idx])
	won := false
	eachInstr(f, func(in ssa.Instruction) {
		ret, ok := in.(*ssa.Return)
		if !ok || won || ridx >= len(ret.Results) {
			return
		}
		cst, isC := returnedValue(ret, ridx, nil).(*ssa.Const)
		if !isC {
			return
		}
		success := cst.Value == nil && !isBoolType(cst.Type()) || cst.Value != nil && cst.Value.Kind() == constant.Bool && constant.BoolVal(cst.Value)
		if !success {
			return
		}
		won = reachGame(f, ret, func(bl *ssa.BasicBlock) int {
			iff, ok := bl.Instrs[len(bl.Instrs)-1].(*ssa.If)
			if !ok {
				return gameAny
			}
			if bo, ok := iff.Cond.(*ssa.BinOp); ok {
				for _, side := range []ssa.Value{bo.X, bo.Y} {
					if cst, isC := side.(*ssa.Const); isC && cst.Value == nil {
						continue
					}
					if types.Identical(side.Type(), types.Universe.Lookup("error").Type()) && errOfCallOn(side, aliases, 0) {
						return gameAny
					}
				}
			}
			if hit, _ := reachAt(f, bl, isInstr(ret), nil, nil); !hit {
				return gameAny
			}
			return gameAll
		})
	})
	return won
}

func isBoolType(t types.Type) bool {
	b, ok := t.Underlying().(*types.Basic)
	return ok && b.Info()&types.IsBoolean != 0
}

// nearestBranch: the condition of the nearest If above block b through single-predecessor blocks (the branch that sends
// control here), normalised, and the condition value itself.
func nearestBranch(b *ssa.BasicBlock) (string, ssa.Value) {
	for hops := 0; hops < 8 && b != nil; hops++ {
		if len(b.Preds) != 1 {
			return "", nil
		}
		p := b.Preds[0]
		if iff, isIf := p.Instrs[len(p.Instrs)-1].(*ssa.If); isIf {
			cnd, _ := normCond(iff.Cond)
			return cnd, iff.Cond
		}
		b = p
	}
	return "", nil
}
