package main

import (
	"sort"
	"strings"

	"golang.org/x/tools/go/ssa"
)

// E3 Lockset. A mutex is identified by the access path of the receiver of
// Lock/RLock/Unlock/RUnlock (e.g. "r.m", "p.selectorMutex"), a held lock by
// "path/W" or "path/R".

type lockSet map[string]bool

func (s lockSet) clone() lockSet {
	o := lockSet{}
	for k := range s {
		o[k] = true
	}
	return o
}
func (s lockSet) equal(o lockSet) bool {
	if len(s) != len(o) {
		return false
	}
	for k := range s {
		if !o[k] {
			return false
		}
	}
	return true
}
func (s lockSet) String() string {
	var ks []string
	for k := range s {
		ks = append(ks, k)
	}
	sort.Strings(ks)
	return "{" + strings.Join(ks, ",") + "}"
}
func (s lockSet) holdsPath(p string) (string, bool) {
	if s[p+"/W"] {
		return p + "/W", true
	}
	if s[p+"/R"] {
		return p + "/R", true
	}
	return "", false
}

// lockOp classifies a call as a mutex operation.
// Returns (mutexPath, mode, op) with op in "lock","unlock","" .
func lockOp(c *ssa.CallCommon) (string, string, string) {
	n := calleeName(c)
	var mode, op string
	switch n {
	case "(*sync.Mutex).Lock", "(*sync.RWMutex).Lock":
		mode, op = "W", "lock"
	case "(*sync.RWMutex).RLock":
		mode, op = "R", "lock"
	case "(*sync.Mutex).Unlock", "(*sync.RWMutex).Unlock":
		mode, op = "W", "unlock"
	case "(*sync.RWMutex).RUnlock":
		mode, op = "R", "unlock"
	default:
		return "", "", ""
	}
	if len(c.Args) == 0 {
		return "", "", ""
	}
	p := pathOf(c.Args[0])
	recordLockOwner(c.Args[0], p)
	return p, mode, op
}

// lockOwners maps (function, mutex path) to "OwnerType.field" of the mutex, so
// that rules can ask "is some lib.RegisteredDecoys.m held here".
var lockOwners = map[string]string{}

func recordLockOwner(recv ssa.Value, path string) {
	v := recv
	if u, ok := v.(*ssa.UnOp); ok { // pointer-typed mutex field: *sync.Mutex loaded from a field
		v = u.X
	}
	if o, f, ok := fieldOwner(v); ok && recv.Parent() != nil {
		lockOwners[recv.Parent().String()+"|"+path] = o + "." + f
	}
}

// holdsOwner reports whether set contains a lock (W, or R when !write) whose mutex is field "Owner.field".
func holdsOwner(fn *ssa.Function, set lockSet, owner string, write bool) (string, bool) {
	for k := range set {
		if strings.HasPrefix(k, "defer:") {
			continue
		}
		i := strings.LastIndexByte(k, '/')
		path, mode := k[:i], k[i+1:]
		if write && mode != "W" {
			continue
		}
		if lockOwners[fn.String()+"|"+path] == owner {
			return k, true
		}
	}
	return "", false
}

// LockFlow is the per-instruction result of the lockset analysis of one function.
type LockFlow struct {
	Fn   *ssa.Function
	May  map[ssa.Instruction]lockSet // locks possibly held just before the instruction
	Must map[ssa.Instruction]lockSet // locks definitely held just before the instruction
	// ExitMay: locks possibly still held at a Return that are not released by a registered defer.
	ExitLeak []string
}

// analyseLocks runs the forward may/must analysis. entryMust/entryMay are the
// locks assumed held on entry (for helpers analysed under a caller's lock).
func analyseLocks(fn *ssa.Function, entry lockSet) *LockFlow {
	lf := &LockFlow{Fn: fn, May: map[ssa.Instruction]lockSet{}, Must: map[ssa.Instruction]lockSet{}}
	if len(fn.Blocks) == 0 {
		return lf
	}
	n := len(fn.Blocks)
	inMay := make([]lockSet, n)
	inMust := make([]lockSet, n) // nil = top (unvisited)
	// deferred unlocks registered so far are tracked as pseudo-locks "defer:path/M" in the may/must sets
	inMay[0] = entry.clone()
	inMust[0] = entry.clone()
	work := []int{0}
	inWork := map[int]bool{0: true}
	transfer := func(b *ssa.BasicBlock, may, must lockSet, record bool) (lockSet, lockSet) {
		may, must = may.clone(), must.clone()
		for _, in := range b.Instrs {
			if record {
				lf.May[in] = may.clone()
				lf.Must[in] = must.clone()
			}
			switch x := in.(type) {
			case *ssa.Call:
				p, m, op := lockOp(&x.Call)
				switch op {
				case "lock":
					may[p+"/"+m] = true
					must[p+"/"+m] = true
				case "unlock":
					delete(may, p+"/"+m)
					delete(must, p+"/"+m)
				}
			case *ssa.Defer:
				p, m, op := lockOp(&x.Call)
				if op == "unlock" {
					may["defer:"+p+"/"+m] = true
					must["defer:"+p+"/"+m] = true
				} else if mc, ok := x.Call.Value.(*ssa.MakeClosure); ok {
					// defer func() { mu.Unlock() }()
					if cf, ok := mc.Fn.(*ssa.Function); ok {
						eachInstr(cf, func(ci ssa.Instruction) {
							if cc, ok := ci.(*ssa.Call); ok {
								if p, m, op := lockOp(&cc.Call); op == "unlock" {
									may["defer:"+p+"/"+m] = true
									must["defer:"+p+"/"+m] = true
								}
							}
						})
					}
				}
			}
		}
		return may, must
	}
	for len(work) > 0 {
		bi := work[0]
		work = work[1:]
		inWork[bi] = false
		b := fn.Blocks[bi]
		outMay, outMust := transfer(b, inMay[bi], inMust[bi], false)
		for _, s := range b.Succs {
			changed := false
			if inMay[s.Index] == nil {
				inMay[s.Index] = outMay.clone()
				inMust[s.Index] = outMust.clone()
				changed = true
			} else {
				for k := range outMay {
					if !inMay[s.Index][k] {
						inMay[s.Index][k] = true
						changed = true
					}
				}
				for k := range inMust[s.Index] {
					if !outMust[k] {
						delete(inMust[s.Index], k)
						changed = true
					}
				}
			}
			if changed && !inWork[s.Index] {
				work = append(work, s.Index)
				inWork[s.Index] = true
			}
		}
	}
	leak := map[string]bool{}
	for _, b := range fn.Blocks {
		if inMay[b.Index] == nil {
			continue // unreachable
		}
		transfer(b, inMay[b.Index], inMust[b.Index], true)
		if len(b.Instrs) > 0 {
			if _, ok := b.Instrs[len(b.Instrs)-1].(*ssa.Return); ok {
				may := lf.May[b.Instrs[len(b.Instrs)-1]]
				for k := range may {
					if strings.HasPrefix(k, "defer:") {
						continue
					}
					if !may["defer:"+k] {
						leak[k] = true
					}
				}
			}
		}
	}
	for k := range leak {
		lf.ExitLeak = append(lf.ExitLeak, k)
	}
	sort.Strings(lf.ExitLeak)
	return lf
}

// held strips the defer bookkeeping and returns the real locks in a set.
func realLocks(s lockSet) lockSet {
	o := lockSet{}
	for k := range s {
		if !strings.HasPrefix(k, "defer:") {
			o[k] = true
		}
	}
	return o
}

// lockAcquire describes one acquisition, rooted at a parameter of the function.
type lockAcquire struct {
	Path string // e.g. "r.m" where r is a parameter name
	Mode string
	Via  string // chain of callees for the report
}

// acquireSummaries computes, for every function in fns, the set of mutex paths
// it may acquire directly or through static callees (paths rooted at its own
// parameters / free variables / globals), to a fixpoint.
func acquireSummaries(fns []*ssa.Function) map[*ssa.Function][]lockAcquire {
	sum := map[*ssa.Function]map[string]lockAcquire{}
	inSet := map[*ssa.Function]bool{}
	for _, f := range fns {
		sum[f] = map[string]lockAcquire{}
		inSet[f] = true
	}
	changed := true
	for iter := 0; changed && iter < 20; iter++ {
		changed = false
		for _, f := range fns {
			eachInstr(f, func(in ssa.Instruction) {
				c, ok := in.(*ssa.Call)
				if !ok {
					return
				}
				if p, m, op := lockOp(&c.Call); op == "lock" {
					k := p + "/" + m
					if _, ok := sum[f][k]; !ok {
						sum[f][k] = lockAcquire{Path: p, Mode: m, Via: fnName(f)}
						changed = true
					}
					return
				}
				callee := c.Call.StaticCallee()
				if callee == nil || !inSet[callee] {
					return
				}
				for _, a := range sum[callee] {
					tp, ok := translatePath(a.Path, callee, &c.Call)
					if !ok {
						continue
					}
					k := tp + "/" + a.Mode
					if _, ok := sum[f][k]; !ok {
						sum[f][k] = lockAcquire{Path: tp, Mode: a.Mode, Via: fnName(f) + " -> " + a.Via}
						changed = true
					}
				}
			})
		}
	}
	out := map[*ssa.Function][]lockAcquire{}
	for f, m := range sum {
		var ks []string
		for k := range m {
			ks = append(ks, k)
		}
		sort.Strings(ks)
		for _, k := range ks {
			out[f] = append(out[f], m[k])
		}
	}
	return out
}

// translatePath rewrites a callee-side path rooted at one of the callee's
// parameters into the caller's terms using the call's actual arguments.
// Paths rooted at globals ("pkg.name…") are returned unchanged.
func translatePath(p string, callee *ssa.Function, c *ssa.CallCommon) (string, bool) {
	root := p
	rest := ""
	if i := strings.IndexAny(p, ".["); i >= 0 {
		root, rest = p[:i], p[i:]
	}
	for i, prm := range callee.Params {
		if pname(prm) == root && i < len(c.Args) {
			return pathOf(c.Args[i]) + rest, true
		}
	}
	// global-rooted path: "pkg.Var.field": root is the package name
	if callee.Package() != nil && root == callee.Package().Pkg.Name() {
		return p, true
	}
	return "", false
}
