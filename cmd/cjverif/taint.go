package main

// E4: whole-repository, flow-insensitive (per value), context-insensitive taint propagation over go/ssa with
// type-based field cells. Used by C17.
//
// Two kinds: tConn marks values that are (or wrap) a client-side connection; tText marks values whose textual
// form may contain a client address. Sources, external models and sinks are supplied by the property.

import (
	"fmt"
	"go/constant"
	"go/token"
	"go/types"
	"sort"
	"strings"

	"golang.org/x/tools/go/ssa"
)

type taintKind uint8

const (
	tText taintKind = 1
	tConn taintKind = 2
)

type taintOrigin struct {
	prev ssa.Value // value this one got its taint from (nil at a source)
	note string    // source description (at a source) or step description
	pos  token.Pos
}

type extModel struct {
	// per result index: true = result is clean regardless of the arguments
	cleanResults map[int]bool
	reason       string
	noOutParams  bool // the call does not store operand-derived data through its pointer operands
}

type taintCfg struct {
	inScope   func(f *ssa.Function) bool                                                        // functions whose bodies are analysed
	isSource  func(f *ssa.Function, in ssa.Instruction, cc *ssa.CallCommon) (taintKind, string) // call-level sources (result 0 / the error result)
	fieldSrc  map[string]string                                                                 // "pkg.Type.field" -> source description (tText)
	models    map[string]extModel                                                               // external callee name -> model
	skipCall  func(f *ssa.Function, in ssa.Instruction, cc *ssa.CallCommon) bool                // call sites whose results are not propagated (gated sources)
	skipInter func(f *ssa.Function) bool                                                        // repo functions that are treated as external (sinks)
}

type taintState struct {
	c       *Ctx
	cfg     taintCfg
	val     map[ssa.Value]taintKind
	org     map[ssa.Value]taintOrigin
	cell    map[ssa.Value]taintKind // address roots: Alloc, Global, slice/pointer values
	cellOrg map[ssa.Value]ssa.Value
	inFuncs map[*ssa.Function]bool
	field   map[string]taintKind // "pkg.Type.field"
	fldOrg  map[string]ssa.Value
	ret     map[*ssa.Function][]taintKind
	retOrg  map[*ssa.Function][]ssa.Value
	impls   map[string][]*ssa.Function
	fvBind  map[*ssa.FreeVar]ssa.Value
	funcs   []*ssa.Function
	// function values (closures / functions) that may reach a value, a field (per type) or a cell
	fnv     map[ssa.Value]map[*ssa.Function]bool
	fnField map[string]map[*ssa.Function]bool
	fnCell  map[ssa.Value]map[*ssa.Function]bool
	fnRet   map[*ssa.Function][]map[*ssa.Function]bool
	// calls through function values that could not be resolved, with whether a tainted operand was passed
	unresolved map[ssa.Instruction]bool
	changed    bool
	passes     int
}

func canCarryText(t types.Type, depth int) bool {
	if depth > 4 {
		return true
	}
	switch u := t.Underlying().(type) {
	case *types.Basic:
		// (a single byte carries a quarter of an IPv4 address: net.IPv4(a[0], a[1], a[2], a[3]))
		return u.Info()&types.IsString != 0 || u.Kind() == types.UntypedNil || u.Kind() == types.Uint8
	case *types.Slice:
		if b, ok := u.Elem().Underlying().(*types.Basic); ok && (b.Kind() == types.Uint8 || b.Kind() == types.Int32) {
			return true
		}
		return canCarryText(u.Elem(), depth+1)
	case *types.Array:
		if b, ok := u.Elem().Underlying().(*types.Basic); ok && b.Kind() == types.Uint8 {
			return true
		}
		return canCarryText(u.Elem(), depth+1)
	case *types.Pointer:
		return canCarryText(u.Elem(), depth+1)
	case *types.Struct:
		for i := 0; i < u.NumFields(); i++ {
			if canCarryText(u.Field(i).Type(), depth+1) {
				return true
			}
		}
		return false
	case *types.Interface, *types.Map, *types.Chan, *types.Tuple:
		return true
	case *types.Signature:
		return false
	}
	return true
}

func canBeConn(t types.Type) bool {
	switch u := t.Underlying().(type) {
	case *types.Basic, *types.Signature:
		_ = u
		return false
	case *types.Slice:
		return false
	}
	return true
}

func isErrorType(t types.Type) bool {
	return types.Identical(t, types.Universe.Lookup("error").Type())
}

func newTaint(c *Ctx, cfg taintCfg) *taintState {
	ts := &taintState{c: c, cfg: cfg, val: map[ssa.Value]taintKind{}, org: map[ssa.Value]taintOrigin{}, cell: map[ssa.Value]taintKind{}, cellOrg: map[ssa.Value]ssa.Value{},
		field: map[string]taintKind{}, fldOrg: map[string]ssa.Value{}, unresolved: map[ssa.Instruction]bool{}, fnv: map[ssa.Value]map[*ssa.Function]bool{}, fnField: map[string]map[*ssa.Function]bool{}, fnCell: map[ssa.Value]map[*ssa.Function]bool{}, fnRet: map[*ssa.Function][]map[*ssa.Function]bool{}, ret: map[*ssa.Function][]taintKind{}, retOrg: map[*ssa.Function][]ssa.Value{}, impls: map[string][]*ssa.Function{}, fvBind: map[*ssa.FreeVar]ssa.Value{}}
	for _, f := range c.P.RepoFuncs() {
		if f.Blocks == nil {
			continue
		}
		if f.Signature.Recv() != nil && f.Synthetic == "" {
			ts.impls[f.Name()] = append(ts.impls[f.Name()], f)
		}
		if cfg.inScope(f) {
			ts.funcs = append(ts.funcs, f)
		}
		eachInstr(f, func(in ssa.Instruction) {
			if mc, ok := in.(*ssa.MakeClosure); ok {
				fn := mc.Fn.(*ssa.Function)
				for i, b := range mc.Bindings {
					if i < len(fn.FreeVars) {
						if _, dup := ts.fvBind[fn.FreeVars[i]]; !dup {
							ts.fvBind[fn.FreeVars[i]] = b
						}
					}
				}
			}
		})
	}
	sort.Slice(ts.funcs, func(i, j int) bool { return ts.funcs[i].String() < ts.funcs[j].String() })
	return ts
}

func (ts *taintState) add(v ssa.Value, k taintKind, prev ssa.Value, note string, pos token.Pos) {
	if v == nil || k == 0 {
		return
	}
	if k&tText != 0 && !canCarryText(v.Type(), 0) {
		k &^= tText
	}
	if k&tConn != 0 && !canBeConn(v.Type()) {
		k &^= tConn
	}
	if k == 0 || ts.val[v]&k == k {
		return
	}
	if _, ok := ts.org[v]; !ok {
		ts.org[v] = taintOrigin{prev, note, pos}
	}
	ts.val[v] |= k
	ts.changed = true
}

func isFuncType(t types.Type) bool {
	_, ok := t.Underlying().(*types.Signature)
	return ok
}

func (ts *taintState) mergeFn(dst *map[*ssa.Function]bool, src map[*ssa.Function]bool) {
	if len(src) == 0 {
		return
	}
	if *dst == nil {
		*dst = map[*ssa.Function]bool{}
	}
	for f := range src {
		if !(*dst)[f] {
			(*dst)[f] = true
			ts.changed = true
		}
	}
}

func (ts *taintState) addFnVal(v ssa.Value, src map[*ssa.Function]bool) {
	m := ts.fnv[v]
	ts.mergeFn(&m, src)
	if m != nil {
		ts.fnv[v] = m
	}
}

// fnsOf: the functions a value may denote.
func (ts *taintState) fnsOf(v ssa.Value) map[*ssa.Function]bool {
	switch x := v.(type) {
	case *ssa.Function:
		return map[*ssa.Function]bool{x: true}
	case *ssa.MakeClosure:
		return map[*ssa.Function]bool{x.Fn.(*ssa.Function): true}
	}
	return ts.fnv[v]
}

// repoStruct: (the pointee of) t is a named struct type declared in the repository.
func repoStruct(t types.Type) bool {
	if p, ok := t.Underlying().(*types.Pointer); ok {
		t = p.Elem()
	}
	if n, ok := t.(*types.Named); ok && n.Obj().Pkg() != nil {
		return isRepoPath(n.Obj().Pkg().Path())
	}
	return true // unnamed structs: keep the type-keyed treatment
}

func fieldKey(structPtrOrVal types.Type, idx int) string {
	t := structPtrOrVal
	if p, ok := t.Underlying().(*types.Pointer); ok {
		t = p.Elem()
	}
	return typeShort(t) + "." + fieldName(structPtrOrVal, idx)
}

// root resolves an address expression to its cell: returns (cellValue, fieldKey).
func (ts *taintState) root(addr ssa.Value, depth int) (ssa.Value, string) {
	if depth > 8 {
		return addr, ""
	}
	switch x := addr.(type) {
	case *ssa.FieldAddr:
		// a struct of a type declared outside the repository (net.UDPAddr, net.TCPAddr, ...) that is built locally
		// is tracked per allocation site: one client address put into one net.UDPAddr must not taint every
		// net.UDPAddr of the program (listeners, configuration)
		if al, ok := x.X.(*ssa.Alloc); ok && !repoStruct(x.X.Type()) {
			return al, ""
		}
		return nil, fieldKey(x.X.Type(), x.Field)
	case *ssa.IndexAddr:
		if _, isPtr := x.X.Type().Underlying().(*types.Pointer); isPtr {
			return ts.root(x.X, depth+1)
		}
		return x.X, "" // slice value: the slice value itself is the cell
	case *ssa.FreeVar:
		if b, ok := ts.fvBind[x]; ok {
			return ts.root(b, depth+1)
		}
	case *ssa.ChangeType:
		return ts.root(x.X, depth+1)
	case *ssa.Convert:
		return ts.root(x.X, depth+1)
	}
	return addr, ""
}

func (ts *taintState) storeTo(addr ssa.Value, k taintKind, from ssa.Value) {
	if k == 0 {
		return
	}
	cv, fk := ts.root(addr, 0)
	if fk != "" {
		if ts.field[fk]&k != k {
			ts.field[fk] |= k
			if _, ok := ts.fldOrg[fk]; !ok {
				ts.fldOrg[fk] = from
			}
			ts.changed = true
		}
		return
	}
	if ts.cell[cv]&k != k {
		ts.cell[cv] |= k
		if _, ok := ts.cellOrg[cv]; !ok {
			ts.cellOrg[cv] = from
		}
		ts.changed = true
	}
}

func (ts *taintState) loadFrom(addr ssa.Value) (taintKind, ssa.Value) {
	cv, fk := ts.root(addr, 0)
	if fk != "" {
		return ts.field[fk], ts.fldOrg[fk]
	}
	return ts.cell[cv] | ts.val[cv]&tConn&0, ts.cellOrg[cv]
}

// fieldsTaint is the union of the type-based field taints of (the pointee of) t, one level deep.
func (ts *taintState) fieldsTaint(t types.Type) (taintKind, string) {
	if p, ok := t.Underlying().(*types.Pointer); ok {
		t = p.Elem()
	}
	st, ok := t.Underlying().(*types.Struct)
	if !ok {
		return 0, ""
	}
	var k taintKind
	which := ""
	for i := 0; i < st.NumFields(); i++ {
		key := typeShort(t) + "." + st.Field(i).Name()
		if ts.field[key]&tText != 0 {
			k |= tText
			if which == "" {
				which = key
			}
		}
	}
	return k, which
}

// fieldsConn: the (pointee) struct type has a field that holds a client-side connection.
func (ts *taintState) fieldsConn(t types.Type) ssa.Value {
	if p, ok := t.Underlying().(*types.Pointer); ok {
		t = p.Elem()
	}
	st, ok := t.Underlying().(*types.Struct)
	if !ok {
		return nil
	}
	for i := 0; i < st.NumFields(); i++ {
		key := typeShort(t) + "." + st.Field(i).Name()
		if ts.field[key]&tConn != 0 {
			return ts.fldOrg[key]
		}
	}
	return nil
}

func embeddedField(t types.Type, idx int) bool {
	if p, ok := t.Underlying().(*types.Pointer); ok {
		t = p.Elem()
	}
	st, ok := t.Underlying().(*types.Struct)
	return ok && idx < st.NumFields() && st.Field(idx).Embedded()
}

// connLike: the type can be a connection / stream over one (has Read, Write, Close or RemoteAddr).
func connLike(t types.Type) bool {
	for _, tt := range []types.Type{t, types.NewPointer(t)} {
		ms := types.NewMethodSet(tt)
		for i := 0; i < ms.Len(); i++ {
			switch ms.At(i).Obj().Name() {
			case "Read", "Write", "Close", "RemoteAddr":
				return true
			}
		}
	}
	return false
}

// stringerOf returns the repo String()/Error() method that fmt would call for a value of static type t.
func (ts *taintState) stringerOf(t types.Type) *ssa.Function {
	for _, name := range []string{"Error", "String"} {
		for _, m := range ts.impls[name] {
			rt := m.Signature.Recv().Type()
			if types.Identical(rt, t) {
				return m
			}
			if p, ok := t.Underlying().(*types.Pointer); ok && types.Identical(rt, p.Elem()) {
				return m
			}
		}
	}
	return nil
}

// textOf is the taint of the textual rendering of v when handed to a formatting / serialising external call.
func (ts *taintState) textOf(v ssa.Value) (taintKind, string) {
	k := ts.val[v] & tText
	why := ""
	inner := v
	for {
		if mi, ok := inner.(*ssa.MakeInterface); ok {
			inner = mi.X
			continue
		}
		break
	}
	k |= ts.val[inner] & tText
	// slices built element-wise (varargs)
	if c, ok := ts.cell[inner]; ok && c&tText != 0 {
		k |= tText
	}
	t := inner.Type()
	if _, isIface := t.Underlying().(*types.Interface); !isIface {
		if m := ts.stringerOf(t); m != nil && ts.cfg.inScope(m) {
			if r := ts.ret[m]; len(r) > 0 && r[0]&tText != 0 {
				k |= tText
				why = "its " + m.Name() + "() result"
			}
		} else if fk, which := ts.fieldsTaint(t); fk != 0 {
			k |= fk
			why = "field " + which
		}
	}
	return k, why
}

// analysed: the body of f is part of the fixpoint (it is in the property's scope, or nested in a function that is).
func (ts *taintState) analysed(f *ssa.Function) bool {
	if ts.inFuncs == nil {
		ts.inFuncs = map[*ssa.Function]bool{}
		for _, g := range ts.funcs {
			ts.inFuncs[g] = true
		}
	}
	return ts.inFuncs[f]
}

func (ts *taintState) resolve(f *ssa.Function, cc *ssa.CallCommon) (targets []*ssa.Function, alsoExternal bool) {
	if cal := cc.StaticCallee(); cal != nil {
		if cal.Blocks != nil && isRepoPath(fnPkgPath(cal)) && !(ts.cfg.skipInter != nil && ts.cfg.skipInter(cal)) && (ts.analysed(cal) || fnPkgPath(cal) != repoMod+"/proto") {
			return []*ssa.Function{cal}, false
		}
		// the generated protobuf code is not analysed: its functions (the nil-safe getters above all) are external
		// calls like any other - a tainted message taints what is read from it
		return nil, true
	}
	if cc.IsInvoke() {
		iface, _ := cc.Value.Type().Underlying().(*types.Interface)
		repoIface := false
		if n, ok := cc.Value.Type().(*types.Named); ok && n.Obj().Pkg() != nil && isRepoPath(n.Obj().Pkg().Path()) {
			repoIface = true
		}
		for _, m := range ts.impls[cc.Method.Name()] {
			if ts.cfg.skipInter != nil && ts.cfg.skipInter(m) {
				continue
			}
			rt := m.Signature.Recv().Type()
			if iface != nil && (types.Implements(rt, iface) || types.Implements(types.NewPointer(rt), iface)) {
				targets = append(targets, m)
			}
		}
		return targets, !repoIface || len(targets) == 0
	}
	if fs := ts.fnsOf(cc.Value); len(fs) > 0 && !cc.IsInvoke() {
		var out []*ssa.Function
		for t := range fs {
			if t.Blocks != nil && isRepoPath(fnPkgPath(t)) && !(ts.cfg.skipInter != nil && ts.cfg.skipInter(t)) {
				out = append(out, t)
			}
		}
		if len(out) > 0 {
			sort.Slice(out, func(i, j int) bool { return out[i].String() < out[j].String() })
			return out, false
		}
	}
	ct := closureTargets(f, cc)
	for enc := f.Parent(); len(ct) == 0 && enc != nil; enc = enc.Parent() {
		ct = closureTargets(enc, cc)
	}
	if len(ct) > 0 {
		var out []*ssa.Function
		for _, t := range ct {
			if t.Blocks != nil {
				out = append(out, t)
			}
		}
		if len(out) > 0 {
			return out, false
		}
	}
	return nil, true
}

func (ts *taintState) resultValues(in ssa.Instruction) map[int]ssa.Value {
	out := map[int]ssa.Value{}
	v, ok := in.(ssa.Value)
	if !ok {
		return out
	}
	if tup, ok := v.Type().(*types.Tuple); ok {
		_ = tup
		if refs := v.Referrers(); refs != nil {
			for _, r := range *refs {
				if ex, ok := r.(*ssa.Extract); ok {
					out[ex.Index] = ex
				}
			}
		}
		return out
	}
	out[0] = v
	return out
}

func (ts *taintState) handleCall(f *ssa.Function, in ssa.Instruction, cc *ssa.CallCommon) {
	// all actual arguments incl. the receiver of an invoke
	var actuals []ssa.Value
	if cc.IsInvoke() {
		actuals = append(actuals, cc.Value)
	}
	actuals = append(actuals, cc.Args...)
	results := ts.resultValues(in)
	if ts.cfg.skipCall != nil && ts.cfg.skipCall(f, in, cc) {
		return
	}
	if ts.cfg.isSource != nil {
		if k, desc := ts.cfg.isSource(f, in, cc); k != 0 {
			for i, rv := range results {
				if k == tText && len(results) > 1 && !isErrorType(rv.Type()) && i != 0 {
					continue
				}
				if k == tConn && isErrorType(rv.Type()) {
					// an accept error names only the listener; a dial error names the peer
					if calleeShort(cc) != "Accept" && calleeShort(cc) != "AcceptTCP" {
						ts.add(rv, tText, nil, "error of "+desc+" (its text names both endpoints)", in.Pos())
					}
					continue
				}
				ts.add(rv, k, nil, desc, in.Pos())
			}
		}
	}
	targets, ext := ts.resolve(f, cc)
	for _, t := range targets {
		// bind
		for i, a := range actuals {
			if i < len(t.Params) {
				if isFuncType(a.Type()) {
					ts.addFnVal(t.Params[i], ts.fnsOf(a))
				}
				ts.add(t.Params[i], ts.val[a], a, "", in.Pos())
				// slices / pointers built in the caller: share the cell
				if c := ts.cell[a]; c != 0 {
					if ts.cell[t.Params[i]]&c != c {
						ts.cell[t.Params[i]] |= c
						ts.cellOrg[t.Params[i]] = a
						ts.changed = true
					}
				}
			}
		}
		if mc, ok := cc.Value.(*ssa.MakeClosure); ok {
			for i, b := range mc.Bindings {
				if i < len(t.FreeVars) {
					ts.add(t.FreeVars[i], ts.val[b], b, "", in.Pos())
				}
			}
		}
		for i, rv := range results {
			if fr := ts.fnRet[t]; i < len(fr) && isFuncType(rv.Type()) {
				ts.addFnVal(rv, fr[i])
			}
			if r := ts.ret[t]; i < len(r) && r[i] != 0 {
				var prev ssa.Value
				if ro := ts.retOrg[t]; i < len(ro) {
					prev = ro[i]
				}
				ts.add(rv, r[i], prev, "returned by "+fnName(t), in.Pos())
			}
		}
	}
	if !ext {
		return
	}
	if cc.StaticCallee() == nil && !cc.IsInvoke() {
		if _, isBuiltin := cc.Value.(*ssa.Builtin); !isBuiltin {
			t := false
			for _, a := range actuals {
				if k, _ := ts.textOf(a); k != 0 || ts.val[a] != 0 {
					t = true
				}
			}
			ts.unresolved[in] = ts.unresolved[in] || t
		}
	}
	name := calleeName(cc)
	model, hasModel := ts.cfg.models[name]
	var anyText, anyConn ssa.Value
	for _, a := range actuals {
		if k, _ := ts.textOf(a); k&tText != 0 && anyText == nil {
			anyText = a
		}
		if ts.val[a]&tConn != 0 && anyConn == nil {
			anyConn = a
		}
	}
	if anyText != nil && !(hasModel && model.noOutParams) {
		// out-parameters: an external call handed a tainted operand may store it (or something derived from it)
		// through its pointer operands - errors.As(err, &target), json.Unmarshal(data, &v), fmt.Sscan, ...
		for _, a := range actuals {
			if a == anyText {
				continue
			}
			for {
				if mi, ok := a.(*ssa.MakeInterface); ok {
					a = mi.X // errors.As(err, &target): the pointer travels inside an `any`
					continue
				}
				break
			}
			if pt, ok := a.Type().Underlying().(*types.Pointer); ok && canCarryText(pt.Elem(), 0) {
				switch a.(type) {
				case *ssa.Alloc, *ssa.FieldAddr, *ssa.IndexAddr, *ssa.Global:
					ts.storeTo(a, tText, anyText)
				}
			}
		}
	}
	for i, rv := range results {
		if hasModel && model.cleanResults[i] {
			continue
		}
		if anyText != nil {
			ts.add(rv, tText, anyText, "through "+shortName(name), in.Pos())
		}
		if anyConn != nil {
			if isErrorType(rv.Type()) {
				ts.add(rv, tText, anyConn, "error of "+shortName(name)+" on a client-side connection (its text names both endpoints)", in.Pos())
			} else if connLike(rv.Type()) {
				ts.add(rv, tConn, anyConn, "through "+shortName(name), in.Pos())
			}
		}
	}
}

func (ts *taintState) step(f *ssa.Function) {
	for _, b := range f.Blocks {
		for _, in := range b.Instrs {
			switch x := in.(type) {
			case *ssa.Phi:
				for _, e := range x.Edges {
					ts.add(x, ts.val[e], e, "", x.Pos())
					if isFuncType(x.Type()) {
						ts.addFnVal(x, ts.fnsOf(e))
					}
				}
			case *ssa.UnOp:
				if x.Op == token.MUL {
					if isFuncType(x.Type()) {
						cv, fk := ts.root(x.X, 0)
						if fk != "" {
							ts.addFnVal(x, ts.fnField[fk])
						} else {
							ts.addFnVal(x, ts.fnCell[cv])
						}
					}
					k, from := ts.loadFrom(x.X)
					// a field that is a declared source
					if fa, ok := x.X.(*ssa.FieldAddr); ok {
						if desc, ok := ts.cfg.fieldSrc[fieldKey(fa.X.Type(), fa.Field)]; ok {
							ts.add(x, tText, nil, desc, x.Pos())
						}
					}
					ts.add(x, k, from, "", x.Pos())
					// a field of an object that is itself tainted (e.g. filled in by an external call) is tainted
					if fa, ok := x.X.(*ssa.FieldAddr); ok && ts.val[fa.X]&tText != 0 {
						ts.add(x, tText, fa.X, "field of a tainted object", x.Pos())
					}
					// ... and so is an element of an array field of it (sockaddr.Addr[i])
					if ia, ok := x.X.(*ssa.IndexAddr); ok {
						if fa, ok := ia.X.(*ssa.FieldAddr); ok && ts.val[fa.X]&tText != 0 {
							ts.add(x, tText, fa.X, "element of a field of a tainted object", x.Pos())
						}
					}
				} else {
					ts.add(x, ts.val[x.X], x.X, "", x.Pos())
				}
			case *ssa.Store:
				if isFuncType(x.Val.Type()) {
					if fs := ts.fnsOf(x.Val); len(fs) > 0 {
						cv, fk := ts.root(x.Addr, 0)
						if fk != "" {
							m := ts.fnField[fk]
							ts.mergeFn(&m, fs)
							ts.fnField[fk] = m
						} else {
							m := ts.fnCell[cv]
							ts.mergeFn(&m, fs)
							ts.fnCell[cv] = m
						}
					}
				}
				ts.storeTo(x.Addr, ts.val[x.Val], x.Val)
				// storing a slice/pointer whose cell is tainted
				if c := ts.cell[x.Val]; c != 0 {
					ts.storeTo(x.Addr, c, x.Val)
				}
			case *ssa.MakeInterface:
				ts.add(x, ts.val[x.X], x.X, "", x.Pos())
				if from := ts.fieldsConn(x.X.Type()); from != nil {
					ts.add(x, tConn, from, "wraps a client-side connection", x.Pos())
				}
				if c := ts.cell[x.X]; c != 0 && ts.cell[x] != c {
					ts.cell[x] |= c
					ts.changed = true
				}
			case *ssa.ChangeInterface:
				ts.add(x, ts.val[x.X], x.X, "", x.Pos())
			case *ssa.ChangeType:
				ts.add(x, ts.val[x.X], x.X, "", x.Pos())
				if isFuncType(x.Type()) {
					ts.addFnVal(x, ts.fnsOf(x.X))
				}
			case *ssa.Convert:
				ts.add(x, ts.val[x.X], x.X, "", x.Pos())
			case *ssa.TypeAssert:
				ts.add(x, ts.val[x.X], x.X, "", x.Pos())
			case *ssa.Extract:
				// set by handleCall; for non-call tuples (typeassert,ok / lookup,ok / next) propagate index 0/1
				switch t := x.Tuple.(type) {
				case *ssa.TypeAssert:
					if x.Index == 0 {
						ts.add(x, ts.val[t.X], t.X, "", x.Pos())
					}
				case *ssa.Lookup:
					if x.Index == 0 {
						ts.add(x, ts.val[t.X]|ts.cell[t.X], t.X, "", x.Pos())
					}
				case *ssa.UnOp:
					if x.Index == 0 {
						ts.add(x, ts.val[t.X], t.X, "", x.Pos())
					}
				case *ssa.Next:
					ts.add(x, ts.val[t.Iter], t.Iter, "", x.Pos())
				}
			case *ssa.Range:
				ts.add(x, ts.val[x.X]|ts.cell[x.X], x.X, "", x.Pos())
			case *ssa.Slice:
				k := ts.val[x.X]
				ts.add(x, k, x.X, "", x.Pos())
				cv, fk := ts.root(x.X, 0)
				var c taintKind
				if fk != "" {
					c = ts.field[fk]
				} else {
					c = ts.cell[cv]
				}
				if c != 0 && ts.cell[x]&c != c {
					ts.cell[x] |= c
					ts.cellOrg[x] = ts.cellOrg[cv]
					ts.changed = true
				}
			case *ssa.Field:
				k := ts.val[x.X] & (tConn | tText)
				ts.add(x, k|ts.field[fieldKey(x.X.Type(), x.Field)], x.X, "", x.Pos())
			case *ssa.FieldAddr:
				// the address value itself carries nothing; loads consult the field cell - except the embedded part
				// of a connection, which is the connection (promoted methods are called on it)
				if ts.val[x.X]&tConn != 0 && embeddedField(x.X.Type(), x.Field) {
					ts.add(x, tConn, x.X, "", x.Pos())
				}
			case *ssa.Index:
				ts.add(x, ts.val[x.X]|ts.cell[x.X], x.X, "", x.Pos())
			case *ssa.IndexAddr:
			case *ssa.Lookup:
				if !x.CommaOk {
					ts.add(x, ts.val[x.X]|ts.cell[x.X], x.X, "", x.Pos())
				}
			case *ssa.MapUpdate:
				k := ts.val[x.Value] | ts.val[x.Key]&tText
				if k != 0 && ts.cell[x.Map]&k != k {
					ts.cell[x.Map] |= k
					ts.cellOrg[x.Map] = x.Value
					ts.changed = true
				}
			case *ssa.BinOp:
				if x.Op == token.ADD {
					ts.add(x, (ts.val[x.X]|ts.val[x.Y])&tText, pick(ts, x.X, x.Y), "", x.Pos())
				}
			case *ssa.MakeClosure:
				fn := x.Fn.(*ssa.Function)
				for i, b := range x.Bindings {
					if i < len(fn.FreeVars) {
						ts.add(fn.FreeVars[i], ts.val[b], b, "", x.Pos())
						if isFuncType(b.Type()) {
							ts.addFnVal(fn.FreeVars[i], ts.fnsOf(b))
						}
					}
				}
			case *ssa.Send:
				if k := ts.val[x.X]; k != 0 && ts.cell[x.Chan]&k != k {
					ts.cell[x.Chan] |= k
					ts.cellOrg[x.Chan] = x.X
					ts.changed = true
				}
			case *ssa.Return:
				if ts.ret[f] == nil {
					ts.ret[f] = make([]taintKind, len(x.Results))
					ts.retOrg[f] = make([]ssa.Value, len(x.Results))
				}
				if ts.fnRet[f] == nil {
					ts.fnRet[f] = make([]map[*ssa.Function]bool, len(x.Results))
				}
				for i, rv := range x.Results {
					if isFuncType(rv.Type()) {
						m := ts.fnRet[f][i]
						ts.mergeFn(&m, ts.fnsOf(rv))
						ts.fnRet[f][i] = m
					}
					k := ts.val[rv]
					if al, ok := rv.(*ssa.Alloc); ok && !repoStruct(al.Type()) {
						k |= ts.cell[al] & tText
					}
					if ts.ret[f][i]&k != k {
						ts.ret[f][i] |= k
						if ts.retOrg[f][i] == nil {
							ts.retOrg[f][i] = rv
						}
						ts.changed = true
					}
				}
			case ssa.CallInstruction:
				ts.handleCall(f, in, x.Common())
			}
		}
	}
}

func pick(ts *taintState, a, b ssa.Value) ssa.Value {
	if ts.val[a]&tText != 0 {
		return a
	}
	return b
}

func (ts *taintState) run() {
	for ts.passes = 0; ts.passes < 60; ts.passes++ {
		ts.changed = false
		for _, f := range ts.funcs {
			ts.step(f)
		}
		if !ts.changed {
			// one more pass on the fixpoint to record which dynamic calls stayed unresolved
			ts.unresolved = map[ssa.Instruction]bool{}
			for _, f := range ts.funcs {
				ts.step(f)
			}
			return
		}
	}
}

// explain renders the provenance of v's taint: the source and up to n intermediate steps.
func (ts *taintState) explain(v ssa.Value, n int) []string {
	var out []string
	seen := map[ssa.Value]bool{}
	for v != nil && !seen[v] && len(out) < n {
		seen[v] = true
		o, ok := ts.org[v]
		where := ""
		if p := ts.c.R.posStr(v.Pos()); p != "" {
			where = " @" + p
		} else if o.pos.IsValid() {
			where = " @" + ts.c.R.posStr(o.pos)
		}
		desc := firstN(pathOf(v), 70)
		if o.note != "" {
			desc += "  [" + o.note + "]"
		}
		out = append(out, desc+where)
		if !ok || o.prev == nil {
			// a load from a cell / field: continue from what was stored
			if u, isLoad := v.(*ssa.UnOp); isLoad && u.Op == token.MUL {
				if _, from := ts.loadFrom(u.X); from != nil && !seen[from] {
					v = from
					continue
				}
			}
			if c, ok2 := ts.cellOrg[v]; ok2 && c != nil && !seen[c] {
				v = c
				continue
			}
			break
		}
		v = o.prev
	}
	return out
}

// formatVerbs returns, for a constant format string, the verb consuming each successive operand.
func formatVerbs(format string) []byte {
	var out []byte
	for i := 0; i < len(format); i++ {
		if format[i] != '%' {
			continue
		}
		i++
		for i < len(format) && strings.ContainsRune("+-# 0123456789.*[]", rune(format[i])) {
			if format[i] == '*' {
				out = append(out, '*')
			}
			i++
		}
		if i < len(format) && format[i] != '%' {
			out = append(out, format[i])
		}
	}
	return out
}

// varargElems returns the values stored into the variadic slice v (a Slice of a fresh array), in index order.
func varargElems(v ssa.Value) ([]ssa.Value, bool) {
	sl, ok := v.(*ssa.Slice)
	if !ok {
		return nil, false
	}
	al, ok := sl.X.(*ssa.Alloc)
	if !ok || al.Referrers() == nil {
		return nil, false
	}
	m := map[int64]ssa.Value{}
	max := int64(-1)
	for _, ref := range *al.Referrers() {
		ia, ok := ref.(*ssa.IndexAddr)
		if !ok || ia.Referrers() == nil {
			continue
		}
		cv, ok := constOf(ia.Index)
		if !ok {
			return nil, false
		}
		idx, _ := constant.Int64Val(constant.ToInt(cv))
		for _, r2 := range *ia.Referrers() {
			if st, ok := r2.(*ssa.Store); ok && st.Addr == ssa.Value(ia) {
				m[idx] = st.Val
				if idx > max {
					max = idx
				}
			}
		}
	}
	out := make([]ssa.Value, max+1)
	for i := range out {
		out[i] = m[int64(i)]
	}
	return out, true
}

func (ts *taintState) stats() string {
	nv, nf := 0, 0
	for _, k := range ts.val {
		if k != 0 {
			nv++
		}
	}
	for _, k := range ts.field {
		if k != 0 {
			nf++
		}
	}
	return fmt.Sprintf("%d functions, %d passes, %d tainted values, %d tainted fields", len(ts.funcs), ts.passes+1, nv, nf)
}
