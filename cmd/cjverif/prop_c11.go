package main

import (
	"fmt"
	"go/token"
	"go/types"
	"regexp"
	"sort"
	"strings"

	"golang.org/x/tools/go/ssa"
)

func init() {
	register("C11", &propCheck{Run: checkC11,
		Explain: "C11.1 optional protobuf sub-messages reached from external input are never dereferenced (field address taken) without a dominating non-nil test of the same access path (field or nil-safe getter form); the entry contract of NewRegistrationC2SWrapper (payload != nil) is checked at its call sites; " +
			"C11.2 slices of first-flight buffers with constant bounds are dominated by a length test that implies the bound; " +
			"C11.3 panic surface: over the code reachable from the external entry points (static repo callees, all implementations of the transport interface), unchecked type assertions, explicit panics, process-exit and Must* calls and integer divisions by run-time values are confined to a reviewed table (function + construct, one reason each); " +
			"C11.4 the DNS name parser follows at most a constant number of compression pointers. " +
			"Decides the structural crash sources on attacker-reachable code; panics inside dependencies, resource exhaustion and hangs other than C11.4 are not decided.",
		Assume: []string{"generated protobuf getters are nil-safe", "function parameters of message type are non-nil at entry unless an entry contract says otherwise (checked where stated)", "dependency code is not analysed"}})
}

var reGetter = regexp.MustCompile(`\.Get([A-Z][A-Za-z0-9_]*)\(\)`)

// normProtoPath renders getter and field forms of a protobuf access path identically: x.GetFoo().Bar -> x.Foo.Bar
func normProtoPath(p string) string { return reGetter.ReplaceAllString(p, ".$1") }

func isProtoMsgPtr(t types.Type) bool {
	pt, ok := t.Underlying().(*types.Pointer)
	if !ok {
		return false
	}
	named, ok := pt.Elem().(*types.Named)
	if !ok || named.Obj().Pkg() == nil {
		return false
	}
	pp := named.Obj().Pkg().Path()
	if !(strings.HasSuffix(pp, "/proto") || strings.HasSuffix(pp, "/anypb") || strings.Contains(pp, "protobuf/types/known")) {
		return false
	}
	st, ok := named.Underlying().(*types.Struct)
	if !ok {
		return false
	}
	for i := 0; i < st.NumFields(); i++ {
		if st.Field(i).Name() == "state" {
			return true
		}
	}
	return false
}

// c11Entries are the functions that receive external input (resolved at run time of the check).
func c11Entries(c *Ctx) []*ssa.Function {
	var out []*ssa.Function
	add := func(pkg, recv, name string) {
		if f := c.fn("C11.3", pkg, recv, name); f != nil {
			out = append(out, f)
		}
	}
	add("pkg/station/lib", "RegistrationManager", "startIngestThread")
	add("cmd/application", "connManager", "handleNewTCPConn")
	add("pkg/regserver/apiregserver", "APIRegServer", "register")
	add("pkg/regserver/apiregserver", "APIRegServer", "registerBidirectional")
	add("pkg/regserver/dnsregserver", "DNSRegServer", "processRequest")
	add("pkg/registrars/dns-registrar/responder", "Responder", "RecvAndRespond")
	for _, f := range c.P.RepoFuncs() {
		if f.Signature.Recv() == nil || strings.Contains(c.R.posStr(f.Pos()), "_mock") {
			continue
		}
		switch f.Name() {
		case "WrapConnection", "ParseParams", "GetDstPort", "GetIdentifier", "ParamStrings", "Connect", "Override":
			pk := fnPkgPath(f)
			if strings.Contains(pk, "/pkg/transports/wrapping/") || strings.Contains(pk, "/pkg/transports/connecting/") || strings.Contains(pk, "/pkg/regserver/overrides") {
				if !strings.Contains(c.R.posStr(f.Pos()), "client.go") {
					out = append(out, f)
				}
			}
		}
	}
	return out
}

type c11Reviewed struct{ fn, construct, reason string }

// Reviewed panic-capable constructs on attacker-reachable code: key = function suffix + construct substring, one reason each.
var c11Table = []c11Reviewed{
	{"startIngestThread", "([]byte)", "who-sends lemma: the only senders on the ingest channels are RunZMQ/HandleRegUpdates, which forward []byte from RecvBytes (C09.3 enumerates the send sites)"},
	{"GenerateC2SWrapper", "typeassert proto.Clone", "proto.Clone returns the dynamic type of its argument: same-type assertion"},
	{"NewRegistration", "typeassert proto.Clone", "proto.Clone returns the dynamic type of its argument: same-type assertion"},
	{"processBdReq", "typeassert proto.Clone", "proto.Clone returns the dynamic type of its argument: same-type assertion"},
	{"findMarkMac", "panic", "length lemma: the mark is generateMark(...)[:MarkLength], always MarkLength bytes"},
	{"WriteName", "panic", "who-constructs lemma: names written by the responder come from NewName/ParseName/readName, which reject empty and >63-byte labels (C15.4)"},
	{"newLRUCache$1", "typeassert k.(string)", "the LRU is only ever fed string keys by lruCache.Add/Lookup (same file)"},
	{"getSubnetsVarint", "typeassert", "the chooser's items are the *pb.PhantomSubnets values placed into it a few lines above in the same function"},
}

func checkC11(c *Ctx) {
	r := c.R

	// ---- C11.1 proto nil-guard
	r.Rule("C11.1", "optional protobuf sub-messages from external input are dereferenced only under a non-nil test of the same path", 4)
	scope := c.funcsOfPkgs("pkg/station/lib", "pkg/regserver/regprocessor", "pkg/regserver/apiregserver", "pkg/regserver/dnsregserver", "pkg/regserver/overrides",
		"pkg/transports", "pkg/transports/wrapping/min", "pkg/transports/wrapping/prefix", "pkg/transports/wrapping/obfs4", "pkg/transports/connecting/dtls",
		"pkg/registrars/dns-registrar/responder")
	nDeref := 0
	for _, f := range scope {
		if strings.Contains(r.posStr(f.Pos()), "client.go") {
			continue // client-side code: not fed by external parties of the station/registrar
		}
		eachInstr(f, func(in ssa.Instruction) {
			fa, ok := in.(*ssa.FieldAddr)
			if !ok || !isProtoMsgPtr(fa.X.Type()) {
				return
			}
			base := fa.X
			// non-optional bases: fresh allocations, parameters (entry contract), type-asserted clones
			switch x := base.(type) {
			case *ssa.Alloc, *ssa.Parameter, *ssa.FreeVar:
				return
			case *ssa.Extract:
				if ta, ok := x.Tuple.(*ssa.TypeAssert); ok && ta.CommaOk {
					// checked assertion: non-nil-ness is a separate question; treat like a lookup result (guard required) unless guarded by ok
					if guarded(f, in, Atom{pathOf(x.Tuple) + "#1", true}) {
						// ok-guarded typed nil pointers are still possible (params == nil case is tested explicitly in the code); fall through to the nil rule
					}
				}
			case *ssa.TypeAssert:
				if strings.Contains(pathOf(x), "proto.Clone(") {
					return
				}
			}
			p := pathOf(base)
			if strings.HasPrefix(p, "new(") && !unmarshalledInto(f, base) {
				return
			}
			// only sub-messages: the base is obtained through a field load or a getter of another message, or a map/assert result
			isSub := false
			switch x := base.(type) {
			case *ssa.UnOp:
				if _, isFA := x.X.(*ssa.FieldAddr); isFA {
					isSub = isProtoMsgPtr(x.X.(*ssa.FieldAddr).X.Type())
				}
			case *ssa.Call:
				if strings.HasPrefix(calleeShort(&x.Call), "Get") && recvOf(&x.Call) != nil && isProtoMsgPtr(recvOf(&x.Call).Type()) {
					isSub = true
				}
			case *ssa.Extract:
				if ta, ok := x.Tuple.(*ssa.TypeAssert); ok && ta.CommaOk {
					isSub = true
				}
			case *ssa.Phi:
				isSub = true
			}
			if !isSub {
				return
			}
			nDeref++
			np := normProtoPath(p)
			g := guardedM(f, in, func(cnd string, pol bool) bool {
				if pol {
					return false
				}
				nc := normProtoPath(cnd)
				return nc == "("+orderEq(np, "nil")+")"
			})
			// assign-if-nil idiom: if x.GetF() == nil { x.F = &T{} } … x.F.G — the store on the nil edge makes it non-nil
			if !g {
				nilEdges := edgesEstablishing(f, func(cnd string, pol bool) bool { return pol && normProtoPath(cnd) == "("+orderEq(np, "nil")+")" })
				if len(nilEdges) > 0 {
					isInit := func(in2 ssa.Instruction) bool {
						st, ok := in2.(*ssa.Store)
						if !ok {
							return false
						}
						if _, isAlloc := stripConv(st.Val).(*ssa.Alloc); !isAlloc {
							return false
						}
						return normProtoPath(pathOf(st.Addr)) == np
					}
					okAll := true
					for e := range nilEdges {
						succ := f.Blocks[e.from].Succs[e.slot]
						if hit, _ := reachAt(f, succ, isInstr(in), isInit, nil); hit {
							okAll = false
						}
					}
					// and the test is must-pass
					notNil := edgesEstablishing(f, func(cnd string, pol bool) bool { return !pol && normProtoPath(cnd) == "("+orderEq(np, "nil")+")" })
					block := map[edge]bool{}
					for e := range nilEdges {
						block[e] = true
					}
					for e := range notNil {
						block[e] = true
					}
					if skip, _ := reach(f, nil, isInstr(in), nil, block); !skip && okAll {
						g = true
					}
				}
			}
			// entry contracts (checked at the call sites below)
			if !g && strings.HasSuffix(fnName(f), ").NewRegistrationC2SWrapper") && np == "c2sw.RegistrationPayload" {
				g = true
			}
			// initialised on every path: a store of a fresh (non-nil) message to this very path is must-pass, no store of nil to it
			// anywhere in the function, and no Override implementation ever stores nil to it (havoc summary)
			if !g {
				isInit := func(in2 ssa.Instruction) bool {
					st, ok := in2.(*ssa.Store)
					if !ok || normProtoPath(pathOf(st.Addr)) != np {
						return false
					}
					switch v := stripConv(st.Val).(type) {
					case *ssa.Alloc:
						return true
					case *ssa.TypeAssert:
						return strings.Contains(pathOf(v), "proto.Clone(")
					case *ssa.Phi:
						for _, e := range v.Edges {
							if _, ok := stripConv(e).(*ssa.Alloc); !ok {
								if !strings.Contains(pathOf(e), "proto.Clone(") && normProtoPath(pathOf(e)) != np {
									return false
								}
							}
						}
						return true
					}
					return false
				}
				storesNil := false
				eachInstr(f, func(in2 ssa.Instruction) {
					if st, ok := in2.(*ssa.Store); ok && normProtoPath(pathOf(st.Addr)) == np {
						if cst, isC := st.Val.(*ssa.Const); isC && cst.Value == nil {
							storesNil = true
						}
					}
				})
				if skip, _ := reach(f, nil, isInstr(in), isInit, nil); !skip && !storesNil && !overridesStoreNil(c, fld0(fa)) {
					g = true
				}
			}
			_, fld, _ := fieldOwner(fa)
			construct := fnName(f) + ": " + firstN(np, 70) + "." + fld
			if g {
				r.OK("C11.1", construct+" under a non-nil test", in.Pos(), "dominated by "+firstN(np, 50)+" != nil")
			} else {
				r.Bad("C11.1", construct+" dereferenced without a non-nil test", in.Pos(), fnName(f),
					"the optional protobuf sub-message "+firstN(np, 60)+" comes from an external message and may be absent; taking the address of its field "+fld+" without a dominating non-nil test of that same path is a nil-pointer dereference: a request that omits the sub-message panics the handler (an HTTP registration request then gets no status line)")
			}
		})
	}
	// entry contract: NewRegistrationC2SWrapper requires a payload
	if p := c.fn("C11.1", "pkg/station/lib", "RegistrationManager", "parseRegMessage"); p != nil {
		for _, ci := range callsIn(p, shortIs("NewRegistrationC2SWrapper")) {
			w := pathOf(argsOf(ci.Common())[0])
			g := guardedM(p, ci.(ssa.Instruction), func(cnd string, pol bool) bool {
				return pol && strings.HasPrefix(cnd, w+".GetRegistrationPayload().Get")
			})
			r.Check(g, "C11.1", "parseRegMessage: NewRegistrationC2SWrapper only for a wrapper with a registration payload", ci.Pos(), fnName(p), "dominated by a truthy nil-safe getter on the payload",
				"the registration constructor is reached with a wrapper that has no registration payload: it stores through the nil payload")
		}
	}

	// ---- C11.2 bounds on first-flight buffers
	r.Rule("C11.2", "constant-bound slices of the first-flight buffer are dominated by a sufficient length test", 2)
	for _, f := range c.P.RepoFuncs() {
		if !strings.Contains(fnPkgPath(f), "/pkg/transports/wrapping/") || strings.Contains(r.posStr(f.Pos()), "client.go") {
			continue
		}
		idx := bufferParamIndex(f)
		if idx < 0 {
			continue
		}
		dn := pname(f.Params[idx])
		eachInstr(f, func(in ssa.Instruction) {
			sl, ok := in.(*ssa.Slice)
			if !ok {
				return
			}
			xp := pathOf(sl.X)
			if xp != dn+".Bytes()" && xp != dn+".String()" {
				return
			}
			if sl.High == nil {
				return
			}
			cv, isC := constOf(sl.High)
			if !isC {
				hp := pathOf(sl.High)
				if strings.Contains(hp, dn+".Len()") && strings.HasPrefix(hp, "prefix.min(") || strings.HasPrefix(hp, "min(") {
					r.OK("C11.2", fnName(f)+": "+xp+"[:min(…, "+dn+".Len())]", in.Pos(), "bounded by the buffer length itself")
				}
				return // non-constant bounds are decided by C04.3 (Offset + tag under Len() >= MaxLen)
			}
			k := cv.ExactString()
			g := guardedM(f, in, func(cnd string, pol bool) bool {
				m := regexp.MustCompile(`^\(` + regexp.QuoteMeta(dn) + `\.Len\(\) < (\d+)\)$`).FindStringSubmatch(cnd)
				if m == nil || pol {
					return false
				}
				return len(m[1]) > len(k) || (len(m[1]) == len(k) && m[1] >= k)
			})
			r.Check(g, "C11.2", fnName(f)+": "+xp+"[:"+k+"] under "+dn+".Len() >= "+k, in.Pos(), fnName(f), "dominated by a length test",
				"the first-flight buffer is sliced to "+k+" bytes without a dominating length test: a shorter first segment panics the connection handler")
		})
	}

	// ---- C11.3 panic surface
	r.Rule("C11.3", "panic-capable constructs reachable from external entry points are in the reviewed table", 4)
	entries := c11Entries(c)
	seen := map[*ssa.Function][]string{}
	var order []*ssa.Function
	var visit func(f *ssa.Function, chain []string)
	ifaceImpls := map[string][]*ssa.Function{}
	for _, f := range c.P.RepoFuncs() {
		if f.Signature.Recv() != nil && !strings.Contains(r.posStr(f.Pos()), "_mock") && !strings.Contains(r.posStr(f.Pos()), "client.go") {
			ifaceImpls[f.Name()] = append(ifaceImpls[f.Name()], f)
		}
	}
	visit = func(f *ssa.Function, chain []string) {
		if _, ok := seen[f]; ok || f.Blocks == nil || !isRepoPath(fnPkgPath(f)) {
			return
		}
		if strings.Contains(fnPkgPath(f), "/station/log") || strings.HasSuffix(fnPkgPath(f), "/proto") {
			return
		}
		chain = append(append([]string{}, chain...), fnName(f))
		seen[f] = chain
		order = append(order, f)
		for _, a := range f.AnonFuncs {
			visit(a, chain)
		}
		eachInstr(f, func(in ssa.Instruction) {
			ci, ok := in.(ssa.CallInstruction)
			if !ok {
				return
			}
			cc := ci.Common()
			if cal := cc.StaticCallee(); cal != nil {
				visit(cal, chain)
				return
			}
			if cc.IsInvoke() {
				// transport / regmanager / override interfaces: every repo implementation of that method name with a repo receiver
				switch cc.Method.Name() {
				case "ParseParams", "GetDstPort", "GetIdentifier", "GetProto", "ParamStrings", "WrapConnection", "GetRegistrations", "Override", "TryReveal", "Connect", "RegisterUnidirectional", "RegisterBidirectional", "Select":
					for _, impl := range ifaceImpls[cc.Method.Name()] {
						visit(impl, chain)
					}
				}
			}
		})
	}
	for _, e := range entries {
		visit(e, nil)
	}
	nCand := 0
	for _, f := range order {
		eachInstr(f, func(in ssa.Instruction) {
			construct := ""
			switch x := in.(type) {
			case *ssa.TypeAssert:
				if !x.CommaOk {
					construct = "typeassert " + firstN(pathOf(x), 60)
				}
			case *ssa.Panic:
				if !strings.Contains(pathOf(x.X), "blocking select matched no case") {
					construct = "panic"
				}
			case *ssa.BinOp:
				if (x.Op == token.QUO || x.Op == token.REM) && isIntType(x.Type()) {
					if _, isC := x.Y.(*ssa.Const); !isC {
						construct = "integer division by " + firstN(pathOf(x.Y), 40)
					}
				}
			case ssa.CallInstruction:
				n := calleeName(x.Common())
				sh := calleeShort(x.Common())
				switch {
				case strings.HasPrefix(n, "regexp.MustCompile"), n == "os.Exit":
					construct = "call " + n
				case (strings.HasPrefix(sh, "Fatal") || strings.HasPrefix(sh, "Panic")) && strings.Contains(n, "og"):
					construct = "call " + shortName(n)
				}
			}
			if construct == "" {
				return
			}
			nCand++
			key := fnName(f) + ": " + construct
			for _, rv := range c11Table {
				if strings.HasSuffix(fnName(f), rv.fn) && strings.Contains(construct, rv.construct) {
					r.OK("C11.3", key+" (reviewed)", in.Pos(), rv.reason)
					return
				}
			}
			r.Bad("C11.3", key, in.Pos(), fnName(f), "a construct that can panic or exit the process ("+construct+") is reachable from an external input entry point and is not in the reviewed table: attacker-supplied bytes can take the process down", seen[f]...)
		})
	}
	// ---- C11.6 "never hangs": every lock taken on the externally reachable paths is released on all exits
	r.Rule("C11.6", "functions reachable from external entry points release every lock they take on all paths", 10)
	checkLockLeaks(r, "C11.6", order)

	// ---- C11.7 "never hangs", receive loops: the loop that reads datagrams for the DNS registrar waits on nothing but
	// its socket - a channel it can park on (an in-flight limit, a hand-off) turns a run of ignorable datagrams into a
	// registrar that no longer reads
	r.Rule("C11.7", "the DNS registrar's receive loop never parks on a channel, select or wait group", 1)
	if f := c.fn("C11.7", "pkg/registrars/dns-registrar/responder", "Responder", "RecvAndRespond"); f != nil {
		var ops []string
		var pos token.Pos = f.Pos()
		eachInstrDeep(f, 2, func(in ssa.Instruction, d deepCtx) {
			if what := parksOn(in); what != "" {
				ops = append(ops, fnName(d.f)+": "+what)
				pos = in.Pos()
			}
		})
		sort.Strings(ops)
		r.Check(len(ops) == 0, "C11.7", "RecvAndRespond: the receive loop waits only on the socket", pos, fnName(f), "no send / receive / blocking select / Wait in the loop function or the helpers it calls",
			"the receive loop can block on "+firstN(strings.Join(ops, "; "), 120)+": input that makes the awaited event never happen (e.g. a slot that is only released on the answered path) stops the registrar from reading any further datagram")
	}

	// ---- C11.8 a map of interface / pointer values answers a missing key with nil: the element is used only once the
	// lookup is known to have found something
	r.Rule("C11.8", "elements of interface-valued maps are invoked only under found / non-nil", 2)
	{
		nSites := 0
		for _, f := range order {
			eachInstr(f, func(in ssa.Instruction) {
				var used ssa.Value
				what := ""
				if x, ok := in.(ssa.CallInstruction); ok && x.Common().IsInvoke() {
					used, what = x.Common().Value, "method "+x.Common().Method.Name()+" invoked on"
				}
				if used == nil {
					return
				}
				var lk *ssa.Lookup
				switch v := used.(type) {
				case *ssa.Lookup:
					lk = v
				case *ssa.Extract:
					if l, ok := v.Tuple.(*ssa.Lookup); ok && v.Index == 0 {
						lk = l
					}
				}
				if lk == nil {
					return
				}
				if _, isMap := lk.X.Type().Underlying().(*types.Map); !isMap {
					return
				}
				// (pointer elements are left to the "ensure present, then use" idiom of the statistics maps, which this
				// rule cannot tell from a missed lookup)
				if _, isIface := used.Type().Underlying().(*types.Interface); !isIface {
					return
				}
				nSites++
				vp := pathOf(used)
				okp := pathOf(lk) + "#1"
				g := guardedM(f, in, func(cnd string, pol bool) bool {
					if cnd == okp {
						return pol
					}
					if cnd == "("+orderEq(vp, "nil")+")" {
						return !pol
					}
					return false
				})
				title := fnName(f) + ": " + what + " " + firstN(vp, 60) + " only if the key was found"
				if g {
					r.OK("C11.8", title, in.Pos(), "dominated by the lookup's ok / a non-nil test")
				} else {
					r.Bad("C11.8", title, in.Pos(), fnName(f),
						what+" the element of a map lookup that may have missed ("+firstN(vp, 60)+"): for a key the map does not hold (an unknown transport, an unknown id taken from the message) the element is nil and the handler panics", seen[f]...)
				}
			})
		}
		if nSites == 0 {
			r.Unk("C11.8", "map element uses", token.NoPos, "", "no method call on an interface-valued map element found on the externally reachable paths")
		}
	}

	// ---- C11.9 connection handlers range over the set of candidate registrations without a lock: it must be a copy made
	// under the lock, never the tracking map itself (a map written during iteration aborts the process, unrecoverably)
	checkLiveLookup(c, "C11.9", "the transports iterate it on every read of every new connection while ingest and the sweep write the same map under the lock: Go aborts the process with 'concurrent map iteration and map write', which no recover catches - first-flight bytes plus a registration for the same phantom take the station down")
	// ---- C11.10 "never hangs": every loop on the externally reachable paths is a range loop, a counted loop, a loop that
	// consumes an input stream / waits for an event, or is in the reviewed table
	r.Rule("C11.10", "loops reachable from external entry points are bounded (range / counted / input-consuming) or reviewed", 20)
	for _, f := range order {
		for _, l := range loopsOf(f) {
			l := l
			classifyLoop(&l)
			key := fmt.Sprintf("%s: loop at %s", fnName(f), loopExitConds(&l))
			if l.class != "" {
				r.OK("C11.10", key, l.head.Instrs[0].Pos(), l.class+": "+firstN(l.desc, 60))
				continue
			}
			reviewed := false
			for _, rv := range c11LoopTable {
				if strings.HasSuffix(fnName(f), rv.fn) && strings.Contains(key, rv.exit) {
					r.OK("C11.10", key+" (reviewed)", l.head.Instrs[0].Pos(), rv.reason)
					reviewed = true
					break
				}
			}
			if !reviewed {
				pos := token.NoPos
				for b := range l.blocks {
					for _, in := range b.Instrs {
						if pos == token.NoPos && in.Pos() != token.NoPos {
							pos = in.Pos()
						}
					}
				}
				r.Bad("C11.10", key, pos, fnName(f), "reachable from an external input entry point: this loop is not a range loop, has no counter that moves on every trip and consumes no input stream - its exits depend on values an attacker can choose (or on a draw that can keep failing), so one request can spin the handler forever", seen[f]...)
			}
		}
	}

	// ---- C11.13 "never hangs": the liveness probe every ZMQ registration goes through cannot deadlock on its own cache
	// lock (shared with C09.17)
	checkLRUNotUnderLock(c, "C11.13")

	// ---- C11.11 no unbounded recursion on the externally reachable paths: a function that calls itself does so on a path
	// that makes progress. The one self-call of today's tree is the fallback of DecoyRegistration.String() when
	// json.Marshal of its digest fails - reviewed: it is unreachable as long as every field of the digest has a type
	// whose JSON encoding cannot fail; the rule checks exactly that (a field with a fallible MarshalText / MarshalJSON,
	// e.g. a net.IP taken from the message, turns one registration into a stack overflow of the station)
	r.Rule("C11.11", "no self-recursion on externally reachable paths (the reviewed Marshal fallback stays unreachable)", 1)
	{
		okTypes := map[string]bool{"string": true, "uint32": true, "uint": true, "uint64": true, "int": true, "bool": true, "time.Time": true,
			"*proto.RegistrationFlags": true, "proto.TransportType": true, "*proto.RegistrationSource": true, "proto.IPProto": true, "uint16": true}
		nSelf := 0
		for _, f := range order {
			eachInstr(f, func(in ssa.Instruction) {
				ci, ok := in.(ssa.CallInstruction)
				if !ok || ci.Common().StaticCallee() != f {
					return
				}
				nSelf++
				key := fnName(f) + ": calls itself"
				// the reviewed shape: under err != nil of json.Marshal(x) where every field of x is infallible
				var m *ssa.Call
				eachInstr(f, func(in2 ssa.Instruction) {
					if c2, ok := in2.(*ssa.Call); ok && calleeName(&c2.Call) == "encoding/json.Marshal" {
						m = c2
					}
				})
				reviewed := false
				bad := ""
				if m != nil && guarded(f, in, errAtoms(m, false)...) {
					reviewed = true
					t := stripConv(m.Call.Args[0]).Type()
					if pt, ok := t.Underlying().(*types.Pointer); ok {
						t = pt.Elem()
					}
					if st, ok := t.Underlying().(*types.Struct); ok {
						for i := 0; i < st.NumFields(); i++ {
							if ts := typeShort(st.Field(i).Type()); !okTypes[ts] {
								reviewed, bad = false, st.Field(i).Name()+" "+ts
							}
						}
					} else {
						reviewed = false
					}
				}
				if reviewed {
					r.OK("C11.11", key+" (reviewed)", in.Pos(), "only when json.Marshal of a struct of infallible field types fails, which cannot happen")
				} else {
					r.Bad("C11.11", key, in.Pos(), fnName(f), "reachable from an external input entry point: the function calls itself with the same arguments on a path that external input can select ("+bad+" can make the encoding fail): unbounded recursion, fatal stack overflow - no recover catches it", seen[f]...)
				}
			})
		}
		if nSelf == 0 {
			r.OK("C11.11", "no function on the externally reachable paths calls itself", token.NoPos, fmt.Sprintf("%d functions scanned", len(order)))
		}
	}
	// ---- C11.12 the DTLS listener's certificate table is read by the handshake callbacks without nil tests: every pair
	// put into it has both certificates
	r.Rule("C11.12", "every certificate pair stored in the listener's table has both certificates set", 1)
	{
		n := 0
		for _, f := range c.funcsOfPkgs("pkg/dtls") {
			for _, ff := range withAnon(f) {
				eachInstr(ff, func(in ssa.Instruction) {
					mu, ok := in.(*ssa.MapUpdate)
					if !ok || !strings.HasSuffix(pathOf(mu.Map), ".connToCert") {
						return
					}
					n++
					v := stripConv(mu.Value)
					if _, isParam := v.(*ssa.Parameter); isParam {
						// handed in whole: the caller built it (checked where it is built)
						v2 := v.(*ssa.Parameter)
						sites, _ := callersOf(ff)
						okAll := len(sites) > 0
						for _, sc := range sites {
							idx := -1
							for i, p := range ff.Params {
								if p == v2 {
									idx = i
								}
							}
							if idx < 0 || idx >= len(sc.Call.Args) || !fullCertPair(sc.Parent(), sc.Call.Args[idx]) {
								okAll = false
							}
						}
						r.Check(okAll, "C11.12", fnName(ff)+": the pair stored in connToCert has both certificates", in.Pos(), fnName(ff), "built by every caller with clientCert and serverCert", "a certificate pair with a missing certificate is stored in the listener's table")
						return
					}
					r.Check(fullCertPair(ff, v), "C11.12", fnName(ff)+": the pair stored in connToCert has both certificates", in.Pos(), fnName(ff), "clientCert and serverCert are both set",
						"a certificate pair with a missing certificate is stored in the table the handshake callbacks read: a peer whose hello-random finds it makes verifyConnection / the certificate callback dereference nil inside the DTLS library's goroutine, which nothing recovers - one well-formed handshake from a stranger takes the station down")
				})
			}
		}
		if n == 0 {
			r.Unk("C11.12", "stores into Listener.connToCert", token.NoPos, "", "none found")
		}
	}

	// ---- C11.5 constant-bound slicing / indexing and allocation sizes on the same reachable set
	r.Rule("C11.5", "constant-bound slices/indexes of dynamically sized values are dominated by a length test; allocation sizes come from in-memory lengths or are bounded", 10)
	for _, f := range order {
		for _, bc := range boundCandidates(f) {
			key := fnName(f) + ": " + bc.construct
			if bc.ok {
				r.OK("C11.5", key, bc.in.Pos(), bc.why)
				continue
			}
			reviewed := false
			for _, rv := range c11BoundsTable {
				if strings.HasSuffix(fnName(f), rv.fn) && strings.Contains(bc.construct, rv.construct) {
					if rv.guardFalse != "" && !guarded(f, bc.in, Atom{rv.guardFalse, false}) {
						continue
					}
					r.OK("C11.5", key+" (reviewed)", bc.in.Pos(), rv.reason)
					reviewed = true
					break
				}
			}
			if !reviewed {
				r.Bad("C11.5", key, bc.in.Pos(), fnName(f), "reachable from an external input entry point: "+bc.construct+" is not "+bc.why+" (and has no static length): a short / oversized attacker-supplied value panics the handler (slice bounds out of range, makeslice: len out of range) or exhausts memory", seen[f]...)
			}
		}
	}

	var en []string
	for _, e := range entries {
		en = append(en, e.Name())
	}
	sort.Strings(en)
	r.Note("C11.3 entry points: %v; %d functions reachable; %d panic-capable constructs examined", en, len(order), nCand)

	// ---- C11.4 bounded pointer following
	r.Rule("C11.4", "readName follows a bounded number of compression pointers", 1)
	if f := c.fn("C11.4", "pkg/registrars/dns-registrar/dns", "", "readName"); f != nil {
		n := 0
		for _, ci := range callsIn(f, shortIs("Seek")) {
			call := ci.(*ssa.Call)
			if !seekIsPointerJump(call) {
				continue
			}
			n++
			r.Check(boundedByLoopCounter(f, call), "C11.4", "readName: the pointer jump is bounded by a loop counter", call.Pos(), fnName(f), "dominated by `counter+1 <= K` on an incremented loop variable",
				"the name parser follows compression pointers without a bound: a crafted packet with a pointer loop makes the responder spin forever")
		}
		if n == 0 {
			r.Unk("C11.4", "readName: pointer-following seek", f.Pos(), fnName(f), "not found")
		}
	}
}

// boundedByLoopCounter: some If dominating `in` compares a constant with an incremented loop counter (v = phi + const, and
// the phi takes v on a back edge), and `in` lies on the edge where the counter has not exceeded the constant.
func boundedByLoopCounter(f *ssa.Function, in ssa.Instruction) bool {
	isCounter := func(v ssa.Value) bool {
		bo, ok := v.(*ssa.BinOp)
		if !ok || bo.Op != token.ADD {
			return false
		}
		ph, ok := bo.X.(*ssa.Phi)
		if !ok {
			return false
		}
		if _, isC := bo.Y.(*ssa.Const); !isC {
			return false
		}
		var back func(x ssa.Value, d int) bool
		back = func(x ssa.Value, d int) bool {
			if d > 4 {
				return false
			}
			if x == ssa.Value(bo) {
				return true
			}
			if p2, ok := x.(*ssa.Phi); ok {
				for _, e := range p2.Edges {
					if e != x && back(e, d+1) {
						return true
					}
				}
			}
			return false
		}
		for _, e := range ph.Edges {
			if back(e, 0) {
				return true
			}
		}
		return false
	}
	for _, b := range f.Blocks {
		if len(b.Instrs) == 0 {
			continue
		}
		iff, ok := b.Instrs[len(b.Instrs)-1].(*ssa.If)
		if !ok {
			continue
		}
		bo, ok := iff.Cond.(*ssa.BinOp)
		if !ok {
			continue
		}
		var exceededSlot int = -1
		_, xc := bo.X.(*ssa.Const)
		_, yc := bo.Y.(*ssa.Const)
		switch {
		case isCounter(bo.X) && yc && (bo.Op == token.GTR || bo.Op == token.GEQ):
			exceededSlot = 0
		case isCounter(bo.X) && yc && (bo.Op == token.LSS || bo.Op == token.LEQ):
			exceededSlot = 1
		case isCounter(bo.Y) && xc && (bo.Op == token.LSS || bo.Op == token.LEQ):
			exceededSlot = 0
		case isCounter(bo.Y) && xc && (bo.Op == token.GTR || bo.Op == token.GEQ):
			exceededSlot = 1
		}
		if exceededSlot < 0 {
			continue
		}
		// `in` must be unreachable through the exceeded edge without re-passing the test, and reachable only via the other edge
		blocked := map[edge]bool{{b.Index, 1 - exceededSlot, 0}: true}
		if hit, _ := reach(f, nil, isInstr(in), nil, blocked); !hit {
			return true
		}
	}
	return false
}

func seekIsPointerJump(call *ssa.Call) bool {
	for _, a := range argsOf(&call.Call) {
		if strings.Contains(pathOf(a), "offset") || strings.Contains(pathOf(a), "<< 8") || strings.Contains(pathOf(a), "uint16(") {
			return true
		}
	}
	return false
}

func isIntType(t types.Type) bool {
	b, ok := t.Underlying().(*types.Basic)
	return ok && b.Info()&types.IsInteger != 0
}

var _ = fmt.Sprint

func fld0(fa *ssa.FieldAddr) string {
	// the field through which the base was loaded (…RegistrationResponse)
	if u, ok := fa.X.(*ssa.UnOp); ok {
		if f2, ok := u.X.(*ssa.FieldAddr); ok {
			_, n, _ := fieldOwner(f2)
			return n
		}
	}
	if call, ok := fa.X.(*ssa.Call); ok {
		return strings.TrimPrefix(calleeShort(&call.Call), "Get")
	}
	if ph, ok := fa.X.(*ssa.Phi); ok {
		for _, e := range ph.Edges {
			if call, ok := e.(*ssa.Call); ok {
				return strings.TrimPrefix(calleeShort(&call.Call), "Get")
			}
		}
	}
	return ""
}

var overrideNilMemo = map[string]bool{}

// overridesStoreNil: does any repo implementation of Override (which may replace sub-messages of the wrapper) store nil into field `fld`?
func overridesStoreNil(c *Ctx, fld string) bool {
	if v, ok := overrideNilMemo[fld]; ok {
		return v
	}
	res := false
	for _, f := range c.P.RepoFuncs() {
		if f.Name() != "Override" {
			continue
		}
		eachInstr(f, func(in ssa.Instruction) {
			if st, ok := in.(*ssa.Store); ok {
				if _, n, ok := fieldOwner(st.Addr); ok && n == fld {
					if cst, isC := st.Val.(*ssa.Const); isC && cst.Value == nil {
						res = true
					}
				}
			}
		})
	}
	overrideNilMemo[fld] = res
	return res
}

// c11BoundsTable: reviewed constant-bound accesses whose safety follows from an invariant the guard engine does
// not see (one line of reason each).
var c11BoundsTable = []struct{ fn, construct, reason, guardFalse string }{
	{"DecoyRegistration).IDString", "make([]byte)[…16…]", "n = hex.Encode(secret, …) is the number of bytes written, which is len(secret); the slice is taken only under !(n < 16)", "(hex.Encode(make([]byte), reg.Keys.SharedSecret) < 16)"},
	{"prefix.Transport).tryFindReg", "data.Bytes()[prefix.Offset:(prefix.Offset + 64)]", "reached only with data.Len() >= prefix.MaxLen, and every entry of the prefix table has MaxLen >= Offset + 64 (the table invariant is decided by C04.3)", "(data.Len() < prefix.MaxLen)"},
	{"obfs4.findMarkMac", "buf[(phi:endPos[len(buf)|maxPos] -", "endPos = min(len(buf), maxPos) by the two preceding statements and endPos - startPos >= MarkLength + MacLength (32) is tested: pos = endPos - 32 >= startPos >= 0 and pos + 16 <= endPos <= len(buf)", "((phi:endPos[len(buf)|maxPos] - startPos) < 32)"},
	{"obfs4.findMarkMac", "buf[startPos:phi:endPos[len(buf)|maxPos]]", "startPos <= len(buf) is tested on entry, endPos = min(len(buf), maxPos), and endPos - startPos >= 32 is tested: startPos <= endPos <= len(buf)", "((phi:endPos[len(buf)|maxPos] - startPos) < 32)"},
	{"dtls.dtlsCtx$1", "serverCert.Certificate[0]", "serverCert comes from certsFromSeed/newCertificate, which always builds Certificate as a one-element literal; it is not peer input (rawCerts[0] next to it is length-tested)", ""},
	{"dtls.hbConn).recvLoop", "make(…, c.maxMessageSize)", "maxMessageSize is the local SCTP association.s configured MaxMessageSize (pion default 65536, changed only by local configuration), not a value negotiated with or sent by the peer", ""},
}

// ---------------------------------------------------------------------------
// C11.10 loops on the externally reachable paths terminate for every input

type loopInfo struct {
	f      *ssa.Function
	blocks map[*ssa.BasicBlock]bool
	head   *ssa.BasicBlock
	class  string // "" = not classified as bounded
	desc   string
}

// loopsOf returns the natural loops of f as strongly connected components of its CFG (nested loops are reported as
// separate components by removing the outer header and recursing).
func loopsOf(f *ssa.Function) []loopInfo {
	var out []loopInfo
	var rec func(blocks []*ssa.BasicBlock, depth int)
	rec = func(blocks []*ssa.BasicBlock, depth int) {
		if depth > 6 {
			return
		}
		in := map[*ssa.BasicBlock]bool{}
		for _, b := range blocks {
			in[b] = true
		}
		// Tarjan
		index, low := map[*ssa.BasicBlock]int{}, map[*ssa.BasicBlock]int{}
		on := map[*ssa.BasicBlock]bool{}
		var stack []*ssa.BasicBlock
		n := 0
		var strong func(v *ssa.BasicBlock)
		strong = func(v *ssa.BasicBlock) {
			n++
			index[v], low[v] = n, n
			stack = append(stack, v)
			on[v] = true
			for _, w := range v.Succs {
				if !in[w] {
					continue
				}
				if index[w] == 0 {
					strong(w)
					if low[w] < low[v] {
						low[v] = low[w]
					}
				} else if on[w] && index[w] < low[v] {
					low[v] = index[w]
				}
			}
			if low[v] == index[v] {
				var comp []*ssa.BasicBlock
				for {
					w := stack[len(stack)-1]
					stack = stack[:len(stack)-1]
					on[w] = false
					comp = append(comp, w)
					if w == v {
						break
					}
				}
				self := false
				for _, s := range v.Succs {
					if s == v {
						self = true
					}
				}
				if len(comp) > 1 || self {
					set := map[*ssa.BasicBlock]bool{}
					var head *ssa.BasicBlock
					for _, b := range comp {
						set[b] = true
						if head == nil || b.Index < head.Index {
							head = b
						}
					}
					out = append(out, loopInfo{f: f, blocks: set, head: head})
					// inner loops: drop the header
					var rest []*ssa.BasicBlock
					for _, b := range comp {
						if b != head {
							rest = append(rest, b)
						}
					}
					rec(rest, depth+1)
				}
			}
		}
		for _, b := range blocks {
			if index[b] == 0 {
				strong(b)
			}
		}
	}
	rec(f.Blocks, 0)
	return out
}

// classifyLoop says why the loop makes progress towards an exit for every input, or "".
func classifyLoop(l *loopInfo) {
	// (a) range loops and (d) loops that wait for external events (channel operations, select, accept / read calls):
	// the former are bounded by the ranged value, the latter are the service loops themselves
	for b := range l.blocks {
		if strings.HasPrefix(b.Comment, "rangeindex.") || strings.HasPrefix(b.Comment, "rangeiter.") || strings.HasPrefix(b.Comment, "rangeint.") || strings.HasPrefix(b.Comment, "rangefunc.") {
			l.class, l.desc = "range", b.Comment
			return
		}
	}
	for b := range l.blocks {
		for _, in := range b.Instrs {
			switch x := in.(type) {
			case *ssa.Select:
				if x.Blocking {
					l.class, l.desc = "event", "blocking select"
					return
				}
			case *ssa.UnOp:
				if x.Op == token.ARROW {
					l.class, l.desc = "event", "channel receive"
					return
				}
			case *ssa.Next:
				l.class, l.desc = "range", "iterator"
				return
			case *ssa.Call:
				m := ""
				if x.Call.IsInvoke() {
					m = x.Call.Method.Name()
				} else if sc := x.Call.StaticCallee(); sc != nil {
					m = sc.Name()
				}
				switch m {
				case "Read", "ReadFull", "ReadFrom", "ReadFromUDP", "ReadMsgUDP", "Accept", "AcceptTCP", "Recv", "RecvBytes", "RecvMessage", "ReadByte", "ReadString", "ReadBytes", "Scan", "Wait", "Sleep", "ReadAtLeast", "Next", "ReadLine", "ReadRune", "Decode", "Seek":
					// the loop consumes an input stream (or the clock): it ends when the stream does
					l.class, l.desc = "input", m
					return
				}
			}
		}
	}
	// (b) counted loops: an exit condition compares a value that moves by a constant on every trip round the loop
	for b := range l.blocks {
		iff, ok := b.Instrs[len(b.Instrs)-1].(*ssa.If)
		if !ok {
			continue
		}
		exits := false
		for _, s := range b.Succs {
			if !l.blocks[s] {
				exits = true
			}
		}
		if !exits {
			continue
		}
		if bo, ok := iff.Cond.(*ssa.BinOp); ok {
			for _, side := range []ssa.Value{bo.X, bo.Y} {
				if isLoopCounter(l, side, 0) {
					l.class, l.desc = "counted", bo.String()
					return
				}
			}
		}
	}
}

// isLoopCounter: v is a phi of the loop (or a conversion / length of one) one of whose incoming values from inside the
// loop is that phi plus or minus a constant, or a re-slice x[k:] of that phi (consumption), or len() of such a phi.
func isLoopCounter(l *loopInfo, v ssa.Value, depth int) bool {
	if depth > 4 {
		return false
	}
	switch x := v.(type) {
	case *ssa.Convert:
		return isLoopCounter(l, x.X, depth+1)
	case *ssa.ChangeType:
		return isLoopCounter(l, x.X, depth+1)
	case *ssa.Call:
		if bi, ok := x.Call.Value.(*ssa.Builtin); ok && bi.Name() == "len" && len(x.Call.Args) == 1 {
			return isLoopCounter(l, x.Call.Args[0], depth+1)
		}
		// buf.Len() of a buffer consumed in the loop is not tracked
	case *ssa.BinOp:
		if x.Op == token.ADD || x.Op == token.SUB {
			if _, isC := x.Y.(*ssa.Const); isC {
				return isLoopCounter(l, x.X, depth+1)
			}
		}
	case *ssa.UnOp:
		// a local variable (not lifted to a register) that the loop increments
		if a, ok := x.X.(*ssa.Alloc); ok && x.Op == token.MUL && a.Referrers() != nil {
			for _, ref := range *a.Referrers() {
				st, ok := ref.(*ssa.Store)
				if !ok || st.Addr != ssa.Value(a) || !l.blocks[st.Block()] {
					continue
				}
				if bo, ok := st.Val.(*ssa.BinOp); ok && (bo.Op == token.ADD || bo.Op == token.SUB) {
					if _, isC := bo.Y.(*ssa.Const); isC {
						if ld, ok := bo.X.(*ssa.UnOp); ok && ld.X == ssa.Value(a) {
							return true
						}
					}
				}
			}
		}
	case *ssa.Phi:
		if !l.blocks[x.Block()] {
			return false
		}
		for i, e := range x.Edges {
			if i >= len(x.Block().Preds) || !l.blocks[x.Block().Preds[i]] {
				continue
			}
			switch y := e.(type) {
			case *ssa.BinOp:
				if y.Op == token.ADD || y.Op == token.SUB {
					_, cy := y.Y.(*ssa.Const)
					_, cx := y.X.(*ssa.Const)
					if (cy && stripConvAll(y.X) == ssa.Value(x)) || (cx && stripConvAll(y.Y) == ssa.Value(x)) {
						return true
					}
					// i += n with n > 0 is not proven here
				}
			case *ssa.Slice:
				if y.X == ssa.Value(x) && y.Low != nil {
					return true
				}
			}
		}
	}
	return false
}

func stripConvAll(v ssa.Value) ssa.Value {
	for {
		switch x := v.(type) {
		case *ssa.Convert:
			v = x.X
		case *ssa.ChangeType:
			v = x.X
		default:
			return v
		}
	}
}

// loopExitConds renders the exit conditions of a loop (sorted), the stable part of its key.
func loopExitConds(l *loopInfo) string {
	var cs []string
	for b := range l.blocks {
		iff, ok := b.Instrs[len(b.Instrs)-1].(*ssa.If)
		if !ok {
			continue
		}
		for _, s := range b.Succs {
			if !l.blocks[s] {
				cnd, _ := normCond(iff.Cond)
				cs = append(cs, firstN(cnd, 70))
				break
			}
		}
	}
	sort.Strings(cs)
	cs = uniq(cs)
	if len(cs) > 3 {
		cs = cs[:3]
	}
	return "[" + strings.Join(cs, "; ") + "]"
}

// c11LoopTable: loops on the externally reachable paths that the classifier does not recognise, each read and found
// to terminate for every input.
var c11LoopTable = []struct{ fn, exit, reason string }{}

// panicConstruct names the construct of `in` that can panic or exit the process, or "".
func panicConstruct(in ssa.Instruction) string {
	switch x := in.(type) {
	case *ssa.TypeAssert:
		if !x.CommaOk {
			return "typeassert " + firstN(pathOf(x), 60)
		}
	case *ssa.Panic:
		if !strings.Contains(pathOf(x.X), "blocking select matched no case") {
			return "panic"
		}
	case *ssa.BinOp:
		if (x.Op == token.QUO || x.Op == token.REM) && isIntType(x.Type()) {
			if _, isC := x.Y.(*ssa.Const); !isC {
				return "integer division by " + firstN(pathOf(x.Y), 40)
			}
		}
	case ssa.CallInstruction:
		n := calleeName(x.Common())
		sh := calleeShort(x.Common())
		switch {
		case strings.HasPrefix(n, "regexp.MustCompile"), n == "os.Exit":
			return "call " + n
		case (strings.HasPrefix(sh, "Fatal") || strings.HasPrefix(sh, "Panic")) && strings.Contains(n, "og"):
			return "call " + shortName(n)
		}
	}
	return ""
}

// fullCertPair: v is a certPair allocated in f whose clientCert and serverCert fields are both stored.
func fullCertPair(f *ssa.Function, v ssa.Value) bool {
	al, ok := stripConv(v).(*ssa.Alloc)
	if !ok || al.Referrers() == nil {
		return false
	}
	got := map[string]bool{}
	for _, ref := range *al.Referrers() {
		if fa, ok := ref.(*ssa.FieldAddr); ok && fa.Referrers() != nil {
			for _, r2 := range *fa.Referrers() {
				if st, ok := r2.(*ssa.Store); ok && st.Addr == ssa.Value(fa) {
					if cst, isC := st.Val.(*ssa.Const); isC && cst.Value == nil {
						continue
					}
					got[fieldName(fa.X.Type(), fa.Field)] = true
				}
			}
		}
	}
	return got["clientCert"] && got["serverCert"]
}

// unmarshalledInto: the value is (a field path of) a message allocated in f that f hands to an Unmarshal call - its
// sub-messages are then whatever the external bytes said.
func unmarshalledInto(f *ssa.Function, v ssa.Value) bool {
	root := v
	for i := 0; i < 8; i++ {
		switch x := root.(type) {
		case *ssa.UnOp:
			root = x.X
			continue
		case *ssa.FieldAddr:
			root = x.X
			continue
		}
		break
	}
	al, ok := root.(*ssa.Alloc)
	if !ok || al == v {
		return false
	}
	hit := false
	eachInstr(f, func(in ssa.Instruction) {
		call, ok := in.(*ssa.Call)
		if !ok || !strings.Contains(calleeName(&call.Call), "Unmarshal") {
			return
		}
		for _, a := range call.Call.Args {
			if stripConv(a) == ssa.Value(al) {
				hit = true
			}
		}
	})
	return hit
}
