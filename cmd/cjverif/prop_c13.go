package main

import (
	"fmt"
	"go/token"
	"go/types"
	"strings"

	"golang.org/x/tools/go/ssa"
)

func init() {
	register("C13", &propCheck{Run: checkC13,
		Explain: "Lockset analysis (may/must, deferred unlocks held to exit, callee acquire-summaries) over the registrar packages. " +
			"C13.1 no mutex is acquired where it may already be held (RWMutex read re-entrancy deadlocks once a writer waits); " +
			"C13.2 the selector used by one request is a single snapshot (one SSA value or one uninterrupted critical section) and the field is only touched under selectorMutex; " +
			"C13.3 ReloadSubnets parses before locking, does no call under the write lock, stores only on the nil-error path; " +
			"C13.4 every acquisition is released on all paths. Decides the structural deadlock/atomicity conditions, not termination of Select.",
		Assume: []string{
			"mutex identity is the access path of the Lock receiver within one function; locks reached through interfaces are not tracked (none in these packages)",
			"sync.RWMutex semantics: a pending writer blocks new readers (documented in package sync)",
		}})
}

func checkC13(c *Ctx) {
	r := c.R
	pkgs := []string{"pkg/regserver/regprocessor", "pkg/regserver/apiregserver", "pkg/regserver/dnsregserver"}
	fns := c.funcsOfPkgs(pkgs...)
	r.Rule("C13.1", "no re-entrant acquisition of a registrar mutex (selectorMutex, zmqMutex, ccMutex)", 5)
	checkNoReentrancy(r, "C13.1", fns, nil)

	r.Rule("C13.4", "every Lock/RLock in the registrar packages is released on all paths", 4)
	checkLockLeaks(r, "C13.4", fns)

	// C13.2: guarded-by + one snapshot
	r.Rule("C13.2a", "RegProcessor.ipSelector is read under selectorMutex (R or W) and written under W", 3)
	checkGuardedBy(r, "C13.2a", fns, []guardSpec{{Owner: "regprocessor.RegProcessor", Field: "ipSelector", Mutex: "selectorMutex"}}, func(f *ssa.Function) string {
		return ""
	})
	r.Rule("C13.2b", "all address selections of one request use one selector snapshot", 1)
	for _, f := range fns {
		var sel []*ssa.Call
		eachInstr(f, func(in ssa.Instruction) {
			if call, ok := in.(*ssa.Call); ok && call.Call.IsInvoke() && call.Call.Method.Name() == "Select" {
				if strings.HasSuffix(typeShort(call.Call.Value.Type()), "ipSelector") {
					sel = append(sel, call)
				}
			}
		})
		if len(sel) == 0 {
			continue
		}
		same := true
		for _, s := range sel[1:] {
			if s.Call.Value != sel[0].Call.Value {
				same = false
			}
		}
		construct := fmt.Sprintf("%s: %d Select call(s)", fnName(f), len(sel))
		if same {
			r.OK("C13.2b", construct, sel[0].Pos(), "all calls use the same loaded selector value "+sel[0].Call.Value.Name())
			continue
		}
		// otherwise: one uninterrupted critical section — a single acquisition of the
		// selector mutex dominates all calls and is not released before the last of them.
		lf := analyseLocks(f, lockSet{})
		var acq []*ssa.Call
		unlockBetween := false
		eachInstr(f, func(in ssa.Instruction) {
			if call, ok := in.(*ssa.Call); ok {
				if p, _, op := lockOp(&call.Call); strings.HasSuffix(p, ".selectorMutex") {
					if op == "lock" {
						acq = append(acq, call)
					} else if op == "unlock" {
						unlockBetween = true
					}
				}
			}
		})
		allHeld := true
		for _, s := range sel {
			if _, ok := realLocks(lf.Must[s]).holdsPath(pathOf(recvFieldBase(s.Call.Value)) + ".selectorMutex"); !ok {
				allHeld = false
			}
		}
		if len(acq) == 1 && !unlockBetween && allHeld {
			r.OK("C13.2b", construct, sel[0].Pos(), "one acquisition of selectorMutex covers all Select calls")
		} else {
			r.Bad("C13.2b", construct+" on separately loaded selectors in separate critical sections", sel[0].Pos(), fnName(f),
				fmt.Sprintf("the request loads p.ipSelector %d times under %d separate acquisition(s): a reload between them gives the IPv4 and IPv6 phantoms from different subnet sets", len(sel), len(acq)))
		}
	}

	// the same, through helpers: a request that obtains the selector more than once (its own loads of p.ipSelector
	// plus calls to helpers that load it) works on more than one snapshot unless one critical section covers them all
	{
		isSelLoad := func(in ssa.Instruction) bool {
			u, ok := in.(*ssa.UnOp)
			if !ok || u.Op != token.MUL {
				return false
			}
			o, fld, ok := fieldOwner(u.X)
			return ok && o == "regprocessor.RegProcessor" && fld == "ipSelector"
		}
		memo := map[*ssa.Function]bool{}
		var loadsSel func(g *ssa.Function, d int) bool
		loadsSel = func(g *ssa.Function, d int) bool {
			if g == nil || g.Blocks == nil || d > 3 {
				return false
			}
			if v, ok := memo[g]; ok {
				return v
			}
			memo[g] = false
			found := false
			eachInstr(g, func(in ssa.Instruction) {
				if isSelLoad(in) {
					found = true
				}
				if ci, ok := in.(ssa.CallInstruction); ok {
					if cal := ci.Common().StaticCallee(); cal != nil && isRepoPath(fnPkgPath(cal)) && loadsSel(cal, d+1) {
						found = true
					}
				}
			})
			memo[g] = found
			return found
		}
		for _, f := range fns {
			var events []ssa.Instruction
			eachInstr(f, func(in ssa.Instruction) {
				if isSelLoad(in) {
					events = append(events, in)
				}
				if ci, ok := in.(ssa.CallInstruction); ok {
					if cal := ci.Common().StaticCallee(); cal != nil && cal != f && isRepoPath(fnPkgPath(cal)) && loadsSel(cal, 0) {
						events = append(events, in)
					}
				}
			})
			if len(events) < 2 {
				continue
			}
			lf := analyseLocks(f, lockSet{})
			nAcq, unlocks := 0, 0
			eachInstr(f, func(in ssa.Instruction) {
				if call, ok := in.(*ssa.Call); ok {
					if p, _, op := lockOp(&call.Call); strings.HasSuffix(p, ".selectorMutex") {
						if op == "lock" {
							nAcq++
						} else if op == "unlock" {
							unlocks++
						}
					}
				}
			})
			allHeld := true
			for _, ev := range events {
				held := false
				for k := range realLocks(lf.Must[ev]) {
					if strings.Contains(k, ".selectorMutex") {
						held = true
					}
				}
				allHeld = allHeld && held
			}
			construct := fmt.Sprintf("%s: obtains the selector %d times (own loads and helper calls)", fnName(f), len(events))
			if nAcq == 1 && unlocks == 0 && allHeld {
				r.OK("C13.2b", construct, events[0].Pos(), "one acquisition of selectorMutex covers all of them")
			} else {
				r.Bad("C13.2b", construct+" in separate critical sections", events[0].Pos(), fnName(f),
					"the request obtains p.ipSelector more than once (directly or through a helper that takes the lock, loads the selector and releases the lock): a reload between two of them gives the IPv4 and IPv6 phantoms of one request from different subnet sets")
			}
		}
	}

	// a selection belongs to the request that made it: its result is never parked in state of the processor (a memo of
	// selections outlives the selector it was computed with, and a request holding the old snapshot keeps feeding it)
	{
		n := 0
		for _, f := range fns {
			eachInstr(f, func(in ssa.Instruction) {
				call, ok := in.(*ssa.Call)
				if !ok || !call.Call.IsInvoke() || call.Call.Method.Name() != "Select" || !strings.HasSuffix(typeShort(call.Call.Value.Type()), "ipSelector") {
					return
				}
				n++
				tainted := map[ssa.Value]bool{}
				var work []ssa.Value
				add := func(v ssa.Value) {
					if v != nil && !tainted[v] {
						tainted[v] = true
						work = append(work, v)
					}
				}
				add(call)
				kept := ""
				var keptPos token.Pos
				procState := func(v ssa.Value) bool {
					// storage reached from the receiver (or a package-level variable)
					for i := 0; i < 12 && v != nil; i++ {
						switch x := v.(type) {
						case *ssa.Parameter:
							return len(f.Params) > 0 && x == f.Params[0] && f.Signature.Recv() != nil
						case *ssa.FreeVar, *ssa.Global:
							return true
						case *ssa.FieldAddr:
							v = x.X
						case *ssa.IndexAddr:
							v = x.X
						case *ssa.UnOp:
							v = x.X
						default:
							return false
						}
					}
					return false
				}
				for len(work) > 0 {
					v := work[len(work)-1]
					work = work[:len(work)-1]
					if v.Referrers() == nil {
						continue
					}
					for _, ref := range *v.Referrers() {
						switch x := ref.(type) {
						case *ssa.Extract:
							if x.Index == 0 {
								add(x)
							}
						case *ssa.MakeInterface, *ssa.ChangeType, *ssa.ChangeInterface, *ssa.Phi:
							add(x.(ssa.Value))
						case *ssa.Store:
							if x.Val != v {
								continue
							}
							if al, ok := x.Addr.(*ssa.Alloc); ok {
								for _, r2 := range *al.Referrers() {
									if u, ok := r2.(*ssa.UnOp); ok && u.Op == token.MUL {
										add(u)
									}
								}
							} else if procState(x.Addr) {
								kept, keptPos = "stored into "+firstN(pathOf(x.Addr), 50), x.Pos()
							}
						case *ssa.MapUpdate:
							if x.Value == v && procState(x.Map) {
								kept, keptPos = "stored into the map "+firstN(pathOf(x.Map), 50), x.Pos()
							}
						case ssa.CallInstruction:
							cn := calleeName(x.Common())
							if strings.HasPrefix(cn, "(*sync.Map).") && len(x.Common().Args) > 0 && procState(x.Common().Args[0]) {
								switch calleeShort(x.Common()) {
								case "Store", "LoadOrStore", "Swap", "CompareAndSwap":
									kept, keptPos = "kept in "+firstN(pathOf(x.Common().Args[0]), 50)+" ("+calleeShort(x.Common())+")", x.Pos()
								}
							}
						}
					}
				}
				title := fnName(f) + ": the selected phantom stays with the request"
				if kept == "" {
					r.OK("C13.2b", title, call.Pos(), "the result of Select reaches no field, map or sync.Map of the processor")
				} else {
					r.Bad("C13.2b", title, keptPos, fnName(f),
						"the result of a selection is "+kept+": it outlives the selector snapshot it was computed with, so a request that overlaps a reload (and every later request that hits the memo) mixes phantoms of the old and the new subnet set")
				}
			})
		}
		_ = n
	}

	// C13.6 a rollout: the registrars learn the new ClientConf generation only after the subnets of that generation are
	// installed - clients are moved to the newest generation the registrars know, which must be selectable
	r.Rule("C13.6", "on SIGHUP the phantom subnets are reloaded before the new ClientConf generation is published", 1)
	{
		n := 0
		for _, f := range c.funcsOfPkgs("cmd/regserver", "cmd/registration-server") {
			var reload []ssa.Instruction
			var load ssa.Instruction
			var publish []ssa.CallInstruction
			eachInstr(f, func(in ssa.Instruction) {
				ci, ok := in.(ssa.CallInstruction)
				if !ok {
					return
				}
				switch calleeShort(ci.Common()) {
				case "ReloadSubnets":
					reload = append(reload, in)
				case "loadConfig":
					load = in
				case "NewClientConf", "UpdateLatestCCGen":
					publish = append(publish, ci)
				}
			})
			if len(reload) == 0 {
				continue
			}
			for _, p := range publish {
				n++
				set := map[ssa.Instruction]bool{}
				for _, x := range reload {
					set[x] = true
				}
				skip, w := reach(f, load, isInstr(p.(ssa.Instruction)), inSet(set), nil)
				if skip {
					r.Bad("C13.6", fnName(f)+": "+calleeShort(p.Common())+" can run before ReloadSubnets", p.Pos(), fnName(f),
						"the new ClientConf generation is announced to the registrars before the subnets of that generation are installed: the API registrar moves out-of-date clients to the newest generation it knows, the selector does not have it yet, and requests fail ('generation number not recognized') until the reload finishes", r.blockPath(f, w)...)
				} else {
					r.OK("C13.6", fnName(f)+": "+calleeShort(p.Common())+" only after ReloadSubnets", p.Pos(), "must-pass from the configuration load")
				}
			}
		}
		if n == 0 {
			r.Unk("C13.6", "SIGHUP handler of the registration server", token.NoPos, "", "no function with ReloadSubnets and NewClientConf / UpdateLatestCCGen found")
		}
	}

	// C13.8 "any number of reloads ... the reloads complete as well": (a) the signal handler keeps serving signals whatever
	// a reload answered - from the ReloadSubnets call every path leads back to the receive from the signal channel, none
	// to a return of the handler goroutine; (b) ReloadSubnets itself parks on nothing: no channel operation, select or
	// wait (a turn-taking channel that one constructor forgot to make blocks every reload forever)
	r.Rule("C13.8", "the SIGHUP handler outlives every reload outcome; ReloadSubnets never parks on a channel", 2)
	{
		n := 0
		for _, f := range c.funcsOfPkgs("cmd/regserver", "cmd/registration-server") {
			for _, ci := range callsIn(f, shortIs("ReloadSubnets")) {
				in := ci.(ssa.Instruction)
				n++
				isRecv := func(x ssa.Instruction) bool {
					switch y := x.(type) {
					case *ssa.UnOp:
						return y.Op == token.ARROW
					case *ssa.Select:
						return true
					case *ssa.Next:
						return true
					}
					return false
				}
				isExit := func(x ssa.Instruction) bool {
					if isReturn(x) {
						return true
					}
					if call, ok := x.(*ssa.Call); ok {
						switch calleeName(&call.Call) {
						case "os.Exit", "runtime.Goexit":
							return true
						}
					}
					_, isPanic := x.(*ssa.Panic)
					return isPanic
				}
				// only meaningful when the call sits in a receive loop
				inLoop, _ := reach(f, in, isRecv, nil, nil)
				if !inLoop {
					r.Unk("C13.8", fnName(f)+": signal loop around ReloadSubnets", in.Pos(), fnName(f), "no channel receive is reachable from the reload: the handler is not a loop over the signal channel")
					continue
				}
				dies, w := reach(f, in, isExit, isRecv, nil)
				if !dies {
					// ... and from the receive itself (a return on the way to the reload - a failed configuration load -
					// ends the handler just the same)
					eachInstr(f, func(x ssa.Instruction) {
						if isRecv(x) && !dies {
							dies, w = reach(f, x, isExit, isRecv, nil)
						}
					})
				}
				if dies {
					r.Bad("C13.8", fnName(f)+": the signal handler ends after a reload", in.Pos(), fnName(f),
						"from the reload a return (or exit) of the signal-handling goroutine is reachable before the next receive from the signal channel: after that outcome no later SIGHUP is served, so later reloads never start and the registrar answers from the stale subnet set for the rest of its life", r.blockPath(f, w)...)
				} else {
					r.OK("C13.8", fnName(f)+": every path from ReloadSubnets leads back to the signal receive", in.Pos(), "no return / exit reachable before the next receive")
				}
			}
		}
		if n == 0 {
			r.Unk("C13.8", "SIGHUP handler of the registration server", token.NoPos, "", "no call of ReloadSubnets found in the registration server's main package")
		}
		// ... and calls nothing that panics when it is called a second time (registration-style APIs: expvar.New*,
		// prometheus MustRegister, flag definitions, http.Handle) - the second reload would take the registrar down
		if f := c.fn("C13.8", "pkg/regserver/regprocessor", "RegProcessor", "ReloadSubnets"); f != nil {
			var once []string
			pos := f.Pos()
			eachInstrDeep(f, 2, func(in ssa.Instruction, d deepCtx) {
				ci, ok := in.(ssa.CallInstruction)
				if !ok {
					return
				}
				n := calleeName(ci.Common())
				switch {
				case strings.HasPrefix(n, "expvar.New"), strings.HasPrefix(n, "expvar.Publish"), strings.Contains(n, "MustRegister"), strings.HasPrefix(n, "net/http.Handle"), strings.HasPrefix(n, "flag."):
					once = append(once, shortName(n))
					pos = in.Pos()
				}
			})
			r.Check(len(once) == 0, "C13.8", "ReloadSubnets: nothing that may only be called once", pos, fnName(f), "no expvar / registry / flag / handler registration on the reload path",
				"ReloadSubnets calls "+strings.Join(once, ", ")+", which panics when the same name is registered again: the first reload works, the second one panics on the signal goroutine and takes the registrar down")
		}
		if f := c.fn("C13.8", "pkg/regserver/regprocessor", "RegProcessor", "ReloadSubnets"); f != nil {
			var ops []string
			pos := f.Pos()
			eachInstrDeep(f, 2, func(in ssa.Instruction, d deepCtx) {
				if op := parksOn(in); op != "" {
					if len(ops) == 0 {
						pos = in.Pos()
					}
					ops = append(ops, op)
				}
			})
			for _, a := range f.AnonFuncs {
				eachInstr(a, func(in ssa.Instruction) {
					if op := parksOn(in); op != "" {
						ops = append(ops, op+" (in a deferred / nested function)")
					}
				})
			}
			r.Check(len(ops) == 0, "C13.8", "ReloadSubnets: no channel operation, select or wait", pos, fnName(f), "only the selector mutex is waited for",
				"ReloadSubnets can park on "+firstN(strings.Join(ops, "; "), 100)+": a channel that is nil (a constructor that does not make it) or full blocks the reload - and the signal handler behind it - forever, while requests keep being answered from the old set")
		}
	}

	// C13.9 a mutex guards nothing once it is copied: a method with a value receiver (or any load of a whole processor
	// value) copies selectorMutex with whatever state it has at that instant - copied while a reload holds the write
	// lock, the copy stays write-locked forever and the request that took it never returns
	r.Rule("C13.9", "no value of a registrar type that contains a mutex is copied (value receivers, whole-struct loads)", 1)
	{
		nBad, nFn := 0, 0
		for _, f := range c.funcsOfPkgs("pkg/regserver/regprocessor", "pkg/regserver/apiregserver", "pkg/regserver/dnsregserver") {
			if f.Blocks == nil || strings.Contains(r.posStr(f.Pos()), "_test") {
				continue
			}
			nFn++
			for _, prm := range f.Params {
				if _, isPtr := prm.Type().Underlying().(*types.Pointer); !isPtr && containsLock(prm.Type(), 0) {
					nBad++
					r.Bad("C13.9", fnName(f)+": parameter / receiver "+prm.Name()+" of type "+typeShort(prm.Type())+" is passed by value", f.Pos(), fnName(f),
						"every call copies a struct that contains a mutex: a copy taken while a reload holds the selector write lock is write-locked forever, and the request that locks the copy never completes")
				}
			}
			eachInstr(f, func(in ssa.Instruction) {
				if u, ok := in.(*ssa.UnOp); ok && u.Op == token.MUL {
					if _, isStruct := u.Type().Underlying().(*types.Struct); isStruct && containsLock(u.Type(), 0) {
						if _, isAlloc := u.X.(*ssa.Alloc); isAlloc {
							return // composite literal being built
						}
						nBad++
						r.Bad("C13.9", fnName(f)+": copies "+firstN(pathOf(u.X), 40)+" (a "+typeShort(u.Type())+")", in.Pos(), fnName(f), "a struct that contains a mutex is copied")
					}
				}
			})
		}
		if nBad == 0 {
			r.OK("C13.9", "no registrar value containing a mutex is copied", token.NoPos, fmt.Sprintf("%d function(s) scanned: pointer receivers only, no whole-struct load", nFn))
		}
	}

	// C13.7 requests run their selections on the snapshot with no lock held: selection only reads the selector (a lazily
	// filled memo inside the loaded configuration is written by the first requests after every reload, concurrently)
	checkSelectionPurity(c, "C13.7", "pkg/phantoms")

	// C13.3 reload
	r.Rule("C13.3", "ReloadSubnets: parse outside the lock, no call under the write lock, store only when the load succeeded", 3)
	if f := c.fn("C13.3", "pkg/regserver/regprocessor", "RegProcessor", "ReloadSubnets"); f != nil {
		checkNoCallsUnderWriteLock(r, "C13.3", f, func(p string) bool { return strings.HasSuffix(p, ".selectorMutex") }, nil)
		type selStore struct {
			at  ssa.Instruction
			val ssa.Value
		}
		var stores []selStore
		for _, st := range fieldStores(f, "regprocessor.RegProcessor", "ipSelector") {
			stores = append(stores, selStore{st, st.Val})
		}
		if len(stores) == 0 {
			// the store behind a setter of the package (p.setSelector(x)): the call is the store, its argument the value
			eachInstr(f, func(in ssa.Instruction) {
				call, ok := in.(*ssa.Call)
				if !ok {
					return
				}
				h := helperCallee(f, &call.Call)
				if h == nil {
					return
				}
				for _, st := range fieldStores(h, "regprocessor.RegProcessor", "ipSelector") {
					if prm, isP := stripConv(st.Val).(*ssa.Parameter); isP {
						if idx := paramIndex(h, prm); idx < len(call.Call.Args) && h.Params[idx] == prm {
							stores = append(stores, selStore{call, call.Call.Args[idx]})
						}
					}
				}
			})
		}
		if len(stores) == 0 {
			r.Unk("C13.3", "ReloadSubnets: store to ipSelector", f.Pos(), fnName(f), "no store to RegProcessor.ipSelector found in ReloadSubnets")
		}
		for _, ss := range stores {
			st := ss.at
			// the stored value must come from result #0 of a call whose error result #1 is nil on this path
			src := stripConv(ss.val)
			ex, ok := src.(*ssa.Extract)
			if !ok {
				r.Unk("C13.3", "ReloadSubnets: stored selector source", st.Pos(), fnName(f), "stored value is not the result of a loader call: "+pathOf(src))
				continue
			}
			errPath := pathOf(ex.Tuple) + "#1"
			okGuard := guarded(f, st, Atom{"(" + orderEq(errPath, "nil") + ")", true})
			r.Check(okGuard, "C13.3", "ReloadSubnets: p.ipSelector = "+pathOf(src)+" only if its error is nil", st.Pos(), fnName(f),
				"store is unreachable unless "+errPath+" == nil", "the selector is replaced even when loading failed: a bad reload discards the working subnet set")
			// and the loader call itself runs before the write lock is taken
			if call, ok := ex.Tuple.(*ssa.Call); ok {
				lf := analyseLocks(f, lockSet{})
				may := realLocks(lf.May[call])
				r.Check(len(may) == 0, "C13.3", "ReloadSubnets: loader "+pathOf(call)+" runs with no lock held", call.Pos(), fnName(f),
					"may-lockset at the call is empty", "the subnet file is parsed while "+may.String()+" is held: requests stall for the duration of file I/O")
			}
		}
	}
	// C13.5: the published selector is immutable — a request works on a snapshot pointer after
	// releasing the lock, so "old or new set in full" needs the object itself never to change.
	r.Rule("C13.5", "the registrar never mutates a published selector in place (no field write, no mutating method)", 1)
	mut := mutatingMethods(c, "pkg/phantoms", "PhantomIPSelector")
	regFns := c.funcsOfPkgs(append(pkgs, "cmd/regserver")...)
	nMut := 0
	for _, f := range regFns {
		eachInstr(f, func(in ssa.Instruction) {
			switch x := in.(type) {
			case *ssa.Store:
				if o, fld, ok := fieldOwner(x.Addr); ok && o == "phantoms.PhantomIPSelector" {
					nMut++
					r.Bad("C13.5", fnName(f)+": writes PhantomIPSelector."+fld+" in place", in.Pos(), fnName(f),
						"the selector object is shared with in-flight requests that hold a snapshot pointer without the lock: modifying it in place lets one request see a mixture of the old and the new subnet set (and is a data race)")
				}
			case *ssa.MapUpdate:
				if u, ok := x.Map.(*ssa.UnOp); ok {
					if o, fld, ok := fieldOwner(u.X); ok && o == "phantoms.PhantomIPSelector" {
						nMut++
						r.Bad("C13.5", fnName(f)+": updates map PhantomIPSelector."+fld+" in place", in.Pos(), fnName(f), "in-place mutation of the published selector")
					}
				}
			case ssa.CallInstruction:
				if cal := x.Common().StaticCallee(); cal != nil && mut[cal] {
					// allowed on objects created in this function (not yet published)
					if len(x.Common().Args) > 0 && isFreshValue(x.Common().Args[0]) {
						return
					}
					nMut++
					r.Bad("C13.5", fnName(f)+": calls mutating method "+fnName(cal)+" on a possibly published selector", in.Pos(), fnName(f), "in-place mutation of the published selector")
				}
			}
		})
	}
	if nMut == 0 {
		var names []string
		for m := range mut {
			names = append(names, m.Name())
		}
		sortStrings(names)
		r.OK("C13.5", "registrar packages contain no in-place mutation of a PhantomIPSelector", token.NoPos, fmt.Sprintf("%d function(s) scanned; mutating methods computed from pkg/phantoms: %v", len(regFns), names))
	}
}

// mutatingMethods computes the methods of pkg.typ that (transitively through same-type method calls) write the receiver's fields or maps loaded from them.
func mutatingMethods(c *Ctx, pkg, typ string) map[*ssa.Function]bool {
	out := map[*ssa.Function]bool{}
	fns := c.funcsOfPkgs(pkg)
	owner := pkg[strings.LastIndex(pkg, "/")+1:] + "." + typ
	isMethod := func(f *ssa.Function) bool {
		return f.Signature.Recv() != nil && strings.HasSuffix(typeShort(f.Signature.Recv().Type()), owner)
	}
	changed := true
	for changed {
		changed = false
		for _, f := range fns {
			if !isMethod(f) || out[f] {
				continue
			}
			m := false
			eachInstr(f, func(in ssa.Instruction) {
				switch x := in.(type) {
				case *ssa.Store:
					if o, _, ok := fieldOwner(x.Addr); ok && o == owner {
						m = true
					}
				case *ssa.MapUpdate:
					if u, ok := x.Map.(*ssa.UnOp); ok {
						if o, _, ok := fieldOwner(u.X); ok && o == owner {
							m = true
						}
					}
				case *ssa.Call:
					if b, ok := x.Call.Value.(*ssa.Builtin); ok && b.Name() == "delete" {
						if u, ok := x.Call.Args[0].(*ssa.UnOp); ok {
							if o, _, ok := fieldOwner(u.X); ok && o == owner {
								m = true
							}
						}
					}
					if cal := x.Call.StaticCallee(); cal != nil && out[cal] {
						m = true
					}
				}
			})
			if m {
				out[f] = true
				changed = true
			}
		}
	}
	return out
}

// isFreshValue: the value is an allocation made in this function.
func isFreshValue(v ssa.Value) bool {
	for i := 0; i < 8; i++ {
		switch x := v.(type) {
		case *ssa.Alloc:
			return true
		case *ssa.UnOp:
			v = x.X
		case *ssa.Phi:
			return false
		default:
			return false
		}
	}
	return false
}

// orderEq renders "a == b" with operands in canonical (sorted) order.
func orderEq(a, b string) string {
	if a > b {
		a, b = b, a
	}
	return a + " == " + b
}

// recvFieldBase: for a value loaded from x.f returns x; otherwise the value itself.
func recvFieldBase(v ssa.Value) ssa.Value {
	v = stripConv(v)
	if u, ok := v.(*ssa.UnOp); ok && u.Op == token.MUL {
		if fa, ok := u.X.(*ssa.FieldAddr); ok {
			return fa.X
		}
	}
	return v
}

// containsLock: t is, or (transitively, by value) contains, a sync.Mutex / sync.RWMutex.
func containsLock(t types.Type, depth int) bool {
	if depth > 4 {
		return false
	}
	if n, ok := t.(*types.Named); ok && n.Obj().Pkg() != nil && n.Obj().Pkg().Path() == "sync" && (n.Obj().Name() == "Mutex" || n.Obj().Name() == "RWMutex") {
		return true
	}
	switch u := t.Underlying().(type) {
	case *types.Struct:
		for i := 0; i < u.NumFields(); i++ {
			if containsLock(u.Field(i).Type(), depth+1) {
				return true
			}
		}
	case *types.Array:
		return containsLock(u.Elem(), depth+1)
	}
	return false
}
