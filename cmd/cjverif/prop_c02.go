package main

import (
	"fmt"
	"go/constant"
	"go/token"
	"go/types"
	"sort"
	"strings"

	"golang.org/x/tools/go/ssa"
)

func init() {
	register("C02", &propCheck{Run: checkC02,
		Explain: "C02.8 (shared with C08.3) the sweep examines every timeout record on every pass and selects exactly those the expiry condition names, so no expired registration is left behind to keep matching; " +
			"C02.1 visibility filter: every registration copied into the map handed to transports is guarded by its own Valid flag and comes from the per-phantom map of the requested address; " +
			"C02.2 who-hands-out: the manager's GetRegistrations returns only what the filter produced; " +
			"C02.3 phantom scoping: every GetRegistrations call in a transport (and in its helpers, through their static call sites) is passed the connection's phantom parameter, and the handler passes the connection's original destination; " +
			"C02.4 identity checks dominate success: min returns the map element under the presented tag with the found-flag true; prefix returns only under transport-type == Prefix and, for typed params, prefix-id == the matched prefix, keyed by the revealed tag; obfs4 returns the registration whose keys produced the matching mark; " +
			"C02.5 Valid is stored true only in register and false only when tracking; C02.11 track clears Valid on every path to the insertion into the table; C02.12 the DTLS listener's peer check verifies the presented certificate against the secret-derived key (shared with C16.3); " +
			"C02.6 identifier labels of the deployed transports are pairwise distinct and keyed by the shared secret. " +
			"Decides that matching can only see valid registrations of the connection's own phantom and that success is dominated by the per-transport identity checks; cryptographic unforgeability and expiry (C08) are not decided.",
		Assume: []string{"HMAC-SHA256 / the obfuscators are unforgeable", "map lookup on the full tag rejects any altered tag"}})
}

func checkC02(c *Ctx) {
	r := c.R
	// ---- C02.1
	r.Rule("C02.1", "only Valid registrations of the requested phantom are handed to connection matching", 2)
	if f := c.fn("C02.1", "pkg/station/lib", "RegisteredDecoys", "getRegistrations"); f != nil {
		// every return hands out a map built in this call (never a stored / memoised set: expiry, removal and
		// invalidation act on r.decoys, and only a per-call filter over r.decoys observes them)
		fresh := map[ssa.Value]bool{}
		var isFresh func(v ssa.Value, d int) bool
		isFresh = func(v ssa.Value, d int) bool {
			if d > 6 {
				return false
			}
			switch x := v.(type) {
			case *ssa.MakeMap:
				fresh[x] = true
				return true
			case *ssa.Phi:
				for _, e := range x.Edges {
					if !isFresh(e, d+1) {
						return false
					}
				}
				return len(x.Edges) > 0
			}
			return false
		}
		eachInstr(f, func(in ssa.Instruction) {
			ret, ok := in.(*ssa.Return)
			if !ok || len(ret.Results) == 0 || in.Block().Comment == "recover" {
				return
			}
			rv := returnedValue(ret, 0, nil)
			r.Check(isFresh(rv, 0), "C02.1", "getRegistrations: the returned set is built in this call", in.Pos(), fnName(f), "make(map) in the same call",
				"getRegistrations returns "+firstN(pathOf(rv), 60)+", a set that was not computed in this call from the live table: a registration that expired, was removed or lost its Valid flag since that set was built is still offered to connection matching")
		})
		n := 0
		eachInstr(f, func(in ssa.Instruction) {
			mu, ok := in.(*ssa.MapUpdate)
			if !ok || !fresh[mu.Map] {
				return
			}
			n++
			vp := pathOf(mu.Value)
			g := guarded(f, in, Atom{vp + ".Valid", true})
			src := strings.Contains(vp, "range("+P(f, 0)+".decoys["+P(f, 1)+".String()]") || strings.Contains(vp, P(f, 0)+".decoys["+P(f, 1)+".String()]")
			r.Check(g && src, "C02.1", "getRegistrations: a registration is copied out only if its own Valid flag is set, from the requested phantom's map", in.Pos(), fnName(f), "guarded by "+firstN(vp, 60)+".Valid",
				"registrations that are not (yet) validated, or that belong to another phantom address, become visible to connection matching: a client can open a tunnel on a registration whose covert/liveness checks have not passed, or a tag replayed against another phantom is accepted")
			// key preserved
			kp := pathOf(mu.Key)
			if strings.HasSuffix(kp, "#1") && strings.HasSuffix(vp, "#2") && strings.TrimSuffix(kp, "#1") == strings.TrimSuffix(vp, "#2") {
				r.OK("C02.1", "getRegistrations: copied under its own identifier", in.Pos(), "key and value from the same iteration")
			} else {
				r.Bad("C02.1", "getRegistrations: registration copied under a different key", in.Pos(), fnName(f), "a registration is handed out under an identifier other than its own: a tag for one registration matches another")
			}
		})
		if n == 0 {
			r.Unk("C02.1", "getRegistrations: copy into the returned map", f.Pos(), fnName(f), "no map insert into the returned map found")
		}
	}
	// ---- C02.2
	r.Rule("C02.2", "the manager hands out exactly what the visibility filter produced", 1)
	if f := c.fn("C02.2", "pkg/station/lib", "RegistrationManager", "GetRegistrations"); f != nil {
		okSrc := true
		n := 0
		eachInstr(f, func(in ssa.Instruction) {
			if mu, ok := in.(*ssa.MapUpdate); ok {
				n++
				if !strings.Contains(pathOf(mu.Value), "regManager.registeredDecoys.getRegistrations(phantomAddr)") {
					okSrc = false
				}
			}
		})
		r.Check(okSrc && n > 0, "C02.2", "RegistrationManager.GetRegistrations returns only elements of getRegistrations(phantomAddr)", f.Pos(), fnName(f), fmt.Sprintf("%d insert(s)", n),
			"the manager returns registrations that did not pass the Valid / phantom filter")
	}
	// ---- C02.3 phantom scoping
	r.Rule("C02.3", "registration lookups are scoped to the connection's own original destination", 5)
	var tfns []*ssa.Function
	for _, f := range c.P.RepoFuncs() {
		if strings.Contains(fnPkgPath(f), "/pkg/transports/wrapping/") {
			tfns = append(tfns, f)
		}
	}
	ipParam := func(f *ssa.Function) *ssa.Parameter {
		for _, p := range f.Params {
			if typeShort(p.Type()) == "net.IP" {
				return p
			}
		}
		return nil
	}
	for _, f := range tfns {
		for _, ci := range callsIn(f, func(_ string, cc *ssa.CallCommon) bool {
			return cc.IsInvoke() && cc.Method.Name() == "GetRegistrations"
		}) {
			a := ci.Common().Args[0]
			p := ipParam(f)
			r.Check(p != nil && a == ssa.Value(p), "C02.3", fnName(f)+": GetRegistrations(<phantom parameter>)", ci.Pos(), fnName(f), pathOf(a),
				"a transport looks registrations up under "+firstN(pathOf(a), 40)+" instead of the connection's original destination: a genuine first flight replayed against a different phantom is accepted")
		}
		// helper call sites forward the caller's phantom parameter
		for _, ci := range callsIn(f, func(_ string, cc *ssa.CallCommon) bool {
			cal := cc.StaticCallee()
			if cal == nil || !strings.Contains(fnPkgPath(cal), "/pkg/transports/wrapping/") {
				return false
			}
			return ipParam(cal) != nil && reachesGetRegs(cal, map[*ssa.Function]bool{})
		}) {
			cal := ci.Common().StaticCallee()
			idx := paramIndex(cal, ipParam(cal))
			a := ci.Common().Args[idx]
			p := ipParam(f)
			r.Check(p != nil && a == ssa.Value(p), "C02.3", fnName(f)+": forwards its phantom parameter to "+cal.Name(), ci.Pos(), fnName(f), pathOf(a),
				"a helper that looks registrations up is called with "+firstN(pathOf(a), 40)+" instead of the caller's phantom parameter")
		}
	}
	if h := c.fn("C02.3", "cmd/application", "connManager", "handleNewTCPConn"); h != nil {
		for _, ci := range callsIn(h, func(_ string, cc *ssa.CallCommon) bool { return cc.IsInvoke() && cc.Method.Name() == "WrapConnection" }) {
			a := ci.Common().Args[2]
			r.Check(len(h.Params) == 4 && a == ssa.Value(h.Params[3]), "C02.3", "handleNewTCPConn: WrapConnection is given the connection's original destination", ci.Pos(), fnName(h), pathOf(a),
				"transports are asked to match against an address other than the connection's original destination")
		}
	}
	if h := c.fn("C02.3", "cmd/application", "connManager", "handleNewConn"); h != nil {
		for _, ci := range callsIn(h, shortIs("handleNewTCPConn")) {
			a := argsOf(ci.Common())[2]
			fromSocket := strings.HasPrefix(pathOf(a), "main.getOriginalDst(")
			// ... or the result of a helper of the package whose every non-nil answer at that position is getOriginalDst's
			if ex, ok := a.(*ssa.Extract); ok && !fromSocket {
				if hc, ok := ex.Tuple.(*ssa.Call); ok {
					if hf := helperCallee(h, &hc.Call); hf != nil {
						nRet, okAll := 0, true
						eachInstr(hf, func(in ssa.Instruction) {
							ret, ok := in.(*ssa.Return)
							if !ok || ex.Index >= len(ret.Results) || ret.Block().Comment == "recover" {
								return
							}
							v := ret.Results[ex.Index]
							if k, isC := v.(*ssa.Const); isC && k.Value == nil {
								return
							}
							nRet++
							if !strings.HasPrefix(pathOf(v), "main.getOriginalDst(") {
								okAll = false
							}
						})
						fromSocket = nRet > 0 && okAll
					}
				}
			}
			r.Check(fromSocket, "C02.3", "handleNewConn: original destination from the socket (SO_ORIGINAL_DST)", ci.Pos(), fnName(h), pathOf(a), "the original destination is not taken from the redirected socket")
		}
	}

	// ---- C02.4 identity checks
	r.Rule("C02.4", "success is dominated by the transport's identity checks on the registration found under the presented bytes", 4)
	for _, f := range wrappingImpls(c) {
		pk := fnPkgPath(f)
		switch {
		case strings.HasSuffix(pk, "/min"):
			eachInstr(f, func(in ssa.Instruction) {
				ret, ok := in.(*ssa.Return)
				if !ok {
					return
				}
				if cst, isC := ret.Results[2].(*ssa.Const); !isC || cst.Value != nil {
					return
				}
				rp := pathOf(ret.Results[0])
				okKey := strings.HasSuffix(rp, "["+P(f, 1)+".String()[:32]]#0") && strings.Contains(rp, ".GetRegistrations("+P(f, 3)+")")
				g := guarded(f, ret, Atom{strings.TrimSuffix(rp, "#0") + "#1", true})
				r.Check(okKey && g, "C02.4", "min: returns the registration stored under the first 32 presented bytes, only if found", ret.Pos(), fnName(f), firstN(rp, 100),
					"the min transport returns a registration that is not the map element under the presented tag (or without the found test): a connection is matched without proving knowledge of the secret")
			})
		case strings.HasSuffix(pk, "/obfs4"):
			eachInstr(f, func(in ssa.Instruction) {
				ret, ok := in.(*ssa.Return)
				if !ok {
					return
				}
				rv := ret.Results[0]
				if cst, isC := rv.(*ssa.Const); isC && cst.Value == nil {
					return
				}
				g := guardedM(f, ret, func(cnd string, pol bool) bool {
					return !pol && strings.HasPrefix(cnd, "(-1 == ") && strings.Contains(cnd, "findMarkMac")
				})
				// the mark derives from the keys of the returned registration and the presented representative
				okMark := false
				for _, ci := range callsIn(f, shortIs("generateMark")) {
					a := ci.Common().Args
					kp := pathOf(a[0])
					if strings.Contains(kp, firstN(pathOf(rv), 200)+".TransportKeys()") && strings.Contains(pathOf(a[2]), "representative") {
						okMark = true
					}
					// keys held in a local struct: it must have been filled from the returned registration's TransportKeys()
					if !okMark && strings.Contains(pathOf(a[2]), "representative") {
						var root ssa.Value = a[0]
						for i := 0; i < 6; i++ {
							switch x := root.(type) {
							case *ssa.UnOp:
								root = x.X
								continue
							case *ssa.FieldAddr:
								root = x.X
								continue
							}
							break
						}
						if al, ok := root.(*ssa.Alloc); ok && al.Referrers() != nil {
							for _, ref := range *al.Referrers() {
								if st, ok := ref.(*ssa.Store); ok && st.Addr == ssa.Value(al) && dependsOn(st.Val, stripConv(rv)) && strings.Contains(pathOf(st.Val), ".TransportKeys()") {
									okMark = true
								}
							}
						}
					}
				}
				r.Check(g && okMark, "C02.4", "obfs4: returns the registration whose node-id/public key produced the matching mark", ret.Pos(), fnName(f), firstN(pathOf(rv), 80),
					"obfs4 returns a registration without its mark having matched the presented handshake (or a different registration than the one whose keys matched)")
			})
		}
	}
	// obfs4 has no tag to look a registration up by: it tries the handshake against candidates. Candidates must be
	// restricted to obfs4 registrations, since the obfs4 keys can be derived for ANY registration's shared secret.
	checkObfs4Candidates(c)

	// ---- C02.10 the bytes a transport classifies are this connection's own: the buffer offered to WrapConnection is
	// created (empty) by the handler call that serves the connection - not taken from a pool, a field or a package
	// variable, where the unconsumed bytes of an earlier connection would be classified on behalf of this one
	r.Rule("C02.10", "the receive buffer offered to the transports is allocated by the handler call itself", 1)
	if h := c.fn("C02.10", "cmd/application", "connManager", "handleNewTCPConn"); h != nil {
		n := 0
		for _, ci := range callsIn(h, shortIs("WrapConnection")) {
			cc := ci.Common()
			args := cc.Args
			if !cc.IsInvoke() {
				args = argsOf(cc)
			}
			if len(args) < 1 {
				continue
			}
			n++
			// the buffer: a local bytes.Buffer (its address is passed), or a pointer produced by bytes.NewBuffer /
			// new(bytes.Buffer) in this function
			fresh := false
			switch x := stripConv(args[0]).(type) {
			case *ssa.Alloc:
				fresh = true
			case *ssa.Call:
				n := calleeName(&x.Call)
				fresh = n == "bytes.NewBuffer" || n == "bytes.NewBufferString"
			case *ssa.UnOp:
				if al, ok := x.X.(*ssa.Alloc); ok && al.Referrers() != nil {
					// a local pointer variable: every value stored into it is fresh
					fresh = true
					for _, ref := range *al.Referrers() {
						if st, ok := ref.(*ssa.Store); ok && st.Addr == ssa.Value(al) {
							switch y := stripConv(st.Val).(type) {
							case *ssa.Alloc:
							case *ssa.Call:
								if cn := calleeName(&y.Call); cn != "bytes.NewBuffer" && cn != "bytes.NewBufferString" {
									fresh = false
								}
							default:
								fresh = false
							}
						}
					}
				}
			}
			r.Check(fresh, "C02.10", "handleNewTCPConn: the buffer handed to WrapConnection is a local created by this call", ci.Pos(), fnName(h), firstN(pathOf(args[0]), 60),
				"the classification buffer "+firstN(pathOf(args[0]), 50)+" is not created by the handler call (pool, field or package variable): bytes a previous connection left unconsumed are classified as the first bytes of this one, so a flight that was rejected for another phantom is accepted for whoever connects next")
		}
		if n == 0 {
			r.Unk("C02.10", "handleNewTCPConn: WrapConnection", h.Pos(), fnName(h), "call not found")
		}
	}

	// ---- C02.9 obfs4: the mark is only a hint - padding, epoch hour and MAC are verified by the library handshake, so
	// a match may be reported only after that handshake returned without error, in this call
	r.Rule("C02.9", "obfs4 WrapConnection reports a match only after the library handshake (WrapConn) succeeded in this call", 1)
	if f := c.fn("C02.9", "pkg/transports/wrapping/obfs4", "Transport", "WrapConnection"); f != nil {
		var wcs []*ssa.Call
		for _, ci := range callsIn(f, shortIs("WrapConn")) {
			if call, ok := ci.(*ssa.Call); ok && call.Call.IsInvoke() {
				wcs = append(wcs, call)
			}
		}
		nOK := 0
		eachInstr(f, func(in ssa.Instruction) {
			ret, ok := in.(*ssa.Return)
			if !ok || len(ret.Results) != 3 || ret.Block().Comment == "recover" {
				return
			}
			if cst, isC := returnedValue(ret, 2, nil).(*ssa.Const); !isC || cst.Value != nil {
				return
			}
			nOK++
			okk := false
			for _, wc := range wcs {
				if guarded(f, ret, errAtoms(wc, true)...) && carries(returnedValue(ret, 1, nil), wc, 0) {
					okk = true
				}
			}
			r.Check(okk, "C02.9", "obfs4 WrapConnection: success only after factory.WrapConn returned nil, with the connection it returned", ret.Pos(), fnName(f), "dominated by WrapConn err == nil; returned connection derives from its result",
				"the match is reported without (or before) the outcome of the obfs4 handshake: the station has only compared the 16-byte mark, so a genuine flight altered in its padding or MAC is accepted, the registration is marked used and the covert is dialed")
		})
		if nOK == 0 || len(wcs) == 0 {
			r.Unk("C02.9", "obfs4 WrapConnection: WrapConn / success return", f.Pos(), fnName(f), fmt.Sprintf("found %d synchronous WrapConn call(s) and %d success return(s)", len(wcs), nOK))
		}
	}
	if f := c.fn("C02.4", "pkg/transports/wrapping/prefix", "Transport", "tryFindReg"); f != nil {
		n := 0
		eachInstr(f, func(in ssa.Instruction) {
			ret, ok := in.(*ssa.Return)
			if !ok || len(ret.Results) != 2 {
				return
			}
			if cst, isC := ret.Results[1].(*ssa.Const); !isC || cst.Value != nil {
				return
			}
			n++
			rp := pathOf(ret.Results[0])
			gType := guardedM(f, ret, func(cnd string, pol bool) bool {
				return pol && strings.Contains(cnd, rp+".TransportType()") && strings.Contains(cnd, " == ") && strings.Contains(cnd, constIntOf(c.P, repoMod+"/proto", "TransportType_Prefix"))
			})
			// prefix id: on the typed-params path the return is dominated by GetPrefixId() == int32(id)
			idEdges := edgesEstablishing(f, func(cnd string, pol bool) bool {
				return pol && strings.Contains(cnd, ".GetPrefixId()") && strings.Contains(cnd, " == ") && strings.Contains(cnd, "int32(")
			})
			untyped := edgesEstablishing(f, func(cnd string, pol bool) bool {
				return !pol && strings.HasSuffix(cnd, ".TransportParams().(*proto.PrefixTransportParams)#1")
			})
			block := map[edge]bool{}
			for e := range idEdges {
				block[e] = true
			}
			for e := range untyped {
				block[e] = true
			}
			skip, _ := reach(f, nil, isInstr(ret), nil, block)
			okKey := strings.Contains(rp, "t.getReg(data.Bytes()[")
			r.Check(gType && !skip && len(idEdges) > 0 && okKey, "C02.4", "prefix: success only for a Prefix registration whose registered prefix id equals the matched prefix, found under the revealed tag", ret.Pos(), fnName(f), firstN(rp, 80),
				"the prefix transport accepts a tag for a registration of another transport type or registered with a different prefix id: a first flight produced for a different transport/prefix than the one registered opens a tunnel")
		})
		if n == 0 {
			r.Unk("C02.4", "tryFindReg: success return", f.Pos(), fnName(f), "not found")
		}
	}
	checkPrefixLookupKey(c, "C02.4")

	// ---- C02.5 single writer of Valid
	r.Rule("C02.5", "Valid is set true only by register and false only when tracking", 2)
	for _, f := range c.P.RepoFuncs() {
		for _, st := range fieldStores(f, "lib.DecoyRegistration", "Valid") {
			cv, isC := constOf(st.Val)
			name := f.Name()
			okW := false
			if isC && cv.String() == "true" && name == "register" && strings.HasSuffix(fnName(f), "RegisteredDecoys).register") {
				okW = true
			}
			if isC && cv.String() == "false" && (name == "track") {
				okW = true
			}
			if freshRoot(st.Addr, f) {
				okW = isC && cv.String() == "false" || okW
			}
			val := "?"
			if isC {
				val = cv.String()
			}
			r.Check(okW, "C02.5", fnName(f)+": Valid = "+val, st.Pos(), fnName(f), "allowed writer",
				"the validity flag is written outside the validate step ("+fnName(f)+" stores "+val+"): a registration becomes usable without passing admission, or a usable one is silently disabled")
		}
	}
	// ---- C02.11 a registration enters the table not valid, whatever its history: the same object can be tracked again
	// after it expired
	r.Rule("C02.11", "a registration is inserted into the table with Valid cleared (or removal clears it)", 1)
	if f := c.fn("C02.11", "pkg/station/lib", "RegisteredDecoys", "track"); f != nil && len(f.Params) == 2 {
		d := f.Params[1]
		isClear := func(in ssa.Instruction) bool {
			st, ok := in.(*ssa.Store)
			if !ok {
				return false
			}
			fa, ok := st.Addr.(*ssa.FieldAddr)
			if !ok || fa.X != ssa.Value(d) {
				return false
			}
			if o, fld, ok := fieldOwner(fa); !ok || o != "lib.DecoyRegistration" || fld != "Valid" {
				return false
			}
			cv, isC := constOf(st.Val)
			return isC && cv.String() == "false"
		}
		// ... or the object loses the flag when it leaves the table
		clearedOnRemoval := false
		if rm := c.P.Func(repoMod+"/pkg/station/lib", "RegisteredDecoys", "removeRegistration"); rm != nil {
			clears := map[ssa.Instruction]bool{}
			for _, st := range fieldStores(rm, "lib.DecoyRegistration", "Valid") {
				if cv, isC := constOf(st.Val); isC && cv.String() == "false" {
					clears[st] = true
				}
			}
			if len(clears) > 0 {
				clearedOnRemoval = true
				eachInstr(rm, func(in ssa.Instruction) {
					if call, ok := in.(*ssa.Call); ok {
						if b, ok := call.Call.Value.(*ssa.Builtin); ok && b.Name() == "delete" {
							if skip, _ := reach(rm, nil, isInstr(in), anyOf(clears), nil); skip {
								clearedOnRemoval = false
							}
						}
					}
				})
			}
		}
		n := 0
		eachInstr(f, func(in ssa.Instruction) {
			mu, ok := in.(*ssa.MapUpdate)
			if !ok || mu.Value != ssa.Value(d) {
				return
			}
			n++
			skip, w := reach(f, nil, isInstr(in), isClear, nil)
			if skip && !clearedOnRemoval {
				r.Bad("C02.11", "track: the registration is inserted without clearing its Valid flag", in.Pos(), fnName(f),
					"a registration object that was validated, expired and is tracked again enters the table with Valid still set: first flights are matched to it although it was not validated again", r.blockPath(f, w)...)
			} else {
				r.OK("C02.11", "track: d.Valid = false on every path to the insertion", in.Pos(), "must-pass")
			}
		})
		if n == 0 {
			r.Unk("C02.11", "track: insertion of the registration", f.Pos(), fnName(f), "no map update storing the tracked registration found")
		}
	}
	// ---- C02.12 the DTLS sibling of the tag test: a session is handed to the waiting registration only if the peer
	// certificate was signed with the key derived from that registration's secret
	r.Rule("C02.12", "DTLS sessions are accepted only with a certificate signed by the secret-derived key", 1)
	checkVerifyCert(c, "C02.12")

	// ---- C02.15 "currently validated and unexpired": the transports are handed the registration manager itself, so every
	// offer of the buffer looks the registrations up afresh - never a set fetched when the connection was accepted
	r.Rule("C02.15", "the handler offers every transport the live registration manager (no per-connection snapshot)", 1)
	if f := c.fn("C02.15", "cmd/application", "connManager", "handleNewTCPConn"); f != nil {
		n := 0
		var rmParam *ssa.Parameter
		for _, prm := range f.Params {
			if strings.HasSuffix(typeShort(prm.Type()), "lib.RegistrationManager") {
				rmParam = prm
			}
		}
		eachInstrDeep(f, 2, func(in ssa.Instruction, d deepCtx) {
			call, ok := in.(*ssa.Call)
			if !ok || !call.Call.IsInvoke() || call.Call.Method.Name() != "WrapConnection" || len(call.Call.Args) < 4 {
				return
			}
			n++
			arg := stripConv(call.Call.Args[3])
			okk := rmParam != nil && (arg == ssa.Value(rmParam) || d.toRoot(pathOf(arg)) == pname(rmParam))
			if !okk {
				if prm, isP := arg.(*ssa.Parameter); isP && strings.HasSuffix(typeShort(prm.Type()), "lib.RegistrationManager") {
					okk = true // a helper that is handed the manager
				}
			}
			r.Check(okk, "C02.15", "handleNewTCPConn: WrapConnection is given the registration manager", call.Pos(), fnName(d.f), firstN(pathOf(arg), 50),
				"the transports look registrations up in "+firstN(pathOf(arg), 50)+" instead of the live registration manager: a registration that expired (or was invalidated) after the connection was accepted is still matched and proxied")
		})
		if n == 0 {
			r.Unk("C02.15", "handleNewTCPConn: WrapConnection call", f.Pos(), fnName(f), "not found")
		}
	}

	// ---- C02.16 connecting transports open the tunnel from the station's side: the connection attempt is made for a
	// registration only after that very delivery passed admission (AddRegistration) - never for "the tracked record",
	// which may never have been validated
	r.Rule("C02.16", "the connecting-transport attempt is reachable only through AddRegistration", 1)
	{
		n := 0
		for _, f := range c.funcsOfPkgs("pkg/station/lib") {
			for _, ci := range callsIn(f, shortIs("handleConnectingTpReg")) {
				n++
				in := ci.(ssa.Instruction)
				isAdd := func(x ssa.Instruction) bool {
					c2, ok := x.(ssa.CallInstruction)
					return ok && calleeShort(c2.Common()) == "AddRegistration"
				}
				skip, w := reach(f, nil, isInstr(in), isAdd, nil)
				argOK := len(ci.Common().Args) >= 2 && len(f.Params) > 0
				if argOK {
					// the registration handed over is this delivery's (a parameter of the function), not a looked-up one
					_, isP := stripConv(ci.Common().Args[1]).(*ssa.Parameter)
					argOK = isP
				}
				if skip || !argOK {
					r.Bad("C02.16", fnName(f)+": handleConnectingTpReg without admission of this delivery", in.Pos(), fnName(f),
						"the station starts a connecting-transport session (it dials the client and proxies to the covert) for a registration that did not pass admission in this call - a tracked record that was never validated, or whose covert was refused, gets a tunnel", r.blockPath(f, w)...)
				} else {
					r.OK("C02.16", fnName(f)+": handleConnectingTpReg only after AddRegistration, for the delivery itself", in.Pos(), "must-pass")
				}
			}
		}
		if n == 0 {
			r.Unk("C02.16", "call sites of handleConnectingTpReg", token.NoPos, "", "none found")
		}
	}

	// ---- C02.14 "unexpired for that same phantom": a match on one phantom extends the life of that phantom's record only
	r.Rule("C02.14", "a matched connection marks only the record under the matched registration's own (phantom, identifier) key as used", 1)
	checkMarkOwnRecord(c, "C02.14")

	// ---- C02.13 "produced for a different transport or prefix than the one registered": the transports compare the
	// presented flight with the registration's parameters through a type test on what TransportParams() returns; a
	// value that did not come out of the transport's own ParseParams (a raw *anypb.Any, the client's message) fails
	// that type test and the comparison is skipped without a trace
	r.Rule("C02.13", "a registration's transport parameters are the value its transport's ParseParams returned", 1)
	for _, f := range c.P.RepoFuncs() {
		for _, st := range fieldStores(f, "lib.DecoyRegistration", "transportParams") {
			r.Check(fromParseParams(f, st.Val, 0), "C02.13", fnName(f)+": writes DecoyRegistration.transportParams", st.Pos(), fnName(f), "the stored value is the first result of ParseParams: "+firstN(pathOf(st.Val), 80),
				"the registration's transport parameters are set to a value ("+firstN(pathOf(st.Val), 60)+") that is not the parsed form its transport produced: the transports' type test on it fails and the prefix / parameter comparison with the presented flight is skipped")
		}
	}
	// register is only reached from AddRegistration
	if reg := c.P.Func(repoMod+"/pkg/station/lib", "RegisteredDecoys", "register"); reg != nil {
		var callers []string
		for _, f := range c.P.RepoFuncs() {
			for range callsIn(f, func(_ string, cc *ssa.CallCommon) bool { return cc.StaticCallee() == reg }) {
				callers = append(callers, f.Name())
			}
		}
		sort.Strings(callers)
		r.Check(len(callers) == 1 && callers[0] == "AddRegistration", "C02.5", "register is called only from AddRegistration", reg.Pos(), fnName(reg), fmt.Sprint(callers), fmt.Sprintf("the validate step has callers %v besides the admission path", callers))
	}

	// ---- C02.7 an expired registration is really gone
	checkRemovalUnconditional(c, "C02.7")
	// ---- C02.8 the sweep finds every expired registration (shared with C08.3)
	checkExpirySelection(c, "C02.8", 2)

	// ---- C02.6 labels
	r.Rule("C02.6", "identifier labels are pairwise distinct and keyed by the shared secret", 3)
	labels := map[string][]string{}
	for _, f := range c.P.RepoFuncs() {
		if f.Name() != "GetIdentifier" || strings.Contains(r.posStr(f.Pos()), "_mock") {
			continue
		}
		for _, ci := range callsIn(f, shortIs("ConjureHMAC")) {
			a := ci.Common().Args
			lbl := ""
			if cv, ok := constOf(a[1]); ok && cv.Kind() == constant.String {
				lbl = constant.StringVal(cv)
			}
			okS := strings.HasSuffix(pathOf(a[0]), ".SharedSecret()")
			r.Check(lbl != "" && okS, "C02.6", fnName(f)+": HMAC(sharedSecret, "+fmt.Sprintf("%q", lbl)+")", ci.Pos(), fnName(f), "constant label, keyed by the registration's shared secret", "the identifier is not an HMAC of the registration's shared secret with a constant label")
			labels[lbl] = append(labels[lbl], fnName(f))
		}
	}
	for lbl, fs := range labels {
		if len(fs) > 1 {
			r.Bad("C02.6", fmt.Sprintf("label %q shared by %v", lbl, fs), token.NoPos, "", "two transports derive the same identifier from a shared secret: a tag produced for one transport matches a registration of the other")
		}
	}
	if len(labels) >= 3 {
		r.OK("C02.6", fmt.Sprintf("%d identifier labels pairwise distinct", len(labels)), token.NoPos, fmt.Sprint(keysOfS(labels)))
	}
}

func keysOfS(m map[string][]string) []string {
	var ks []string
	for k := range m {
		ks = append(ks, k)
	}
	sort.Strings(ks)
	return ks
}

func reachesGetRegs(f *ssa.Function, seen map[*ssa.Function]bool) bool {
	if seen[f] || f.Blocks == nil {
		return false
	}
	seen[f] = true
	found := false
	eachInstr(f, func(in ssa.Instruction) {
		ci, ok := in.(ssa.CallInstruction)
		if !ok {
			return
		}
		if ci.Common().IsInvoke() && ci.Common().Method.Name() == "GetRegistrations" {
			found = true
		}
		if cal := ci.Common().StaticCallee(); cal != nil && isRepoPath(fnPkgPath(cal)) && reachesGetRegs(cal, seen) {
			found = true
		}
	})
	return found
}

// checkObfs4Candidates: in the obfs4 station package, every element of GetRegistrations(...) that flows onward
// (appended, passed, returned) is dominated by a discriminator that only obfs4 registrations satisfy:
// len(identifier) == ntor.PublicKeyLength+ntor.NodeIDLength, elem.TransportType() == Obfs4, or a successful
// type assertion of its keys to Obfs4Keys.
func checkObfs4Candidates(c *Ctx) {
	r := c.R
	const pkg = "pkg/transports/wrapping/obfs4"
	idLen := ""
	if a, ok1 := constIntOfPkg(c.P, "github.com/refraction-networking/obfs4/common/ntor", "PublicKeyLength"); ok1 {
		if b, ok2 := constIntOfPkg(c.P, "github.com/refraction-networking/obfs4/common/ntor", "NodeIDLength"); ok2 {
			idLen = fmt.Sprint(a + b)
		}
	}
	obfsT := constIntOf(c.P, repoMod+"/proto", "TransportType_Obfs4")
	n := 0
	for _, f := range c.funcsOfPkgs(pkg) {
		for _, ci := range callsIn(f, shortIs("GetRegistrations")) {
			call, ok := ci.(*ssa.Call)
			if !ok {
				continue
			}
			base := "next(range(" + pathOf(call) + "))"
			keyP, valP := base+"#1", base+"#2"
			match := func(cond string, pol bool) bool {
				a := Atom{cond, pol}
				switch {
				case idLen != "" && a.Pol && a.Cond == "("+orderEq(idLen, "len("+keyP+")")+")":
					return true
				case obfsT != "" && a.Pol && a.Cond == "("+orderEq(obfsT, valP+".TransportType()")+")":
					return true
				case a.Pol && strings.HasPrefix(a.Cond, valP+".TransportKeys().(") && strings.Contains(a.Cond, "Obfs4Keys)#1"):
					return true
				}
				return false
			}
			eachInstr(f, func(in ssa.Instruction) {
				uses := false
				switch x := in.(type) {
				case *ssa.Store:
					uses = pathOf(x.Val) == valP
				case ssa.CallInstruction:
					for _, a := range x.Common().Args {
						if pathOf(a) == valP {
							uses = true
						}
					}
				case *ssa.Return:
					for _, a := range x.Results {
						if pathOf(a) == valP {
							uses = true
						}
					}
				case *ssa.MapUpdate:
					uses = pathOf(x.Value) == valP
				case *ssa.Send:
					uses = pathOf(x.X) == valP
				}
				if !uses {
					return
				}
				n++
				g := guardedM(f, in, match)
				r.Check(g, "C02.4", fnName(f)+": only obfs4 registrations become handshake candidates", in.Pos(), fnName(f), "dominated by len(identifier)=="+idLen+" / TransportType()==Obfs4 / keys.(Obfs4Keys)",
					"a registration of the phantom is tried as an obfs4 candidate without a test that it IS an obfs4 registration: obfs4 keys can be derived from any registration's shared secret, so an obfs4 first flight built from a min/prefix/dtls registration's secret is matched to that registration")
			})
		}
	}
	if n == 0 {
		r.Unk("C02.4", "obfs4: candidate selection", token.NoPos, pkg, "no use of GetRegistrations elements found in the obfs4 package")
	}
}

// constIntOfPkg returns an integer constant of any loaded package (dependencies included).
func constIntOfPkg(p *Program, pkgPath, name string) (int64, bool) {
	for _, pk := range p.Prog.AllPackages() {
		if pk.Pkg.Path() != pkgPath {
			continue
		}
		if cst, ok := pk.Pkg.Scope().Lookup(name).(*types.Const); ok {
			if v, ok := constant.Int64Val(constant.ToInt(cst.Val())); ok {
				return v, true
			}
		}
	}
	return 0, false
}

// carries: v is computed from src, possibly by way of a struct literal that holds it in a field.
func carries(v, src ssa.Value, depth int) bool {
	if v == nil || depth > 6 {
		return false
	}
	if dependsOn(v, src) {
		return true
	}
	switch x := v.(type) {
	case *ssa.MakeInterface:
		return carries(x.X, src, depth+1)
	case *ssa.ChangeInterface:
		return carries(x.X, src, depth+1)
	case *ssa.UnOp:
		return carries(x.X, src, depth+1)
	case *ssa.Alloc:
		if x.Referrers() == nil {
			return false
		}
		for _, ref := range *x.Referrers() {
			switch y := ref.(type) {
			case *ssa.Store:
				if y.Addr == ssa.Value(x) && carries(y.Val, src, depth+1) {
					return true
				}
			case *ssa.FieldAddr:
				if y.Referrers() != nil {
					for _, r2 := range *y.Referrers() {
						if st, ok := r2.(*ssa.Store); ok && st.Addr == ssa.Value(y) && carries(st.Val, src, depth+1) {
							return true
						}
					}
				}
			}
		}
	}
	return false
}

// checkPrefixLookupKey: the prefix transport finds its registration under the identifier revealed from the WHOLE tag of
// this connection with a station key (shared by C02.4 and C03.11: a remembered answer for part of the tag identifies
// peers that never presented a valid tag).
func checkPrefixLookupKey(c *Ctx, rule string) {
	r := c.R
	if f := c.fn(rule, "pkg/transports/wrapping/prefix", "Transport", "getReg"); f != nil {
		okk := false
		eachInstr(f, func(in ssa.Instruction) {
			if ret, ok := in.(*ssa.Return); ok && len(ret.Results) == 2 {
				if cst, isC := ret.Results[1].(*ssa.Const); isC && cst.Value == nil {
					rp := pathOf(ret.Results[0])
					if strings.Contains(rp, P(f, 2)+".GetRegistrations("+P(f, 3)+")[string("+P(f, 0)+".TagObfuscator.TryReveal("+P(f, 1)+", ") && guarded(f, ret, Atom{strings.TrimSuffix(rp, "#0") + "#1", true}) {
						okk = true
					}
				}
			}
		})
		r.Check(okk, rule, "prefix getReg: registration looked up under the tag revealed with a station key, only if found", f.Pos(), fnName(f), "map element under string(TryReveal(obfuscatedID, privkey))", "the prefix transport's lookup key is not the revealed tag (or the found test is missing)")
	}
}

// fromParseParams: v is (a conversion / phi of) the first result of an invocation of a transport's ParseParams, or of
// a helper of the package whose every non-constant first result is.
func fromParseParams(f *ssa.Function, v ssa.Value, depth int) bool {
	if depth > 3 {
		return false
	}
	switch x := v.(type) {
	case *ssa.MakeInterface:
		return fromParseParams(f, x.X, depth)
	case *ssa.ChangeInterface:
		return fromParseParams(f, x.X, depth)
	case *ssa.ChangeType:
		return fromParseParams(f, x.X, depth)
	case *ssa.Phi:
		for _, e := range x.Edges {
			if !fromParseParams(f, e, depth+1) {
				return false
			}
		}
		return len(x.Edges) > 0
	case *ssa.UnOp:
		// a local that is only ever assigned such values
		if a, ok := x.X.(*ssa.Alloc); ok && x.Op == token.MUL && a.Referrers() != nil {
			n := 0
			for _, ref := range *a.Referrers() {
				if st, ok := ref.(*ssa.Store); ok && st.Addr == ssa.Value(a) {
					n++
					if !fromParseParams(f, st.Val, depth+1) {
						return false
					}
				}
			}
			return n > 0
		}
	case *ssa.Extract:
		if x.Index != 0 {
			return false
		}
		call, ok := x.Tuple.(*ssa.Call)
		if !ok {
			return false
		}
		if call.Call.IsInvoke() {
			return call.Call.Method.Name() == "ParseParams"
		}
		if sc := call.Call.StaticCallee(); sc != nil && sc.Name() == "ParseParams" && sc.Signature.Recv() != nil {
			return true
		}
		hc := helperCallee(f, &call.Call)
		if hc == nil {
			return false
		}
		n, all := 0, true
		eachInstr(hc, func(in ssa.Instruction) {
			ret, ok := in.(*ssa.Return)
			if !ok || len(ret.Results) == 0 {
				return
			}
			rv := returnedValue(ret, 0, nil)
			if mi, ok := rv.(*ssa.MakeInterface); ok {
				if _, isC := mi.X.(*ssa.Const); isC {
					return // the error path
				}
			}
			if _, isC := rv.(*ssa.Const); isC {
				return
			}
			n++
			all = all && fromParseParams(hc, rv, depth+1)
		})
		return n > 0 && all
	}
	return false
}
