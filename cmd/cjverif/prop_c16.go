package main

import (
	"sort"
	"fmt"
	"go/constant"
	"go/token"
	"go/types"
	"strings"

	"golang.org/x/tools/go/ssa"
)

func init() {
	register("C16", &propCheck{Run: checkC16,
		Explain: "C16.1 pairing: after each successful listener registration (certificate, channel) every path to a return passes the deferred removal with the same key; " +
			"C16.2 guarded-by: connMap/connToCert only under their mutexes, SCTPConn read state only under readMutex; " +
			"C16.3 key agreement by value-flow: registration, routing, verification and certificate selection all use the hello-random derived from the same PSK, and client/server certificate roles (results 0/1 of certsFromSeed) are consistent on listener, server and dialer; " +
			"C16.4 read-then-err path rule on the heartbeat receive loop and SCTPConn.Read, the pair (data, err) is delivered data-first by hbConn.Read, and heartbeats are filtered before delivery; " +
			"C16.5 stream.Write is dominated by the message-size limit and by the buffered-amount test or the flow-control wait; low-threshold = max/2; " +
			"C16.6 client heartbeat send period (Interval/2) is below the server watchdog interval. " +
			"Decides registration hygiene, routing-key agreement and the data-before-error discipline structurally; not handshake outcomes, cross-delivery under concrete schedules, or watchdog timing.",
		Assume: []string{"pion/dtls reports the client's hello-random as RemoteRandomBytes on the server and calls the configured callbacks", "certsFromSeed is deterministic in its seed (HKDF)"}})
}

func checkC16(c *Ctx) {
	r := c.R
	const dt = "pkg/dtls"
	fns := c.funcsOfPkgs(dt)

	// ---- C16.1
	r.Rule("C16.1", "listener registrations are released on every exit of an accept", 2)
	if f := c.fn("C16.1", dt, "Listener", "acceptDTLSConn"); f != nil {
		for _, pair := range [][2]string{{"registerCert", "removeCert"}, {"registerChannel", "removeChannel"}} {
			var reg *ssa.Call
			for _, ci := range callsIn(f, shortIs(pair[0])) {
				reg = ci.(*ssa.Call)
			}
			if reg == nil {
				r.Unk("C16.1", "acceptDTLSConn: "+pair[0], f.Pos(), fnName(f), "call not found")
				continue
			}
			key := pathOf(argsOf(&reg.Call)[0])
			isRelease := func(in ssa.Instruction) bool {
				ci, ok := in.(ssa.CallInstruction)
				if !ok || calleeShort(ci.Common()) != pair[1] {
					return false
				}
				a := argsOf(ci.Common())
				return len(a) > 0 && pathOf(a[0]) == key
			}
			failEdges := edgesEstablishing(f, atomMatcher(errAtoms(reg, false)...))
			leak, w := reach(f, reg, isReturn, isRelease, failEdges)
			if leak {
				r.Bad("C16.1", "acceptDTLSConn: "+pair[0]+" without "+pair[1]+" on some exit", reg.Pos(), fnName(f),
					"after a successful "+pair[0]+" a path returns without (deferred) "+pair[1]+" of the same id: a cancelled or finished accept leaves a registration behind and the next accept with that secret fails with `seed already registered`", r.blockPath(f, w)...)
			} else {
				r.OK("C16.1", "acceptDTLSConn: "+pair[0]+"/"+pair[1]+" paired on all paths", reg.Pos(), "must-pass release for key "+firstN(key, 50))
			}
		}
	}

	// C16.1b: robust to helper refactors — acquire/release functions are computed from what they do to the routing maps.
	{
		acq, rel := map[*ssa.Function]bool{}, map[*ssa.Function]bool{}
		isRouting := func(v ssa.Value) bool {
			u, ok := v.(*ssa.UnOp)
			if !ok {
				return false
			}
			o, fld, ok := fieldOwner(u.X)
			return ok && o == "dtls.Listener" && (fld == "connMap" || fld == "connToCert")
		}
		for _, f := range fns {
			eachInstr(f, func(in ssa.Instruction) {
				switch x := in.(type) {
				case *ssa.MapUpdate:
					if isRouting(x.Map) {
						acq[f] = true
					}
				case *ssa.Call:
					if b, ok := x.Call.Value.(*ssa.Builtin); ok && b.Name() == "delete" && isRouting(x.Call.Args[0]) {
						rel[f] = true
					}
				}
			})
		}
		// close over direct callers that only forward (helpers like register()/unregister())
		for iter := 0; iter < 3; iter++ {
			for _, f := range fns {
				if acq[f] && rel[f] {
					continue
				}
				eachInstr(f, func(in ssa.Instruction) {
					if ci, ok := in.(ssa.CallInstruction); ok {
						if cal := ci.Common().StaticCallee(); cal != nil {
							if _, isDefer := in.(*ssa.Defer); !isDefer {
								if acq[cal] && !rel[cal] && !strings.Contains(f.Name(), "ccept") {
									acq[f] = true
								}
							}
							if rel[cal] && !acq[cal] && !strings.Contains(f.Name(), "ccept") {
								rel[f] = true
							}
						}
					}
				})
			}
		}
		n := 0
		for _, f := range fns {
			var acquires []*ssa.Call
			var releases []ssa.Instruction
			eachInstr(f, func(in ssa.Instruction) {
				ci, ok := in.(ssa.CallInstruction)
				if !ok {
					return
				}
				cal := ci.Common().StaticCallee()
				if cal == nil || cal == f {
					return
				}
				if call, isCall := in.(*ssa.Call); isCall && acq[cal] && !rel[cal] {
					acquires = append(acquires, call)
				}
				if rel[cal] && !acq[cal] {
					releases = append(releases, in)
				}
			})
			if len(acquires) == 0 || len(releases) == 0 || acq[f] && !strings.Contains(f.Name(), "ccept") {
				continue
			}
			// every release (call or defer) of a key must only be reachable after a successful acquire of that key
			for _, rl := range releases {
				n++
				key := ""
				if a := argsOf(rl.(ssa.CallInstruction).Common()); len(a) > 0 {
					key = pathOf(a[0])
				}
				okEdges := map[edge]bool{}
				var matching []*ssa.Call
				for _, aq := range acquires {
					if a := argsOf(&aq.Call); len(a) > 0 && pathOf(a[0]) == key {
						matching = append(matching, aq)
						for e := range edgesEstablishing(f, atomMatcher(errAtoms(aq, true)...)) {
							okEdges[e] = true
						}
					}
				}
				early, w := reach(f, nil, isInstr(rl), nil, okEdges)
				if len(matching) == 0 || len(okEdges) == 0 || early {
					r.Bad("C16.1", fnName(f)+": release of "+firstN(key, 40)+" reachable without a successful registration", rl.Pos(), fnName(f),
						"the removal of a listener registration (also when deferred) can run although this accept's own registration failed or has not happened: a refused duplicate accept unregisters the acceptor that is already waiting for that secret, whose connection is then delivered to nobody", r.blockPath(f, w)...)
				} else {
					r.OK("C16.1", fnName(f)+": release of "+firstN(key, 40)+" only after this accept's successful registration", rl.Pos(), "unreachable without the nil-error edge of the acquire")
				}
			}
		}
		if n == 0 {
			r.Unk("C16.1", "acquire/release structure of the listener", token.NoPos, "", "no function pairs an insert into the routing maps with a removal")
		}
	}

	// ---- C16.2
	r.Rule("C16.2", "routing maps and SCTP read state only under their mutexes", 12)
	checkGuardedBy(r, "C16.2", fns, []guardSpec{
		{Owner: "dtls.Listener", Field: "connMap", Mutex: "connMapMutex"},
		{Owner: "dtls.Listener", Field: "connToCert", Mutex: "connToCertMutex"},
		{Owner: "dtls.SCTPConn", Field: "readOffset", Mutex: "readMutex"},
		{Owner: "dtls.SCTPConn", Field: "readLength", Mutex: "readMutex"},
		{Owner: "dtls.SCTPConn", Field: "readErr", Mutex: "readMutex"},
	}, nil)

	// ---- C16.3
	r.Rule("C16.3", "registration, routing, verification and certificate choice use the same derived id; certificate roles are consistent", 9)
	if f := c.fn("C16.3", dt, "Listener", "acceptDTLSConn"); f != nil {
		id := "dtls.clientHelloRandomFromSeed(config.PSK)#0"
		for _, ci := range callsIn(f, shortIs("registerCert", "registerChannel")) {
			call := ci.(*ssa.Call)
			a := argsOf(&call.Call)
			okk := pathOf(a[0]) == id
			r.Check(okk, "C16.3", "acceptDTLSConn: "+calleeShort(&call.Call)+" keyed by the hello-random of config.PSK", call.Pos(), fnName(f), firstN(pathOf(call), 120),
				"the listener registers under an id (or with certificates) not derived from this accept's secret as clientHelloRandomFromSeed(PSK) / certsFromSeed(PSK)#0,#1: the accepted connection is routed to, or verified for, another caller")
		}
		// the certificate pair registered for this accept: whichever of the two functions fills it (the pair may be
		// built by registerCert from two parameters, or by the accept itself and handed over whole), its clientCert
		// is the first and its serverCert the second result of certsFromSeed(config.PSK)
		reg := c.P.Func(repoMod+"/"+dt, "Listener", "registerCert")
		var regCall *ssa.CallCommon
		for _, ci := range callsIn(f, shortIs("registerCert")) {
			regCall = ci.Common()
		}
		okk, nSt := 0, 0
		for _, g := range []*ssa.Function{f, reg} {
			if g == nil || g.Blocks == nil {
				continue
			}
			for i, fld := range []string{"clientCert", "serverCert"} {
				for _, st := range fieldStores(g, "dtls.certPair", fld) {
					nSt++
					vp := pathOf(st.Val)
					if g == reg {
						vp = substParams(vp, reg, regCall)
					}
					if vp == fmt.Sprintf("dtls.certsFromSeed(config.PSK)#%d", i) {
						okk++
					}
				}
			}
		}
		r.Check(okk == 2 && nSt == 2, "C16.3", "registerCert: certPair{clientCert, serverCert} stored in their own fields", f.Pos(), fnName(f), "2 field stores: clientCert <- certsFromSeed(PSK)#0, serverCert <- #1", "the two certificates are stored in swapped/other fields (or come from another secret): the listener presents the client certificate or verifies against the server one")
	}
	if f := c.fn("C16.3", dt, "Listener", "acceptLoop"); f != nil {
		found := false
		// the accept loop, its closures, and the same-package functions it calls or starts as goroutines
		scope := withAnon(f)
		for _, g := range withAnon(f) {
			eachInstr(g, func(in ssa.Instruction) {
				if ci, ok := in.(ssa.CallInstruction); ok {
					if h := ci.Common().StaticCallee(); h != nil && h.Blocks != nil && h.Package() == f.Package() && h != f {
						dup := false
						for _, s0 := range scope {
							dup = dup || s0 == h
						}
						if !dup {
							scope = append(scope, withAnon(h)...)
						}
					}
				}
			})
		}
		for _, g := range scope {
			for _, ci := range callsIn(g, shortIs("chFromID")) {
				found = true
				call := ci.(*ssa.Call)
				p := pathOf(argsOf(&call.Call)[0])
				okp := strings.HasSuffix(p, ".ConnectionState().RemoteRandomBytes()")
				if !okp && strings.HasSuffix(p, ".RemoteRandomBytes()") {
					// the state is held in a local: it must be the ConnectionState() of the connection just accepted
					local := strings.TrimSuffix(p, ".RemoteRandomBytes()")
					eachInstr(g, func(in ssa.Instruction) {
						if st, ok := in.(*ssa.Store); ok {
							if a, ok := st.Addr.(*ssa.Alloc); ok && a.Comment == local && strings.HasSuffix(pathOf(st.Val), ".ConnectionState()") && strings.Contains(pathOf(st.Val), "dtls.ServerWithContext(") {
								okp = true
							}
						}
					})
				}
				r.Check(okp, "C16.3", "acceptLoop: routes by the handshake's RemoteRandomBytes", call.Pos(), fnName(g), firstN(p, 100),
					"the accepted connection is routed by something other than the client's hello-random: it is delivered to the wrong waiting caller")
			}
		}
		if !found {
			r.Unk("C16.3", "acceptLoop: chFromID", f.Pos(), fnName(f), "routing call not found")
		}
	}
	// the credentials are a function of the whole secret: they come from the full HKDF (extract, then expand) over the
	// secret - with expand alone the secret is used as an HMAC key, which pads short keys with zero bytes and hashes
	// long ones first, so distinct secrets (S and S||0, L and SHA-256(L)) would derive the same certificates
	for _, fnm := range []string{"clientHelloRandomFromSeed", "certsFromSeed"} {
		f := c.fn("C16.3", dt, "", fnm)
		if f == nil || len(f.Params) < 1 {
			continue
		}
		var streams []string
		okk := false
		eachInstr(f, func(in ssa.Instruction) {
			call, ok := in.(*ssa.Call)
			if !ok || !strings.HasPrefix(calleeName(&call.Call), "golang.org/x/crypto/hkdf.") {
				return
			}
			streams = append(streams, calleeShort(&call.Call))
			if calleeName(&call.Call) == "golang.org/x/crypto/hkdf.New" && len(call.Call.Args) == 4 && stripConv(call.Call.Args[1]) == ssa.Value(f.Params[0]) {
				okk = true
			}
		})
		r.Check(okk && len(streams) == 1, "C16.3", fnm+": derived with hkdf.New(sha256, secret, …) - extract, then expand", f.Pos(), fnName(f), fmt.Sprint(streams),
			"the DTLS credentials are not derived by the full HKDF over the shared secret ("+fmt.Sprint(streams)+"): with expand-only the secret is an HMAC key (zero-padded / pre-hashed), so related but different secrets yield the same certificates and hello-random - a peer with a different secret completes the handshake and is routed to the waiting acceptor")
	}
	// the check itself: the PRESENTED certificate must carry a signature made with the key of the EXPECTED certificate
	// (which only a holder of the shared secret can derive)
	checkVerifyCert(c, "C16.3")
	if f := c.fn("C16.3", dt, "Listener", "verifyConnection"); f != nil {
		var gc, vc *ssa.Call
		for _, ci := range callsIn(f, shortIs("getCert")) {
			gc = ci.(*ssa.Call)
		}
		for _, ci := range callsIn(f, shortIs("verifyCert")) {
			vc = ci.(*ssa.Call)
		}
		okk := gc != nil && vc != nil && pathOf(argsOf(&gc.Call)[0]) == "state.RemoteRandomBytes()" && strings.Contains(pathOf(vc.Call.Args[1]), ".clientCert.Certificate[0]") && strings.Contains(pathOf(vc.Call.Args[0]), "state.PeerCertificates[0]")
		r.Check(okk, "C16.3", "verifyConnection: peer verified against the client certificate registered under its hello-random", f.Pos(), fnName(f), "getCert(state.RemoteRandomBytes()), verifyCert(peer, certs.clientCert)",
			"the server verifies the peer against the wrong certificate (or looks it up under another id): a client with a different secret is accepted, or the right one rejected")
	}
	if f := c.fn("C16.3", dt, "Listener", "getCertificateFromClientHello"); f != nil {
		okLookup, okRet := false, false
		eachInstr(f, func(in ssa.Instruction) {
			if lk, ok := in.(*ssa.Lookup); ok && strings.HasSuffix(pathOf(lk.X), ".connToCert") && pathOf(lk.Index) == "clientHello.RandomBytes" {
				okLookup = true
			}
			if ret, ok := in.(*ssa.Return); ok && len(ret.Results) == 2 && strings.HasSuffix(pathOf(returnedValue(ret, 0, nil)), ".connToCert[clientHello.RandomBytes]#0.serverCert") {
				okRet = true
			}
		})
		r.Check(okLookup && okRet, "C16.3", "getCertificateFromClientHello: serves the server certificate registered under the hello-random", f.Pos(), fnName(f), "connToCert[clientHello.RandomBytes].serverCert",
			"the listener serves a certificate other than the server certificate derived from the client's secret: the handshake fails for the right client (or succeeds for a wrong one)")
	}
	if f := c.fn("C16.3", dt, "", "dtlsCtx"); f != nil {
		okRandom, okCert, okVerify := false, false, false
		for _, g := range withAnon(f) {
			eachInstr(g, func(in ssa.Instruction) {
				if ret, ok := in.(*ssa.Return); ok && g != f && len(ret.Results) == 1 && pathOf(ret.Results[0]) == "clientHelloRandom" {
					okRandom = true
				}
				if call, ok := in.(*ssa.Call); ok && calleeShort(&call.Call) == "verifyCert" && strings.Contains(pathOf(call.Call.Args[1]), "serverCert") {
					okVerify = true
				}
			})
		}
		// clientHelloRandom cell <- clientHelloRandomFromSeed(config.PSK)#0 ; serverCert cell <- certsFromSeed#1 ; Certificates <- *clientCert (#0)
		cell := func(name, src string) bool {
			okc := false
			eachInstr(f, func(in ssa.Instruction) {
				if st, ok := in.(*ssa.Store); ok {
					if a, ok := st.Addr.(*ssa.Alloc); ok && pathOf(a) == name && pathOf(st.Val) == src {
						okc = true
					}
				}
			})
			return okc
		}
		okRandom = okRandom && cell("clientHelloRandom", "dtls.clientHelloRandomFromSeed(config.PSK)#0")
		okVerify = okVerify && cell("serverCert", "dtls.certsFromSeed(config.PSK)#1")
		eachInstr(f, func(in ssa.Instruction) {
			if st, ok := in.(*ssa.Store); ok {
				if ia, ok := st.Addr.(*ssa.IndexAddr); ok && strings.Contains(typeShort(ia.X.Type()), "tls.Certificate") && pathOf(st.Val) == "dtls.certsFromSeed(config.PSK)#0" {
					okCert = true
				}
			}
		})
		r.Check(okRandom, "C16.3", "dialer: CustomClientHelloRandom returns clientHelloRandomFromSeed(PSK)", f.Pos(), fnName(f), "closure returns the derived random", "the dialer's hello-random is not the one the listener registered for this secret: the connection is never routed to the waiting accept")
		r.Check(okCert, "C16.3", "dialer: presents the client certificate (certsFromSeed #0)", f.Pos(), fnName(f), "Certificates[0] = *clientCert", "the dialer presents a certificate other than the derived client certificate")
		r.Check(okVerify, "C16.3", "dialer: verifies the server against certsFromSeed #1", f.Pos(), fnName(f), "verifyCert(raw, serverCert)", "the dialer verifies the server against the wrong derived certificate")
	}
	if f := c.fn("C16.3", dt, "", "ServerWithContext"); f != nil {
		okCert, okVerify := false, false
		eachInstr(f, func(in ssa.Instruction) {
			if st, ok := in.(*ssa.Store); ok {
				if ia, ok := st.Addr.(*ssa.IndexAddr); ok && strings.Contains(typeShort(ia.X.Type()), "tls.Certificate") && pathOf(st.Val) == "dtls.certsFromSeed(config.PSK)#1" {
					okCert = true
				}
				if a, ok := st.Addr.(*ssa.Alloc); ok && a.Comment == "clientCert" && pathOf(st.Val) == "dtls.certsFromSeed(config.PSK)#0" {
					for _, g := range f.AnonFuncs {
						for _, ci := range callsIn(g, shortIs("verifyCert")) {
							if strings.Contains(pathOf(ci.Common().Args[1]), "clientCert") {
								okVerify = true
							}
						}
					}
				}
			}
		})
		r.Check(okCert && okVerify, "C16.3", "server: presents certsFromSeed #1 and verifies the peer against #0", f.Pos(), fnName(f), "roles consistent with the dialer", "the stand-alone server swaps the certificate roles: no handshake with the matching dialer completes")
	}

	// ---- C16.7 every accept waits on a channel of its own
	r.Rule("C16.7", "the channel registered for a secret is made for that registration", 1)
	{
		n := 0
		for _, f := range fns {
			if fnPkgPath(f) != repoMod+"/"+dt {
				continue
			}
			eachInstr(f, func(in ssa.Instruction) {
				mu, ok := in.(*ssa.MapUpdate)
				if !ok {
					return
				}
				ld, isLoad := mu.Map.(*ssa.UnOp)
				if !isLoad {
					return
				}
				if o, fld, ok := fieldOwner(ld.X); !ok || o != "dtls.Listener" || fld != "connMap" {
					return
				}
				n++
				v := mu.Value
				for {
					if ct, ok := v.(*ssa.ChangeType); ok {
						v = ct.X
						continue
					}
					break
				}
				_, fresh := v.(*ssa.MakeChan)
				r.Check(fresh, "C16.7", fnName(f)+": the accept channel stored for a secret is made in this registration", in.Pos(), fnName(f), "make(chan net.Conn, 1)",
					"the channel registered for a secret is "+firstN(pathOf(mu.Value), 60)+", not one made for this registration: a connection left in (or later sent to) a channel that served another secret is handed to this caller")
			})
		}
		if n == 0 {
			r.Unk("C16.7", "Listener.connMap writes", token.NoPos, "", "no store into Listener.connMap found")
		}
	}

	// ---- C16.4
	r.Rule("C16.4", "data that arrives with an error is delivered first; heartbeats are filtered before delivery", 4)
	if f := c.fn("C16.4", dt, "hbConn", "recvLoop"); f != nil {
		var rd *ssa.Call
		eachInstr(f, func(in ssa.Instruction) {
			if call, ok := in.(*ssa.Call); ok && call.Call.IsInvoke() && call.Call.Method.Name() == "Read" {
				rd = call
			}
		})
		if rd == nil {
			r.Unk("C16.4", "recvLoop: stream.Read", f.Pos(), fnName(f), "not found")
		} else {
			isHB := func(cnd string, pol bool) bool { return pol && strings.HasPrefix(cnd, "bytes.Equal(c.hb, ") }
			nc, bad, w, why := readThenErr(f, rd, isHB)
			if bad {
				r.Bad("C16.4", "recvLoop: message returned together with a stream error is dropped", rd.Pos(), fnName(f),
					why+": a stream Read returning (n>0, err) closes the connection without delivering buffer[:n] — the error is reported before the data that came with it", r.blockPath(f, w)...)
			} else {
				r.OK("C16.4", "recvLoop: every exit from stream.Read offers buffer[:n] for delivery, is a heartbeat, or has n==0", rd.Pos(), fmt.Sprintf("%d consumer(s)", nc))
			}
			// heartbeat filter precedes delivery
			// (the hand-over itself may sit in a helper of the package: the guard then counts at the call in recvLoop)
			sends := findInstrDeep(f, func(l located) bool {
				if s, ok := l.call.(*ssa.Select); ok {
					for _, st := range s.States {
						if st.Dir == 1 && strings.HasSuffix(pathOf(st.Chan), ".recvCh") {
							return true
						}
					}
				}
				if s, ok := l.call.(*ssa.Send); ok && strings.HasSuffix(pathOf(s.Chan), ".recvCh") {
					return true
				}
				return false
			}, 2)
			if len(sends) == 0 {
				r.Unk("C16.4", "recvLoop: delivery to recvCh", f.Pos(), fnName(f), "send not found")
			} else {
				for i, sl := range sends {
					sel := sl.site()
					g := guardedDeepM(sl, func(cnd string, pol bool) bool { return !pol && strings.HasPrefix(cnd, "bytes.Equal(c.hb, ") })
					title := "recvLoop: delivery only for messages that are not the heartbeat"
					if i < len(sends)-1 {
						title += fmt.Sprintf(" (hand-over %d of %d)", i+1, len(sends))
					}
					r.Check(g, "C16.4", title, sel.Pos(), fnName(f), "dominated by !bytes.Equal(c.hb, buffer[:n])", "keep-alive heartbeats can surface as data on the reader's side")
				}
			}
		}
	}
	checkQueuedBufferFresh(c, "C16.4")
	// ordered delivery: the receive queue has one producer (the receive loop's own goroutine), which waits for the
	// hand-over of a message before it reads the next one
	{
		n := 0
		for _, f := range fns {
			if fnPkgPath(f) != repoMod+"/"+dt {
				continue
			}
			sends := false
			eachInstr(f, func(in ssa.Instruction) {
				switch x := in.(type) {
				case *ssa.Select:
					for _, st := range x.States {
						if st.Dir == 1 && strings.HasSuffix(pathOf(st.Chan), ".recvCh") {
							sends = true
							n++
							r.Check(x.Blocking, "C16.4", fnName(f)+": the hand-over to recvCh waits for room", in.Pos(), fnName(f), "blocking select (no default)",
								"a message that does not fit the receive queue is not waited for: it is dropped or handed over out of band, and the reader no longer sees the peer's messages in order")
						}
					}
				case *ssa.Send:
					if strings.HasSuffix(pathOf(x.Chan), ".recvCh") {
						sends = true
						n++
					}
				}
			})
			if !sends {
				continue
			}
			// the producer runs on the receive loop's goroutine: it is recvLoop, or only ever called (not started) from it
			inLoop := strings.HasSuffix(fnName(f), "hbConn).recvLoop")
			if !inLoop {
				sites, asValue := callersOf(f)
				inLoop = !asValue && len(sites) > 0
				for _, sc := range sites {
					if sc.Parent() == nil || !strings.HasSuffix(fnName(sc.Parent()), "hbConn).recvLoop") {
						inLoop = false
					}
				}
			}
			spawns := false
			eachInstr(f, func(in ssa.Instruction) {
				if _, ok := in.(*ssa.Go); ok {
					spawns = true
				}
			})
			r.Check(inLoop && !spawns, "C16.4", fnName(f)+": messages are queued by the receive loop's goroutine only", f.Pos(), fnName(f), "the only producer of recvCh; starts no goroutine",
				"messages reach the receive queue from more than one goroutine (a producer outside the receive loop, or one started per message): their order in the queue is no longer the order they were received in")
		}
		if n == 0 {
			r.Unk("C16.4", "recvCh producers", token.NoPos, "", "no send to recvCh found in pkg/dtls")
		}
	}
	// hbConn.Read / deliver: data first
	for _, f := range fns {
		if fnPkgPath(f) != repoMod+"/"+dt {
			continue
		}
		// functions that return the err field of an errBytes value
		eachInstr(f, func(in ssa.Instruction) {
			ret, ok := in.(*ssa.Return)
			if !ok || len(ret.Results) != 2 {
				return
			}
			ep := pathOf(returnedValue(ret, 1, nil))
			if !strings.HasSuffix(ep, ".err") || !strings.Contains(typeShort(fieldBaseType(returnedValue(ret, 1, nil))), "errBytes") {
				return
			}
			base := strings.TrimSuffix(ep, ".err")
			// the same return must hand out the data: result 0 derives from copy(b, base.b), or this is the insufficient-buffer path
			isCopy := func(in2 ssa.Instruction) bool {
				if call, ok := in2.(*ssa.Call); ok {
					if b, ok := call.Call.Value.(*ssa.Builtin); ok && b.Name() == "copy" && len(call.Call.Args) == 2 && pathOf(call.Call.Args[1]) == base+".b" {
						return true
					}
				}
				return false
			}
			skip, _ := reach(f, nil, isInstr(ret), isCopy, nil)
			okN := false
			if call, ok := returnedValue(ret, 0, nil).(*ssa.Call); ok {
				okN = isCopy(call)
			}
			r.Check(!skip && okN, "C16.4", fnName(f)+": the error of a received (data, err) pair is returned together with the copied data", ret.Pos(), fnName(f), "return copy(b, x.b), x.err",
				"the error stored with a received message is returned without first copying the message to the caller: the data that came with the error is lost")
		})
	}
	if f := c.fn("C16.4", dt, "SCTPConn", "Read"); f != nil {
		n := 0
		eachInstr(f, func(in ssa.Instruction) {
			call, ok := in.(*ssa.Call)
			if !ok || !call.Call.IsInvoke() || call.Call.Method.Name() != "Read" {
				return
			}
			direct := len(extractOf(call, 0)) == 0
			if !direct && pathOf(argsOf(&call.Call)[0]) == "b" {
				// `return s.stream.Read(b)` in a function with defers: results spilled to the result slots
				direct = true
				for _, ex := range extractOf(call, 0) {
					for _, ref := range *ex.Referrers() {
						if st, ok := ref.(*ssa.Store); !ok {
							direct = false
						} else if _, isA := st.Addr.(*ssa.Alloc); !isA {
							direct = false
						}
					}
				}
			}
			if direct {
				// `return s.stream.Read(b)`: handed to the caller as is
				n++
				r.OK("C16.4", "SCTPConn.Read: large reads return the stream's (n, err) pair unchanged", call.Pos(), "direct return")
				return
			}
			n++
			nc, bad, w, why := readThenErr(f, call, nil)
			if bad {
				r.Bad("C16.4", "SCTPConn.Read: buffered message lost on error", call.Pos(), fnName(f), why, r.blockPath(f, w)...)
			} else {
				r.OK("C16.4", "SCTPConn.Read: the count and error of a buffered read are retained and handed out piecewise", call.Pos(), fmt.Sprintf("%d consumer(s)", nc))
			}
		})
		if n == 0 {
			r.Unk("C16.4", "SCTPConn.Read: stream reads", f.Pos(), fnName(f), "none found")
		}
		// every read from the stream happens only when the previously buffered message has been handed out completely
		eachInstr(f, func(in ssa.Instruction) {
			call, ok := in.(*ssa.Call)
			if !ok || !call.Call.IsInvoke() || call.Call.Method.Name() != "Read" {
				return
			}
			g := guarded(f, in, Atom{"(" + orderEq("s.readLength", "s.readOffset") + ")", true})
			r.Check(g, "C16.4", "SCTPConn.Read: the stream is read only when the buffered message is drained ("+firstN(pathOf(argsOf(&call.Call)[0]), 20)+")", in.Pos(), fnName(f), "guarded by readOffset == readLength",
				"a read from the stream can happen while bytes of the previous message are still buffered: the next message overtakes the remainder and the byte stream is delivered out of order")
		})
		// the stored error is surfaced only when the buffer is drained: the Return's error is readErr only under readOffset == readLength
		eachInstr(f, func(in ssa.Instruction) {
			if u, ok := in.(*ssa.UnOp); ok && u.Op == token.MUL {
				if o, fld, ok := fieldOwner(u.X); ok && o == "dtls.SCTPConn" && fld == "readErr" {
					g := guarded(f, in, Atom{"(" + orderEq("s.readLength", "s.readOffset") + ")", true})
					r.Check(g, "C16.4", "SCTPConn.Read: the stored stream error is reported only once the buffered message is drained", in.Pos(), fnName(f), "guarded by readOffset == readLength",
						"the stored stream error is returned while buffered bytes of the message remain: the rest of the message is lost behind the error")
				}
			}
		})
	}

	// ---- C16.5
	r.Rule("C16.5", "writes are preceded by the size limit and the flow-control test", 3)
	if f := c.fn("C16.5", dt, "SCTPConn", "Write"); f != nil {
		var wr *ssa.Call
		eachInstr(f, func(in ssa.Instruction) {
			if call, ok := in.(*ssa.Call); ok && call.Call.IsInvoke() && call.Call.Method.Name() == "Write" {
				wr = call
			}
		})
		maxv := constIntOf(c.P, repoMod+"/"+dt, "writeMaxBufferedAmount")
		if wr == nil || maxv == "" {
			r.Unk("C16.5", "SCTPConn.Write: stream.Write / writeMaxBufferedAmount", f.Pos(), fnName(f), "not found")
		} else {
			mv, _ := constant.Uint64Val(constant.MakeFromLiteral(maxv, token.INT, 0))
			half := fmt.Sprint(mv / 2)
			g1 := guardedM(f, wr, func(cnd string, pol bool) bool { return !pol && strings.HasPrefix(cnd, "("+half+" < uint64(len(b))") })
			r.Check(g1, "C16.5", "SCTPConn.Write: message size limited to max/2", wr.Pos(), fnName(f), "dominated by len(b) <= "+half, "a message larger than half the buffer limit is written: flow control can never make room for it")
			under := edgesEstablishing(f, func(cnd string, pol bool) bool {
				return !pol && strings.HasPrefix(cnd, "("+maxv+" < (") && strings.Contains(cnd, ".BufferedAmount()")
			})
			isWait := func(in ssa.Instruction) bool {
				if s, ok := in.(*ssa.Select); ok && s.Blocking {
					for _, st := range s.States {
						if st.Dir == 2 && strings.HasSuffix(pathOf(st.Chan), ".write") {
							return true
						}
					}
				}
				if ch, ok := isChanRecv(in); ok && strings.HasSuffix(pathOf(ch), ".write") {
					return true
				}
				return false
			}
			skip, w := reach(f, nil, isInstr(wr), isWait, under)
			if skip || len(under) == 0 {
				r.Bad("C16.5", "SCTPConn.Write: stream.Write reachable without the buffered-amount test or the flow-control wait", wr.Pos(), fnName(f),
					"a writer that outpaces the network is not held back: buffered data is unbounded", r.blockPath(f, w)...)
			} else {
				r.OK("C16.5", "SCTPConn.Write: write only under BufferedAmount+len <= max or after the flow-control wait", wr.Pos(), "must-pass")
			}
		}
		// the wait itself: a select that waits for the low-watermark signal may have other cases (closed), but only
		// the watermark case may continue to the write - a timer / default case that falls through defeats flow control
		if wr != nil {
			eachInstr(f, func(in ssa.Instruction) {
				sel, ok := in.(*ssa.Select)
				if !ok {
					return
				}
				hasWM := false
				for _, st := range sel.States {
					if st.Dir == 2 && strings.HasSuffix(pathOf(st.Chan), ".write") {
						hasWM = true
					}
				}
				if !hasWM {
					return
				}
				idxPath := pathOf(sel) + "#0"
				okSel := sel.Blocking
				why := "the flow-control select has a default case: it does not wait"
				for i, st := range sel.States {
					if st.Dir == 2 && strings.HasSuffix(pathOf(st.Chan), ".write") {
						continue
					}
					for e := range edgesEstablishing(f, atomMatcher(Atom{"(" + orderEq(fmt.Sprint(i), idxPath) + ")", true})) {
						succ := f.Blocks[e.from].Succs[e.slot]
						if hit, _ := reachAt(f, succ, isInstr(wr), nil, nil); hit {
							okSel = false
							why = "case " + fmt.Sprint(i) + " (" + firstN(pathOf(st.Chan), 40) + ") of the flow-control select continues to stream.Write"
						}
					}
				}
				r.Check(okSel, "C16.5", "SCTPConn.Write: only the low-watermark case of the flow-control select continues to the write", in.Pos(), fnName(f), "other cases leave the function",
					why+": after that case fires the message is written although the buffered amount is still above the limit, so a stalled network no longer holds the writer back")
			})
		}
		if nf := c.fn("C16.5", dt, "", "newSCTPConn"); nf != nil {
			okT := false
			for _, ci := range callsIn(nf, shortIs("SetBufferedAmountLowThreshold")) {
				if cv, ok := constOf(argsOf(ci.Common())[0]); ok && maxv != "" {
					mv, _ := constant.Uint64Val(constant.MakeFromLiteral(maxv, token.INT, 0))
					if v, ok := constant.Uint64Val(cv); ok && v == mv/2 {
						okT = true
					}
				}
			}
			r.Check(okT, "C16.5", "newSCTPConn: low-water threshold is max/2", nf.Pos(), fnName(nf), "constant", "the low-water mark that wakes a blocked writer is not half the buffer limit: a writer can block forever or never be held back")
		}
	}

	// ---- C16.6
	// ---- C16.8 "a peer that stops sending heartbeats causes the connection to close within the heartbeat timeout": the
	// watchdog's flag is raised by a heartbeat and by nothing else - every write of a non-zero value to hbConn.waiting is
	// dominated by the comparison of the received message with the heartbeat payload
	r.Rule("C16.8", "the watchdog flag is raised only by a received heartbeat", 1)
	{
		n := 0
		for _, f := range c.funcsOfPkgs(dt) {
			for _, ff := range withAnon(f) {
				eachInstr(ff, func(in ssa.Instruction) {
					call, ok := in.(*ssa.Call)
					if !ok || !strings.HasPrefix(calleeName(&call.Call), "sync/atomic.") || len(call.Call.Args) < 2 {
						return
					}
					if o, fld, ok := fieldOwner(call.Call.Args[0]); !ok || o != "dtls.hbConn" || fld != "waiting" {
						return
					}
					name := calleeName(&call.Call)
					if !strings.HasSuffix(name, ".AddUint32") && !strings.HasSuffix(name, ".StoreUint32") && !strings.HasSuffix(name, ".SwapUint32") && !strings.HasSuffix(name, ".CompareAndSwapUint32") {
						return
					}
					val := call.Call.Args[len(call.Call.Args)-1]
					if cv, isC := constOf(val); isC && cv.ExactString() == "0" {
						return // the watchdog clearing its flag
					}
					if ff.Name() == "heartbeatServer" || freshRoot(call.Call.Args[0], ff) {
						return // initial value of a connection under construction
					}
					n++
					g := guardedM(ff, in, func(cnd string, pol bool) bool {
						return pol && strings.Contains(cnd, "bytes.Equal(") && strings.Contains(cnd, ".hb")
					})
					r.Check(g, "C16.8", fnName(ff)+": waiting raised only for a heartbeat", in.Pos(), fnName(ff), "dominated by bytes.Equal(c.hb, message)",
						"the watchdog flag is raised by something other than a received heartbeat: a peer whose heartbeats stopped (its sender died) keeps the connection open for as long as it sends anything at all, instead of being closed within the heartbeat timeout")
				})
			}
		}
		if n == 0 {
			r.Unk("C16.8", "writers of hbConn.waiting", token.NoPos, "", "no atomic write of a non-zero value to the watchdog flag found")
		}
	}

	// ---- C16.9 the accept loop hands every parent connection to a handshake goroutine; if it takes a slot of a bounded
	// channel before starting one (a limit on concurrent handshakes), that goroutine gives the slot back on every exit -
	// a slot lost on the failure path eventually stops the loop, and no later session is delivered to anybody
	r.Rule("C16.9", "a slot the accept loop takes for a handshake is released on every exit of that handshake", 1)
	if f := c.fn("C16.9", dt, "Listener", "acceptLoop"); f != nil {
		slots := 0
		eachInstr(f, func(in ssa.Instruction) {
			var ch ssa.Value
			switch x := in.(type) {
			case *ssa.Send:
				ch = x.Chan
			case *ssa.Select:
				for _, st := range x.States {
					if st.Dir == types.SendOnly {
						ch = st.Chan
					}
				}
			}
			if ch == nil {
				return
			}
			slots++
			// every goroutine started by the loop must receive from it on every path to its return (or defer it)
			for _, a := range f.AnonFuncs {
				uses := false
				var cap ssa.Value
				for i, fv := range a.FreeVars {
					_ = i
					if fv.Name() == ch.Name() || pathOf(fv) == pathOf(ch) {
						uses, cap = true, fv
					}
				}
				isRelease := func(x ssa.Instruction) bool {
					switch y := x.(type) {
					case *ssa.UnOp:
						return y.Op == token.ARROW && cap != nil && (y.X == cap || pathOf(y.X) == pathOf(cap))
					case *ssa.Defer:
						return deferReceives(y, cap)
					}
					return false
				}
				if !uses {
					continue
				}
				leak, w := reach(a, nil, isReturn, isRelease, nil)
				if leak {
					r.Bad("C16.9", fnName(a)+": a handshake slot is not released on some exit", in.Pos(), fnName(a),
						"the accept loop takes a slot of "+firstN(pathOf(ch), 30)+" for every handshake, and the handshake goroutine can return without giving it back: after enough such handshakes (failed ones are free for anybody to produce) the loop blocks forever and no later connection is delivered to its acceptor", r.blockPath(a, w)...)
				} else {
					r.OK("C16.9", fnName(a)+": the handshake slot is released on every exit", in.Pos(), "receive (or deferred receive) on every path to a return")
				}
			}
		})
		if slots == 0 {
			r.OK("C16.9", "acceptLoop: takes no slot (no channel send in the loop)", f.Pos(), "handshakes are not limited by a semaphore")
		}
	}

	// ---- C16.10 both ends of a session speak the same SCTP dialect: every sctp.Config the package builds sets the same
	// MaxMessageSize (today: none sets it). An end that may send messages its peer's receive buffers cannot hold turns one
	// large Write into a dead stream - "a lossless ordered byte stream whatever sizes reader and writer use"
	r.Rule("C16.10", "every sctp.Config of the package sets the same maximum message size", 2)
	checkSCTPConfigs(c, "C16.10", "MaxMessageSize")

	// ---- C16.11 / C16.12 an established session stays a byte stream: the set-up deadline is cleared on the connection it
	// was armed on (shared with C05.12), and Read delivers what was queued before it reports the close (C05.13)
	r.Rule("C16.11", "handshake deadlines are cleared on the connection they were set on", 1)
	checkHandshakeDeadlines(c, "C16.11")
	r.Rule("C16.12", "hbConn.Read drains its queue before it reports the close", 1)
	checkDrainBeforeClosed(c, "C16.12")

	r.Rule("C16.6", "client heartbeat period is below the server watchdog interval", 1)
	// the watchdog is re-armed every interval: between two inspections of the received-heartbeat flag the flag is
	// cleared, otherwise one heartbeat keeps the connection alive forever
	if f := c.fn("C16.6", dt, "hbConn", "hbLoop"); f != nil {
		var load *ssa.Call
		clears := map[ssa.Instruction]bool{}
		eachInstr(f, func(in ssa.Instruction) {
			call, ok := in.(*ssa.Call)
			if !ok {
				return
			}
			switch calleeName(&call.Call) {
			case "sync/atomic.LoadUint32":
				if strings.HasSuffix(pathOf(call.Call.Args[0]), ".waiting") {
					load = call
				}
			case "sync/atomic.StoreUint32", "sync/atomic.SwapUint32":
				if cv, ok := constOf(call.Call.Args[1]); ok && cv.ExactString() == "0" && strings.HasSuffix(pathOf(call.Call.Args[0]), ".waiting") {
					clears[in] = true
				}
			case "sync/atomic.CompareAndSwapUint32":
				if cv, ok := constOf(call.Call.Args[2]); ok && cv.ExactString() == "0" && strings.HasSuffix(pathOf(call.Call.Args[0]), ".waiting") {
					clears[in] = true
				}
			}
		})
		if load == nil {
			r.Unk("C16.6", "hbLoop: inspection of the heartbeat flag", f.Pos(), fnName(f), "atomic load of .waiting not found")
		} else {
			again, w := reach(f, load, isInstr(load), anyOf(clears), nil)
			r.Check(!again, "C16.6", "hbLoop: the heartbeat flag is cleared between two inspections", load.Pos(), fnName(f), fmt.Sprintf("%d clearing store(s), must-pass on the loop", len(clears)),
				"the watchdog can inspect the received-heartbeat flag twice without clearing it in between: after the first heartbeat the flag stays set and a peer that stops sending heartbeats (while data keeps the read deadline fresh) is never closed")
			_ = w
		}
	}
	{
		clientInterval, serverInterval := "", ""
		if f := c.fn("C16.6", dt, "", "openSCTP"); f != nil {
			for _, st := range fieldStores(f, "dtls.heartbeatConfig", "Interval") {
				if cv, ok := constOf(st.Val); ok {
					clientInterval = cv.ExactString()
				}
			}
		}
		if sp := c.P.SSAPkgs[repoMod+"/"+dt]; sp != nil {
			if initFn := sp.Func("init"); initFn != nil {
				eachInstr(initFn, func(in ssa.Instruction) {
					if st, ok := in.(*ssa.Store); ok {
						if fa, ok := st.Addr.(*ssa.FieldAddr); ok {
							if g, ok := fa.X.(*ssa.Global); ok && g.Name() == "defaultConfig" {
								if _, fld, _ := fieldOwner(fa); fld == "Interval" {
									if cv, ok := constOf(st.Val); ok {
										serverInterval = cv.ExactString()
									}
								}
							}
						}
					}
				})
			}
		}
		div := ""
		if f := c.fn("C16.6", dt, "hbClient", "sendLoop"); f != nil {
			eachInstr(f, func(in ssa.Instruction) {
				if bo, ok := in.(*ssa.BinOp); ok && bo.Op == token.QUO && strings.HasSuffix(pathOf(bo.X), ".conf.Interval") {
					if cv, ok := constOf(bo.Y); ok {
						div = cv.ExactString()
					}
				}
			})
		}
		serverNil := false
		if f := c.fn("C16.6", dt, "", "acceptSCTP"); f != nil {
			for _, ci := range callsIn(f, shortIs("heartbeatServer")) {
				if cst, ok := ci.Common().Args[1].(*ssa.Const); ok && cst.Value == nil {
					serverNil = true
				}
			}
		}
		okk := false
		if clientInterval != "" && serverInterval != "" && div != "" && serverNil {
			ci, _ := constant.Int64Val(constant.MakeFromLiteral(clientInterval, token.INT, 0))
			si, _ := constant.Int64Val(constant.MakeFromLiteral(serverInterval, token.INT, 0))
			dv, _ := constant.Int64Val(constant.MakeFromLiteral(div, token.INT, 0))
			okk = dv > 0 && ci/dv < si
		}
		r.Check(okk, "C16.6", fmt.Sprintf("heartbeat: client period %s/%s ns < server watchdog %s ns", clientInterval, div, serverInterval), token.NoPos, "", "constants from openSCTP, hbClient.sendLoop and defaultConfig (server passes nil config)",
			"the client sends heartbeats less often than the server's watchdog interval (or a constant could not be resolved): an idle but healthy connection is closed by the watchdog")
	}
}

// fieldBaseType returns the type of x for a value loaded from x.f.
func fieldBaseType(v ssa.Value) types.Type {
	v = stripConv(v)
	var x ssa.Value
	switch y := v.(type) {
	case *ssa.Field:
		x = y.X
	case *ssa.UnOp:
		if fa, ok := y.X.(*ssa.FieldAddr); ok {
			x = fa.X
		}
	}
	if x == nil {
		return v.Type()
	}
	return x.Type()
}

// checkVerifyCert: the DTLS peer check proves possession of the shared secret (shared by C16.3 and C02.12).
func checkVerifyCert(c *Ctx, rule string) {
	r := c.R
	const dt = "pkg/dtls"
	if f := c.fn(rule, dt, "", "verifyCert"); f != nil && len(f.Params) == 2 {
		presented := "x509.ParseCertificate(" + P(f, 0) + ")#0"
		expected := "x509.ParseCertificate(" + P(f, 1) + ")#0"
		var check *ssa.Call
		how := ""
		for _, ci := range callsIn(f, nameIs("(*crypto/x509.Certificate).CheckSignatureFrom")) {
			call := ci.(*ssa.Call)
			if pathOf(call.Call.Args[0]) == presented && pathOf(call.Call.Args[1]) == expected {
				check, how = call, "presented.CheckSignatureFrom(expected)"
			}
		}
		for _, ci := range callsIn(f, nameIs("(*crypto/x509.Certificate).CheckSignature")) {
			call := ci.(*ssa.Call)
			a := call.Call.Args
			if len(a) == 4 && pathOf(a[0]) == expected && pathOf(a[2]) == presented+".RawTBSCertificate" && pathOf(a[3]) == presented+".Signature" {
				check, how = call, "expected.CheckSignature(alg, presented.RawTBSCertificate, presented.Signature)"
			}
		}
		okk := check != nil
		nOK := 0
		if okk {
			eachInstr(f, func(in ssa.Instruction) {
				ret, ok := in.(*ssa.Return)
				if !ok || len(ret.Results) != 1 {
					return
				}
				if cst, isC := returnedValue(ret, 0, nil).(*ssa.Const); !isC || cst.Value != nil {
					return
				}
				nOK++
				if !guarded(f, ret, errAtoms(check, true)...) {
					okk = false
				}
			})
		}
		r.Check(okk && nOK > 0, rule, "verifyCert: success only if the presented certificate is signed by the expected certificate's key", f.Pos(), fnName(f), how+"; nil return dominated by its err == nil",
			"verifyCert accepts without checking the presented certificate against the key derived from the shared secret (wrong receiver / wrong data / unchecked result): any self-signed certificate passes and a peer with a different secret completes the handshake")
	}
}

// checkQueuedBufferFresh: the buffer the heartbeat receive loop reads a message into is allocated for that message
// (in the loop, by the loop): the message is queued by reference, so storage that is used again before the reader
// took the message overwrites a queued message (shared by C16.4 and C05.8).
func checkQueuedBufferFresh(c *Ctx, rule string) {
	r := c.R
	f := c.fn(rule, "pkg/dtls", "hbConn", "recvLoop")
	if f == nil {
		return
	}
	n := 0
	eachInstr(f, func(in ssa.Instruction) {
		call, ok := in.(*ssa.Call)
		if !ok || !call.Call.IsInvoke() || call.Call.Method.Name() != "Read" || len(call.Call.Args) != 1 {
			return
		}
		n++
		roots := bufferRoots(call.Call.Args[0], 0, map[ssa.Value]bool{})
		fresh := len(roots) > 0
		for _, root := range roots {
			ri, isI := root.(ssa.Instruction)
			if !isI {
				fresh = false
				continue
			}
			fwd, _ := reach(f, ri, isInstr(call), nil, nil)
			back, _ := reach(f, call, isInstr(ri), nil, nil)
			if !(fwd && back) {
				fresh = false // allocated once, outside the loop
			}
		}
		r.Check(fresh, rule, "recvLoop: every message is read into a buffer allocated for it", call.Pos(), fnName(f), fmt.Sprintf("%d allocation(s) in the loop", len(roots)),
			"the receive loop reads into "+firstN(pathOf(call.Call.Args[0]), 50)+", storage that is not allocated per message: messages are queued by reference, so with a backlog the storage of a message that is still queued is read into again - that message is lost and a later one is delivered twice")
	})
	if n == 0 {
		r.Unk(rule, "recvLoop: stream.Read", f.Pos(), fnName(f), "not found")
	}
}

// deferReceives: the deferred call is a closure whose body receives from the captured channel.
func deferReceives(d *ssa.Defer, ch ssa.Value) bool {
	mc, ok := d.Call.Value.(*ssa.MakeClosure)
	if !ok || ch == nil {
		return false
	}
	fn, ok := mc.Fn.(*ssa.Function)
	if !ok {
		return false
	}
	got := false
	eachInstr(fn, func(in ssa.Instruction) {
		if u, ok := in.(*ssa.UnOp); ok && u.Op == token.ARROW {
			got = true
		}
	})
	return got
}

// checkSCTPConfigs: the sctp.Config literals of pkg/dtls agree on a field (C16.10: MaxMessageSize), or all take the
// library's own logger factory unmodified (C17.4: LoggerFactory).
func checkSCTPConfigs(c *Ctx, rule, field string) {
	r := c.R
	type site struct {
		f   *ssa.Function
		pos token.Pos
		val string
	}
	var sites []site
	for _, f := range c.funcsOfPkgs("pkg/dtls") {
		if f.Blocks == nil || strings.Contains(r.posStr(f.Pos()), "_test") {
			continue
		}
		cfgs := map[*ssa.Alloc]string{}
		eachInstr(f, func(in ssa.Instruction) {
			al, ok := in.(*ssa.Alloc)
			if ok && strings.HasSuffix(typeShort(al.Type()), "sctp.Config") {
				cfgs[al] = "(unset)"
			}
		})
		eachInstr(f, func(in ssa.Instruction) {
			st, ok := in.(*ssa.Store)
			if !ok {
				return
			}
			fa, ok := st.Addr.(*ssa.FieldAddr)
			if !ok {
				return
			}
			al, ok := fa.X.(*ssa.Alloc)
			if !ok {
				return
			}
			if _, isCfg := cfgs[al]; !isCfg || fieldName(fa.X.Type(), fa.Field) != field {
				return
			}
			if cv, isC := constOf(stripConv(st.Val)); isC {
				cfgs[al] = cv.ExactString()
			} else {
				cfgs[al] = pathOf(st.Val)
			}
		})
		for al, v := range cfgs {
			sites = append(sites, site{f, al.Pos(), v})
		}
	}
	if len(sites) == 0 {
		r.Unk(rule, "sctp.Config literals in pkg/dtls", token.NoPos, "", "none found")
		return
	}
	sort.Slice(sites, func(i, j int) bool { return sites[i].pos < sites[j].pos })
	for _, s := range sites {
		switch field {
		case "LoggerFactory":
			okk := s.val == "(unset)" || strings.HasSuffix(s.val, "logging.NewDefaultLoggerFactory()")
			r.Check(okk, rule, fnName(s.f)+": sctp.Config.LoggerFactory is the library's default factory", s.pos, fnName(s.f), s.val,
				"the SCTP library is given a logger factory of the station's own making ("+firstN(s.val, 50)+"): at a raised level the library prints the raw error of the underlying connection (write udp a->b: ...) to the process output - the client's address, past every sanitiser of the station")
		default:
			okk := s.val == sites[0].val
			r.Check(okk, rule, fnName(s.f)+": sctp.Config."+field+" = "+firstN(s.val, 30), s.pos, fnName(s.f), "same as every other sctp.Config of the package",
				"the two ends of a session are configured with different "+field+" ("+firstN(s.val, 30)+" here, "+firstN(sites[0].val, 30)+" in "+fnName(sites[0].f)+"): one end accepts writes the other end's receive path cannot take - the message is reported written, the receiver closes the stream, and everything after it is lost")
		}
	}
}
